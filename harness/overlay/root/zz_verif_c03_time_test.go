//go:build verif

// C03 peer authentication over TIME: the same credential (same certificate list), the same config
// and pool OBJECTS, the same process, presented in several successive handshakes while something
// that decides its validity changes in between: the (virtual) clock moves past NotBefore / NotAfter
// of the leaf, an intermediate or the root; the roots pool changes (pointer swapped on the config,
// pool object changed in place, root added); the VerifyPeerCertificate callback, the ServerName,
// InsecureSkipVerify or the ClientAuth policy change on the same Config object.
// Monitor (driver): a handshake reported successful at time T requires the chain to validate at T
// under the policy in force at T.  Every certificate is issued inside the bubble (leaf key Ed25519 from
// VERIF_SEED, CA keys ECDSA from crypto/rand: not observed), validity windows relative to the bubble clock.
package dtls

import (
	"crypto"
	"crypto/ecdsa"
	"crypto/ed25519"
	"crypto/elliptic"
	"crypto/rand"
	"crypto/tls"
	"crypto/x509"
	"crypto/x509/pkix"
	"errors"
	"fmt"
	"math/big"
	"testing"
	"time"

	"github.com/pion/dtls/v3/pkg/protocol/alert"
)

const c03tHour = int64(3600)

// validity window in seconds relative to the start of the bubble
type c03tWin struct {
	NB int64 `json:"nb"`
	NA int64 `json:"na"`
}

type c03tScn struct {
	ID     string `json:"id"`
	Ver    int    `json:"ver"`
	Honest string `json:"honest"` // server: a client certificate is verified; client: the server's
	Inter  bool   `json:"inter"`  // chain leaf <- intermediate <- root
	Kind   string `json:"kind"`
}

// one handshake of a sequence: what decided the validity when it started, and what the honest side did
type c03tStep struct {
	Now      int64   `json:"now"`     // seconds since the start of the bubble when the handshake started
	NowEnd   int64   `json:"now_end"` // ... when it was over
	Leaf     c03tWin `json:"leaf"`
	InterW   c03tWin `json:"interw"` // {0,0} without intermediate
	Root     c03tWin `json:"root"`
	RootIn   bool    `json:"root_in"` // the issuing root is in the pool the honest side is configured with
	NameOK   bool    `json:"name_ok"` // the leaf is valid for the configured ServerName (honest client), true otherwise
	Skip     bool    `json:"skip"`    // InsecureSkipVerify of the honest client
	Policy   int     `json:"policy"`  // ClientAuth of the honest server
	VPC      string  `json:"vpc"`     // "" | ok | reject : VerifyPeerCertificate of the honest side at this handshake
	Oracle   bool    `json:"oracle"`  // crypto/x509 on the same list, pool, name, usage with CurrentTime = now (fresh, no state)
	HRes     string  `json:"hres"`    // ok | local | alert:n | hang : HandshakeContext of the honest side
	PRes     string  `json:"pres"`    // ... of the peer
	HErr     string  `json:"herr"`
	HAlert   int     `json:"halert"`
	HReads   int     `json:"hreads"` // payloads the honest side Read from the peer
	PeerCert int     `json:"peer_certs"`
	Mutation string  `json:"mutation"` // what changed since the previous handshake
}

type c03tObs struct {
	Kind  string     `json:"kind"`
	Scn   c03tScn    `json:"scn"`
	Steps []c03tStep `json:"steps"`
}

type c03tPKI struct {
	rootKey, interKey          *ecdsa.PrivateKey // pion refuses chains signed with Ed25519 (FromCertificate: hash None)
	leafKey                    ed25519.PrivateKey
	root, inter, leaf          *x509.Certificate
	chain                      tls.Certificate
}

func c03tIssue(t *testing.T, serial int64, cn string, w c03tWin, t0 time.Time, ca bool,
	parent *x509.Certificate, pub crypto.PublicKey, signer crypto.Signer,
) *x509.Certificate {
	t.Helper()
	tpl := &x509.Certificate{
		SerialNumber: big.NewInt(serial),
		Subject:      pkix.Name{CommonName: cn},
		NotBefore:    t0.Add(time.Duration(w.NB) * time.Second),
		NotAfter:     t0.Add(time.Duration(w.NA) * time.Second),
	}
	if ca {
		tpl.IsCA, tpl.BasicConstraintsValid = true, true
		tpl.KeyUsage = x509.KeyUsageCertSign | x509.KeyUsageDigitalSignature
	} else {
		tpl.KeyUsage = x509.KeyUsageDigitalSignature
		tpl.ExtKeyUsage = []x509.ExtKeyUsage{x509.ExtKeyUsageClientAuth, x509.ExtKeyUsageServerAuth}
		tpl.DNSNames = []string{"server.verif"}
	}
	if parent == nil {
		parent = tpl
	}
	der, err := x509.CreateCertificate(rand.Reader, tpl, parent, pub, signer)
	if err != nil {
		t.Fatalf("issue %s: %v", cn, err)
	}
	c, err := x509.ParseCertificate(der)
	if err != nil {
		t.Fatalf("parse %s: %v", cn, err)
	}

	return c
}

func c03tNewPKI(t *testing.T, rnd *vRand, t0 time.Time, leaf, inter, root c03tWin, withInter bool) *c03tPKI {
	t.Helper()
	p := &c03tPKI{leafKey: ed25519.NewKeyFromSeed(rnd.bytes(32))}
	var err error
	if p.rootKey, err = ecdsa.GenerateKey(elliptic.P256(), rand.Reader); err != nil {
		t.Fatal(err)
	}
	if p.interKey, err = ecdsa.GenerateKey(elliptic.P256(), rand.Reader); err != nil {
		t.Fatal(err)
	}
	serial := int64(rnd.intn(1<<30)) + 10
	p.root = c03tIssue(t, serial, "verif c03t root", root, t0, true, nil, p.rootKey.Public(), p.rootKey)
	issuer, issuerKey := p.root, p.rootKey
	if withInter {
		p.inter = c03tIssue(t, serial+1, "verif c03t intermediate", inter, t0, true, p.root, p.interKey.Public(), p.rootKey)
		issuer, issuerKey = p.inter, p.interKey
	}
	p.leaf = c03tIssue(t, serial+2, "verif c03t leaf", leaf, t0, false, issuer, p.leafKey.Public(), issuerKey)
	p.chain = tls.Certificate{Certificate: [][]byte{p.leaf.Raw}, PrivateKey: p.leafKey, Leaf: p.leaf}
	if withInter {
		p.chain.Certificate = append(p.chain.Certificate, p.inter.Raw)
	}

	return p
}

// the mutable world of one sequence: the two Config objects live for the whole sequence
type c03tWorld struct {
	t0               time.Time
	scn              c03tScn
	pki              *c03tPKI
	leafW, interW    c03tWin
	rootW            c03tWin
	ccfg, scfg       *dtlsConfig
	pool, otherPool  *x509.CertPool
	vpc              string
	rootIn           bool
	mutation         string
	vpcCalls         int
}

func (w *c03tWorld) honestCfg() *dtlsConfig {
	if w.scn.Honest == "client" {
		return w.ccfg
	}

	return w.scfg
}

func (w *c03tWorld) honestPool() *x509.CertPool {
	if w.scn.Honest == "client" {
		return w.ccfg.RootCAs
	}

	return w.scfg.ClientCAs
}

func (w *c03tWorld) setPool(p *x509.CertPool) {
	if w.scn.Honest == "client" {
		w.ccfg.RootCAs = p
	} else {
		w.scfg.ClientCAs = p
	}
}

func c03tNewWorld(t *testing.T, scn c03tScn, rnd *vRand, leaf, inter, root c03tWin, rootIn bool) *c03tWorld {
	t.Helper()
	w := &c03tWorld{t0: time.Now(), scn: scn, leafW: leaf, interW: inter, rootW: root, rootIn: rootIn}
	if !scn.Inter {
		w.interW = c03tWin{}
	}
	w.pki = c03tNewPKI(t, rnd, w.t0, leaf, inter, root, scn.Inter)
	w.pool, w.otherPool = x509.NewCertPool(), x509.NewCertPool()
	w.otherPool.AddCert(vGetCreds().CA)
	if rootIn {
		w.pool.AddCert(w.pki.root)
	}
	w.ccfg, w.scfg = vCertPair()
	c03Version(w.ccfg, scn.Ver)
	c03Version(w.scfg, scn.Ver)
	if scn.Honest == "client" {
		// the server presents the sequence's credential; the client verifies it against w.pool + ServerName
		w.scfg.Certificates = []tls.Certificate{w.pki.chain}
		w.scfg.ClientAuth = NoClientCert
		w.ccfg.RootCAs = w.pool
		w.ccfg.ServerName = "server.verif"
	} else {
		// the client presents the sequence's credential; the (lab) server verifies it against w.pool
		forced := w.pki.chain
		w.ccfg.Certificates = []tls.Certificate{forced}
		w.ccfg.getClientCertificate = func(*CertificateRequestInfo) (*tls.Certificate, error) { return &forced, nil }
		w.ccfg.InsecureSkipVerify = true
		w.scfg.ClientCAs = w.pool
		w.scfg.ClientAuth = RequireAndVerifyClientCert
	}
	// the callback object never changes; what it answers does
	w.honestCfg().VerifyPeerCertificate = func([][]byte, [][]*x509.Certificate) error {
		w.vpcCalls++
		if w.vpc == "reject" {
			return errC03Reject
		}

		return nil
	}

	return w
}

func c03tIn(now int64, w c03tWin) bool { return w.NB <= now && now <= w.NA }

// fresh crypto/x509 verdict on exactly what the honest side is configured with, at the current instant
func (w *c03tWorld) oracle() bool {
	opts := x509.VerifyOptions{Roots: w.honestPool(), CurrentTime: time.Now(), Intermediates: x509.NewCertPool()}
	if w.pki.inter != nil {
		opts.Intermediates.AddCert(w.pki.inter)
	}
	if w.scn.Honest == "client" {
		opts.DNSName = w.ccfg.ServerName
	} else {
		opts.KeyUsages = []x509.ExtKeyUsage{x509.ExtKeyUsageClientAuth}
	}
	_, err := w.pki.leaf.Verify(opts)

	return err == nil
}

// one handshake with the two long-lived Config objects, at the virtual instant t0+at
func (w *c03tWorld) handshake(t *testing.T, at int64) c03tStep {
	t.Helper()
	if d := time.Until(w.t0.Add(time.Duration(at) * time.Second)); d > 0 {
		time.Sleep(d)
	}
	st := c03tStep{
		Now: int64(time.Since(w.t0) / time.Second), Leaf: w.leafW, InterW: w.interW, Root: w.rootW,
		RootIn: w.rootIn && w.honestPool() == w.pool, NameOK: true, Policy: int(w.scfg.ClientAuth), VPC: w.vpc,
		HAlert: -1, Mutation: w.mutation,
	}
	w.mutation = ""
	if w.scn.Honest == "client" {
		st.Skip = w.ccfg.InsecureSkipVerify
		st.NameOK = w.ccfg.ServerName == "server.verif"
	}
	st.Oracle = w.oracle()
	lab := newLab(t, w.ccfg, w.scfg)
	defer lab.close()
	lab.Pump.run(lab.bothDone, 25*time.Second)
	honest, peer := lab.peer(w.scn.Honest), lab.other(w.scn.Honest)
	st.HRes, st.HErr = c03Class(honest)
	st.PRes, _ = c03Class(peer)
	if honest.handshakeDone() && honest.Err == nil {
		if cs, ok := honest.Conn.ConnectionState(); ok {
			st.PeerCert = len(cs.PeerCertificates)
		}
		honest.startReader()
	}
	if peer.handshakeDone() && peer.Err == nil {
		if _, err := peer.Conn.Write([]byte("peer-data")); err == nil {
			lab.Pump.run(func() bool { return len(honest.reads()) > 0 }, 3*time.Second)
		}
	}
	st.HReads = len(honest.reads())
	if st.HRes == "hang" {
		st.HRes, st.HErr = c03Class(honest)
	}
	var la *alert.Alert
	var ae *alertError
	switch {
	case honest.handshakeDone() && honest.Err != nil && !errors.As(honest.Err, &ae) && errors.As(honest.Err, &la):
		st.HAlert = int(la.Description)
	case peer.handshakeDone() && peer.Err != nil && errors.As(peer.Err, &ae):
		st.HAlert = int(ae.Description)
	default:
		for _, a := range c03WireAlerts(lab.Net) {
			if a.From == w.scn.Honest {
				st.HAlert = a.Desc

				break
			}
		}
	}
	st.NowEnd = int64(time.Since(w.t0) / time.Second)

	return st
}

var c03tKinds = []string{ //nolint:gochecknoglobals
	"expire_leaf", "expire_inter", "expire_root", "notyet_leaf", "notyet_inter", "pool_swap", "pool_inplace",
	"pool_add", "vpc_flip", "name_flip", "skip_flip", "policy_flip", "random",
}

func runC03Time(t *testing.T, scn c03tScn, rnd *vRand) c03tObs {
	t.Helper()
	obs := c03tObs{Kind: "c03t", Scn: scn}
	h := c03tHour
	long := c03tWin{-h, 1000 * h}
	short := c03tWin{-h, 2 * h}
	later := c03tWin{2 * h, 4 * h}
	leaf, inter, root, rootIn := long, long, long, true
	switch scn.Kind {
	case "expire_leaf":
		leaf = short
	case "expire_inter":
		inter = short
	case "expire_root":
		root = short
	case "notyet_leaf":
		leaf = later
	case "notyet_inter":
		inter = later
	case "pool_add":
		rootIn = false
	case "random":
		win := func() c03tWin {
			nb := int64(rnd.intn(6)-2) * h
			return c03tWin{nb, nb + int64(1+rnd.intn(6))*h}
		}
		leaf = win()
		if rnd.chance(50) {
			inter = win()
		}
		if rnd.chance(25) {
			root = win()
		}
	}
	w := c03tNewWorld(t, scn, rnd, leaf, inter, root, rootIn)
	run := func(at int64) { obs.Steps = append(obs.Steps, w.handshake(t, at)) }
	switch scn.Kind {
	case "expire_leaf", "expire_inter", "expire_root":
		// valid, valid again, expired, still expired
		run(h / 2)
		run(h)
		w.mutation = "clock moved past NotAfter"
		run(3 * h)
		run(4 * h)
	case "notyet_leaf", "notyet_inter":
		// not yet valid, valid, valid again, expired
		run(h)
		w.mutation = "clock moved past NotBefore"
		run(3 * h)
		run(3*h + h/2)
		w.mutation = "clock moved past NotAfter"
		run(5 * h)
	case "pool_swap":
		run(h)
		w.setPool(w.otherPool)
		w.mutation = "pool pointer on the Config now names a pool without the issuing root"
		run(2 * h)
		w.setPool(w.pool)
		w.mutation = "pool pointer on the Config restored"
		run(3 * h)
	case "pool_inplace":
		run(h)
		*w.pool = *x509.NewCertPool()
		w.rootIn = false
		w.mutation = "pool object emptied in place"
		run(2 * h)
		w.pool.AddCert(w.pki.root)
		w.rootIn = true
		w.mutation = "issuing root added to the pool object"
		run(3 * h)
	case "pool_add":
		run(h)
		w.pool.AddCert(w.pki.root)
		w.rootIn = true
		w.mutation = "issuing root added to the pool object"
		run(2 * h)
		run(3 * h)
	case "vpc_flip":
		w.vpc = "ok"
		run(h)
		w.vpc = "reject"
		w.mutation = "VerifyPeerCertificate now rejects"
		run(2 * h)
		w.vpc = "ok"
		w.mutation = "VerifyPeerCertificate accepts again"
		run(3 * h)
	case "name_flip": // honest client only
		run(h)
		w.ccfg.ServerName = "other.verif"
		w.mutation = "ServerName on the Config changed to a name the leaf is not valid for"
		run(2 * h)
		w.ccfg.ServerName = "server.verif"
		w.mutation = "ServerName restored"
		run(3 * h)
	case "skip_flip": // honest client only: accepted unverified first (wrong name), then verification is switched on
		w.ccfg.InsecureSkipVerify = true
		w.ccfg.ServerName = "other.verif"
		run(h)
		w.ccfg.InsecureSkipVerify = false
		w.mutation = "InsecureSkipVerify switched off"
		run(2 * h)
		w.ccfg.ServerName = "server.verif"
		w.mutation = "ServerName changed to one the leaf is valid for"
		run(3 * h)
	case "policy_flip": // honest server only: accepted unverified first (root unknown), then verification is demanded
		w.setPool(w.otherPool)
		w.scfg.ClientAuth = RequireAnyClientCert
		run(h)
		w.scfg.ClientAuth = RequireAndVerifyClientCert
		w.mutation = "ClientAuth raised to RequireAndVerifyClientCert"
		run(2 * h)
		w.scfg.ClientAuth = VerifyClientCertIfGiven
		w.mutation = "ClientAuth changed to VerifyClientCertIfGiven"
		run(3 * h)
		w.setPool(w.pool)
		w.mutation = "pool pointer on the Config now names the pool with the issuing root"
		run(4 * h)
	case "random":
		// clock strictly increasing in half-hour grains (offset by 10 minutes: never on a window edge)
		at := int64(600)
		n := 4 + rnd.intn(3)
		for i := 0; i < n; i++ {
			at += int64(rnd.intn(5)) * (h / 2)
			if scn.Honest == "server" && rnd.chance(30) {
				w.scfg.ClientAuth = []ClientAuthType{VerifyClientCertIfGiven, RequireAndVerifyClientCert}[rnd.intn(2)]
				w.mutation = "ClientAuth changed"
			}
			if rnd.chance(15) {
				w.vpc = []string{"ok", "reject", ""}[rnd.intn(3)]
				w.mutation += " VerifyPeerCertificate answer changed"
			}
			run(at)
			at += 60
		}
	default:
		t.Fatalf("unknown kind %s", scn.Kind)
	}

	return obs
}

func c03tScenarios() []c03tScn {
	var out []c03tScn
	reps := 1
	if vIsThorough() {
		reps = 10
	}
	for _, ver := range []int{12, 13} {
		for _, honest := range []string{"server", "client"} {
			for _, inter := range []bool{false, true} {
				for _, k := range c03tKinds {
					if !inter && (k == "expire_inter" || k == "notyet_inter") {
						continue
					}
					if honest == "server" && (k == "name_flip" || k == "skip_flip") {
						continue
					}
					if honest == "client" && k == "policy_flip" {
						continue
					}
					n := 1
					if k == "random" {
						n = 3 * reps
					}
					for i := 0; i < n; i++ {
						s := c03tScn{Ver: ver, Honest: honest, Inter: inter, Kind: k}
						s.ID = fmt.Sprintf("time/v%d/h=%s/inter=%v/%s/%d", ver, honest, inter, k, i)
						out = append(out, s)
					}
				}
			}
		}
	}

	return out
}

func TestVerifC03Time(t *testing.T) {
	out := c03OpenOut(t, "VERIF_OUT_TIME")
	rnd := newVRand(vSeed() ^ 0xc03f)
	for _, scn := range c03tScenarios() {
		scn := scn
		var obs c03tObs
		vBubble(t, func(t *testing.T) { obs = runC03Time(t, scn, rnd) })
		out.emit(obs)
	}
}
