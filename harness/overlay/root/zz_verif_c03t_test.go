//go:build verif

// C03, DTLS 1.3 transcript-consistent rogue peers.  The flights after ServerHello are encrypted,
// so a peer that omits Certificate / CertificateVerify while still computing a correct Finished
// cannot be produced by configuration or on the path.  checks/c03.py injects (go test -overlay,
// scratch copies, /repo untouched) one hook variable into internal/flight/flight13 that lets this
// file drop or empty messages of the rogue side's final flight before they are sequenced, signed
// and protected.  This file only compiles when that overlay is active (tag c03t).
package dtls

import (
	"testing"

	dtlsflight "github.com/pion/dtls/v3/internal/flight"
	"github.com/pion/dtls/v3/internal/flight/flight13"
	"github.com/pion/dtls/v3/pkg/protocol/handshake"
)

func init() { //nolint:gochecknoinits
	c03TamperInstall = func(scn c03Scn, hits *int) func() {
		rogue := "server"
		if scn.Honest == "server" {
			rogue = "client"
		}
		flight13.VerifC03Tamper = func(side string, pkts []*dtlsflight.Packet) []*dtlsflight.Packet {
			if side != rogue {
				return pkts
			}
			out := make([]*dtlsflight.Packet, 0, len(pkts))
			for _, p := range pkts {
				h, ok := p.Record.Content.(*handshake.Handshake)
				if !ok {
					out = append(out, p)

					continue
				}
				switch m := h.Message.(type) {
				case *handshake.MessageCertificate13:
					switch scn.Tamper {
					case "no_cert_cv":
						*hits++

						continue
					case "empty_cert":
						*hits++
						m.CertificateList = nil
					}
				case *handshake.MessageCertificateVerify:
					*hits++

					continue // every tamper drops CertificateVerify
				}
				out = append(out, p)
			}

			return out
		}

		return func() { flight13.VerifC03Tamper = nil }
	}
}

func c03TamperScenarios() []c03Scn {
	var out []c03Scn
	for _, tm := range []string{"no_cert_cv", "no_cv", "empty_cert"} {
		for _, skip := range []bool{false, true} {
			for _, cb := range [][2]string{{"", ""}, {"ok", "ok"}, {"reject", ""}, {"", "reject"}} {
				out = append(out, c03Scn{Ver: 13, Suite: "cert", Honest: "client", Rogue: "honest", Skip: skip,
					VPC: cb[0], VC: cb[1], Tamper: tm})
			}
		}
		for pol := 0; pol <= 4; pol++ {
			for _, cb := range [][2]string{{"", ""}, {"ok", "ok"}} {
				out = append(out, c03Scn{Ver: 13, Suite: "cert", Honest: "server", Rogue: "honest", Policy: pol,
					VPC: cb[0], VC: cb[1], Tamper: tm})
			}
		}
	}
	if vIsThorough() {
		for _, s := range append([]c03Scn(nil), out...) {
			s.MTU = 200
			out = append(out, s)
		}
	}
	for i := range out {
		s := &out[i]
		s.ID = c03ID(*s)
	}

	return out
}

func TestVerifC03Tamper(t *testing.T) {
	out := c03OpenOut(t, "VERIF_OUT_TAMPER")
	for _, scn := range c03TamperScenarios() {
		scn := scn
		var obs c03Obs
		vBubble(t, func(t *testing.T) { obs = runC03(t, scn) })
		out.emit(obs)
	}
}
