//go:build verif

// C04 transcript integrity: an ON-PATH REWRITER in the scripted network.  For every cleartext
// (epoch 0) DTLS 1.2 handshake message type in either direction one parse-preserving modification
// is applied to every copy of that message that crosses the wire (retransmissions included): the
// message is decoded with the repo's own handshake.Handshake.Unmarshal, one field is changed, it is
// re-encoded with Marshal (lengths recomputed, message_seq kept) and put back into a record with a
// correct length.  For DTLS 1.3 the ClientHello / HelloRetryRequest / ServerHello are rewritten
// (later flights are encrypted).  Observed: HandshakeContext result class of both sides, alerts,
// negotiated parameters of sides that report success, application data delivered.
package dtls

import (
	"bytes"
	"crypto/sha256"
	"crypto/tls"
	"encoding/binary"
	"encoding/hex"
	"errors"
	"fmt"
	"os"
	"strings"
	"sync"
	"testing"
	"testing/synctest"
	"time"

	"github.com/pion/dtls/v3/internal/ciphersuite/types"
	dtlsstate "github.com/pion/dtls/v3/internal/state"
	"github.com/pion/dtls/v3/pkg/crypto/elliptic"
	"github.com/pion/dtls/v3/pkg/protocol"
	"github.com/pion/dtls/v3/pkg/protocol/alert"
	"github.com/pion/dtls/v3/pkg/protocol/extension"
	extension12 "github.com/pion/dtls/v3/pkg/protocol/extension/dtls12"
	extension13 "github.com/pion/dtls/v3/pkg/protocol/extension/dtls13"
	"github.com/pion/dtls/v3/pkg/protocol/handshake"
)

// ---- in-memory session store

type c04Store struct {
	mu sync.Mutex
	m  map[string]Session
}

func newC04Store() *c04Store { return &c04Store{m: map[string]Session{}} }

func (s *c04Store) Set(key []byte, v Session) error {
	s.mu.Lock()
	defer s.mu.Unlock()
	s.m[string(key)] = v

	return nil
}

func (s *c04Store) Get(key []byte) (Session, error) {
	s.mu.Lock()
	defer s.mu.Unlock()

	return s.m[string(key)], nil
}

func (s *c04Store) Del(key []byte) error {
	s.mu.Lock()
	defer s.mu.Unlock()
	delete(s.m, string(key))

	return nil
}

// ---- variants

type c04Variant struct {
	Name    string `json:"name"`
	Ver     int    `json:"ver"`
	Suite   string `json:"suite"` // cert | certca (client authentication) | psk | ecdhepsk
	EMS     bool   `json:"ems"`
	Resumed bool   `json:"resumed"`
	HRR     bool   `json:"hrr"` // DTLS 1.3: force a HelloRetryRequest
	CID     bool   `json:"cid"` // connection IDs negotiated
	// Bare: the client offers as little as it can (no server name, no ALPN, no use_srtp, no extended master
	// secret) while the server would negotiate all of them and holds several certificates chosen by server
	// name: the setting in which an extension ADDED in transit can steer something
	Bare bool `json:"bare"`
}

func c04Variants() []c04Variant {
	var out []c04Variant
	for _, ems := range []bool{true, false} {
		e := "noems"
		if ems {
			e = "ems"
		}
		for _, s := range []string{"cert", "certca", "psk", "ecdhepsk"} {
			out = append(out, c04Variant{Name: s + "-" + e + "-full", Ver: 12, Suite: s, EMS: ems})
		}
		for _, s := range []string{"cert", "psk"} {
			out = append(out, c04Variant{Name: s + "-" + e + "-resumed", Ver: 12, Suite: s, EMS: ems, Resumed: true})
		}
	}
	out = append(out, c04Variant{Name: "cert-bare-full", Ver: 12, Suite: "cert", Bare: true})
	out = append(out, c04Variant{Name: "certca-bare-full", Ver: 12, Suite: "certca", Bare: true})
	out = append(out, c04Variant{Name: "cert-noems-full-cid", Ver: 12, Suite: "cert", CID: true})
	out = append(out, c04Variant{Name: "psk-ems-full-cid", Ver: 12, Suite: "psk", EMS: true, CID: true})
	out = append(out, c04Variant{Name: "v13-cert", Ver: 13, Suite: "cert", EMS: true})
	out = append(out, c04Variant{Name: "v13-cert-hrr", Ver: 13, Suite: "cert", EMS: true, HRR: true})

	return out
}

// length of the connection IDs on tls12_cid records of this variant: the record parser needs it, a
// tls12_cid header does not say how long its connection ID is
func (v c04Variant) cidLen() int {
	if v.CID {
		return c04CIDLen
	}

	return 0
}

func (v c04Variant) kx() types.KeyExchangeAlgorithm {
	switch v.Suite {
	case "psk":
		return types.KeyExchangeAlgorithmPsk
	case "ecdhepsk":
		return types.KeyExchangeAlgorithmPsk | types.KeyExchangeAlgorithmEcdhe
	default:
		return types.KeyExchangeAlgorithmEcdhe
	}
}

func (v c04Variant) configs(cs, ss *c04Store) (*dtlsConfig, *dtlsConfig) {
	var c, s *dtlsConfig
	cr := vGetCreds()
	switch v.Suite {
	case "psk":
		c, s = vPSKPair(TLS_PSK_WITH_AES_128_GCM_SHA256)
		c.CipherSuites = []CipherSuiteID{TLS_PSK_WITH_AES_128_GCM_SHA256, TLS_PSK_WITH_AES_128_CCM_8}
		s.CipherSuites = c.CipherSuites
	case "ecdhepsk":
		c, s = vPSKPair(TLS_ECDHE_PSK_WITH_AES_128_CBC_SHA256)
		c.CipherSuites = []CipherSuiteID{TLS_ECDHE_PSK_WITH_AES_128_CBC_SHA256, TLS_PSK_WITH_AES_128_GCM_SHA256}
		s.CipherSuites = c.CipherSuites
	default:
		c, s = vCertPair()
		if v.Suite == "certca" {
			c.Certificates = []tls.Certificate{cr.Client}
			s.ClientAuth = RequireAndVerifyClientCert
			s.ClientCAs = cr.Pool
		}
	}
	for _, k := range []*dtlsConfig{c, s} {
		k.SupportedProtocols = []string{"verif-a", "verif-b"}
		k.SRTPProtectionProfiles = []SRTPProtectionProfile{SRTP_AES128_CM_HMAC_SHA1_80, SRTP_AEAD_AES_128_GCM}
		if v.CID {
			k.ConnectionIDGenerator = c04CIDGenerator(v.Name, k == c)
		}
		if !v.EMS {
			k.ExtendedMasterSecret = DisableExtendedMasterSecret
		}
		if v.Ver == 13 {
			k.MinVersion, k.MaxVersion = protocol.Version1_3, protocol.Version1_3
		}
	}
	if v.Ver == 13 {
		// keep the ClientHello in one record (the hybrid ML-KEM share would fragment it)
		c.EllipticCurves = []elliptic.Curve{elliptic.X25519, elliptic.P256}
		s.EllipticCurves = []elliptic.Curve{elliptic.X25519, elliptic.P256}
	}
	if v.HRR {
		// the client's first key share is for X25519; the server only accepts P-256
		c.EllipticCurves = []elliptic.Curve{elliptic.X25519, elliptic.P256}
		s.EllipticCurves = []elliptic.Curve{elliptic.P256}
	}
	if v.Bare {
		// client: trusts the lab CA, names no server, offers no ALPN / use_srtp / extended master secret
		c.ServerName = ""
		c.SupportedProtocols = nil
		c.SRTPProtectionProfiles = nil
		c.ExtendedMasterSecret = DisableExtendedMasterSecret
		// server: default certificate "server.verif", another one for "wrong.verif"; ALPN and EMS on request
		s.Certificates = []tls.Certificate{cr.Server, cr.WrongName}
		s.SRTPProtectionProfiles = nil
		s.ExtendedMasterSecret = RequestExtendedMasterSecret
	}
	if cs != nil {
		c.sessionStore = cs
		c.ServerName = "server.verif"
	}
	if ss != nil {
		s.sessionStore = ss
	}

	return c, s
}

// c04CIDGenerator: connection IDs are a function of VERIF_SEED, the variant and the side (reproducible runs);
// C04_CID=<8 hex digits> forces the value (bisecting value-dependent behaviour).
func c04CIDGenerator(variant string, client bool) func() []byte {
	seed := vSeed() ^ 0xc04c1d
	for _, ch := range variant {
		seed = seed*1099511628211 + uint64(ch)
	}
	if client {
		seed ^= 0x5555
	}
	rng := newVRand(seed)

	return func() []byte {
		if h := os.Getenv("C04_CID"); len(h) == 8 {
			if b, err := hex.DecodeString(h); err == nil {
				return b
			}
		}

		return rng.bytes(c04CIDLen)
	}
}

const c04CIDLen = 4

// ---- mutations

type c04Mut struct {
	Name  string
	Dir   string // c2s | s2c
	HType handshake.Type
	Occ   int // 0 = every copy, 1 = only messages with an empty cookie (first ClientHello), 2 = only with a cookie
	// returns the message to send instead (nil = delete it) and whether anything was changed
	Fn func(v c04Variant, m handshake.Message) (handshake.Message, bool)
}

func c04StripExt(exts []extension.Value, typ extension.Type) ([]extension.Value, bool) {
	out := make([]extension.Value, 0, len(exts))
	hit := false
	for _, e := range exts {
		if e.ExtensionType() == typ {
			hit = true

			continue
		}
		out = append(out, e)
	}

	return out, hit
}

func c04AlterExt(exts []extension.Value, typ extension.Type, f func(extension.Value) extension.Value) ([]extension.Value, bool) {
	out := make([]extension.Value, 0, len(exts))
	hit := false
	for _, e := range exts {
		if e.ExtensionType() == typ {
			if n := f(e); n != nil {
				hit = true
				e = n
			}
		}
		out = append(out, e)
	}

	return out, hit
}

func c04CH(f func(v c04Variant, m *handshake.MessageClientHello) bool) func(c04Variant, handshake.Message) (handshake.Message, bool) {
	return func(v c04Variant, m handshake.Message) (handshake.Message, bool) {
		ch, ok := m.(*handshake.MessageClientHello)
		if !ok {
			return m, false
		}

		return ch, f(v, ch)
	}
}

func c04SH(f func(v c04Variant, m *handshake.MessageServerHello) bool) func(c04Variant, handshake.Message) (handshake.Message, bool) {
	return func(v c04Variant, m handshake.Message) (handshake.Message, bool) {
		sh, ok := m.(*handshake.MessageServerHello)
		if !ok {
			return m, false
		}

		return sh, f(v, sh)
	}
}

func c04StripCH(typ extension.Type) func(c04Variant, handshake.Message) (handshake.Message, bool) {
	return c04CH(func(_ c04Variant, m *handshake.MessageClientHello) bool {
		var hit bool
		m.Extensions, hit = c04StripExt(m.Extensions, typ)

		return hit
	})
}

func c04StripSH(typ extension.Type) func(c04Variant, handshake.Message) (handshake.Message, bool) {
	return c04SH(func(_ c04Variant, m *handshake.MessageServerHello) bool {
		var hit bool
		m.Extensions, hit = c04StripExt(m.Extensions, typ)

		return hit
	})
}

// add extension `val` unless one of that type is already there
func c04AddCH(typ extension.Type, val extension.Value) func(c04Variant, handshake.Message) (handshake.Message, bool) {
	return c04CH(func(_ c04Variant, m *handshake.MessageClientHello) bool {
		if c04HasExt(m.Extensions, typ) {
			return false
		}
		m.Extensions = append(append([]extension.Value(nil), m.Extensions...), val)

		return true
	})
}

func c04AddSH(typ extension.Type, val extension.Value) func(c04Variant, handshake.Message) (handshake.Message, bool) {
	return c04SH(func(_ c04Variant, m *handshake.MessageServerHello) bool {
		if c04HasExt(m.Extensions, typ) {
			return false
		}
		m.Extensions = append(append([]extension.Value(nil), m.Extensions...), val)

		return true
	})
}

func c04FlipLast(b []byte) []byte {
	o := bytes.Clone(b)
	if len(o) > 0 {
		o[len(o)-1] ^= 0x01
	}

	return o
}

func c04Muts() []c04Mut { //nolint:maintidx,cyclop
	const (
		tCH   = handshake.TypeClientHello
		tHVR  = handshake.TypeHelloVerifyRequest
		tSH   = handshake.TypeServerHello
		tCert = handshake.TypeCertificate
		tSKE  = handshake.TypeServerKeyExchange
		tCR   = handshake.TypeCertificateRequest
		tCKE  = handshake.TypeClientKeyExchange
		tCV   = handshake.TypeCertificateVerify
	)
	cr := vGetCreds()
	muts := []c04Mut{
		// ---------------- ClientHello
		{Name: "ch_swap_suites", Dir: "c2s", HType: tCH, Fn: c04CH(func(_ c04Variant, m *handshake.MessageClientHello) bool {
			if len(m.CipherSuiteIDs) < 2 {
				return false
			}
			m.CipherSuiteIDs[0], m.CipherSuiteIDs[1] = m.CipherSuiteIDs[1], m.CipherSuiteIDs[0]

			return true
		})},
		{Name: "ch_remove_first_suite", Dir: "c2s", HType: tCH, Fn: c04CH(func(_ c04Variant, m *handshake.MessageClientHello) bool {
			if len(m.CipherSuiteIDs) < 2 {
				return false
			}
			m.CipherSuiteIDs = m.CipherSuiteIDs[1:]

			return true
		})},
		{Name: "ch_remove_last_suite", Dir: "c2s", HType: tCH, Fn: c04CH(func(_ c04Variant, m *handshake.MessageClientHello) bool {
			if len(m.CipherSuiteIDs) < 2 {
				return false
			}
			m.CipherSuiteIDs = m.CipherSuiteIDs[:len(m.CipherSuiteIDs)-1]

			return true
		})},
		{Name: "ch_strip_ems", Dir: "c2s", HType: tCH, Fn: c04StripCH(extension.TypeExtendedMasterSecret)},
		{Name: "ch_strip_srtp", Dir: "c2s", HType: tCH, Fn: c04StripCH(extension.TypeUseSRTP)},
		{Name: "ch_strip_alpn", Dir: "c2s", HType: tCH, Fn: c04StripCH(extension.TypeALPN)},
		{Name: "ch_strip_groups", Dir: "c2s", HType: tCH, Fn: c04StripCH(extension.TypeSupportedGroups)},
		{Name: "ch_strip_sigalgs", Dir: "c2s", HType: tCH, Fn: c04StripCH(extension.TypeSignatureAlgorithms)},
		{Name: "ch_strip_cid", Dir: "c2s", HType: tCH, Fn: c04StripCH(extension.TypeConnectionID)},
		{Name: "ch_strip_reneg", Dir: "c2s", HType: tCH, Fn: c04StripCH(extension.TypeRenegotiationInfo)},
		{Name: "ch_alter_alpn", Dir: "c2s", HType: tCH, Fn: c04CH(func(_ c04Variant, m *handshake.MessageClientHello) bool {
			var hit bool
			m.Extensions, hit = c04AlterExt(m.Extensions, extension.TypeALPN, func(e extension.Value) extension.Value {
				if a, ok := e.(*extension.ALPNOffer); ok && len(a.Protocols) >= 2 {
					return &extension.ALPNOffer{Protocols: []string{a.Protocols[1], a.Protocols[0]}}
				}

				return nil
			})

			return hit
		})},
		{Name: "ch_narrow_alpn", Dir: "c2s", HType: tCH, Fn: c04CH(func(_ c04Variant, m *handshake.MessageClientHello) bool {
			var hit bool
			m.Extensions, hit = c04AlterExt(m.Extensions, extension.TypeALPN, func(e extension.Value) extension.Value {
				if a, ok := e.(*extension.ALPNOffer); ok && len(a.Protocols) >= 2 {
					return &extension.ALPNOffer{Protocols: []string{a.Protocols[len(a.Protocols)-1]}}
				}

				return nil
			})

			return hit
		})},
		{Name: "ch_narrow_groups", Dir: "c2s", HType: tCH, Fn: c04CH(func(_ c04Variant, m *handshake.MessageClientHello) bool {
			var hit bool
			m.Extensions, hit = c04AlterExt(m.Extensions, extension.TypeSupportedGroups, func(e extension.Value) extension.Value {
				if a, ok := e.(*extension.SupportedGroups); ok && len(a.Groups) >= 2 {
					return &extension.SupportedGroups{Groups: []elliptic.Curve{a.Groups[len(a.Groups)-1]}}
				}

				return nil
			})

			return hit
		})},
		{Name: "ch_alter_srtp", Dir: "c2s", HType: tCH, Fn: c04CH(func(_ c04Variant, m *handshake.MessageClientHello) bool {
			var hit bool
			m.Extensions, hit = c04AlterExt(m.Extensions, extension.TypeUseSRTP, func(e extension.Value) extension.Value {
				if a, ok := e.(*extension.SRTPOffer); ok && len(a.ProtectionProfiles) >= 2 {
					return &extension.SRTPOffer{
						ProtectionProfiles:  []extension.SRTPProtectionProfile{a.ProtectionProfiles[1], a.ProtectionProfiles[0]},
						MasterKeyIdentifier: a.MasterKeyIdentifier,
					}
				}

				return nil
			})

			return hit
		})},
		{Name: "ch_alter_groups", Dir: "c2s", HType: tCH, Fn: c04CH(func(_ c04Variant, m *handshake.MessageClientHello) bool {
			var hit bool
			m.Extensions, hit = c04AlterExt(m.Extensions, extension.TypeSupportedGroups, func(e extension.Value) extension.Value {
				if a, ok := e.(*extension.SupportedGroups); ok && len(a.Groups) >= 2 {
					g := append([]elliptic.Curve(nil), a.Groups...)
					// move the last group to the front: steers the curve the server picks
					g = append([]elliptic.Curve{g[len(g)-1]}, g[:len(g)-1]...)

					return &extension.SupportedGroups{Groups: g}
				}

				return nil
			})

			return hit
		})},
		{Name: "ch_alter_sigalgs", Dir: "c2s", HType: tCH, Fn: c04CH(func(_ c04Variant, m *handshake.MessageClientHello) bool {
			var hit bool
			m.Extensions, hit = c04AlterExt(m.Extensions, extension.TypeSignatureAlgorithms, func(e extension.Value) extension.Value {
				if a, ok := e.(*extension.SignatureAlgorithms); ok && len(a.Schemes) >= 2 {
					return &extension.SignatureAlgorithms{Schemes: append([]uint16(nil), a.Schemes[:len(a.Schemes)-1]...)}
				}

				return nil
			})

			return hit
		})},
		{Name: "ch_alter_cid", Dir: "c2s", HType: tCH, Fn: c04CH(func(_ c04Variant, m *handshake.MessageClientHello) bool {
			var hit bool
			m.Extensions, hit = c04AlterExt(m.Extensions, extension.TypeConnectionID, func(e extension.Value) extension.Value {
				if a, ok := e.(*extension.ConnectionID); ok && len(a.CID) > 0 {
					return &extension.ConnectionID{CID: c04FlipLast(a.CID)}
				}

				return nil
			})

			return hit
		})},
		{Name: "ch_flip_random", Dir: "c2s", HType: tCH, Fn: c04CH(func(_ c04Variant, m *handshake.MessageClientHello) bool {
			m.Random.RandomBytes[7] ^= 0x01

			return true
		})},
		{Name: "ch_session_id", Dir: "c2s", HType: tCH, Fn: c04CH(func(_ c04Variant, m *handshake.MessageClientHello) bool {
			if len(m.SessionID) == 0 {
				m.SessionID = bytes.Repeat([]byte{0x42}, 32)
			} else {
				m.SessionID = c04FlipLast(m.SessionID)
			}

			return true
		})},
		{Name: "ch_flip_cookie", Dir: "c2s", HType: tCH, Occ: 2, Fn: c04CH(func(_ c04Variant, m *handshake.MessageClientHello) bool {
			if len(m.Cookie) == 0 {
				return false
			}
			m.Cookie = c04FlipLast(m.Cookie)

			return true
		})},
		{Name: "ch_version_10", Dir: "c2s", HType: tCH, Fn: c04CH(func(_ c04Variant, m *handshake.MessageClientHello) bool {
			m.Version = protocol.Version1_0

			return true
		})},
		// ---------------- ClientHello: ADD an extension the client did not send
		{Name: "ch_add_sni", Dir: "c2s", HType: tCH, Fn: c04AddCH(extension.TypeServerName,
			&extension.ServerNameOffer{ServerName: "wrong.verif"})},
		{Name: "ch_add_alpn", Dir: "c2s", HType: tCH, Fn: c04AddCH(extension.TypeALPN,
			&extension.ALPNOffer{Protocols: []string{"verif-b"}})},
		{Name: "ch_add_ems", Dir: "c2s", HType: tCH, Fn: c04AddCH(extension.TypeExtendedMasterSecret,
			&extension12.ExtendedMasterSecret{})},
		{Name: "ch_add_srtp", Dir: "c2s", HType: tCH, Fn: c04AddCH(extension.TypeUseSRTP,
			&extension.SRTPOffer{ProtectionProfiles: []extension.SRTPProtectionProfile{extension.SRTP_AEAD_AES_128_GCM}})},
		{Name: "ch_add_sigalgs_cert", Dir: "c2s", HType: tCH, Fn: c04AddCH(extension.TypeSignatureAlgorithmsCert,
			&extension.CertificateSignatureAlgorithms{Schemes: []uint16{0x0807}})}, // ed25519 only
		// ---------------- ServerHello: ADD an answer the server did not give
		{Name: "sh_add_alpn", Dir: "s2c", HType: tSH, Fn: c04AddSH(extension.TypeALPN,
			&extension.ALPNSelection{Protocol: "verif-b"})},
		{Name: "sh_add_ems", Dir: "s2c", HType: tSH, Fn: c04AddSH(extension.TypeExtendedMasterSecret,
			&extension12.ExtendedMasterSecret{})},
		// ---------------- HelloVerifyRequest (not part of the Finished transcript)
		{Name: "hvr_cookie", Dir: "s2c", HType: tHVR, Fn: func(_ c04Variant, m handshake.Message) (handshake.Message, bool) {
			h, ok := m.(*handshake.MessageHelloVerifyRequest)
			if !ok {
				return m, false
			}
			if len(h.Cookie) == 0 {
				return m, false
			}
			h.Cookie = c04FlipLast(h.Cookie)

			return h, true
		}},
		{Name: "hvr_version_10", Dir: "s2c", HType: tHVR, Fn: func(_ c04Variant, m handshake.Message) (handshake.Message, bool) {
			h, ok := m.(*handshake.MessageHelloVerifyRequest)
			if !ok {
				return m, false
			}
			if h.Version.Equal(protocol.Version1_0) {
				h.Version = protocol.Version1_2
			} else {
				h.Version = protocol.Version1_0
			}

			return h, true
		}},
		// ---------------- ServerHello
		{Name: "sh_flip_random", Dir: "s2c", HType: tSH, Fn: c04SH(func(_ c04Variant, m *handshake.MessageServerHello) bool {
			m.Random.RandomBytes[7] ^= 0x01

			return true
		})},
		{Name: "sh_session_id", Dir: "s2c", HType: tSH, Fn: c04SH(func(_ c04Variant, m *handshake.MessageServerHello) bool {
			if len(m.SessionID) == 0 {
				m.SessionID = bytes.Repeat([]byte{0x42}, 32)
			} else {
				m.SessionID = c04FlipLast(m.SessionID)
			}

			return true
		})},
		{Name: "sh_other_suite", Dir: "s2c", HType: tSH, Fn: c04SH(func(v c04Variant, m *handshake.MessageServerHello) bool {
			if m.CipherSuiteID == nil {
				return false
			}
			// another suite of the same class that the client also offered
			alt := map[uint16]uint16{
				uint16(TLS_ECDHE_ECDSA_WITH_AES_128_GCM_SHA256): uint16(TLS_ECDHE_ECDSA_WITH_AES_256_GCM_SHA384),
				uint16(TLS_ECDHE_ECDSA_WITH_AES_256_GCM_SHA384): uint16(TLS_ECDHE_ECDSA_WITH_AES_128_GCM_SHA256),
				uint16(TLS_PSK_WITH_AES_128_GCM_SHA256):         uint16(TLS_PSK_WITH_AES_128_CCM_8),
				uint16(TLS_PSK_WITH_AES_128_CCM_8):              uint16(TLS_PSK_WITH_AES_128_GCM_SHA256),
				uint16(TLS_ECDHE_PSK_WITH_AES_128_CBC_SHA256):   uint16(TLS_PSK_WITH_AES_128_GCM_SHA256),
				uint16(TLS_AES_128_GCM_SHA256):                  uint16(TLS_AES_256_GCM_SHA384),
				uint16(TLS_AES_256_GCM_SHA384):                  uint16(TLS_AES_128_GCM_SHA256),
			}
			n, ok := alt[*m.CipherSuiteID]
			if !ok {
				return false
			}
			m.CipherSuiteID = &n

			return true
		})},
		{Name: "sh_strip_ems", Dir: "s2c", HType: tSH, Fn: c04StripSH(extension.TypeExtendedMasterSecret)},
		{Name: "sh_strip_srtp", Dir: "s2c", HType: tSH, Fn: c04StripSH(extension.TypeUseSRTP)},
		{Name: "sh_strip_alpn", Dir: "s2c", HType: tSH, Fn: c04StripSH(extension.TypeALPN)},
		{Name: "sh_strip_cid", Dir: "s2c", HType: tSH, Fn: c04StripSH(extension.TypeConnectionID)},
		{Name: "sh_strip_reneg", Dir: "s2c", HType: tSH, Fn: c04StripSH(extension.TypeRenegotiationInfo)},
		{Name: "sh_strip_pointfmt", Dir: "s2c", HType: tSH, Fn: c04StripSH(extension.TypeSupportedPointFormats)},
		{Name: "sh_alter_alpn", Dir: "s2c", HType: tSH, Fn: c04SH(func(_ c04Variant, m *handshake.MessageServerHello) bool {
			var hit bool
			m.Extensions, hit = c04AlterExt(m.Extensions, extension.TypeALPN, func(e extension.Value) extension.Value {
				if a, ok := e.(*extension.ALPNSelection); ok {
					if a.Protocol == "verif-a" {
						return &extension.ALPNSelection{Protocol: "verif-b"}
					}

					return &extension.ALPNSelection{Protocol: "verif-a"}
				}

				return nil
			})

			return hit
		})},
		{Name: "sh_alter_srtp", Dir: "s2c", HType: tSH, Fn: c04SH(func(_ c04Variant, m *handshake.MessageServerHello) bool {
			var hit bool
			m.Extensions, hit = c04AlterExt(m.Extensions, extension.TypeUseSRTP, func(e extension.Value) extension.Value {
				if a, ok := e.(*extension.SRTPSelection); ok {
					p := extension.SRTP_AEAD_AES_128_GCM
					if a.ProtectionProfile == p {
						p = extension.SRTP_AES128_CM_HMAC_SHA1_80
					}

					return &extension.SRTPSelection{ProtectionProfile: p, MasterKeyIdentifier: a.MasterKeyIdentifier}
				}

				return nil
			})

			return hit
		})},
		{Name: "sh_alter_cid", Dir: "s2c", HType: tSH, Fn: c04SH(func(_ c04Variant, m *handshake.MessageServerHello) bool {
			var hit bool
			m.Extensions, hit = c04AlterExt(m.Extensions, extension.TypeConnectionID, func(e extension.Value) extension.Value {
				if a, ok := e.(*extension.ConnectionID); ok && len(a.CID) > 0 {
					return &extension.ConnectionID{CID: c04FlipLast(a.CID)}
				}

				return nil
			})

			return hit
		})},
		// ---------------- server Certificate
		{Name: "scert_flip_last", Dir: "s2c", HType: tCert, Fn: c04CertMut(func(c [][]byte) [][]byte {
			c[0] = c04FlipLast(c[0])

			return c
		})},
		{Name: "scert_flip_mid", Dir: "s2c", HType: tCert, Fn: c04CertMut(func(c [][]byte) [][]byte {
			c[0] = bytes.Clone(c[0])
			c[0][len(c[0])/2] ^= 0x01

			return c
		})},
		{Name: "scert_substitute", Dir: "s2c", HType: tCert, Fn: c04CertMut(func([][]byte) [][]byte {
			return [][]byte{bytes.Clone(cr.WrongName.Certificate[0])}
		})},
		{Name: "scert_empty", Dir: "s2c", HType: tCert, Fn: c04CertMut(func([][]byte) [][]byte { return nil })},
		// ---------------- ServerKeyExchange
		{Name: "ske_pubkey", Dir: "s2c", HType: tSKE, Fn: func(_ c04Variant, m handshake.Message) (handshake.Message, bool) {
			k, ok := m.(*handshake.MessageServerKeyExchange)
			if !ok || len(k.PublicKey) == 0 {
				return m, false
			}
			k.PublicKey = c04FlipLast(k.PublicKey)

			return k, true
		}},
		{Name: "ske_sig", Dir: "s2c", HType: tSKE, Fn: func(_ c04Variant, m handshake.Message) (handshake.Message, bool) {
			k, ok := m.(*handshake.MessageServerKeyExchange)
			if !ok || len(k.Signature) == 0 {
				return m, false
			}
			k.Signature = c04FlipLast(k.Signature)

			return k, true
		}},
		{Name: "ske_hint", Dir: "s2c", HType: tSKE, Fn: func(_ c04Variant, m handshake.Message) (handshake.Message, bool) {
			k, ok := m.(*handshake.MessageServerKeyExchange)
			if !ok || len(k.IdentityHint) == 0 {
				return m, false
			}
			k.IdentityHint = c04FlipLast(k.IdentityHint)

			return k, true
		}},
		// ---------------- CertificateRequest
		{Name: "creq_drop_alg", Dir: "s2c", HType: tCR, Fn: func(_ c04Variant, m handshake.Message) (handshake.Message, bool) {
			k, ok := m.(*handshake.MessageCertificateRequest)
			if !ok || len(k.SignatureHashAlgorithms) < 2 {
				return m, false
			}
			k.SignatureHashAlgorithms = k.SignatureHashAlgorithms[:len(k.SignatureHashAlgorithms)-1]

			return k, true
		}},
		{Name: "creq_alter_ca", Dir: "s2c", HType: tCR, Fn: func(_ c04Variant, m handshake.Message) (handshake.Message, bool) {
			k, ok := m.(*handshake.MessageCertificateRequest)
			if !ok {
				return m, false
			}
			k.CertificateAuthoritiesNames = nil // "any CA"

			return k, true
		}},
		{Name: "creq_delete", Dir: "s2c", HType: tCR, Fn: func(_ c04Variant, _ handshake.Message) (handshake.Message, bool) {
			return nil, true
		}},
		// ---------------- client Certificate
		{Name: "ccert_flip_last", Dir: "c2s", HType: tCert, Fn: c04CertMut(func(c [][]byte) [][]byte {
			c[0] = c04FlipLast(c[0])

			return c
		})},
		{Name: "ccert_substitute", Dir: "c2s", HType: tCert, Fn: c04CertMut(func([][]byte) [][]byte {
			return [][]byte{bytes.Clone(cr.Server.Certificate[0])}
		})},
		// ---------------- ClientKeyExchange
		{Name: "cke_pubkey", Dir: "c2s", HType: tCKE, Fn: func(_ c04Variant, m handshake.Message) (handshake.Message, bool) {
			k, ok := m.(*handshake.MessageClientKeyExchange)
			if !ok || len(k.PublicKey) == 0 {
				return m, false
			}
			k.PublicKey = c04FlipLast(k.PublicKey)

			return k, true
		}},
		{Name: "cke_identity", Dir: "c2s", HType: tCKE, Fn: func(_ c04Variant, m handshake.Message) (handshake.Message, bool) {
			k, ok := m.(*handshake.MessageClientKeyExchange)
			if !ok || len(k.IdentityHint) == 0 {
				return m, false
			}
			k.IdentityHint = c04FlipLast(k.IdentityHint)

			return k, true
		}},
		// ---------------- CertificateVerify
		{Name: "cv_sig", Dir: "c2s", HType: tCV, Fn: func(_ c04Variant, m handshake.Message) (handshake.Message, bool) {
			k, ok := m.(*handshake.MessageCertificateVerify)
			if !ok || len(k.Signature) == 0 {
				return m, false
			}
			k.Signature = c04FlipLast(k.Signature)

			return k, true
		}},
		{Name: "cv_delete", Dir: "c2s", HType: tCV, Fn: func(_ c04Variant, _ handshake.Message) (handshake.Message, bool) {
			return nil, true
		}},
		// ---------------- DTLS 1.3 hello messages
		{Name: "ch13_key_share", Dir: "c2s", HType: tCH, Fn: c04CH(func(_ c04Variant, m *handshake.MessageClientHello) bool {
			var hit bool
			m.Extensions, hit = c04AlterExt(m.Extensions, extension.TypeKeyShare, func(e extension.Value) extension.Value {
				if a, ok := e.(*extension13.ClientKeyShare); ok && len(a.Shares) > 0 {
					sh := append([]extension13.KeyShareEntry(nil), a.Shares...)
					sh[0].KeyExchange = c04FlipLast(sh[0].KeyExchange)

					return &extension13.ClientKeyShare{Shares: sh}
				}

				return nil
			})

			return hit
		})},
		{Name: "sh13_key_share", Dir: "s2c", HType: tSH, Fn: c04SH(func(_ c04Variant, m *handshake.MessageServerHello) bool {
			var hit bool
			m.Extensions, hit = c04AlterExt(m.Extensions, extension.TypeKeyShare, func(e extension.Value) extension.Value {
				if a, ok := e.(*extension13.ServerKeyShare); ok && len(a.Share.KeyExchange) > 0 {
					return &extension13.ServerKeyShare{Share: extension13.KeyShareEntry{
						Group: a.Share.Group, KeyExchange: c04FlipLast(a.Share.KeyExchange),
					}}
				}

				return nil
			})

			return hit
		})},
		{Name: "ch13_strip_versions", Dir: "c2s", HType: tCH, Fn: c04StripCH(extension.TypeSupportedVersions)},
		{Name: "ch13_strip_cookie", Dir: "c2s", HType: tCH, Fn: c04StripCH(extension.TypeCookie)},
		{Name: "sh13_strip_cookie", Dir: "s2c", HType: tSH, Fn: c04StripSH(extension.TypeCookie)},
	}

	return muts
}

func c04CertMut(f func([][]byte) [][]byte) func(c04Variant, handshake.Message) (handshake.Message, bool) {
	return func(_ c04Variant, m handshake.Message) (handshake.Message, bool) {
		k, ok := m.(*handshake.MessageCertificate)
		if !ok || len(k.Certificate) == 0 {
			return m, false
		}
		k.Certificate = f(append([][]byte(nil), k.Certificate...))

		return k, true
	}
}

// ---- the rewriter

type c04Obs struct {
	Kind         string         `json:"kind"`
	Variant      c04Variant     `json:"variant"`
	Mut          string         `json:"mut"`
	Dir          string         `json:"dir"`
	HType        int            `json:"htype"`
	Applied      int            `json:"applied"` // records rewritten (retransmissions included)
	Seen         int            `json:"seen"`    // records of the targeted type seen in that direction
	RTDiff       int            `json:"rt_diff"` // unmodified decode/encode did not reproduce the bytes
	Frag         int            `json:"frag"`    // targeted records that were fragments (left alone)
	CRes         string         `json:"cres"`
	SRes         string         `json:"sres"`
	CErr         string         `json:"cerr"`
	SErr         string         `json:"serr"`
	CAlert       int            `json:"calert"` // alert raised by the client (-1 none seen)
	SAlert       int            `json:"salert"`
	CReads       int            `json:"creads"`
	SReads       int            `json:"sreads"`
	CSuite       int            `json:"csuite"` // negotiated parameters as reported by a side that succeeded
	SSuite       int            `json:"ssuite"`
	CALPN        string         `json:"calpn"`
	SALPN        string         `json:"salpn"`
	CSRTP        int            `json:"csrtp"`
	SSRTP        int            `json:"ssrtp"`
	BaseSuite    int            `json:"base_suite"` // what an undisturbed handshake of the variant negotiates
	BaseALPN     string         `json:"base_alpn"`
	BaseSRTP     int            `json:"base_srtp"`
	CEMS         int            `json:"cems"` // DTLS 1.2, side succeeded: extended master secret in use (0/1), -1 unknown
	SEMS         int            `json:"sems"`
	CCurve       int            `json:"ccurve"` // DTLS 1.2, side succeeded: key-exchange group, -1 unknown
	SCurve       int            `json:"scurve"`
	CPeerCert    string         `json:"cpeer_cert"` // client succeeded: SHA-256 (first 8 bytes) of the server leaf it was shown
	SSNI         string         `json:"ssni"`       // server succeeded: the server name its state holds (what GetCertificate was asked for)
	SSigCert     int            `json:"ssigcert"`   // server succeeded: number of signature_algorithms_cert schemes it remembers
	BasePeerCert string         `json:"base_peer_cert"`
	BaseSNI      string         `json:"base_sni"`
	BaseSigCert  int            `json:"base_sigcert"`
	BaseEMS      int            `json:"base_ems"`
	BaseCurve    int            `json:"base_curve"`
	Sched        string         `json:"sched"`  // delivery schedule: "" = datagrams as emitted, "split" = one datagram per record
	Pieces       int            `json:"pieces"` // datagrams actually delivered
	Target       string         `json:"target"` // ClientHello mutations: "" = every copy, ch1 = only the cookie-less one, ch2 = only the one with the cookie
	Wire         []c03WireAlert `json:"wire_alerts"`
	Delivered    int            `json:"delivered"`
	Storm        bool           `json:"storm"`          // more than c04MaxDatagrams datagrams: endpoints answer each other without pause
	Tail         []string       `json:"tail,omitempty"` // last datagrams of a storm (sender:first-byte:length)
}

const c04MaxDatagrams = 400

type c03WireAlert struct {
	From  string `json:"from"`
	Level int    `json:"level"`
	Desc  int    `json:"desc"`
}

func c04Rewrite(obs *c04Obs, v c04Variant, mut *c04Mut, d vDatagram) []byte {
	if mut == nil {
		return d.Data
	}
	dir := "c2s"
	if d.From == "server" {
		dir = "s2c"
	}
	if dir != mut.Dir {
		return d.Data
	}
	var out []byte
	for _, r := range vParseDatagram(d.Data, v.cidLen()) {
		if r.CT != int(protocol.ContentTypeHandshake) || r.Epoch != 0 || r.Uni || r.HType != int(mut.HType) {
			out = append(out, r.Raw...)

			continue
		}
		obs.Seen++
		if r.FOff != 0 || r.FLen != r.TLen {
			obs.Frag++
			out = append(out, r.Raw...)

			continue
		}
		content := r.Raw[13:]
		hs := &handshake.Handshake{KeyExchangeAlgorithm: v.kx()}
		if err := hs.Unmarshal(content); err != nil {
			out = append(out, r.Raw...)

			continue
		}
		if ch, ok := hs.Message.(*handshake.MessageClientHello); ok && mut.Occ != 0 {
			if (mut.Occ == 1) != (len(ch.Cookie) == 0 && !c04HasExt(ch.Extensions, extension.TypeCookie)) {
				out = append(out, r.Raw...)

				continue
			}
		}
		if re, err := hs.Marshal(); err != nil || !bytes.Equal(re, content) {
			obs.RTDiff++
			out = append(out, r.Raw...)

			continue
		}
		nm, changed := mut.Fn(v, hs.Message)
		if !changed {
			out = append(out, r.Raw...)

			continue
		}
		obs.Applied++
		if nm == nil {
			continue // message deleted
		}
		hs.Message = nm
		body, err := hs.Marshal()
		if err != nil {
			panic(fmt.Sprintf("c04: re-marshal %s: %v", mut.Name, err))
		}
		rec := append([]byte(nil), r.Raw[:11]...)
		rec = binary.BigEndian.AppendUint16(rec, uint16(len(body))) //nolint:gosec
		out = append(out, append(rec, body...)...)
	}

	return out
}

func c04HasExt(exts []extension.Value, typ extension.Type) bool {
	for _, e := range exts {
		if e.ExtensionType() == typ {
			return true
		}
	}

	return false
}

func c04Class(p *vPeer) (string, string) {
	if !p.handshakeDone() {
		return "hang", ""
	}
	if p.Err == nil {
		return "ok", ""
	}
	var ae *alertError
	if errors.As(p.Err, &ae) {
		return fmt.Sprintf("alert:%d", int(ae.Description)), p.Err.Error()
	}

	return "local", p.Err.Error()
}

// alert raised by side `me`: from its own error chain (DTLS 1.3), from what the peer received,
// or from the cleartext wire
func c04LocalAlert(me, peer *vPeer, wire []c03WireAlert) int {
	var la *alert.Alert
	var ae *alertError
	if me.handshakeDone() && me.Err != nil && !errors.As(me.Err, &ae) && errors.As(me.Err, &la) {
		return int(la.Description)
	}
	for _, w := range wire {
		if w.From == me.Name {
			return w.Desc
		}
	}
	if peer.handshakeDone() && peer.Err != nil && errors.As(peer.Err, &ae) {
		return int(ae.Description)
	}

	return -1
}

// c04Pieces: delivery schedule "split" = one datagram per record, in order, each followed by a run to
// quiescence, so that the receiving state machine parses after every single record (a flight that spans
// several datagrams: the parser of a flight is re-entered with a partial flight)
func c04Pieces(data []byte, split bool, cidLen int) [][]byte {
	if !split {
		return [][]byte{data}
	}
	var out [][]byte
	for _, r := range vParseDatagram(data, cidLen) {
		out = append(out, r.Raw)
	}

	return out
}

func c04Pump(lab *vLab, obs *c04Obs, v c04Variant, mut *c04Mut, next *int, done func() bool, limit time.Duration) {
	deadline := time.Now().Add(limit)
	for {
		synctest.Wait()
		progressed := false
		for _, d := range lab.Net.since(*next) {
			*next = d.Idx + 1
			if obs.Delivered >= c04MaxDatagrams {
				obs.Storm = true // datagrams keep flowing without any timer firing: give up

				return
			}
			obs.Delivered++
			if data := c04Rewrite(obs, v, mut, d); len(data) > 0 {
				for _, piece := range c04Pieces(data, obs.Sched == "split", v.cidLen()) {
					if len(piece) == 0 {
						continue
					}
					lab.Net.deliver(d.To, d.From, piece)
					synctest.Wait()
					obs.Pieces++
				}
			}
			progressed = true
		}
		if done() {
			return
		}
		if progressed {
			continue
		}
		if !time.Now().Before(deadline) {
			return
		}
		tm := time.NewTimer(time.Until(deadline))
		select {
		case <-lab.Net.notify:
		case <-tm.C:
		}
		tm.Stop()
	}
}

func runC04(t *testing.T, v c04Variant, mut *c04Mut, sched ...string) c04Obs {
	t.Helper()
	obs := c04Obs{Kind: "c04", Variant: v, CAlert: -1, SAlert: -1, CSuite: -1, SSuite: -1, CSRTP: -1, SSRTP: -1,
		CEMS: -1, SEMS: -1, CCurve: -1, SCurve: -1}
	if len(sched) > 0 {
		obs.Sched = sched[0]
	}
	if mut != nil {
		obs.Mut, obs.Dir, obs.HType = mut.Name, mut.Dir, int(mut.HType)
	}
	time.Sleep(time.Hour)
	var cs, ss *c04Store
	if v.Resumed {
		cs, ss = newC04Store(), newC04Store()
		c0, s0 := v.configs(cs, ss)
		lab0 := newLab(t, c0, s0)
		lab0.Pump.run(lab0.bothDone, 60*time.Second)
		if !lab0.established() {
			t.Fatalf("seeding session failed: %v %v", lab0.Client.Err, lab0.Server.Err)
		}
		lab0.close()
	}
	ccfg, scfg := v.configs(cs, ss)
	lab := newLab(t, ccfg, scfg)
	defer lab.close()
	next := 0
	c04Pump(lab, &obs, v, mut, &next, lab.bothDone, 45*time.Second)
	// a side that returned nil may still be told otherwise by a late alert: let the dust settle
	c04Pump(lab, &obs, v, mut, &next, func() bool { return false }, 2*time.Second)
	obs.CRes, obs.CErr = c04Class(lab.Client)
	obs.SRes, obs.SErr = c04Class(lab.Server)
	if obs.Storm || os.Getenv("C04_TRACE") != "" {
		all := lab.Net.since(0)
		if os.Getenv("C04_TRACE") != "" {
			if len(all) > 60 {
				all = all[:60]
			}
			for _, d := range all {
				line := fmt.Sprintf("%d %s %dms len=%d:", d.Idx, d.From, d.T.Milliseconds(), len(d.Data))
				for _, r := range vParseDatagram(d.Data, v.cidLen()) {
					line += fmt.Sprintf(" [ct=%d e=%d ht=%d ms=%d uni=%v]", r.CT, r.Epoch, r.HType, r.MsgSeq, r.Uni)
				}
				fmt.Println(line)
			}
		}
		for _, d := range all[max(0, len(all)-8):] {
			obs.Tail = append(obs.Tail, fmt.Sprintf("%s:%02x:%d@%dms", d.From, d.Data[0], len(d.Data), d.T.Milliseconds()))
		}
	}
	for _, d := range lab.Net.since(0) {
		for _, r := range vParseDatagram(d.Data, v.cidLen()) {
			if r.CT == int(protocol.ContentTypeAlert) && r.Epoch == 0 && !r.Uni && len(r.Raw) >= 15 {
				obs.Wire = append(obs.Wire, c03WireAlert{From: d.From, Level: int(r.Raw[13]), Desc: int(r.Raw[14])})
			}
		}
	}
	obs.CAlert = c04LocalAlert(lab.Client, lab.Server, obs.Wire)
	obs.SAlert = c04LocalAlert(lab.Server, lab.Client, obs.Wire)
	for _, p := range []*vPeer{lab.Client, lab.Server} {
		if p.handshakeDone() && p.Err == nil {
			if st, ok := p.Conn.ConnectionState(); ok {
				prof, _ := p.Conn.SelectedSRTPProtectionProfile()
				ems, curve := -1, -1
				if st12, err := dtlsstate.As12(p.Conn.state); err == nil {
					ems, curve = 0, int(st12.NamedCurve)
					if st12.ExtendedMasterSecret {
						ems = 1
					}
				}
				if p.Name == "client" {
					obs.CEMS, obs.CCurve = ems, curve
					if len(st.PeerCertificates) > 0 {
						h := sha256.Sum256(st.PeerCertificates[0])
						obs.CPeerCert = hex.EncodeToString(h[:8])
					}
				} else {
					obs.SEMS, obs.SCurve = ems, curve
					if st12, err := dtlsstate.As12(p.Conn.state); err == nil {
						obs.SSNI, obs.SSigCert = st12.ServerName, len(st12.RemoteCertSignatureSchemes)
					}
				}
				if p.Name == "client" {
					obs.CSuite, obs.CALPN, obs.CSRTP = int(st.CipherSuiteID), st.NegotiatedProtocol, int(prof)
				} else {
					obs.SSuite, obs.SALPN, obs.SSRTP = int(st.CipherSuiteID), st.NegotiatedProtocol, int(prof)
				}
			}
			p.startReader()
			_, _ = p.Conn.Write([]byte("data-from-" + p.Name))
		}
	}
	c04Pump(lab, &obs, v, nil, &next, func() bool { return false }, 2*time.Second)
	obs.CReads, obs.SReads = len(lab.Client.reads()), len(lab.Server.reads())

	return obs
}

// quick tier: the split schedule is run for a representative subset of the mutations (thorough: all)
var c04SplitQuick = map[string]bool{ //nolint:gochecknoglobals
	"ch_add_sni": true, "ch_add_sni@ch1": true, "ch_add_alpn@ch1": true, "ch_add_ems@ch1": true,
	"ch_strip_ems": true, "ch_narrow_alpn": true, "ch_narrow_groups": true, "ch_session_id": true, "ch_flip_random": true,
	"ch_swap_suites": true, "ch_strip_ems@ch1": true, "ch_narrow_alpn@ch2": true,
	"sh_alter_alpn": true, "sh_strip_ems": true, "sh_session_id": true, "sh_flip_random": true,
	"scert_flip_last": true, "ske_sig": true, "ske_hint": true, "creq_alter_ca": true,
	"cke_identity": true, "cke_pubkey": true, "cv_sig": true, "cv_delete": true, "hvr_version_10": true,
}

func TestVerifC04(t *testing.T) {
	out := newVOut(t)
	muts := c04Muts()
	only := os.Getenv("C04_ONLY") // "variant:mutation[:split|:plain]" (debugging / replay)
	onlySched := ""
	if parts := strings.Split(only, ":"); len(parts) == 3 {
		only, onlySched = parts[0]+":"+parts[1], parts[2]
	}
	for _, v := range c04Variants() {
		v := v
		if only != "" && !strings.HasPrefix(only, v.Name+":") {
			continue
		}
		var base c04Obs
		vBubble(t, func(t *testing.T) { base = runC04(t, v, nil) })
		base.BaseSuite, base.BaseALPN, base.BaseSRTP = base.CSuite, base.CALPN, base.CSRTP
		base.BaseEMS, base.BaseCurve = base.SEMS, base.SCurve
		base.BasePeerCert, base.BaseSNI, base.BaseSigCert = base.CPeerCert, base.SSNI, base.SSigCert
		out.emit(base)
		// every ClientHello mutation has three targets: every copy, only the first (cookie-less) ClientHello,
		// only the second (the one the Finished messages cover)
		var all []c04Mut
		for _, m := range muts {
			all = append(all, m)
			if m.HType == handshake.TypeClientHello && m.Occ == 0 && !v.Resumed {
				m1, m2 := m, m
				m1.Name, m1.Occ = m.Name+"@ch1", 1
				m2.Name, m2.Occ = m.Name+"@ch2", 2
				all = append(all, m1, m2)
			}
		}
		muts := all
		for i := range muts {
			m := &muts[i]
			is13 := len(m.Name) > 4 && (m.Name[:4] == "ch13" || m.Name[:4] == "sh13")
			if is13 && v.Ver != 13 {
				continue
			}
			if v.Ver == 13 && m.HType != handshake.TypeClientHello && m.HType != handshake.TypeServerHello {
				continue
			}
			if only != "" && only != v.Name+":"+m.Name && only != v.Name+":" {
				continue
			}
			for _, sched := range []string{"", "split"} {
				if sched == "split" && !vIsThorough() && !c04SplitQuick[m.Name] && onlySched != "split" {
					continue
				}
				if onlySched != "" && onlySched != sched && !(onlySched == "plain" && sched == "") {
					continue
				}
				var obs c04Obs
				vBubble(t, func(t *testing.T) { obs = runC04(t, v, m, sched) })
				if obs.Applied == 0 {
					continue // the variant has no such message / field
				}
				obs.BaseSuite, obs.BaseALPN, obs.BaseSRTP = base.CSuite, base.CALPN, base.CSRTP
				obs.BaseEMS, obs.BaseCurve = base.SEMS, base.SCurve
				obs.BasePeerCert, obs.BaseSNI, obs.BaseSigCert = base.CPeerCert, base.SSNI, base.SSigCert
				if at := strings.Index(m.Name, "@"); at >= 0 {
					obs.Target = m.Name[at+1:]
				}
				out.emit(obs)
			}
		}
		// the split schedule alone must not disturb an untampered handshake
		if onlySched == "" || onlySched == "split" {
			if only == "" || only == v.Name+":" {
				var sb c04Obs
				vBubble(t, func(t *testing.T) { sb = runC04(t, v, nil, "split") })
				sb.BaseSuite, sb.BaseALPN, sb.BaseSRTP = base.CSuite, base.CALPN, base.CSRTP
				sb.BaseEMS, sb.BaseCurve = base.SEMS, base.SCurve
				sb.BasePeerCert, sb.BaseSNI, sb.BaseSigCert = base.CPeerCert, base.SSNI, base.SSigCert
				out.emit(sb)
			}
		}
	}
}
