//go:build verif

package dtls

// C05 leg "hsinject": forged records injected WHILE THE HANDSHAKE RUNS.
//
// For DTLS 1.2 (with / without connection IDs) and DTLS 1.3, towards the client and towards the
// server, after every datagram of the handshake (point 0 = before the first one) ONE forged datagram
// is put on the wire with the peer's address as source: unprotected (epoch 0) application_data,
// epoch-0 records of other content types whose body is an application payload, records that claim a
// protected epoch with a garbage body.  The handshake is then completed, the peer Writes k payloads
// and everything Conn.Read returns on the target is recorded.  The monitor (checks/c05.py) demands
// that the reads map 1-1 into the writes: anything else was never written by the peer.

import (
	"encoding/binary"
	"fmt"
	"testing"
	"testing/synctest"
	"time"
)

type c05hiInj struct {
	Kind  string `json:"kind"`  // class of the forged record
	CT    int    `json:"ct"`    // outer content type (first byte for a unified header)
	Epoch int    `json:"epoch"` // epoch claimed
	Seq   uint64 `json:"seq"`   // sequence number claimed
	Ver   string `json:"ver"`   // record version bytes (hex), "" for a unified header
	PKind string `json:"pkind"` // which payload
	PHex  string `json:"payload"`
	Hex   string `json:"hex"` // the whole datagram
	raw   []byte
}

type c05hiCase struct {
	Leg     string   `json:"leg"`
	Variant string   `json:"variant"`
	Version string   `json:"version"`
	Target  string   `json:"target"`
	Point   int      `json:"point"`  // injected after this many datagrams of the handshake were delivered
	Points  int      `json:"points"` // datagrams of the undisturbed handshake
	After   string   `json:"after"`  // description of the datagram delivered just before the injection
	Inj     c05hiInj `json:"inj"`
	HS      string   `json:"hs"` // ok | failed: ...
	Writes  []string `json:"writes"`
	Reads   []string `json:"reads"`
	ReadErr string   `json:"read_err"`
}

func c05hiRec12(ct byte, ver [2]byte, epoch uint16, seq uint64, cid, body []byte) []byte {
	b := []byte{ct, ver[0], ver[1], byte(epoch >> 8), byte(epoch)}
	var s [8]byte
	binary.BigEndian.PutUint64(s[:], seq)
	b = append(b, s[2:]...)
	b = append(b, cid...)
	b = append(b, byte(len(body)>>8), byte(len(body)))

	return append(b, body...)
}

// DTLS 1.3 unified header 001CSLEE with 16-bit sequence number and length
func c05hiRec13(epoch int, seq uint16, cid, body []byte) []byte {
	first := byte(0x2c | (epoch & 3))
	if len(cid) > 0 {
		first |= 0x10
	}
	b := []byte{first}
	b = append(b, cid...)
	b = append(b, byte(seq>>8), byte(seq), byte(len(body)>>8), byte(len(body)))

	return append(b, body...)
}

type c05hiVariant struct {
	c05Variant
	Version string
}

func c05hiVariants() []c05hiVariant {
	return []c05hiVariant{
		{c05Variant{Name: "psk-aes128-gcm", Suite: TLS_PSK_WITH_AES_128_GCM_SHA256, PSK: true}, "1.2"},
		{c05Variant{Name: "ecdsa-aes128-gcm", Suite: TLS_ECDHE_ECDSA_WITH_AES_128_GCM_SHA256}, "1.2"},
		{c05Variant{Name: "psk-aes128-gcm-cid", Suite: TLS_PSK_WITH_AES_128_GCM_SHA256, PSK: true, CCID: 4, SCID: 6}, "1.2"},
		{c05Variant{Name: "ecdsa-aes256-cbc-sha-cid", Suite: TLS_ECDHE_ECDSA_WITH_AES_256_CBC_SHA, CCID: 3, SCID: 3}, "1.2"},
		{c05Variant{Name: "v13-aes128-gcm", Suite: TLS_AES_128_GCM_SHA256, V13: true}, "1.3"},
		{c05Variant{Name: "v13-aes128-gcm-cid", Suite: TLS_AES_128_GCM_SHA256, V13: true, CCID: 4, SCID: 3}, "1.3"},
	}
}

// the connection IDs are fixed so that the forger can address records to the target
func (v c05hiVariant) hiConfigs(ccid, scid []byte) (*dtlsConfig, *dtlsConfig) {
	c, s := v.configs()
	if v.CCID > 0 {
		c.ConnectionIDGenerator = func() []byte { return append([]byte(nil), ccid...) }
	}
	if v.SCID > 0 {
		s.ConnectionIDGenerator = func() []byte { return append([]byte(nil), scid...) }
	}

	return c, s
}

type c05hiPayload struct {
	kind string
	data []byte
}

// every forged datagram tried at one injection point
func c05hiInjections(v c05hiVariant, targetCID []byte, pls []c05hiPayload, rng *vRand, thorough bool) []c05hiInj {
	var out []c05hiInj
	v12 := [2]byte{0xfe, 0xfd}
	v10 := [2]byte{0xfe, 0xff}
	add := func(kind string, ct, epoch int, seq uint64, ver string, pl c05hiPayload, raw []byte) {
		out = append(out, c05hiInj{
			Kind: kind, CT: ct, Epoch: epoch, Seq: seq, Ver: ver, PKind: pl.kind, PHex: vHex(pl.data), Hex: vHex(raw),
			raw: append([]byte(nil), raw...),
		})
	}
	seqs := []uint64{40}
	if thorough {
		seqs = []uint64{0, 1, 2, 5, 40, 1 << 40}
	}
	for _, pl := range pls {
		for _, q := range seqs {
			// unprotected application data
			add("app-epoch0", 23, 0, q, "fefd", pl, c05hiRec12(23, v12, 0, q, nil, pl.data))
		}
		add("app-epoch0-v10", 23, 0, 3, "feff", pl, c05hiRec12(23, v10, 0, 3, nil, pl.data))
		// two unprotected records in one datagram
		two := append(c05hiRec12(23, v12, 0, 7, nil, pl.data), c05hiRec12(23, v12, 0, 8, nil, pl.data)...)
		add("app-epoch0-x2", 23, 0, 7, "fefd", pl, two)
		// unprotected records of other types whose body is the payload (22 handshake, 20 ccs, 26 ack,
		// 25 tls12_cid with the inner type appended, 24 heartbeat, 21 alert with a non-alert body)
		for _, ct := range []int{22, 20, 26, 24, 21} {
			add(fmt.Sprintf("type%d-epoch0", ct), ct, 0, 41, "fefd", pl, c05hiRec12(byte(ct), v12, 0, 41, nil, pl.data))
		}
		inner := append(append([]byte(nil), pl.data...), 23)
		add("cid-epoch0", 25, 0, 42, "fefd", pl, c05hiRec12(25, v12, 0, 42, targetCID, inner))
		// records that claim a protected epoch; the body is the payload followed by random bytes (no key made it)
		garb := append(append([]byte(nil), pl.data...), rng.bytes(24)...)
		for _, e := range []int{1, 2, 3} {
			add(fmt.Sprintf("app-epoch%d-garbage", e), 23, e, 0, "fefd", pl, c05hiRec12(23, v12, uint16(e), 0, nil, garb))
		}
		if len(targetCID) > 0 {
			add("cid-epoch1-garbage", 25, 1, 0, "fefd", pl, c05hiRec12(25, v12, 1, 0, targetCID, garb))
		}
		if v.V13 {
			for _, e := range []int{2, 3} {
				add(fmt.Sprintf("uni-epoch%d-garbage", e), 0x2c|e, e, 0, "", pl, c05hiRec13(e, 0, nil, garb))
			}
			if len(targetCID) > 0 {
				add("uni-cid-epoch3-garbage", 0x3c|3, 3, 0, "", pl, c05hiRec13(3, 0, targetCID, garb))
			}
		}
	}

	return out
}

func c05hiDescribe(d vDatagram, cidLen int) string {
	s := d.From + ">"
	for _, r := range vParseDatagram(d.Data, cidLen) {
		if r.Uni {
			s += fmt.Sprintf(" uni%02x", r.CT)

			continue
		}
		s += fmt.Sprintf(" ct%d/e%d", r.CT, r.Epoch)
		if r.HType >= 0 {
			s += fmt.Sprintf("/hs%d", r.HType)
		}
	}

	return s
}

// one run: handshake with `inj` delivered to `target` after `point` datagrams; returns the case
func c05hiRun(t *testing.T, v c05hiVariant, ccid, scid []byte, target string, point int, inj *c05hiInj,
	writes [][]byte,
) (res c05hiCase, delivered int) {
	t.Helper()
	ccfg, scfg := v.hiConfigs(ccid, scid)
	lab := newLab(t, ccfg, scfg)
	defer lab.close()
	res = c05hiCase{Leg: "hsinject", Variant: v.Name, Version: v.Version, Target: target, Point: point}
	from := lab.other(target).Name
	cidLen := len(ccid)
	if len(scid) > cidLen {
		cidLen = len(scid)
	}
	fire := func() {
		if inj != nil {
			lab.Net.deliver(target, from, inj.raw)
		}
	}
	if inj != nil {
		res.Inj = *inj
	}
	done := false
	if point == 0 {
		res.After = "(nothing)"
		fire()
		done = true
		synctest.Wait()
	}
	lab.Pump.OnDeliver = func(d vDatagram) {
		if !done && !lab.bothDone() && lab.Pump.Delivered == point {
			done = true
			res.After = c05hiDescribe(d, cidLen)
			synctest.Wait()
			fire()
		}
	}
	lab.Pump.run(lab.bothDone, 120*time.Second)
	delivered = lab.Pump.Delivered
	if !lab.established() {
		res.HS = fmt.Sprintf("failed: client=%s server=%s", vErrString(lab.Client.Err), vErrString(lab.Server.Err))
		if !lab.bothDone() {
			res.HS = "failed: did not complete"
		}

		return res, delivered
	}
	res.HS = "ok"
	if !done {
		// the handshake needed fewer datagrams than the injection point: deliver now (established target)
		res.After = "(handshake complete)"
		fire()
		synctest.Wait()
	}
	tp, sp := lab.peer(target), lab.other(target)
	tp.startReader()
	synctest.Wait()
	for _, w := range writes {
		res.Writes = append(res.Writes, vHex(w))
		if _, err := sp.Conn.Write(w); err != nil {
			res.HS = "failed: write " + vErrString(err)

			return res, delivered
		}
		lab.Pump.run(func() bool { return false }, 20*time.Millisecond)
	}
	lab.Pump.run(func() bool { return false }, 300*time.Millisecond)
	synctest.Wait()
	res.Reads = []string{}
	for _, r := range tp.reads() {
		res.Reads = append(res.Reads, vHex(r))
	}
	if err := tp.readErr(); err != nil {
		res.ReadErr = vErrString(err)
	}

	return res, delivered
}

func TestVerifC05HsInject(t *testing.T) {
	out := newVOut(t)
	rng := newVRand(vSeed() ^ 0xc05f)
	k := 3
	for _, v := range c05hiVariants() {
		v := v
		ccid, scid := rng.bytes(v.CCID), rng.bytes(v.SCID)
		writes := make([][]byte, k)
		for i := range writes {
			writes[i] = append([]byte(fmt.Sprintf("genuine-%d-", i)), rng.bytes(5+rng.intn(40))...)
		}
		pls := []c05hiPayload{
			{"forged-text", []byte("FORGED: never written by the peer")},
			{"same-as-write0", writes[0]},
		}
		if vIsThorough() {
			pls = append(pls, c05hiPayload{"one-byte", []byte{0x17}}, c05hiPayload{"big", rng.bytes(1100)},
				c05hiPayload{"empty", nil})
		}
		// undisturbed handshake: how many datagrams it takes
		points := 0
		vBubble(t, func(t *testing.T) {
			var res c05hiCase
			res, points = c05hiRun(t, v, ccid, scid, "client", -1, nil, writes)
			res.Points = points
			out.emit(res)
		})
		if points == 0 {
			t.Fatalf("variant %s: undisturbed handshake failed", v.Name)
		}
		for _, target := range []string{"client", "server"} {
			tcid := ccid
			if target == "server" {
				tcid = scid
			}
			injs := c05hiInjections(v, tcid, pls, rng, vIsThorough())
			for point := 0; point <= points; point++ {
				point := point
				vBubble(t, func(t *testing.T) {
					for i := range injs {
						res, _ := c05hiRun(t, v, ccid, scid, target, point, &injs[i], writes)
						res.Points = points
						out.emit(res)
					}
				})
			}
		}
	}
}
