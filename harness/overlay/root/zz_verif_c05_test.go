//go:build verif

package dtls

import (
	"strings"
	"errors"
	"fmt"
	"io"
	"testing"
	"testing/synctest"
	"time"

	dtlsstate "github.com/pion/dtls/v3/internal/state"
	"github.com/pion/dtls/v3/pkg/protocol"
	"github.com/pion/dtls/v3/pkg/protocol/alert"
	"github.com/pion/dtls/v3/pkg/protocol/handshake"
	"github.com/pion/dtls/v3/pkg/protocol/recordlayer"
)

// ---- helpers private to the C05 harness (prefix c05)

func c05Establish(t *testing.T, ccfg, scfg *dtlsConfig) *vLab {
	t.Helper()
	lab := newLab(t, ccfg, scfg)
	lab.Pump.run(lab.bothDone, 200*time.Second)
	if !lab.established() {
		t.Fatalf("handshake failed: client=%v server=%v", lab.Client.Err, lab.Server.Err)
	}

	return lab
}

func c05Capture(lab *vLab, from string, payloads [][]byte) []vDatagram {
	synctest.Wait()
	start := lab.Net.count()
	p := lab.peer(from)
	for _, pl := range payloads {
		if _, err := p.Conn.Write(pl); err != nil {
			panic(fmt.Sprintf("capture write: %v", err))
		}
	}
	synctest.Wait()
	var out []vDatagram
	for _, d := range lab.Net.since(start) {
		if d.From == from {
			out = append(out, d)
		}
	}
	lab.Pump.next = lab.Net.count()

	return out
}

// reader that keeps reading after non-terminal errors
type c05Reader struct {
	peer *vPeer
	evs  chan struct{}
}

type c05ReadEvent struct {
	payload []byte
	err     string
}

func c05StartReader(p *vPeer, sink *[]c05ReadEvent) {
	go func() {
		buf := make([]byte, 65536)
		for {
			n, err := p.Conn.Read(buf)
			p.rmu.Lock()
			if err != nil {
				*sink = append(*sink, c05ReadEvent{err: vErrString(err)})
			} else {
				*sink = append(*sink, c05ReadEvent{payload: append([]byte(nil), buf[:n]...)})
			}
			p.rmu.Unlock()
			if err != nil && (errors.Is(err, io.EOF) || errors.Is(err, ErrConnClosed)) {
				return
			}
		}
	}()
}

type c05Variant struct {
	Name    string
	Suite   CipherSuiteID
	PSK     bool
	CCID    int // client CID length (the receiver in these scripts is the client)
	SCID    int
	Padding bool
	V13     bool
}

func c05Variants() []c05Variant {
	return []c05Variant{
		{Name: "ecdsa-aes128-gcm", Suite: TLS_ECDHE_ECDSA_WITH_AES_128_GCM_SHA256},
		{Name: "ecdsa-aes256-gcm", Suite: TLS_ECDHE_ECDSA_WITH_AES_256_GCM_SHA384},
		{Name: "ecdsa-aes128-ccm", Suite: TLS_ECDHE_ECDSA_WITH_AES_128_CCM},
		{Name: "ecdsa-aes128-ccm8", Suite: TLS_ECDHE_ECDSA_WITH_AES_128_CCM_8},
		{Name: "ecdsa-aes256-cbc-sha", Suite: TLS_ECDHE_ECDSA_WITH_AES_256_CBC_SHA},
		{Name: "ecdsa-chacha20", Suite: TLS_ECDHE_ECDSA_WITH_CHACHA20_POLY1305_SHA256},
		{Name: "psk-aes128-cbc-sha256", Suite: TLS_PSK_WITH_AES_128_CBC_SHA256, PSK: true},
		{Name: "psk-aes128-gcm", Suite: TLS_PSK_WITH_AES_128_GCM_SHA256, PSK: true},
		{Name: "psk-aes128-ccm8", Suite: TLS_PSK_WITH_AES_128_CCM_8, PSK: true},
		{Name: "psk-chacha20", Suite: TLS_PSK_WITH_CHACHA20_POLY1305_SHA256, PSK: true},
		{Name: "psk-aes128-gcm-cid", Suite: TLS_PSK_WITH_AES_128_GCM_SHA256, PSK: true, CCID: 4, SCID: 6},
		{Name: "psk-aes128-gcm-cid-pad", Suite: TLS_PSK_WITH_AES_128_GCM_SHA256, PSK: true, CCID: 8, SCID: 0, Padding: true},
		{Name: "psk-aes128-cbc-cid", Suite: TLS_PSK_WITH_AES_128_CBC_SHA256, PSK: true, CCID: 5, SCID: 5},
		{Name: "psk-chacha20-cid", Suite: TLS_PSK_WITH_CHACHA20_POLY1305_SHA256, PSK: true, CCID: 3, SCID: 1},
		{Name: "ecdsa-aes128-ccm-cid", Suite: TLS_ECDHE_ECDSA_WITH_AES_128_CCM, CCID: 2, SCID: 2},
		// DTLS 1.3 AEADs (unified record header): covered by the implementation-side monitors only
		{Name: "v13-aes128-gcm", Suite: TLS_AES_128_GCM_SHA256, V13: true},
		{Name: "v13-aes256-gcm", Suite: TLS_AES_256_GCM_SHA384, V13: true},
		{Name: "v13-chacha20", Suite: TLS_CHACHA20_POLY1305_SHA256, V13: true},
		{Name: "v13-aes128-gcm-cid", Suite: TLS_AES_128_GCM_SHA256, V13: true, CCID: 4, SCID: 3},
	}
}

func (v c05Variant) configs() (*dtlsConfig, *dtlsConfig) {
	var c, s *dtlsConfig
	if v.PSK {
		c, s = vPSKPair(v.Suite)
	} else {
		c, s = vCertPair()
		c.CipherSuites = []CipherSuiteID{v.Suite}
		s.CipherSuites = []CipherSuiteID{v.Suite}
	}
	if v.V13 {
		c.MinVersion, c.MaxVersion = protocol.Version1_3, protocol.Version1_3
		s.MinVersion, s.MaxVersion = protocol.Version1_3, protocol.Version1_3
	}
	if v.CCID > 0 || v.SCID > 0 {
		c.ConnectionIDGenerator = RandomCIDGenerator(v.CCID)
		s.ConnectionIDGenerator = RandomCIDGenerator(v.SCID)
		if v.CCID == 0 {
			c.ConnectionIDGenerator = OnlySendCIDGenerator()
		}
		if v.SCID == 0 {
			s.ConnectionIDGenerator = OnlySendCIDGenerator()
		}
	}
	if v.Padding {
		c.PaddingLengthGenerator = func(l uint) uint { return (16 - l%16) % 16 }
		s.PaddingLengthGenerator = func(l uint) uint { return (16 - l%16) % 16 }
	}

	return c, s
}

type c05Wire struct {
	Kind    string `json:"kind"`    // genuine | mutant | splice
	Mut     string `json:"mut"`     // description of the mutation
	Decod   bool   `json:"decod"`   // datagram splits into records and the header parses
	CT      int    `json:"ct"`      // outer content type claimed
	Epoch   int    `json:"epoch"`   // epoch claimed
	Seq     uint64 `json:"seq"`     // sequence number claimed
	CID     string `json:"cid"`     // cid on the wire (hex) for tls12_cid headers
	Payload int    `json:"payload"` // index of the payload for genuine records
	Clear   string `json:"clear"`   // content class when taken as cleartext: app|alert:l:d|ccs|hs|ack|rrc|bad
	Hex     string `json:"hex"`
}

type c05Obs struct {
	Delivered int    `json:"delivered"` // payload index read, -1 none, -2 unknown payload
	Emitted   int    `json:"emitted"`   // datagrams written by the receiver
	Alert     bool   `json:"alert"`     // an alert record among them
	ReadErr   string `json:"read_err"`
	Closed    bool   `json:"closed"`
}

type c05Case struct {
	Kind     string    `json:"kind"`
	Variant  string    `json:"variant"`
	W        int       `json:"w"`
	CID      string    `json:"cid"` // receiver's own connection id
	Pre      [][3]uint64 `json:"pre"` // (epoch, seq, content type) of every record the handshake delivered to the receiver
	Arrivals []c05Wire `json:"arrivals"`
	Obs      []c05Obs  `json:"obs"`
}

func c05ClearClass(rec []byte) string {
	r := &recordlayer.RecordLayer{}
	if err := r.Unmarshal(rec); err != nil {
		return "bad"
	}
	switch c := r.Content.(type) {
	case *protocol.ApplicationData:
		return "app"
	case *alert.Alert:
		return fmt.Sprintf("alert:%d:%d", c.Level, c.Description)
	case *protocol.ChangeCipherSpec:
		return "ccs"
	case *handshake.Handshake:
		return "hs"
	case *protocol.ACK:
		return "ack"
	case *protocol.ReturnRoutabilityCheck:
		return "rrc"
	}

	return "bad"
}

// classify a datagram the way conn.go frames it: records and claimed header fields.
func c05Classify(data []byte, cidLen int, kind, mut string, payload int) []c05Wire {
	if len(data) > 0 && protocol.IsDTLS13Ciphertext(protocol.ContentType(data[0])) {
		// parsed by the DTLS 1.3 unified-header path, which a DTLS 1.2 session has no keys for
		return []c05Wire{{Kind: kind, Mut: mut + ":uni13", Decod: false, Payload: payload, Hex: vHex(data)}}
	}
	pkts, err := recordlayer.ContentAwareUnpackDatagram(data, cidLen)
	if err != nil || len(pkts) == 0 {
		return []c05Wire{{Kind: kind, Mut: mut, Decod: false, Payload: payload, Hex: vHex(data)}}
	}
	var out []c05Wire
	for _, p := range pkts {
		h := &recordlayer.Header{}
		if cidLen > 0 {
			h.ConnectionID = make([]byte, cidLen)
		}
		if err := h.Unmarshal(p); err != nil {
			out = append(out, c05Wire{Kind: kind, Mut: mut, Decod: false, Payload: payload, Hex: vHex(p)})

			continue
		}
		w := c05Wire{
			Kind: kind, Mut: mut, Decod: true, CT: int(h.ContentType), Epoch: int(h.Epoch),
			Seq: h.SequenceNumber, CID: vHex(h.ConnectionID), Payload: payload, Hex: vHex(p),
		}
		if h.Epoch == 0 || h.ContentType == protocol.ContentTypeChangeCipherSpec {
			w.Clear = c05ClearClass(p)
		}
		out = append(out, w)
	}

	return out
}

func c05Mutants(rng *vRand, raw []byte, cidLen int, other []byte, budget int) (muts [][]byte, names []string) {
	add := func(name string, b []byte) {
		muts = append(muts, b)
		names = append(names, name)
	}
	clone := func() []byte { return append([]byte(nil), raw...) }
	hdr := recordlayer.FixedHeaderSize
	if raw[0] == byte(protocol.ContentTypeConnectionID) {
		hdr += cidLen
	}
	// every single-bit flip of the header
	for i := 0; i < hdr*8; i++ {
		m := clone()
		m[i/8] ^= 1 << (i % 8)
		add(fmt.Sprintf("hdrbit:%d", i), m)
	}
	// bit flips in the first and last bytes of the body (explicit nonce / IV / tag / MAC / padding)
	body := len(raw) - hdr
	for _, off := range []int{0, 1, 7, 8, body / 2, body - 17, body - 16, body - 9, body - 8, body - 2, body - 1} {
		if off < 0 || off >= body {
			continue
		}
		m := clone()
		m[hdr+off] ^= 1 << uint(rng.intn(8))
		add(fmt.Sprintf("bodybit:%d", off), m)
	}
	// field rewrites
	for ct := 20; ct <= 27; ct++ {
		if byte(ct) != raw[0] {
			m := clone()
			m[0] = byte(ct)
			add(fmt.Sprintf("ctype:%d", ct), m)
		}
	}
	for _, v := range [][2]byte{{254, 255}, {254, 252}, {3, 3}, {254, 253}} {
		if raw[1] != v[0] || raw[2] != v[1] {
			m := clone()
			m[1], m[2] = v[0], v[1]
			add(fmt.Sprintf("version:%d.%d", v[0], v[1]), m)
		}
	}
	for _, e := range []uint16{0, 2, 3, 0xffff} {
		m := clone()
		m[3], m[4] = byte(e>>8), byte(e)
		add(fmt.Sprintf("epoch:%d", e), m)
	}
	seqOf := func(b []byte) uint64 {
		var s uint64
		for _, x := range b[5:11] {
			s = s<<8 | uint64(x)
		}

		return s
	}
	for _, d := range []int64{-1, 1, 2, 64, 1000} {
		s := int64(seqOf(raw)) + d
		if s < 0 {
			continue
		}
		m := clone()
		for i := 0; i < 6; i++ {
			m[10-i] = byte(uint64(s) >> (8 * uint(i)))
		}
		add(fmt.Sprintf("seq:%+d", d), m)
	}
	// length / truncation / extension
	lenIdx := hdr - 2
	cl := int(raw[lenIdx])<<8 | int(raw[lenIdx+1])
	setLen := func(m []byte, l int) { m[lenIdx], m[lenIdx+1] = byte(l>>8), byte(l) }
	{
		m := clone()
		setLen(m, cl+1)
		add("len+1", m)
		m = clone()
		setLen(m, cl-1)
		add("len-1", m)
		m = append(clone(), byte(rng.intn(256)))
		setLen(m, cl+1)
		add("extend1", m)
		m = clone()[:len(raw)-1]
		setLen(m, cl-1)
		add("truncate1", m)
		m = clone()[:hdr]
		setLen(m, 0)
		add("emptybody", m)
		m = append(clone(), byte(rng.intn(256)))
		add("trailing-garbage", m)
	}
	// connection id edits
	if raw[0] == byte(protocol.ContentTypeConnectionID) && cidLen > 0 {
		m := clone()
		m[11+rng.intn(cidLen)] ^= 0xff
		add("cid-alter", m)
		// remove the CID: plain header with the real outer type kept
		m = append(append([]byte(nil), raw[:11]...), raw[11+cidLen:]...)
		add("cid-remove", m)
	} else {
		// insert a 4-byte CID and claim tls12_cid
		m := append(append(append([]byte(nil), raw[:11]...), 1, 2, 3, 4), raw[11:]...)
		m[0] = byte(protocol.ContentTypeConnectionID)
		add("cid-insert", m)
	}
	if other != nil {
		add("splice-other-session", append([]byte(nil), other...))
	}
	// well-formed UNPROTECTED records (epoch 0, fresh sequence numbers) on the established connection:
	// alerts (fatal, close_notify, warning) and an ACK must change nothing
	for i, body := range [][]byte{{2, 80}, {1, 0}, {1, 90}, {2, 0}} {
		m := []byte{21, 254, 253, 0, 0, 0, 0, 0, 0x20, 0, byte(rng.intn(250)), byte(i), 0, 2}
		add(fmt.Sprintf("plain-alert:%d:%d", body[0], body[1]), append(m, body...))
	}
	add("plain-ack", []byte{26, 254, 253, 0, 0, 0, 0, 0, 0x21, 0, byte(rng.intn(250)), 0, 0, 2, 0, 0})
	// a ChangeCipherSpec with a valid body claiming the record's own (protected) epoch and a fresh,
	// far-future sequence number: never authenticated by any suite, must change nothing
	add("ccs-claims-epoch", []byte{20, 254, 253, raw[3], raw[4], 0xff, 0xff, 0xff, 0xff, 0xff, byte(0xf0 + rng.intn(15)), 0, 1, 1})
	add("plain-appdata", append([]byte{23, 254, 253, 0, 0, 0, 0, 0, 0x22, 0, byte(rng.intn(250)), 0, 0, 3}, 1, 2, 3))
	// sample down to the budget, keeping order
	if budget > 0 && len(muts) > budget {
		keep := map[int]bool{}
		for len(keep) < budget {
			keep[rng.intn(len(muts))] = true
		}
		var m2 [][]byte
		var n2 []string
		for i := range muts {
			if keep[i] {
				m2 = append(m2, muts[i])
				n2 = append(n2, names[i])
			}
		}
		muts, names = m2, n2
	}

	return muts, names
}

// mutations of a DTLS 1.3 record (unified header: flags, optional CID, 16-bit sequence, length)
func c05Mutants13(rng *vRand, raw []byte, cidLen int, other []byte, budget int) (muts [][]byte, names []string) {
	add := func(name string, b []byte) {
		muts = append(muts, b)
		names = append(names, name)
	}
	clone := func() []byte { return append([]byte(nil), raw...) }
	hdr := 1 + 2 + 2
	if raw[0]&recordlayer.UnifiedHeaderCIDBit != 0 {
		hdr += cidLen
	}
	if hdr > len(raw) {
		hdr = len(raw)
	}
	for i := 0; i < hdr*8; i++ {
		m := clone()
		m[i/8] ^= 1 << (i % 8)
		add(fmt.Sprintf("hdrbit:%d", i), m)
	}
	body := len(raw) - hdr
	for _, off := range []int{0, 1, 7, 15, body / 2, body - 17, body - 16, body - 9, body - 2, body - 1} {
		if off < 0 || off >= body {
			continue
		}
		m := clone()
		m[hdr+off] ^= 1 << uint(rng.intn(8))
		add(fmt.Sprintf("bodybit:%d", off), m)
	}
	add("truncate1", clone()[:len(raw)-1])
	add("extend1", append(clone(), byte(rng.intn(256))))
	if len(raw) > hdr+20 {
		add("truncate-half", clone()[:hdr+body/2])
	}
	if other != nil {
		add("splice-other-session", append([]byte(nil), other...))
	}
	if budget > 0 && len(muts) > budget {
		keep := map[int]bool{}
		for len(keep) < budget {
			keep[rng.intn(len(muts))] = true
		}
		var m2 [][]byte
		var n2 []string
		for i := range muts {
			if keep[i] {
				m2 = append(m2, muts[i])
				n2 = append(n2, names[i])
			}
		}
		muts, names = m2, n2
	}

	return muts, names
}

// c05CBCPaddingMutants: the genuine CBC record followed by two more ciphertext blocks Y, X. The
// last plaintext block is D(X) xor Y, so sweeping the last byte of Y makes the final plaintext byte
// (the padding length) take all 256 values: exactly one of them points the MAC at its genuine
// position. Every one of these records must be discarded (the padding bytes are wrong, or the MAC).
func c05CBCPaddingMutants(rng *vRand, raw []byte, cidLen int) (muts [][]byte, names []string) {
	hdr := recordlayer.FixedHeaderSize
	if raw[0] == byte(protocol.ContentTypeConnectionID) {
		hdr += cidLen
	}
	lenIdx := hdr - 2
	cl := int(raw[lenIdx])<<8 | int(raw[lenIdx+1])
	y, x := rng.bytes(16), rng.bytes(16)
	for k := 0; k < 256; k++ {
		m := append([]byte(nil), raw...)
		yy := append([]byte(nil), y...)
		yy[15] = byte(k)
		m = append(append(m, yy...), x...)
		m[lenIdx], m[lenIdx+1] = byte((cl+32)>>8), byte(cl+32)
		muts = append(muts, m)
		names = append(names, fmt.Sprintf("cbc-append2:%d", k))
	}
	// the same with the last genuine block replaced: D(last) xor prev, sweeping prev's last byte
	if cl >= 48 {
		for k := 0; k < 256; k++ {
			if byte(k) == raw[len(raw)-17] {
				continue // that is the genuine record
			}
			m := append([]byte(nil), raw...)
			m[len(m)-17] = byte(k)
			muts = append(muts, m)
			names = append(names, fmt.Sprintf("cbc-prev-last:%d", k))
		}
	}

	return muts, names
}

func runC05(t *testing.T, v c05Variant, rng *vRand, nPayloads, budget, w int) c05Case {
	t.Helper()
	ccfg, scfg := v.configs()
	ccfg.ReplayProtectionWindow, scfg.ReplayProtectionWindow = w, w
	lab := c05Establish(t, ccfg, scfg)
	defer lab.close()
	// a second session of the same variant, for splicing
	ccfg2, scfg2 := v.configs()
	lab2 := c05Establish(t, ccfg2, scfg2)
	defer lab2.close()

	common := dtlsstate.CommonState(lab.Client.Conn.state)
	localCID := common.LocalConnectionIDForInboundRecords()
	cidLen := len(localCID)
	res := c05Case{Kind: "c05", Variant: v.Name, W: w, CID: vHex(localCID)}
	for _, d := range lab.Net.since(0) {
		if d.From != "server" {
			continue
		}
		for _, r := range vParseDatagram(d.Data, cidLen) {
			res.Pre = append(res.Pre, [3]uint64{uint64(r.Epoch), r.Seq, uint64(r.CT)})
		}
	}
	payloads := make([][]byte, nPayloads)
	for i := range payloads {
		payloads[i] = append([]byte(fmt.Sprintf("c05-payload-%03d-", i)), rng.bytes(rng.intn(40))...)
	}
	caps := c05Capture(lab, "server", payloads)
	caps2 := c05Capture(lab2, "server", payloads)
	if len(caps) != nPayloads || len(caps2) != nPayloads {
		t.Fatalf("captured %d/%d datagrams for %d writes", len(caps), len(caps2), nPayloads)
	}
	var events []c05ReadEvent
	c05StartReader(lab.Client, &events)
	synctest.Wait()

	seenEv := 0
	arrive := func(data []byte, kind, mut string, payload int) {
		before := lab.Net.count()
		lab.Net.deliver("client", "server", data)
		synctest.Wait()
		obs := c05Obs{Delivered: -1}
		lab.Client.rmu.Lock()
		for ; seenEv < len(events); seenEv++ {
			ev := events[seenEv]
			if ev.err != "" {
				obs.ReadErr = ev.err

				continue
			}
			obs.Delivered = -2
			for i, pl := range payloads {
				if string(pl) == string(ev.payload) {
					obs.Delivered = i
				}
			}
		}
		lab.Client.rmu.Unlock()
		for _, d := range lab.Net.since(before) {
			if d.From == "client" {
				obs.Emitted++
				for _, r := range vParseDatagram(d.Data, 0) {
					if r.CT == int(protocol.ContentTypeAlert) || r.CT == int(protocol.ContentTypeConnectionID) {
						obs.Alert = true
					}
				}
			}
		}
		obs.Closed = lab.Client.Conn.isConnectionClosed()
		ws := c05Classify(data, cidLen, kind, mut, payload)
		// one observation per datagram: attach it to the first record, others get empty obs
		for i, wv := range ws {
			res.Arrivals = append(res.Arrivals, wv)
			if i == 0 {
				res.Obs = append(res.Obs, obs)
			} else {
				res.Obs = append(res.Obs, c05Obs{Delivered: -1, Closed: obs.Closed})
			}
		}
	}
	for i := range payloads {
		var muts [][]byte
		var names []string
		if v.V13 {
			muts, names = c05Mutants13(rng, caps[i].Data, cidLen, caps2[i].Data, budget)
		} else {
			muts, names = c05Mutants(rng, caps[i].Data, cidLen, caps2[i].Data, budget)
		}
		if i == 0 && !v.V13 && strings.Contains(v.Name, "cbc") {
			m2, n2 := c05CBCPaddingMutants(rng, caps[i].Data, cidLen)
			muts, names = append(muts, m2...), append(names, n2...)
		}
		for j := range muts {
			arrive(muts[j], "mutant", names[j], -1)
			if lab.Client.Conn.isConnectionClosed() {
				break
			}
		}
		arrive(caps[i].Data, "genuine", "", i)
	}
	// finally replay the first genuine record
	arrive(caps[0].Data, "genuine", "replay", 0)

	return res
}

func TestVerifC05(t *testing.T) {
	out := newVOut(t)
	rng := newVRand(vSeed() ^ 0xc05)
	variants := c05Variants()
	rounds, budget := 1, 70
	if vIsThorough() {
		rounds, budget = 12, 0
	}
	for r := 0; r < rounds; r++ {
		for _, v := range variants {
			v := v
			w := []int{64, 1, 128, 2}[rng.intn(4)]
			if r == 0 {
				w = 64
			}
			var res c05Case
			vBubble(t, func(t *testing.T) { res = runC05(t, v, rng, 2+rng.intn(2), budget, w) })
			out.emit(res)
		}
	}
}
