//go:build verif

package dtls

import (
	"fmt"
	"testing"
	"testing/synctest"
	"time"

	"github.com/pion/dtls/v3/pkg/protocol"
)

// Genuine early application data WITH network duplicates (DTLS 1.2). The sender of the final flight has
// completed its handshake and writes n payloads; those datagrams overtake its ChangeCipherSpec/Finished
// datagram, so the receiver queues them (future epoch), reads them back while it processes the final flight
// and parks them because its own handshake is not yet marked established. The network delivers copies of the
// very same datagrams
//   stage A: next to the original, while still queued,
//   stage B: right behind the final flight (no scheduling point in between: processed while/just after the
//            handshake completes),
//   stage C: after the receiver's handshake completed and a reader is running,
// followed by one fresh record. Monitor (checks/c06.py): Read returns every payload exactly once.

type c06EarlyDupCase struct {
	Kind     string   `json:"kind"`
	Variant  string   `json:"variant"`
	W        int      `json:"w"`
	N        int      `json:"n"`
	Receiver string   `json:"receiver"`
	Resumed  bool     `json:"resumed"`
	Plan     [][3]int `json:"plan"`    // per early record: copies in stage A, B, C
	Grouped  bool     `json:"grouped"` // stage A copies after all originals (else right behind their original)
	Arrivals []string `json:"arrivals"`
	After    []int    `json:"after"` // payload indices returned by Read, in order
	Extra    int      `json:"extra"`
	Done     bool     `json:"done"`
	Parked   int      `json:"parked"`
	Seqs     []uint64 `json:"seqs"`
	Notes    string   `json:"notes,omitempty"`
	Notes2   string   `json:"notes2,omitempty"`
}

func runC06EarlyDup(t *testing.T, variant string, w int, resumed bool, plan [][3]int, grouped bool) c06EarlyDupCase {
	t.Helper()
	n := len(plan)
	sender, receiver := "server", "client"
	if resumed {
		sender, receiver = "client", "server"
	}
	res := c06EarlyDupCase{Kind: "earlydup", Variant: variant, W: w, N: n, Receiver: receiver, Resumed: resumed,
		Plan: plan, Grouped: grouped, After: []int{}, Arrivals: []string{}}
	var lab *vLab
	if resumed {
		cs, ss := &c06Store{m: map[string]Session{}}, &c06Store{m: map[string]Session{}}
		mk := func() (*dtlsConfig, *dtlsConfig) {
			c, s := c06Variant(variant, w)
			c.sessionStore, s.sessionStore = cs, ss
			c.ServerName = "c06.verif"

			return c, s
		}
		c0, s0 := mk()
		lab0 := newLab(t, c0, s0)
		lab0.Pump.run(lab0.bothDone, 60*time.Second)
		if !lab0.established() {
			t.Fatalf("seeding session failed: %v %v", lab0.Client.Err, lab0.Server.Err)
		}
		lab0.close()
		ccfg, scfg := mk()
		lab = newLab(t, ccfg, scfg)
	} else {
		ccfg, scfg := c06Variant(variant, w)
		lab = newLab(t, ccfg, scfg)
	}
	defer lab.close()
	snd, rcv := lab.peer(sender), lab.peer(receiver)
	// records towards the receiver carry the connection ID the receiver chose
	cidLen := 0
	if variant == "psk-gcm-cid" {
		cidLen = 4
		if receiver == "server" {
			cidLen = 6
		}
	}
	payloads := make([][]byte, n+1)
	for i := range payloads {
		payloads[i] = []byte(fmt.Sprintf("payload-%04d", i))
	}
	next := 0
	var final []vDatagram
	deadline := time.Now().Add(60 * time.Second)
	for !snd.handshakeDone() && time.Now().Before(deadline) {
		synctest.Wait()
		batch := lab.Net.since(next)
		if len(batch) == 0 {
			time.Sleep(50 * time.Millisecond)

			continue
		}
		for _, d := range batch {
			next = d.Idx + 1
			isFinal := false
			if d.From == sender {
				for _, r := range vParseDatagram(d.Data, cidLen) {
					if r.CT == int(protocol.ContentTypeChangeCipherSpec) {
						isFinal = true
					}
				}
			}
			if isFinal {
				final = append(final, d)

				continue
			}
			lab.Net.deliver(d.To, d.From, d.Data)
			synctest.Wait()
		}
	}
	synctest.Wait()
	for _, d := range lab.Net.since(next) {
		next = d.Idx + 1
		if d.From == sender {
			final = append(final, d)
		}
	}
	if !snd.handshakeDone() || snd.Err != nil || len(final) == 0 || rcv.handshakeDone() {
		res.Notes = fmt.Sprintf("setup: %s done=%v err=%v final=%d, %s done=%v", sender, snd.handshakeDone(), snd.Err,
			len(final), receiver, rcv.handshakeDone())

		return res
	}
	early := vCapture(lab, sender, payloads[:n])
	if len(early) != n {
		res.Notes = fmt.Sprintf("setup: %d datagrams for %d writes", len(early), n)

		return res
	}
	for _, d := range early {
		rs := vParseDatagram(d.Data, cidLen)
		if len(rs) != 1 {
			res.Notes = fmt.Sprintf("setup: %d records in one early datagram", len(rs))

			return res
		}
		res.Seqs = append(res.Seqs, rs[0].Seq)
	}
	arrive := func(stage string, i int, wait bool) {
		res.Arrivals = append(res.Arrivals, fmt.Sprintf("%s:%d", stage, i))
		lab.Net.deliver(receiver, sender, early[i].Data)
		if wait {
			synctest.Wait()
		}
	}
	// stage A: originals overtake the final flight, copies next to them
	for i := range early {
		arrive("orig", i, true)
		if !grouped {
			for k := 0; k < plan[i][0]; k++ {
				arrive("A", i, true)
			}
		}
	}
	if grouped {
		for i := range early {
			for k := 0; k < plan[i][0]; k++ {
				arrive("A", i, true)
			}
		}
	}
	// the final flight is released; stage B copies are on the wire right behind it
	res.Arrivals = append(res.Arrivals, "final")
	lab.Net.deliver(receiver, sender, final[0].Data)
	for i := range early {
		for k := 0; k < plan[i][1]; k++ {
			arrive("B", i, false)
		}
	}
	synctest.Wait()
	time.Sleep(100 * time.Millisecond)
	synctest.Wait()
	res.Done = rcv.handshakeDone() && rcv.Err == nil
	if !res.Done {
		res.Notes2 = vErrString(rcv.Err)
	}
	if res.Done {
		rcv.startReader()
		synctest.Wait()
		// stage C: copies long after establishment
		for i := range early {
			for k := 0; k < plan[i][2]; k++ {
				arrive("C", i, true)
			}
		}
		last := vCapture(lab, sender, payloads[n:])
		for _, d := range last {
			res.Arrivals = append(res.Arrivals, "fresh")
			lab.Net.deliver(receiver, sender, d.Data)
			synctest.Wait()
		}
		// and once more behind the fresh record
		for i := range early {
			if plan[i][2] > 0 {
				arrive("C", i, true)
			}
		}
		time.Sleep(100 * time.Millisecond)
		synctest.Wait()
		for _, r := range rcv.reads() {
			if i := c06Index(payloads, r); i >= 0 {
				res.After = append(res.After, i)
			} else {
				res.Extra++
			}
		}
	}
	rcv.Conn.lock.RLock()
	res.Parked = len(rcv.Conn.encryptedPackets)
	rcv.Conn.lock.RUnlock()

	return res
}

func TestVerifC06EarlyDup(t *testing.T) {
	out := newVOut(t)
	rng := newVRand(vSeed() ^ 0xc06ea71d)
	fixed := [][][3]int{
		{{1, 0, 0}}, {{0, 1, 0}}, {{0, 0, 1}}, {{1, 1, 1}},
		{{0, 0, 0}, {1, 0, 0}}, {{2, 0, 1}, {0, 1, 0}, {1, 1, 1}},
	}
	random := 2
	if vIsThorough() {
		random = 24
	}
	for _, variant := range []string{"psk-gcm", "psk-ccm8", "psk-cbc", "psk-gcm-cid", "cert-gcm"} {
		for _, resumed := range []bool{false, true} {
			if resumed && variant != "psk-gcm" && variant != "psk-cbc" && variant != "psk-ccm8" {
				continue
			}
			for _, w := range []int{2, 64} {
				plans := append([][][3]int{}, fixed...)
				for r := 0; r < random; r++ {
					n := 1 + rng.intn(4)
					p := make([][3]int, n)
					for i := range p {
						p[i] = [3]int{rng.intn(3), rng.intn(3), rng.intn(2)}
					}
					plans = append(plans, p)
				}
				for pi, plan := range plans {
					plan := plan
					grouped := pi%2 == 1
					var c c06EarlyDupCase
					vBubble(t, func(t *testing.T) { c = runC06EarlyDup(t, variant, w, resumed, plan, grouped) })
					out.emit(c)
				}
			}
		}
	}
}
