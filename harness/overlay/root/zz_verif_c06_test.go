//go:build verif

package dtls

import (
	"context"
	"fmt"
	"sync"
	"sync/atomic"
	"testing"
	"testing/synctest"
	"time"

	dtlsstate "github.com/pion/dtls/v3/internal/state"
	"github.com/pion/dtls/v3/pkg/protocol"
	"github.com/pion/transport/v4/replaydetector"
)

// vEstablish runs a handshake over a perfect network until both sides are done.
func vEstablish(t *testing.T, ccfg, scfg *dtlsConfig) *vLab {
	t.Helper()
	lab := newLab(t, ccfg, scfg)
	lab.Pump.run(lab.bothDone, 200*time.Second)
	if !lab.established() {
		t.Fatalf("handshake failed: client=%v server=%v", lab.Client.Err, lab.Server.Err)
	}

	return lab
}

// vCapture makes `from` write the payloads while the network holds everything back;
// returns the datagrams emitted by `from` (one per Write on DTLS 1.2).
func vCapture(lab *vLab, from string, payloads [][]byte) []vDatagram {
	synctest.Wait()
	start := lab.Net.count()
	lab.Pump.next = start
	p := lab.peer(from)
	for _, pl := range payloads {
		if _, err := p.Conn.Write(pl); err != nil {
			panic(fmt.Sprintf("capture write: %v", err))
		}
	}
	synctest.Wait()
	var out []vDatagram
	for _, d := range lab.Net.since(start) {
		if d.From == from {
			out = append(out, d)
		}
	}
	lab.Pump.next = lab.Net.count()

	return out
}

type c06UnitCase struct {
	Kind   string   `json:"kind"`
	W      int      `json:"w"`
	MaxSeq uint64   `json:"maxseq"`
	Xs     []uint64 `json:"xs"`
	Ok     []bool   `json:"ok"`
	Latest []bool   `json:"latest"`
}

// TestVerifC06Unit drives the replay detector exactly as conn.go does (Check, then
// accept when ok) on generated arrival sequences.
func TestVerifC06Unit(t *testing.T) {
	out := newVOut(t)
	rng := newVRand(vSeed())
	n := 400
	if vIsThorough() {
		n = 20000
	}
	// the detector is only ever created by conn.go with a whole number of 64-bit words
	// (config.go effectiveReplayProtectionWindow); small windows are kept for the exhaustive leg
	windows := []int{1, 2, 3, 7, 32, 64, 128, 192, 256}
	const max48 = uint64(1)<<48 - 1
	emit := func(w int, maxSeq uint64, xs []uint64) {
		det := replaydetector.New(uint(w), maxSeq)
		c := c06UnitCase{Kind: "unit", W: w, MaxSeq: maxSeq, Xs: xs}
		for _, x := range xs {
			acc, ok := det.Check(x)
			latest := false
			if ok {
				latest = acc()
			}
			c.Ok = append(c.Ok, ok)
			c.Latest = append(c.Latest, latest)
		}
		out.emit(c)
	}
	// exhaustive: all arrival sequences of length <= 6 over {0..3}, W in {1,2,3}
	maxLen := 5
	if vIsThorough() {
		maxLen = 6
	}
	for _, w := range []int{1, 2, 3} {
		for l := 1; l <= maxLen; l++ {
			total := 1
			for i := 0; i < l; i++ {
				total *= 4
			}
			for code := 0; code < total; code++ {
				xs := make([]uint64, l)
				c := code
				for i := range xs {
					xs[i] = uint64(c % 4)
					c /= 4
				}
				emit(w, max48, xs)
			}
		}
	}
	for i := 0; i < n; i++ {
		w := windows[rng.intn(len(windows))]
		l := 1 + rng.intn(60)
		base := uint64(0)
		switch rng.intn(4) {
		case 0:
			base = max48 - uint64(rng.intn(2*w+4))
		case 1:
			base = uint64(rng.intn(1000))
		}
		xs := make([]uint64, l)
		cur := base
		for j := range xs {
			switch rng.intn(6) {
			case 0: // window edge probes
				edge := int64(cur) - int64(w) + int64(rng.intn(3)) - 1
				if edge < 0 {
					edge = 0
				}
				xs[j] = uint64(edge)
			case 1: // repeat an earlier one
				if j > 0 {
					xs[j] = xs[rng.intn(j)]
				}
			case 2: // jump ahead
				cur += uint64(1 + rng.intn(2*w+2))
				xs[j] = cur
			case 3: // beyond max
				xs[j] = max48 + uint64(rng.intn(3))
			default:
				d := uint64(rng.intn(w + 3))
				if d > cur {
					d = cur
				}
				xs[j] = cur - d + uint64(rng.intn(3))
				if xs[j] > cur {
					cur = xs[j]
				}
			}
		}
		emit(w, max48, xs)
	}
}

type c06E2ECase struct {
	Kind      string   `json:"kind"`
	Variant   string   `json:"variant"`
	W         int      `json:"w"`
	Pre       []uint64 `json:"pre"`       // epoch-1 sequence numbers already delivered in the handshake
	Seqs      []uint64 `json:"seqs"`      // sequence number of captured record i
	Epochs    []int    `json:"epochs"`    // epoch of captured record i
	Script    []int    `json:"script"`    // arrival order (indices into captured records)
	Delivered []int    `json:"delivered"` // per arrival: index of payload read, or -1
	Extra     int      `json:"extra"`     // payloads read that match no written payload
	Emitted   int      `json:"emitted"`   // datagrams emitted by the receiver during the script
}

func c06Variant(name string, w int) (*dtlsConfig, *dtlsConfig) {
	var c, s *dtlsConfig
	switch name {
	case "psk-gcm":
		c, s = vPSKPair(TLS_PSK_WITH_AES_128_GCM_SHA256)
	case "psk-ccm8":
		c, s = vPSKPair(TLS_PSK_WITH_AES_128_CCM_8)
	case "psk-cbc":
		c, s = vPSKPair(TLS_PSK_WITH_AES_128_CBC_SHA256)
	case "psk-gcm-cid":
		c, s = vPSKPair(TLS_PSK_WITH_AES_128_GCM_SHA256)
		c.ConnectionIDGenerator = RandomCIDGenerator(4)
		s.ConnectionIDGenerator = RandomCIDGenerator(6)
	case "cert-gcm":
		c, s = vCertPair()
	case "v13", "v13-ku":
		c, s = vCertPair()
		c.MinVersion, c.MaxVersion = protocol.Version1_3, protocol.Version1_3
		s.MinVersion, s.MaxVersion = protocol.Version1_3, protocol.Version1_3
	default:
		panic("variant " + name)
	}
	c.ReplayProtectionWindow = w
	s.ReplayProtectionWindow = w

	return c, s
}

// runC06Script: establish, capture n writes from the server, deliver `script` to the client.
func runC06Script(t *testing.T, variant string, w, n int, script []int) c06E2ECase {
	t.Helper()
	ccfg, scfg := c06Variant(variant, w)
	lab := vEstablish(t, ccfg, scfg)
	defer lab.close()
	res := c06E2ECase{Kind: "e2e", Variant: variant, W: w, Script: script}
	cidLen := len(dtlsstate.CommonState(lab.Client.Conn.state).LocalConnectionIDForInboundRecords())
	for _, d := range lab.Net.since(0) {
		if d.From != "server" {
			continue
		}
		for _, r := range vParseDatagram(d.Data, cidLen) {
			if r.Epoch == 1 {
				res.Pre = append(res.Pre, r.Seq)
			}
		}
	}
	payloads := make([][]byte, n)
	for i := range payloads {
		payloads[i] = []byte(fmt.Sprintf("payload-%04d", i))
	}
	if variant == "v13" || variant == "v13-ku" {
		// DTLS 1.3: the sequence number on the wire is encrypted; take each record's number from the
		// sender's counter (one record per Write), and everything below the first as already accepted
		common := dtlsstate.CommonState(lab.Server.Conn.state)
		epoch := common.LocalEpoch()
		first := atomic.LoadUint64(&common.LocalSequenceNumber[epoch])
		res.Pre = nil
		for q := uint64(0); q < first; q++ {
			res.Pre = append(res.Pre, q)
		}
		var caps13 []vDatagram
		for i := range payloads {
			if variant == "v13-ku" && i > 0 && i == len(payloads)/2 {
				// the server updates its keys between the two halves: let that exchange through
				done := make(chan error, 1)
				go func() { done <- lab.Server.Conn.UpdateKeys(context.Background(), KeyUpdateOptions{}) }()
				lab.Pump.next = lab.Net.count()
				lab.Pump.run(func() bool {
					select {
					case err := <-done:
						done <- err

						return true
					default:
						return false
					}
				}, 30*time.Second)
				if err := <-done; err != nil {
					t.Fatalf("UpdateKeys: %v", err)
				}
				epoch = common.LocalEpoch()
			}
			q := uint64(0)
			if int(epoch) < len(common.LocalSequenceNumber) {
				q = atomic.LoadUint64(&common.LocalSequenceNumber[epoch])
			}
			d := vCapture(lab, "server", payloads[i:i+1])
			if len(d) != 1 {
				t.Fatalf("expected one datagram per write, got %d", len(d))
			}
			caps13 = append(caps13, d[0])
			res.Seqs = append(res.Seqs, q)
			res.Epochs = append(res.Epochs, int(epoch))
		}
		return c06Deliver(lab, res, caps13, payloads, script)
	}
	caps := vCapture(lab, "server", payloads)
	if len(caps) != n {
		t.Fatalf("captured %d datagrams for %d writes", len(caps), n)
	}
	for _, d := range caps {
		rs := vParseDatagram(d.Data, cidLen)
		if len(rs) != 1 {
			t.Fatalf("expected 1 record per datagram, got %d", len(rs))
		}
		res.Seqs = append(res.Seqs, rs[0].Seq)
		res.Epochs = append(res.Epochs, rs[0].Epoch)
	}

	return c06Deliver(lab, res, caps, payloads, script)
}

func c06Deliver(lab *vLab, res c06E2ECase, caps []vDatagram, payloads [][]byte, script []int) c06E2ECase {
	lab.Client.startReader()
	synctest.Wait()
	before := lab.Net.count()
	seen := 0
	ccsSeq := uint64(1 << 20)
	for _, idx := range script {
		if idx < 0 {
			// a repeated / forged ChangeCipherSpec: epoch 0, a sequence number not used before, body 01.
			// It announces the epoch the peer is already in and must change nothing.
			ccsSeq++
			rec := []byte{20, 254, 253, 0, 0, 0, 0, 0, 0, 0, 0, 0, 1, 1}
			if idx == -2 {
				// the same record claiming the CURRENT protected epoch (no suite authenticates a
				// ChangeCipherSpec) with the highest possible sequence number
				rec[4] = 1
				ccsSeq = 1<<48 - 1
			}
			for i := 0; i < 6; i++ {
				rec[10-i] = byte(ccsSeq >> (8 * uint(i)))
			}
			if idx == -2 {
				ccsSeq = 1<<20 + uint64(len(res.Delivered))
			}
			lab.Net.deliver("client", "server", rec)
		} else {
			lab.Net.deliver("client", "server", caps[idx].Data)
		}
		synctest.Wait()
		reads := lab.Client.reads()
		got := -1
		for ; seen < len(reads); seen++ {
			found := -1
			for i, pl := range payloads {
				if string(pl) == string(reads[seen]) {
					found = i
				}
			}
			if found < 0 {
				res.Extra++
			} else {
				got = found
			}
		}
		res.Delivered = append(res.Delivered, got)
	}
	res.Emitted = lab.Net.count() - before

	return res
}

func TestVerifC06E2E(t *testing.T) {
	out := newVOut(t)
	rng := newVRand(vSeed() ^ 0xc06)
	type job struct {
		variant string
		w, n    int
		script  []int
	}
	var jobs []job
	// exhaustive: all arrival sequences of length <= L over 3 records, W = 2
	maxL := 4
	if vIsThorough() {
		maxL = 6
	}
	for l := 1; l <= maxL; l++ {
		total := 1
		for i := 0; i < l; i++ {
			total *= 4
		}
		for code := 0; code < total; code++ {
			sc := make([]int, l)
			c := code
			for i := range sc {
				sc[i] = c%4 - 1 // -1 = a ChangeCipherSpec record between the arrivals
				if sc[i] == -1 && (code+i)%2 == 1 {
					sc[i] = -2 // ... claiming the current protected epoch
				}
				c /= 4
			}
			jobs = append(jobs, job{"psk-gcm", 2, 3, sc})
		}
	}
	variants := []string{"psk-gcm", "psk-ccm8", "psk-cbc", "psk-gcm-cid", "cert-gcm", "v13", "v13-ku", "v13-ku"}
	nRandom := 60
	if vIsThorough() {
		nRandom = 3000
	}
	ws := []int{1, 2, 3, 8, 63, 64, 65}
	for i := 0; i < nRandom; i++ {
		w := ws[rng.intn(len(ws))]
		n := 2 + rng.intn(w+6)
		if n > 80 {
			n = 80
		}
		l := 1 + rng.intn(3*n)
		sc := make([]int, l)
		hi := 0
		for j := range sc {
			switch rng.intn(5) {
			case 0: // window edge relative to highest delivered
				e := hi - w + rng.intn(3) - 1
				if e < 0 {
					e = 0
				}
				sc[j] = e
			case 1:
				if j > 0 {
					sc[j] = sc[rng.intn(j)]
				}
			default:
				sc[j] = rng.intn(n)
			}
			if sc[j] >= n {
				sc[j] = n - 1
			}
			if sc[j] > hi {
				hi = sc[j]
			}
			if rng.chance(7) {
				sc[j] = -1 - rng.intn(2)
			}
		}
		jobs = append(jobs, job{variants[rng.intn(len(variants))], w, n, sc})
	}
	for _, j := range jobs {
		j := j
		var res c06E2ECase
		vBubble(t, func(t *testing.T) { res = runC06Script(t, j.variant, j.w, j.n, j.script) })
		out.emit(res)
	}
}

// ---------------------------------------------------------------- round 2: histories around the steady state

// c06XCase: a history that leaves the steady state of one connection: an export/resume in the middle
// (kind "resume-replay") or records that overtake the end of the peer's final flight (kind "early").
type c06XCase struct {
	Kind     string `json:"kind"`
	Variant  string `json:"variant"`
	W        int    `json:"w"`
	N        int    `json:"n"`        // payloads written by the server
	Before   []int  `json:"before"`   // payload indices Read returned before the export (resume-replay)
	Replayed []int  `json:"replayed"` // datagram indices delivered again to the resumed connection
	After    []int  `json:"after"`    // payload indices Read returned afterwards, in order
	Extra    int    `json:"extra"`
	Done     bool   `json:"done"`   // (early) the receiving side completed its handshake
	Parked   int    `json:"parked"` // (early) records still in Conn.encryptedPackets at the end
	Notes    string `json:"notes,omitempty"`
	Notes2   string `json:"notes2,omitempty"`
}

func c06Index(payloads [][]byte, got []byte) int {
	for i, pl := range payloads {
		if string(pl) == string(got) {
			return i
		}
	}

	return -1
}

// runC06ResumeReplay: the client receives and reads records 0..k-1, its state is exported and resumed on a
// new endpoint, and the network delivers the old datagrams again (duplicates) followed by a new record.
func runC06ResumeReplay(t *testing.T, variant string, w, n, k int) c06XCase {
	t.Helper()
	ccfg, scfg := c06Variant(variant, w)
	lab := vEstablish(t, ccfg, scfg)
	defer lab.close()
	res := c06XCase{Kind: "resume-replay", Variant: variant, W: w, N: n}
	payloads := make([][]byte, n+1)
	for i := range payloads {
		payloads[i] = []byte(fmt.Sprintf("payload-%04d", i))
	}
	caps := vCapture(lab, "server", payloads[:n])
	lab.Client.startReader()
	synctest.Wait()
	for i := 0; i < k; i++ {
		lab.Net.deliver("client", "server", caps[i].Data)
		synctest.Wait()
	}
	for _, r := range lab.Client.reads() {
		res.Before = append(res.Before, c06Index(payloads, r))
	}
	st, ok := lab.Client.Conn.ConnectionState()
	if !ok {
		res.Notes = "ConnectionState failed"

		return res
	}
	raw, err := st.MarshalBinary()
	if err != nil {
		t.Fatalf("marshal: %v", err)
	}
	_ = lab.Client.EP.Close()
	synctest.Wait()
	st2 := &State{}
	if err := st2.UnmarshalBinary(raw); err != nil {
		t.Fatalf("unmarshal: %v", err)
	}
	ep2 := lab.Net.endpoint("client")
	ccfg2, _ := c06Variant(variant, w)
	conn2, err := resumeWithConfig(st2, ep2, vAddr("server"), ccfg2)
	if err != nil {
		res.Notes = "resume: " + err.Error()

		return res
	}
	old := lab.Client
	defer func() { _ = old.Conn.Close() }()
	lab.Client = &vPeer{Name: "client", EP: ep2, Conn: conn2, Done: make(chan struct{})}
	close(lab.Client.Done)
	lab.Client.startReader()
	synctest.Wait()
	// the network duplicates what it delivered before, then delivers the rest and one new record
	for i := 0; i < n; i++ {
		if i < k {
			res.Replayed = append(res.Replayed, i)
		}
		lab.Net.deliver("client", "server", caps[i].Data)
		synctest.Wait()
	}
	fresh := vCapture(lab, "server", payloads[n:])
	for _, d := range fresh {
		lab.Net.deliver("client", "server", d.Data)
		synctest.Wait()
	}
	for _, r := range lab.Client.reads() {
		if i := c06Index(payloads, r); i >= 0 {
			res.After = append(res.After, i)
		} else {
			res.Extra++
		}
	}

	return res
}

// runC06Early: DTLS 1.2 full handshake; the server completes first (it has sent its final flight) and writes
// n payloads at once; the network delivers those records BEFORE the datagram that carries the server's
// ChangeCipherSpec and Finished (reordering well inside the window), then one more record.
func runC06Early(t *testing.T, variant string, w, n int) c06XCase {
	t.Helper()
	ccfg, scfg := c06Variant(variant, w)
	lab := newLab(t, ccfg, scfg)
	defer lab.close()
	res := c06XCase{Kind: "early", Variant: variant, W: w, N: n}
	payloads := make([][]byte, n+1)
	for i := range payloads {
		payloads[i] = []byte(fmt.Sprintf("payload-%04d", i))
	}
	next := 0
	var final []vDatagram
	deadline := time.Now().Add(60 * time.Second)
	for !lab.Server.handshakeDone() && time.Now().Before(deadline) {
		synctest.Wait()
		batch := lab.Net.since(next)
		if len(batch) == 0 {
			time.Sleep(50 * time.Millisecond)

			continue
		}
		for _, d := range batch {
			next = d.Idx + 1
			isFinal := false
			if d.From == "server" {
				// records towards the client carry the connection ID the client chose (4 bytes in the CID variant)
				cidLen := 0
				if variant == "psk-gcm-cid" {
					cidLen = 4
				}
				for _, r := range vParseDatagram(d.Data, cidLen) {
					if r.CT == int(protocol.ContentTypeChangeCipherSpec) {
						isFinal = true
					}
				}
			}
			if isFinal {
				final = append(final, d)

				continue
			}
			lab.Net.deliver(d.To, d.From, d.Data)
			synctest.Wait()
		}
	}
	synctest.Wait()
	for _, d := range lab.Net.since(next) {
		// the server returns as soon as it has written its final flight: that datagram is still on the wire
		next = d.Idx + 1
		if d.From == "server" {
			final = append(final, d)
		}
	}
	if !lab.Server.handshakeDone() || lab.Server.Err != nil || len(final) == 0 {
		res.Notes = fmt.Sprintf("setup: server done=%v err=%v final=%d", lab.Server.handshakeDone(), lab.Server.Err, len(final))

		return res
	}
	for _, d := range lab.Net.since(next) {
		next = d.Idx + 1 // nothing else is in flight
	}
	early := vCapture(lab, "server", payloads[:n])
	for _, d := range early {
		lab.Net.deliver("client", "server", d.Data)
		synctest.Wait()
	}
	for _, d := range final[:1] {
		lab.Net.deliver("client", "server", d.Data)
		synctest.Wait()
	}
	// virtual time passes (less than a retransmission interval)
	time.Sleep(100 * time.Millisecond)
	synctest.Wait()
	res.Done = lab.Client.handshakeDone() && lab.Client.Err == nil
	if res.Done {
		lab.Client.startReader()
		synctest.Wait()
		last := vCapture(lab, "server", payloads[n:])
		for _, d := range last {
			lab.Net.deliver("client", "server", d.Data)
			synctest.Wait()
		}
		time.Sleep(100 * time.Millisecond)
		synctest.Wait()
		for _, r := range lab.Client.reads() {
			if i := c06Index(payloads, r); i >= 0 {
				res.After = append(res.After, i)
			} else {
				res.Extra++
			}
		}
	}
	lab.Client.Conn.lock.RLock()
	res.Parked = len(lab.Client.Conn.encryptedPackets)
	lab.Client.Conn.lock.RUnlock()

	return res
}

type c06Store struct {
	mu sync.Mutex
	m  map[string]Session
}

func (s *c06Store) Set(key []byte, v Session) error {
	s.mu.Lock()
	defer s.mu.Unlock()
	s.m[string(key)] = v

	return nil
}

func (s *c06Store) Get(key []byte) (Session, error) {
	s.mu.Lock()
	defer s.mu.Unlock()

	return s.m[string(key)], nil
}

func (s *c06Store) Del(key []byte) error {
	s.mu.Lock()
	defer s.mu.Unlock()
	delete(s.m, string(key))

	return nil
}

// runC06EarlyResumed: the mirror image of runC06Early for an abbreviated handshake, where the CLIENT sends the
// last flight and may write at once: its n payloads (and, with closeToo, its close_notify) reach the server
// before the datagram that carries its ChangeCipherSpec and Finished.
func runC06EarlyResumed(t *testing.T, variant string, w, n int, closeToo bool) c06XCase {
	t.Helper()
	cs, ss := &c06Store{m: map[string]Session{}}, &c06Store{m: map[string]Session{}}
	mk := func() (*dtlsConfig, *dtlsConfig) {
		c, s := c06Variant(variant, w)
		c.sessionStore, s.sessionStore = cs, ss
		c.ServerName = "c06.verif"

		return c, s
	}
	c0, s0 := mk()
	lab0 := newLab(t, c0, s0)
	lab0.Pump.run(lab0.bothDone, 60*time.Second)
	if !lab0.established() {
		t.Fatalf("seeding session failed: %v %v", lab0.Client.Err, lab0.Server.Err)
	}
	lab0.close()
	ccfg, scfg := mk()
	lab := newLab(t, ccfg, scfg)
	defer lab.close()
	kind := "early-resumed"
	if closeToo {
		kind = "early-resumed-close"
	}
	res := c06XCase{Kind: kind, Variant: variant, W: w, N: n}
	payloads := make([][]byte, n+1)
	for i := range payloads {
		payloads[i] = []byte(fmt.Sprintf("payload-%04d", i))
	}
	next := 0
	var final []vDatagram
	deadline := time.Now().Add(60 * time.Second)
	for !lab.Client.handshakeDone() && time.Now().Before(deadline) {
		synctest.Wait()
		batch := lab.Net.since(next)
		if len(batch) == 0 {
			time.Sleep(50 * time.Millisecond)

			continue
		}
		for _, d := range batch {
			next = d.Idx + 1
			isFinal := false
			if d.From == "client" {
				for _, r := range vParseDatagram(d.Data, 0) {
					if r.CT == int(protocol.ContentTypeChangeCipherSpec) {
						isFinal = true
					}
				}
			}
			if isFinal {
				final = append(final, d)

				continue
			}
			lab.Net.deliver(d.To, d.From, d.Data)
			synctest.Wait()
		}
	}
	synctest.Wait()
	for _, d := range lab.Net.since(next) {
		next = d.Idx + 1
		if d.From == "client" {
			final = append(final, d)
		}
	}
	if !lab.Client.handshakeDone() || lab.Client.Err != nil || len(final) == 0 {
		res.Notes = fmt.Sprintf("setup: client done=%v err=%v final=%d", lab.Client.handshakeDone(), lab.Client.Err, len(final))

		return res
	}
	early := vCapture(lab, "client", payloads[:n])
	if closeToo {
		mark := lab.Net.count()
		_ = lab.Client.Conn.Close()
		synctest.Wait()
		for _, d := range lab.Net.since(mark) {
			if d.From == "client" {
				early = append(early, d)
			}
		}
	}
	for _, d := range early {
		lab.Net.deliver("server", "client", d.Data)
		synctest.Wait()
	}
	for _, d := range final[:1] {
		lab.Net.deliver("server", "client", d.Data)
		synctest.Wait()
	}
	time.Sleep(100 * time.Millisecond)
	synctest.Wait()
	res.Done = lab.Server.handshakeDone() && lab.Server.Err == nil
	if !res.Done {
		res.Notes2 = vErrString(lab.Server.Err)
	}
	if res.Done {
		lab.Server.startReader()
		synctest.Wait()
		if !closeToo {
			last := vCapture(lab, "client", payloads[n:])
			for _, d := range last {
				lab.Net.deliver("server", "client", d.Data)
				synctest.Wait()
			}
		}
		time.Sleep(100 * time.Millisecond)
		synctest.Wait()
		for _, r := range lab.Server.reads() {
			if i := c06Index(payloads, r); i >= 0 {
				res.After = append(res.After, i)
			} else {
				res.Extra++
			}
		}
	}
	lab.Server.Conn.lock.RLock()
	res.Parked = len(lab.Server.Conn.encryptedPackets)
	lab.Server.Conn.lock.RUnlock()

	return res
}

func TestVerifC06X(t *testing.T) {
	out := newVOut(t)
	for _, variant := range []string{"psk-gcm", "psk-cbc", "psk-gcm-cid", "cert-gcm"} {
		for _, w := range []int{2, 64} {
			for _, nk := range [][2]int{{1, 1}, {4, 2}, {6, 6}} {
				nk := nk
				var c c06XCase
				vBubble(t, func(t *testing.T) { c = runC06ResumeReplay(t, variant, w, nk[0], nk[1]) })
				out.emit(c)
			}
			for _, n := range []int{1, 2, 3} {
				n := n
				var c c06XCase
				vBubble(t, func(t *testing.T) { c = runC06Early(t, variant, w, n) })
				out.emit(c)
				if variant == "psk-gcm" || variant == "psk-cbc" {
					for _, cl := range []bool{false, true} {
						cl := cl
						vBubble(t, func(t *testing.T) { c = runC06EarlyResumed(t, variant, w, n, cl) })
						out.emit(c)
					}
				}
			}
		}
	}
}
