//go:build verif

// C07, exporter leg (last sentence of the property: "Secrets handed to the application by the keying-material
// exporter are not computable from the cleartext part of the handshake").
//
// State.ExportKeyingMaterial is called at EVERY point of the lifecycle at which the API hands out a value:
//   live            ConnectionState() of the open connection, export while open               (both sides)
//   peer-closed     the same State / a fresh ConnectionState() after the PEER closed          (server side)
//   held            the State taken while open, export after the LOCAL Close                  (both sides)
//   late            ConnectionState() of the closed Conn                                      (both sides)
//   serialized      MarshalBinary/UnmarshalBinary of the live State (taken open), export after Close
//   late-serialized MarshalBinary/UnmarshalBinary of the State taken from the closed Conn
//   resumed         Resume from the serialized live State: ConnectionState() of the resumed Conn
//   resumed-held    that State after the resumed Conn was closed; resumed-late: ConnectionState() after that Close
//   reresumed-*     Resume from the *State held across Close (no serialisation) and from the late State
// for several labels and lengths, DTLS 1.2 (PSK / certificate, extended master secret on and off, +-CID) and 1.3.
//
// Observations only; the monitors are in checks/c07.py:
//   (i)  every export that succeeds equals the export made on the live connection (same label, length) and the peer's
//   (ii) no successful export equals a value an observer computes from PUBLIC data: this file's OWN P_hash /
//        HKDF-Expand-Label (crypto/hmac only, nothing of pion/dtls) keyed with the empty string and with all-zero
//        strings of 1..64 bytes over the randoms parsed from the captured cleartext hellos (both orders), the
//        RFC 8446 7.5 exporter keyed the same way, and the RFC 5705 exporter keyed with the master secret derived
//        from those public pre-master secrets (plain and RFC 4279 framed).
package dtls

import (
	"bytes"
	"context"
	"crypto/hmac"
	"crypto/sha256"
	"crypto/sha512"
	"fmt"
	"hash"
	"testing"
	"testing/synctest"
	"time"
)

type c07Export struct {
	Point  string `json:"point"`
	Side   string `json:"side"`
	Label  string `json:"label"`
	Len    int    `json:"len"`
	OK     bool   `json:"ok"`
	Err    string `json:"err,omitempty"`
	Hex    string `json:"hex,omitempty"`
	Public string `json:"public,omitempty"` // formula over public data that yields this very value ("" = none)
}

type c07ExportRes struct {
	Kind     string      `json:"kind"` // "export"
	Variant  string      `json:"variant"`
	V13      bool        `json:"v13"`
	Done     bool        `json:"done"`
	Err      string      `json:"err,omitempty"`
	CR       string      `json:"cr,omitempty"`
	SR       string      `json:"sr,omitempty"`
	Suite    string      `json:"suite,omitempty"`
	Points   []string    `json:"points"`
	Refused  []string    `json:"refused,omitempty"` // point: reason (no State / Resume refused / ...)
	Exports  []c07Export `json:"exports"`
	NPublic  int         `json:"n_public"` // public candidates computed per (label, length)
	StateLog []string    `json:"state_log,omitempty"`
	// self-test of the independent reference: keyed with the REAL secret (read in-package from the live State) it
	// reproduces the live export; "" = it does not (the public recomputation would then prove nothing)
	RefOK string `json:"ref_ok,omitempty"`
}

// ---------------------------------------------------------------- independent reference (crypto/hmac only)

func c07xPHash(hf func() hash.Hash, secret, seed []byte, n int) []byte {
	mac := func(parts ...[]byte) []byte {
		m := hmac.New(hf, secret)
		for _, p := range parts {
			m.Write(p)
		}

		return m.Sum(nil)
	}
	var out []byte
	a := mac(seed)
	for len(out) < n {
		out = append(out, mac(a, seed)...)
		a = mac(a)
	}

	return out[:n]
}

// HKDF-Expand-Label(secret, label, context, n) of RFC 8446 7.1 with the "dtls13" prefix of RFC 9147 5.9 and,
// in case the library ever uses it, the "tls13 " prefix.
func c07xExpandLabel(hf func() hash.Hash, prefix string, secret []byte, label string, ctx []byte, n int) []byte {
	full := prefix + label
	info := []byte{byte(n >> 8), byte(n), byte(len(full))}
	info = append(info, full...)
	info = append(info, byte(len(ctx)))
	info = append(info, ctx...)
	var out, prev []byte
	for i := byte(1); len(out) < n; i++ {
		m := hmac.New(hf, secret)
		m.Write(prev)
		m.Write(info)
		m.Write([]byte{i})
		prev = m.Sum(nil)
		out = append(out, prev...)
	}

	return out[:n]
}

func c07xExporter13(hf func() hash.Hash, prefix string, secret []byte, label string, n int) []byte {
	emptyHash := hf().Sum(nil)
	derived := c07xExpandLabel(hf, prefix, secret, label, emptyHash, hf().Size())

	return c07xExpandLabel(hf, prefix, derived, "exporter", emptyHash, n)
}

type c07xPublic struct {
	name string
	val  []byte
}

// every value an observer computes for (label, n) from the two hello randoms and constants
func c07xPublicValues(label string, cr, sr []byte, n int) []c07xPublic {
	var out []c07xPublic
	hashes := []struct {
		name string
		hf   func() hash.Hash
	}{{"sha256", sha256.New}, {"sha384", sha512.New384}}
	seeds := []struct {
		name string
		b    []byte
	}{
		{"cr|sr", append(append([]byte(label), cr...), sr...)},
		{"sr|cr", append(append([]byte(label), sr...), cr...)},
	}
	msSeeds := []struct {
		name string
		b    []byte
	}{
		{"cr|sr", append(append([]byte("master secret"), cr...), sr...)},
		{"sr|cr", append(append([]byte("master secret"), sr...), cr...)},
	}
	for _, h := range hashes {
		for k := 0; k <= 64; k++ {
			secret := make([]byte, k)
			sname := fmt.Sprintf("0^%d", k)
			if k == 0 {
				sname = "empty"
			}
			for _, s := range seeds {
				out = append(out, c07xPublic{fmt.Sprintf("RFC5705 P_%s(%s, label|%s)", h.name, sname, s.name),
					c07xPHash(h.hf, secret, s.b, n)})
			}
			for _, prefix := range []string{"dtls13", "tls13 "} {
				out = append(out, c07xPublic{fmt.Sprintf("RFC8446-7.5 exporter_%s('%s', secret=%s)", h.name, prefix, sname),
					c07xExporter13(h.hf, prefix, secret, label, n)})
			}
			// master secret derived from a public pre-master secret (k zero bytes; RFC 4279 framing of an empty / zero PSK)
			if k <= 48 && (k%8 == 0 || k < 4) {
				pmss := []struct {
					name string
					b    []byte
				}{{"pms=" + sname, secret}}
				if k <= 32 {
					framed := append([]byte{byte(k >> 8), byte(k)}, make([]byte, k)...)
					framed = append(framed, byte(k>>8), byte(k))
					framed = append(framed, make([]byte, k)...)
					pmss = append(pmss, struct {
						name string
						b    []byte
					}{"pms=RFC4279(psk=" + sname + ")", framed})
				}
				for _, pms := range pmss {
					for _, ms := range msSeeds {
						master := c07xPHash(h.hf, pms.b, ms.b, 48)
						out = append(out, c07xPublic{fmt.Sprintf("RFC5705 P_%s(P_%s(%s,'master secret'|%s)[:48], label|cr|sr)",
							h.name, h.name, pms.name, ms.name), c07xPHash(h.hf, master, seeds[0].b, n)})
					}
				}
			}
		}
	}

	return out
}

// ---------------------------------------------------------------- the leg

type c07xVariant struct {
	c07Variant
	noEMS bool
}

func c07xVariants() []c07xVariant {
	var out []c07xVariant
	for _, v := range c07Variants() {
		out = append(out, c07xVariant{c07Variant: v})
	}
	for _, v := range c07Variants() {
		if v.Name == "psk-gcm" || v.Name == "cert-gcm" || v.Name == "cert-gcm384" || v.Name == "psk-cbc-cid" {
			v.Name += "-noems"
			out = append(out, c07xVariant{c07Variant: v, noEMS: true})
		}
	}

	return out
}

func c07xLabels(rng *vRand) []string {
	rnd := "EXPERIMENTAL "
	for _, b := range rng.bytes(6 + rng.intn(10)) {
		rnd += string(rune('a' + int(b)%26))
	}

	return []string{"EXTRACTOR-dtls_srtp", "EXPERIMENTAL verif c07", rnd}
}

func c07xExportSession(t *testing.T, v c07xVariant, rng *vRand) c07ExportRes {
	t.Helper()
	res := c07ExportRes{Kind: "export", Variant: v.Name, V13: v.V13}
	mk := func() (*dtlsConfig, *dtlsConfig) {
		c, s := v.mk()
		if v.noEMS {
			c.ExtendedMasterSecret, s.ExtendedMasterSecret = DisableExtendedMasterSecret, DisableExtendedMasterSecret
		}

		return c, s
	}
	ccfg, scfg := mk()
	lab := newLab(t, ccfg, scfg)
	net := &c07Net{lab: lab, drop: -1, postK: -1, estIdx: -1, kuM: -1, kuIdx: -1}
	net.run(lab.bothDone, 100*time.Second)
	res.Done = lab.established()
	if !res.Done {
		res.Err = fmt.Sprintf("client=%v server=%v", lab.Client.Err, lab.Server.Err)
		lab.close()

		return res
	}
	labels := c07xLabels(rng)
	lengths := []int{16, 32, 60, 16 + 33 + rng.intn(80)}
	export := func(point, side string, st *State) {
		res.Points = append(res.Points, point+"/"+side)
		for _, label := range labels {
			for _, n := range lengths {
				e := c07Export{Point: point, Side: side, Label: label, Len: n}
				// a panic of the exporter is an observation too
				func() {
					defer func() {
						if r := recover(); r != nil {
							e.Err = fmt.Sprintf("PANIC: %v", r)
						}
					}()
					b, err := st.ExportKeyingMaterial(label, nil, n)
					if err != nil {
						e.Err = err.Error()
					} else {
						e.OK, e.Hex = true, vHex(b)
					}
				}()
				res.Exports = append(res.Exports, e)
			}
		}
	}
	refuse := func(point, side, why string) {
		res.Refused = append(res.Refused, point+"/"+side+": "+why)
	}
	note := func(point, side string, st *State) {
		zero := len(st.masterSecret) > 0 && bytes.Equal(st.masterSecret, make([]byte, len(st.masterSecret)))
		zero13 := len(st.exporterSecret) > 0 && bytes.Equal(st.exporterSecret, make([]byte, len(st.exporterSecret)))
		res.StateLog = append(res.StateLog, fmt.Sprintf("%s/%s: local epoch %d, master secret %d bytes (all zero: %v), "+
			"exporter secret %d bytes (all zero: %v)", point, side, st.localEpoch, len(st.masterSecret), zero,
			len(st.exporterSecret), zero13))
	}

	// ordinary use first: one payload each way
	lab.Client.startReader()
	lab.Server.startReader()
	for _, p := range []*vPeer{lab.Client, lab.Server} {
		p := p
		pl := append([]byte("c07x/"+p.Name+"/"), rng.bytes(24)...)
		done := make(chan struct{})
		go func() { _, _ = p.Conn.Write(pl); close(done) }()
		net.run(func() bool {
			select {
			case <-done:
				return true
			default:
				return false
			}
		}, 5*time.Second)
	}
	net.drain(200 * time.Millisecond)

	peers := []*vPeer{lab.Client, lab.Server}
	held := map[string]*State{}
	serialized := map[string][]byte{}
	var liveMS, liveES []byte
	for _, p := range peers {
		st, ok := p.Conn.ConnectionState()
		if !ok {
			refuse("live", p.Name, "ConnectionState() unavailable")

			continue
		}
		held[p.Name] = &st
		if p.Name == "client" {
			liveMS, liveES = bytes.Clone(st.masterSecret), bytes.Clone(st.exporterSecret)
		}
		export("live", p.Name, &st)
		if raw, err := st.MarshalBinary(); err == nil {
			serialized[p.Name] = raw
		} else {
			refuse("serialized", p.Name, "MarshalBinary: "+err.Error())
		}
	}
	res.Suite = ""
	if st := held["client"]; st != nil {
		res.Suite = fmt.Sprintf("0x%04x", uint16(st.CipherSuiteID))
	}

	// the client closes; the server sees close_notify
	_ = lab.Client.Conn.Close()
	net.drain(500 * time.Millisecond)
	if st := held["server"]; st != nil {
		export("peer-closed-held", "server", st)
	}
	if st, ok := lab.Server.Conn.ConnectionState(); ok {
		export("peer-closed-late", "server", &st)
	} else {
		refuse("peer-closed-late", "server", "ConnectionState() unavailable")
	}
	_ = lab.Server.Conn.Close()
	net.drain(500 * time.Millisecond)
	synctest.Wait()

	late := map[string]*State{}
	for _, p := range peers {
		if st := held[p.Name]; st != nil {
			note("held", p.Name, st)
			export("held", p.Name, st)
		}
		st, ok := p.Conn.ConnectionState()
		if !ok {
			refuse("late", p.Name, "ConnectionState() unavailable")

			continue
		}
		late[p.Name] = &st
		note("late", p.Name, &st)
		export("late", p.Name, &st)
	}
	cr, sr := c07Hellos(lab.Net.since(0))
	res.CR, res.SR = vHex(cr), vHex(sr)
	if len(cr) == 32 && len(sr) == 32 && len(res.Exports) > 0 && res.Exports[0].OK {
		e := res.Exports[0] // live/client, first label, first length
		seed := append(append([]byte(e.Label), cr...), sr...)
		for hn, hf := range map[string]func() hash.Hash{"sha256": sha256.New, "sha384": sha512.New384} {
			if len(liveMS) > 0 && vHex(c07xPHash(hf, liveMS, seed, e.Len)) == e.Hex {
				res.RefOK = "RFC5705 P_" + hn + "(master secret, label|cr|sr)"
			}
			for _, prefix := range []string{"dtls13", "tls13 "} {
				if len(liveES) > 0 && vHex(c07xExporter13(hf, prefix, liveES, e.Label, e.Len)) == e.Hex {
					res.RefOK = "RFC8446-7.5 exporter_" + hn + "('" + prefix + "', exporter master secret)"
				}
			}
		}
	}
	_ = lab.Client.EP.Close()
	_ = lab.Server.EP.Close()
	synctest.Wait()

	// serialised states and resumed connections
	resume := func(point, side string, st *State) {
		n := newVNet()
		ep := n.endpoint(side)
		peer := "server"
		if side == "server" {
			peer = "client"
		}
		_ = n.endpoint(peer)
		c2, s2 := mk()
		cfg := c2
		if side == "server" {
			cfg = s2
		}
		var conn *Conn
		var err error
		func() {
			defer func() {
				if r := recover(); r != nil {
					err = fmt.Errorf("PANIC: %v", r) //nolint:err113
				}
			}()
			conn, err = resumeWithConfig(st, ep, vAddr(peer), cfg)
		}()
		if err != nil {
			refuse(point, side, "Resume: "+err.Error())
			_ = ep.Close()
			synctest.Wait()

			return
		}
		// a resumed Conn adopts the imported state when its (immediate) handshake runs
		hs := make(chan error, 1)
		go func() { hs <- conn.HandshakeContext(context.Background()) }()
		synctest.Wait()
		select {
		case e := <-hs:
			if e != nil {
				refuse(point, side, "Handshake of the resumed Conn: "+e.Error())
			}
		default:
			refuse(point, side, "Handshake of the resumed Conn still blocked")
		}
		var rheld *State
		if rs, ok := conn.ConnectionState(); ok {
			rheld = &rs
			export(point, side, rheld)
		} else {
			refuse(point, side, "ConnectionState() of the resumed Conn unavailable")
		}
		_ = conn.Close()
		synctest.Wait()
		if rheld != nil {
			note(point+"-held", side, rheld)
			export(point+"-held", side, rheld)
		}
		if rs, ok := conn.ConnectionState(); ok {
			note(point+"-late", side, &rs)
			export(point+"-late", side, &rs)
		} else {
			refuse(point+"-late", side, "ConnectionState() unavailable")
		}
		_ = ep.Close()
		synctest.Wait()
	}
	for _, p := range peers {
		if raw, ok := serialized[p.Name]; ok {
			st := &State{}
			if err := st.UnmarshalBinary(raw); err != nil {
				refuse("serialized", p.Name, "UnmarshalBinary: "+err.Error())
			} else {
				export("serialized", p.Name, st)
				resume("resumed", p.Name, st)
				// the State that went into Resume, after the resumed Conn was closed
				export("serialized-after-resume", p.Name, st)
			}
		}
		if st := late[p.Name]; st != nil {
			if raw, err := st.MarshalBinary(); err != nil {
				refuse("late-serialized", p.Name, "MarshalBinary: "+err.Error())
			} else {
				st2 := &State{}
				if err := st2.UnmarshalBinary(raw); err != nil {
					refuse("late-serialized", p.Name, "UnmarshalBinary: "+err.Error())
				} else {
					export("late-serialized", p.Name, st2)
					resume("reresumed-late-serialized", p.Name, st2)
				}
			}
			resume("reresumed-late", p.Name, st)
		}
		if st := held[p.Name]; st != nil {
			resume("reresumed-held", p.Name, st)
		}
	}

	// monitor (ii): the public recomputation, from the captured hellos only
	if len(cr) == 32 && len(sr) == 32 {
		type key struct {
			label string
			n     int
		}
		pub := map[key][]c07xPublic{}
		for i := range res.Exports {
			e := &res.Exports[i]
			if !e.OK {
				continue
			}
			k := key{e.Label, e.Len}
			if _, ok := pub[k]; !ok {
				pub[k] = c07xPublicValues(e.Label, cr, sr, e.Len)
				res.NPublic = len(pub[k])
			}
			for _, c := range pub[k] {
				if vHex(c.val) == e.Hex {
					e.Public = c.name

					break
				}
			}
		}
	} else {
		res.Err = "hellos not found on the wire"
	}

	return res
}

func TestVerifC07Export(t *testing.T) {
	out := newVOut(t)
	rng := newVRand(vSeed() ^ 0xc07e)
	rounds := 1
	if vIsThorough() {
		rounds = 10
	}
	for r := 0; r < rounds; r++ {
		for _, v := range c07xVariants() {
			v := v
			var res c07ExportRes
			vBubble(t, func(t *testing.T) { res = c07xExportSession(t, v, rng) })
			out.emit(res)
		}
	}
}
