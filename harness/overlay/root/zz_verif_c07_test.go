//go:build verif

// C07 confidentiality harness: whole sessions (DTLS 1.2 GCM/CCM/CBC/ChaCha, PSK and certificate, +-CID;
// DTLS 1.3 three suites) with loss/retransmission, Writes issued BEFORE and DURING the handshake from other
// goroutines, concurrent writers, KeyUpdate (1.3), alerts, Close.  Every datagram written to the wire is
//   (1) scanned for every payload given to Write, the Finished verify_data of both sides and (1.3) the bodies
//       of every protected handshake message (EncryptedExtensions, Certificate, CertificateVerify, Finished,
//       NewSessionTicket) taken from the senders' handshake caches;
//   (2) split into records which are opened in-package and labelled (content type, handshake type, epoch,
//       protected?) for the comparison with Rec/C07Emit.v.
// Injection sessions deliver an epoch-0 application_data record with a marker at every stage: Read must never
// return it.  The exporter is compared with values recomputed from the captured hellos only.
package dtls

import (
	"bytes"
	"context"
	"crypto/sha256"
	"crypto/sha512"
	"crypto/tls"
	"encoding/binary"
	"fmt"
	"hash"
	"strings"
	"sync"
	"sync/atomic"
	"testing"
	"testing/synctest"
	"time"

	dtlsflight "github.com/pion/dtls/v3/internal/flight"
	dtlsstate "github.com/pion/dtls/v3/internal/state"
	"github.com/pion/dtls/v3/pkg/crypto/keyschedule"
	"github.com/pion/dtls/v3/pkg/crypto/prf"
	"github.com/pion/dtls/v3/pkg/protocol"
	"github.com/pion/dtls/v3/pkg/protocol/handshake"
	"github.com/pion/dtls/v3/pkg/protocol/recordlayer"
)

type c07Variant struct {
	Name string
	V13  bool
	mk   func() (*dtlsConfig, *dtlsConfig)
}

// c07CIDGenerator: connection IDs are a function of VERIF_SEED, the suite, the length and the side (reproducible
// runs) instead of RandomCIDGenerator.  Length 0 = "send only" (an empty connection ID), as RandomCIDGenerator(0).
func c07CIDGenerator(suite CipherSuiteID, n int, client bool) func() []byte {
	seed := (vSeed()^0xc07c1d)*1099511628211 + uint64(suite)<<8 + uint64(n) //nolint:gosec
	if client {
		seed ^= 0x5555
	}
	rng := newVRand(seed)

	return func() []byte { return rng.bytes(n) }
}

func c07Cert12(suite CipherSuiteID, ccid, scid int, clientAuth bool) func() (*dtlsConfig, *dtlsConfig) {
	return func() (*dtlsConfig, *dtlsConfig) {
		c, s := vCertPair()
		c.CipherSuites, s.CipherSuites = []CipherSuiteID{suite}, []CipherSuiteID{suite}
		c.MaxVersion, s.MaxVersion = protocol.Version1_2, protocol.Version1_2
		if ccid > 0 || scid > 0 {
			c.ConnectionIDGenerator, s.ConnectionIDGenerator = c07CIDGenerator(suite, ccid, true), c07CIDGenerator(suite, scid, false)
		}
		if clientAuth {
			cr := vGetCreds()
			c.Certificates = append(c.Certificates, cr.Client)
			s.ClientAuth = RequireAndVerifyClientCert
			s.ClientCAs = cr.Pool
		}

		return c, s
	}
}

func c07PSK12(suite CipherSuiteID, ccid, scid int) func() (*dtlsConfig, *dtlsConfig) {
	return func() (*dtlsConfig, *dtlsConfig) {
		c, s := vPSKPair(suite)
		c.MaxVersion, s.MaxVersion = protocol.Version1_2, protocol.Version1_2
		if ccid > 0 || scid > 0 {
			c.ConnectionIDGenerator, s.ConnectionIDGenerator = c07CIDGenerator(suite, ccid, true), c07CIDGenerator(suite, scid, false)
		}

		return c, s
	}
}

func c07V13(suite CipherSuiteID) func() (*dtlsConfig, *dtlsConfig) {
	return func() (*dtlsConfig, *dtlsConfig) {
		c, s := vCertPair()
		for _, cfg := range []*dtlsConfig{c, s} {
			cfg.MinVersion, cfg.MaxVersion = protocol.Version1_3, protocol.Version1_3
			cfg.CipherSuites = []CipherSuiteID{suite}
		}

		return c, s
	}
}

func c07Variants() []c07Variant {
	return []c07Variant{
		{Name: "psk-gcm", mk: c07PSK12(TLS_PSK_WITH_AES_128_GCM_SHA256, 0, 0)},
		{Name: "psk-ccm8", mk: c07PSK12(TLS_PSK_WITH_AES_128_CCM_8, 0, 0)},
		{Name: "psk-cbc", mk: c07PSK12(TLS_PSK_WITH_AES_128_CBC_SHA256, 0, 0)},
		{Name: "psk-chacha", mk: c07PSK12(TLS_PSK_WITH_CHACHA20_POLY1305_SHA256, 0, 0)},
		{Name: "psk-gcm-cid", mk: c07PSK12(TLS_PSK_WITH_AES_128_GCM_SHA256, 4, 6)},
		{Name: "psk-cbc-cid", mk: c07PSK12(TLS_PSK_WITH_AES_128_CBC_SHA256, 3, 5)},
		{Name: "cert-gcm", mk: c07Cert12(TLS_ECDHE_ECDSA_WITH_AES_128_GCM_SHA256, 0, 0, false)},
		{Name: "cert-gcm384", mk: c07Cert12(TLS_ECDHE_ECDSA_WITH_AES_256_GCM_SHA384, 0, 0, false)},
		{Name: "cert-ccm", mk: c07Cert12(TLS_ECDHE_ECDSA_WITH_AES_128_CCM, 0, 0, false)},
		{Name: "cert-cbc-sha", mk: c07Cert12(TLS_ECDHE_ECDSA_WITH_AES_256_CBC_SHA, 0, 0, false)},
		{Name: "cert-chacha", mk: c07Cert12(TLS_ECDHE_ECDSA_WITH_CHACHA20_POLY1305_SHA256, 0, 0, false)},
		{Name: "cert-clientauth", mk: c07Cert12(TLS_ECDHE_ECDSA_WITH_AES_128_GCM_SHA256, 0, 0, true)},
		{Name: "cert-ccm-cid", mk: c07Cert12(TLS_ECDHE_ECDSA_WITH_AES_128_CCM, 8, 3, false)},
		{Name: "v13-aes128", V13: true, mk: c07V13(TLS_AES_128_GCM_SHA256)},
		{Name: "v13-aes256", V13: true, mk: c07V13(TLS_AES_256_GCM_SHA384)},
		{Name: "v13-chacha", V13: true, mk: c07V13(TLS_CHACHA20_POLY1305_SHA256)},
	}
}

// ---------------------------------------------------------------- observations

type c07Label struct {
	From  string `json:"from"`
	V13   bool   `json:"v13"`
	CT    int    `json:"ct"`    // content type (inner type of protected records)
	HT    int    `json:"ht"`    // handshake type for handshake records (first fragment header), else 0
	Epoch int    `json:"epoch"` // epoch on the wire (1.3: epoch of the generation that opens it)
	Enc   bool   `json:"enc"`   // protected on the wire
	N     int    `json:"n"`
	Note  string `json:"note,omitempty"`
}

type c07Leak struct {
	What string `json:"what"` // payload | finished | hs13:<type>
	From string `json:"from"`
	Idx  int    `json:"idx"` // datagram index
	Hex  string `json:"hex"` // the datagram
	Sec  string `json:"sec"` // the secret bytes found
}

type c07Res struct {
	Kind      string     `json:"kind"` // session | inject
	Variant   string     `json:"variant"`
	V13       bool       `json:"v13"`
	Drop      int        `json:"drop"`
	Early     bool       `json:"early"` // real-time session with Writes issued before and during the handshake
	PostDrop  int        `json:"post_drop"` // index (after the server's establishment) of the dropped post-handshake datagram, -1 none
	KUDrop    int        `json:"ku_drop"`   // index (after the first UpdateKeys call) of the dropped datagram, -1 none
	Done      bool       `json:"done"`
	Err       string     `json:"err,omitempty"`
	Datagrams int        `json:"datagrams"`
	Records   int        `json:"records"`
	Labels    []c07Label `json:"labels"`
	Secrets   int        `json:"secrets"`  // number of secret windows scanned for
	Payloads  int        `json:"payloads"` // payloads handed to Write
	EarlyW    int        `json:"early_w"`  // Writes issued before / during the handshake
	EarlyRet  int        `json:"early_ret"` // ... that had returned before the handshake was established (must be 0)
	Delivered int        `json:"delivered"` // payloads read by the peers
	Unknown   int        `json:"unknown"`   // payloads read that nobody wrote
	Leaks     []c07Leak  `json:"leaks"`
	Unopened  int        `json:"unopened"` // records the harness could not open (neither cleartext nor authentic)
	KU        int        `json:"ku"`       // successful UpdateKeys calls
	// exporter
	ExpC      string `json:"exp_c,omitempty"`
	ExpS      string `json:"exp_s,omitempty"`
	ExpPublic string `json:"exp_public,omitempty"` // name of a public recomputation that equals the exporter ("" = none)
	ExpErr    string `json:"exp_err,omitempty"`
	// injection sessions
	Stage     int    `json:"stage"`
	Target    string `json:"target,omitempty"`
	MarkerHex string `json:"marker_hex,omitempty"`
	MarkerRead bool  `json:"marker_read"` // Read returned the marker (violation)
	AfterOK    bool  `json:"after_ok"`    // a genuine payload written after the marker was read by the target
	// empty pre-shared key leg (kind psk0) / resumed states leg (kind resume)
	Mode    string `json:"mode,omitempty"`   // psk0: who returns the empty key, +-extended master secret; resume: when the state was captured
	StNote  string `json:"st_note,omitempty"` // resume, direct states: what the State handed to Resume looked like
	Side    string `json:"side,omitempty"`   // resume: whose state
	Refused string `json:"refused,omitempty"` // resume: error of Resume ("" = it resumed)
	Epoch0  int    `json:"epoch0"`            // resume: application_data records emitted at epoch 0
	Queued     int   `json:"queued"`      // items in the target's Read queue right after the injection, handshake still running
	Effect    string `json:"effect,omitempty"`
}

type c07Secret struct {
	what string
	from string // side that owns it ("" = both)
	b    []byte
}

// ---------------------------------------------------------------- opening records

func c07State13(c *Conn) *dtlsstate.State13 {
	st, _ := c.state.(*dtlsstate.State13)

	return st
}

// open one DTLS 1.3 ciphertext record with the write generations of its sender
func c07Open13(sender *Conn, raw []byte, cidLen int) (ct, ht, epoch int, ok bool) {
	rec := recordlayer.CiphertextRecord13{}
	if cidLen > 0 && raw[0]&recordlayer.UnifiedHeaderCIDBit != 0 {
		rec.Header.ConnectionID = make([]byte, cidLen)
	}
	if err := rec.Unmarshal(raw); err != nil {
		return 0, 0, 0, false
	}
	st := c07State13(sender)
	if st == nil || st.TrafficKeys == nil {
		return 0, 0, 0, false
	}
	for e := int(st.LocalEpoch()) + 1; e >= 2; e-- {
		if e&3 != int(rec.Header.EpochLow) {
			continue
		}
		gen, found := st.TrafficKeys.Write(uint16(e)) //nolint:gosec
		if !found || gen.Protection == nil {
			continue
		}
		clear, err := gen.Protection.UnmaskSequenceNumber(rec.Header, rec.EncryptedRecord)
		if err != nil {
			continue
		}
		inner, err := gen.Protection.Open(rec.Header, uint64(clear.SequenceNumber), rec.EncryptedRecord)
		if err != nil {
			continue
		}
		ht := 0
		if inner.RealType == protocol.ContentTypeHandshake && len(inner.Content) >= 12 {
			ht = int(inner.Content[0])
		}

		return int(inner.RealType), ht, e, true
	}

	return 0, 0, 0, false
}

// label every record of a datagram.  `sender`/`receiver` are the connections at the end of the session
// (their key material is what opens the protected records).
func c07LabelDatagram(d vDatagram, sender, receiver *Conn, v13 bool, add func(l c07Label), unopened *int) int {
	n := 0
	b := d.Data
	rcvCID := len(dtlsstate.CommonState(receiver.state).LocalConnectionIDForInboundRecords())
	for len(b) > 0 {
		n++
		if protocol.IsDTLS13Ciphertext(protocol.ContentType(b[0])) {
			h := recordlayer.UnifiedHeader{}
			if rcvCID > 0 && b[0]&recordlayer.UnifiedHeaderCIDBit != 0 {
				h.ConnectionID = make([]byte, rcvCID)
			}
			if err := h.Unmarshal(b); err != nil {
				*unopened++

				return n
			}
			total := len(b)
			if h.LengthBit {
				total = h.Size() + int(h.Length)
			}
			if total > len(b) {
				*unopened++

				return n
			}
			ct, ht, ep, ok := c07Open13(sender, b[:total], rcvCID)
			if !ok {
				*unopened++
				add(c07Label{From: d.From, V13: v13, CT: -1, Epoch: int(h.EpochLow), Enc: true, Note: "unopened"})
			} else {
				add(c07Label{From: d.From, V13: v13, CT: ct, HT: ht, Epoch: ep, Enc: true})
			}
			b = b[total:]

			continue
		}
		h := &recordlayer.Header{}
		if b[0] == byte(protocol.ContentTypeConnectionID) && rcvCID > 0 {
			h.ConnectionID = make([]byte, rcvCID)
		}
		if err := h.Unmarshal(b); err != nil || h.Size()+int(h.ContentLen) > len(b) {
			*unopened++

			return n
		}
		total := h.Size() + int(h.ContentLen)
		rec := b[:total]
		b = b[total:]
		body := rec[h.Size():]
		lab := c07Label{From: d.From, V13: v13, CT: int(h.ContentType), Epoch: int(h.Epoch)}
		if h.Epoch == 0 || h.ContentType == protocol.ContentTypeChangeCipherSpec {
			if h.ContentType == protocol.ContentTypeHandshake && len(body) >= 12 {
				lab.HT = int(body[0])
			}
			add(lab)

			continue
		}
		if v13 {
			// DTLS 1.3 protects with the unified header only: a DTLSPlaintext-framed record is cleartext whatever
			// epoch its header claims
			if h.ContentType == protocol.ContentTypeHandshake && len(body) >= 12 {
				lab.HT = int(body[0])
			}
			add(lab)

			continue
		}
		// claims protection: open it with the receiver's read keys
		common := dtlsstate.CommonState(receiver.state)
		var plain []byte
		var err error
		if common.CipherSuite != nil && common.CipherSuite.IsInitialized() {
			dh := recordlayer.Header{}
			if h.ContentType == protocol.ContentTypeConnectionID {
				dh.ConnectionID = make([]byte, rcvCID)
			}
			func() {
				defer func() {
					if r := recover(); r != nil {
						err = fmt.Errorf("panic: %v", r)
					}
				}()
				plain, err = common.CipherSuite.Decrypt(dh, append([]byte(nil), rec...))
			}()
		} else {
			err = fmt.Errorf("no keys")
		}
		if err != nil {
			// not authentic: is it a cleartext alert sent at a non-zero epoch before establishment?
			if h.ContentType == protocol.ContentTypeAlert && len(body) == 2 {
				lab.Enc = false
				add(lab)

				continue
			}
			*unopened++
			lab.CT, lab.Enc, lab.Note = -1, true, "unopened"
			add(lab)

			continue
		}
		lab.Enc = true
		inner := plain[h.Size():]
		if h.ContentType == protocol.ContentTypeConnectionID {
			ip := &recordlayer.InnerPlaintext{}
			if err := ip.Unmarshal(inner); err != nil {
				*unopened++

				continue
			}
			lab.CT = int(ip.RealType)
			inner = ip.Content
		}
		if lab.CT == int(protocol.ContentTypeHandshake) && len(inner) >= 12 {
			lab.HT = int(inner[0])
		}
		add(lab)
	}

	return n
}

// ---------------------------------------------------------------- secrets to scan for

func c07Windows(what, from string, body []byte) []c07Secret {
	var out []c07Secret
	if len(body) < 12 {
		return nil
	}
	w := 16
	if len(body) < w {
		w = len(body)
	}
	for _, off := range []int{0, (len(body) - w) / 2, len(body) - w} {
		out = append(out, c07Secret{what: what, from: from, b: body[off : off+w]})
	}

	return out
}

// protected handshake messages of both sides, from their handshake caches (what the side itself sent)
func c07HandshakeSecrets(lab *vLab, v13 bool) []c07Secret {
	var out []c07Secret
	for _, p := range []*vPeer{lab.Client, lab.Server} {
		isClient := p.Name == "client"
		types := []handshake.Type{handshake.TypeFinished}
		epochs := []uint16{1}
		if v13 {
			types = []handshake.Type{
				handshake.TypeEncryptedExtensions, handshake.TypeCertificateRequest, handshake.TypeCertificate,
				handshake.TypeCertificateVerify, handshake.TypeFinished, handshake.TypeNewSessionTicket,
			}
			epochs = []uint16{2, 3, 4, 5}
		}
		for _, ty := range types {
			for _, ep := range epochs {
				items := p.Conn.handshakeCache.Pull(dtlsflight.HandshakeCachePullRule{Typ: ty, Epoch: ep, IsClient: isClient})
				for _, it := range items {
					if it == nil || len(it.Data) <= 12 {
						continue
					}
					name := "finished"
					if ty != handshake.TypeFinished {
						name = fmt.Sprintf("hs13:%d", ty)
					}
					if ty == handshake.TypeCertificate && v13 {
						// the certificate itself is public data; what must not show is the message on the wire
						name = "hs13:certificate"
					}
					out = append(out, c07Windows(name, p.Name, it.Data[12:])...)
				}
			}
		}
	}

	return out
}

// ---------------------------------------------------------------- exporter

func c07Hellos(log []vDatagram) (cr, sr []byte) {
	for _, d := range log {
		b := d.Data
		// plain 13-byte headers only: a tls12_cid record (whose header length this function does not know) ends the
		// walk - the hellos are never behind one
		for len(b) >= 13 && b[0] >= 20 && b[0] <= 27 && b[0] != 25 {
			n := int(binary.BigEndian.Uint16(b[11:]))
			if 13+n > len(b) {
				break
			}
			body := b[13 : 13+n]
			if b[0] == 22 && b[3] == 0 && b[4] == 0 && len(body) >= 12+34 &&
				body[6] == 0 && body[7] == 0 && body[8] == 0 { // fragment offset 0
				rnd := body[12+2 : 12+34]
				switch body[0] {
				case 1:
					cr = append([]byte(nil), rnd...)
				case 2:
					if !bytes.Equal(rnd, handshake.HelloRetryRequestRandom()) {
						sr = append([]byte(nil), rnd...)
					}
				}
			}
			b = b[13+n:]
		}
	}

	return cr, sr
}

// every value an observer could compute from the hellos alone that the exporter must NOT equal
func c07PublicExporters(label string, cr, sr []byte, n int) map[string][]byte {
	out := map[string][]byte{}
	seedCS := append(append([]byte(label), cr...), sr...)
	seedSC := append(append([]byte(label), sr...), cr...)
	for hn, hf := range map[string]func() hash.Hash{"sha256": sha256.New, "sha384": sha512.New384} {
		for sn, secret := range map[string][]byte{"empty": {}, "zero48": make([]byte, 48), "zero32": make([]byte, 32)} {
			for dn, seed := range map[string][]byte{"cr|sr": seedCS, "sr|cr": seedSC} {
				if v, err := prf.PHash(secret, seed, n, hf); err == nil {
					out["P_"+hn+"("+sn+",label|"+dn+")"] = v
				}
			}
			// RFC 8446 7.5 keyed with a public secret
			if d, err := keyschedule.DeriveSecret(hf, append(secret, make([]byte, hf().Size())...)[:hf().Size()], label, hf()); err == nil {
				if v, err := keyschedule.HkdfExpandLabel(hf, d, "exporter", hf().Sum(nil), n); err == nil {
					out["TLS13-exporter_"+hn+"("+sn+")"] = v
				}
			}
		}
	}

	return out
}

// ---------------------------------------------------------------- sessions

type c07Writer struct {
	mu       sync.Mutex
	payloads [][]byte
	early    int
	earlyRet int
}

func (w *c07Writer) write(p *vPeer, rng *vRand, tag string, early bool, est func() bool) {
	pl := append([]byte(fmt.Sprintf("c07/%s/%s/", p.Name, tag)), rng.bytes(24+rng.intn(40))...)
	w.mu.Lock()
	w.payloads = append(w.payloads, pl)
	if early {
		w.early++
	}
	w.mu.Unlock()
	go func() {
		_, _ = p.Conn.Write(pl)
		if early && !est() {
			// the Write returned although the handshake was not established: only allowed with an error
			w.mu.Lock()
			w.earlyRet++
			w.mu.Unlock()
		}
	}()
}

// c07Net drives the lab network either inside a synctest bubble (virtual time, lab pump) or in real time.
// Real time is needed for the sessions with Writes issued before/during the handshake: those block on
// Conn.handshakeMutex, and a goroutine blocked on a sync.Mutex keeps a synctest bubble from ever being idle.
type c07Net struct {
	lab       *vLab
	real      bool
	next      int
	drop      int
	onDeliver func()
	// post-handshake loss (virtual-time sessions): drop the postK-th datagram emitted after the server's
	// handshake was established, and the kuM-th datagram emitted after the first UpdateKeys call
	postK, estIdx int
	kuM, kuIdx    int
}

func (n *c07Net) lose(d vDatagram) bool {
	if d.Idx == n.drop {
		return true
	}
	if n.postK >= 0 {
		if n.estIdx < 0 && n.lab.Server.Conn.isHandshakeCompletedSuccessfully() {
			n.estIdx = d.Idx
		}
		if n.estIdx >= 0 && d.Idx == n.estIdx+n.postK {
			return true
		}
	}

	return n.kuM >= 0 && n.kuIdx >= 0 && d.Idx == n.kuIdx+n.kuM
}

func (n *c07Net) settle() {
	if n.real {
		time.Sleep(3 * time.Millisecond)
	} else {
		synctest.Wait()
	}
}

func (n *c07Net) deliverNew() bool {
	news := n.lab.Net.since(n.next)
	for _, d := range news {
		n.next = d.Idx + 1
		if d.Idx == n.drop {
			continue
		}
		n.lab.Net.deliver(d.To, d.From, d.Data)
		if n.onDeliver != nil {
			n.onDeliver()
		}
		time.Sleep(300 * time.Microsecond)
	}

	return len(news) > 0
}

// run until done() (checked between deliveries) or until `limit` passes
func (n *c07Net) run(done func() bool, limit time.Duration) bool {
	if !n.real {
		n.lab.Pump.Policy = func(d vDatagram) (vAction, int) {
			if n.lose(d) {
				return vDrop, 0
			}

			return vPass, 0
		}
		n.lab.Pump.OnDeliver = func(vDatagram) {
			if n.onDeliver != nil {
				n.onDeliver()
			}
		}

		return n.lab.Pump.run(done, limit)
	}
	if limit > 8*time.Second {
		limit = 8 * time.Second
	}
	deadline := time.Now().Add(limit)
	for !done() {
		if !n.deliverNew() {
			if time.Now().After(deadline) {
				return done()
			}
			time.Sleep(500 * time.Microsecond)
		}
	}

	return true
}

// deliver everything in flight until the network is quiet
func (n *c07Net) drain(limit time.Duration) {
	if !n.real {
		n.run(func() bool { return false }, limit)

		return
	}
	quiet := 0
	for quiet < 12 {
		if n.deliverNew() {
			quiet = 0
		} else {
			quiet++
			time.Sleep(time.Millisecond)
		}
	}
}

func c07Session(t *testing.T, v c07Variant, rng *vRand, drop int, mtu int, early bool, post ...int) c07Res {
	t.Helper()
	postK, kuM := -1, -1
	if len(post) == 2 {
		postK, kuM = post[0], post[1]
	}
	res := c07Res{Kind: "session", Variant: v.Name, V13: v.V13, Drop: drop, Stage: -1, Early: early, PostDrop: postK, KUDrop: kuM}
	ccfg, scfg := v.mk()
	if mtu > 0 {
		ccfg.MTU, scfg.MTU = mtu, mtu
	}
	lab := newLab(t, ccfg, scfg)
	net := &c07Net{lab: lab, real: early, drop: drop, postK: postK, estIdx: -1, kuM: kuM, kuIdx: -1}
	wr := &c07Writer{}
	estC := lab.Client.Conn.isHandshakeCompletedSuccessfully
	estS := lab.Server.Conn.isHandshakeCompletedSuccessfully
	if early {
		// Writes issued BEFORE the handshake has made any progress, from other goroutines
		wr.write(lab.Client, rng, "pre", true, estC)
		wr.write(lab.Server, rng, "pre", true, estS)
		net.settle()
		nd := 0
		net.onDeliver = func() {
			nd++
			if nd <= 8 { // Writes issued DURING the handshake
				if !estC() {
					wr.write(lab.Client, rng, fmt.Sprintf("during%d", nd), true, estC)
				}
				if !estS() {
					wr.write(lab.Server, rng, fmt.Sprintf("during%d", nd), true, estS)
				}
			}
		}
	}
	net.run(lab.bothDone, 300*time.Second)
	net.onDeliver = nil
	res.Done = lab.established()
	if !res.Done {
		res.Err = fmt.Sprintf("client=%v server=%v", lab.Client.Err, lab.Server.Err)
	}
	net.drop = -1
	if res.Done {
		lab.Client.startReader()
		lab.Server.startReader()
		// concurrent writers on both sides
		var wg sync.WaitGroup
		for _, p := range []*vPeer{lab.Client, lab.Server} {
			for k := 0; k < 2; k++ {
				var pls [][]byte // the shared PRNG is used by this goroutine only
				for i := 0; i < 3; i++ {
					pls = append(pls, append([]byte(fmt.Sprintf("c07/%s/post%d-%d/", p.Name, k, i)), rng.bytes(32)...))
				}
				wr.mu.Lock()
				wr.payloads = append(wr.payloads, pls...)
				wr.mu.Unlock()
				wg.Add(1)
				go func(p *vPeer, pls [][]byte) {
					defer wg.Done()
					for _, pl := range pls {
						_, _ = p.Conn.Write(pl)
					}
				}(p, pls)
			}
		}
		if early {
			for waited := 0; waited < 400; waited++ { // the writers run in real time
				net.deliverNew()
				time.Sleep(500 * time.Microsecond)
			}
		}
		net.drain(2 * time.Second)
		if early {
			// bounded: a writer that never returns must not hang the run (it shows up as an undelivered payload)
			wdone := make(chan struct{})
			go func() { wg.Wait(); close(wdone) }()
			select {
			case <-wdone:
			case <-time.After(5 * time.Second):
				res.Err += " writers still blocked after 5s"
			}
		} else {
			wg.Wait()
		}
		net.drain(time.Second)
		if v.V13 {
			// key updates, with traffic in between
			for i, p := range []*vPeer{lab.Client, lab.Server} {
				if net.kuIdx < 0 {
					net.kuIdx = lab.Net.count()
				}
				errc := make(chan error, 1)
				go func(p *vPeer, req bool) {
					ctx, cancel := context.WithTimeout(context.Background(), 20*time.Second)
					defer cancel()
					errc <- p.Conn.UpdateKeys(ctx, KeyUpdateOptions{RequestPeerUpdate: req})
				}(p, i == 0)
				net.run(func() bool { return len(errc) > 0 }, 30*time.Second)
				select {
				case err := <-errc:
					if err == nil {
						res.KU++
					}
				default:
				}
				pl := append([]byte(fmt.Sprintf("c07/%s/afterku/", p.Name)), rng.bytes(32)...)
				wr.mu.Lock()
				wr.payloads = append(wr.payloads, pl)
				wr.mu.Unlock()
				// bounded: a Write stuck behind a post-handshake flight that never completes must not hang the run
				wdone := make(chan struct{})
				go func(p *vPeer, pl []byte) { _, _ = p.Conn.Write(pl); close(wdone) }(p, pl)
				if !net.run(func() bool {
					select {
					case <-wdone:
						return true
					default:
						return false
					}
				}, 20*time.Second) {
					res.Err += " Write after KeyUpdate still blocked after 20s"
				}
				net.drain(time.Second)
			}
		}
		// exporter: both sides agree, and no value computable from the hellos equals it
		cs, okc := lab.Client.Conn.ConnectionState()
		ss, oks := lab.Server.Conn.ConnectionState()
		if okc && oks {
			label := "EXPERIMENTAL verif c07"
			ec, err1 := cs.ExportKeyingMaterial(label, nil, 32)
			es, err2 := ss.ExportKeyingMaterial(label, nil, 32)
			if err1 != nil || err2 != nil {
				res.ExpErr = fmt.Sprintf("%v / %v", err1, err2)
			} else {
				res.ExpC, res.ExpS = vHex(ec), vHex(es)
				cr, sr := c07Hellos(lab.Net.since(0))
				if len(cr) != 32 || len(sr) != 32 {
					res.ExpErr = "hellos not found on the wire"
				} else {
					for name, pub := range c07PublicExporters(label, cr, sr, 32) {
						if bytes.Equal(pub, ec) || bytes.Equal(pub, es) {
							res.ExpPublic = name
						}
					}
				}
			}
		} else {
			res.ExpErr = "ConnectionState unavailable"
		}
	}
	// collect the secrets while the connections are still alive
	secrets := c07HandshakeSecrets(lab, v.V13)
	// an alert and Close: alerts are records too
	_ = lab.Client.Conn.Close()
	net.drain(time.Second)
	_ = lab.Server.Conn.Close()
	net.settle()
	wr.mu.Lock()
	for _, pl := range wr.payloads {
		secrets = append(secrets, c07Secret{what: "payload", b: pl[len(pl)-24:]}, c07Secret{what: "payload", b: pl[:20]})
	}
	res.Payloads, res.EarlyW, res.EarlyRet = len(wr.payloads), wr.early, wr.earlyRet
	wrote := map[string]bool{}
	for _, pl := range wr.payloads {
		wrote[string(pl)] = true
	}
	wr.mu.Unlock()
	for _, p := range []*vPeer{lab.Client, lab.Server} {
		for _, r := range p.reads() {
			if wrote[string(r)] {
				res.Delivered++
			} else {
				res.Unknown++
			}
		}
	}
	c07Scan(lab, v.V13, secrets, &res)
	if early {
		_ = lab.Client.EP.Close()
		_ = lab.Server.EP.Close()
		time.Sleep(2 * time.Millisecond)
	} else {
		lab.close()
	}

	return res
}

func c07Scan(lab *vLab, v13 bool, secrets []c07Secret, res *c07Res) {
	res.Secrets = len(secrets)
	idx := map[string]int{}
	add := func(l c07Label) {
		k := fmt.Sprintf("%s|%d|%d|%d|%v|%s", l.From, l.CT, l.HT, l.Epoch, l.Enc, l.Note)
		if i, ok := idx[k]; ok {
			res.Labels[i].N++

			return
		}
		idx[k] = len(res.Labels)
		l.N = 1
		res.Labels = append(res.Labels, l)
	}
	log := lab.Net.since(0)
	res.Datagrams = len(log)
	for _, d := range log {
		for _, s := range secrets {
			if s.from != "" && s.from != d.From {
				// a protected message quoted by the PEER in clear would be a leak as well
				_ = s
			}
			if bytes.Contains(d.Data, s.b) {
				if len(res.Leaks) < 5 {
					res.Leaks = append(res.Leaks, c07Leak{What: s.what, From: d.From, Idx: d.Idx, Hex: vHex(d.Data), Sec: vHex(s.b)})
				}
			}
		}
		sender, receiver := lab.Client.Conn, lab.Server.Conn
		if d.From == "server" {
			sender, receiver = receiver, sender
		}
		res.Records += c07LabelDatagram(d, sender, receiver, v13, add, &res.Unopened)
	}
}

// injection session: an epoch-0 application_data record carrying a marker, delivered before handshake
// datagram #stage (or after establishment, stage -1) to the addressee of that datagram.
func c07Inject(t *testing.T, v c07Variant, rng *vRand, stage int, form int) c07Res {
	t.Helper()
	res := c07Res{Kind: "inject", Variant: v.Name, V13: v.V13, Stage: stage, Drop: -1}
	ccfg, scfg := v.mk()
	lab := newLab(t, ccfg, scfg)
	marker := append([]byte("c07-MARKER-epoch0-appdata/"), rng.bytes(16)...)
	mk := func(target *Conn) []byte {
		d := make([]byte, 13, 13+len(marker)+8)
		d[0], d[1], d[2] = 23, 0xfe, 0xfd
		// a record number just ahead of the genuine sender's, inside the anti-replay window (a far-future one,
		// once accepted, would push the genuine epoch-0 records out of the window and hide the delivery)
		binary.BigEndian.PutUint32(d[7:], uint32(24+rng.intn(16))) //nolint:gosec
		body := marker
		switch form {
		case 1:
			// tls12_cid typed record at epoch 0 with the target's connection id and the inner type application_data
			cid := dtlsstate.CommonState(target.state).LocalConnectionIDForInboundRecords()
			if len(cid) > 0 {
				d[0] = 25
				d = append(d[:11], append(append([]byte(nil), cid...), 0, 0)...)
				body = append(append([]byte(nil), marker...), 23)
			}
		case 2:
			// DTLS 1.0 record version
			d[2] = 0xff
		}
		binary.BigEndian.PutUint16(d[len(d)-2:], uint16(len(body))) //nolint:gosec

		return append(d, body...)
	}
	sawMarker := func(p *vPeer) bool {
		for _, r := range p.reads() {
			if bytes.Contains(r, marker[:20]) {
				return true
			}
		}

		return false
	}
	injected := false
	var effect []string
	do := func(target string) {
		injected = true
		res.Target = target
		p := lab.peer(target)
		data := mk(p.Conn)
		res.MarkerHex = vHex(data)
		before := lab.Net.count()
		lab.Net.deliver(target, lab.other(target).Name, data)
		synctest.Wait()
		if lab.Net.count() > before {
			effect = append(effect, "emit")
		}
		if !p.Conn.isHandshakeCompletedSuccessfully() {
			// nobody reads before establishment: whatever sits in the Read queue now was put there by this record
			res.Queued = len(p.Conn.decrypted)
		}
		if p.handshakeDone() && p.Err != nil {
			effect = append(effect, "hs-abort")
		}
	}
	lab.Pump.Policy = func(d vDatagram) (vAction, int) {
		if stage >= 0 && d.Idx == stage && !injected {
			do(d.To)
		}

		return vPass, 0
	}
	lab.Pump.run(lab.bothDone, 100*time.Second)
	res.Done = lab.established()
	lab.Pump.Policy = nil
	if res.Done {
		lab.Client.startReader()
		lab.Server.startReader()
		synctest.Wait()
		if !injected {
			do([]string{"client", "server"}[rng.intn(2)])
			lab.Pump.run(func() bool { return false }, time.Second)
		}
		// a genuine payload afterwards: the reader must see it, never the marker
		pl := append([]byte("c07/genuine-after-marker/"), rng.bytes(16)...)
		_, _ = lab.other(res.Target).Conn.Write(pl)
		lab.Pump.run(func() bool { return false }, time.Second)
		for _, r := range lab.peer(res.Target).reads() {
			if bytes.Equal(r, pl) {
				res.AfterOK = true
			}
		}
	} else if injected {
		// the target may have aborted: a reader on a finished (failed) handshake returns the error at once; a
		// reader on a handshake still in progress would block on the handshake mutex (never idle in a bubble)
		for _, p := range []*vPeer{lab.Client, lab.Server} {
			if p.handshakeDone() && p.Err == nil {
				p.startReader()
			}
		}
		synctest.Wait()
	}
	res.MarkerRead = sawMarker(lab.Client) || sawMarker(lab.Server)
	for _, e := range effect {
		res.Effect += e + " "
	}
	lab.close()

	return res
}

// ---------------------------------------------------------------- alerts while the handshake runs

// c07AlertSession: the client does not trust the server's certificate, so it ends the handshake with an alert
// after the server's flight: in DTLS 1.3 the handshake keys are in use by then and the alert must leave
// PROTECTED at epoch 2 (5aa3cd1); in DTLS 1.2 it leaves in clear at epoch 0.  Every record is labelled.
func c07AlertSession(t *testing.T, v c07Variant) c07Res {
	t.Helper()
	res := c07Res{Kind: "session", Variant: v.Name + "/untrusted-server", V13: v.V13, Drop: -1, Stage: -1, PostDrop: -1, KUDrop: -1}
	ccfg, scfg := v.mk()
	ccfg.RootCAs = vGetCreds().OtherCA
	lab := newLab(t, ccfg, scfg)
	lab.Pump.run(lab.bothDone, 30*time.Second)
	res.Done = lab.established()
	res.Err = fmt.Sprintf("client=%v server=%v", lab.Client.Err, lab.Server.Err)
	secrets := c07HandshakeSecrets(lab, v.V13)
	c07Scan(lab, v.V13, secrets, &res)
	lab.close()

	return res
}

// ---------------------------------------------------------------- empty pre-shared key

// c07EmptyPSK: a PSK callback that returns an EMPTY key (mode: who).  With an empty key the pre_master_secret
// is 00 00 00 00: anybody could complete the handshake, and the exported keying material is computable from the
// hello randoms alone.  The endpoints must refuse it.
func c07EmptyPSK(t *testing.T, mode string, ems bool) c07Res {
	t.Helper()
	res := c07Res{Kind: "psk0", Variant: "psk-gcm", Mode: mode, Drop: -1, Stage: -1}
	if ems {
		res.Mode += "+ems"
	}
	ccfg, scfg := c07PSK12(TLS_PSK_WITH_AES_128_GCM_SHA256, 0, 0)()
	empty := func([]byte) ([]byte, error) { return []byte{}, nil }
	if mode == "both" || mode == "client" {
		ccfg.psk = empty
	}
	if mode == "both" || mode == "server" {
		scfg.psk = empty
	}
	if !ems {
		ccfg.ExtendedMasterSecret, scfg.ExtendedMasterSecret = DisableExtendedMasterSecret, DisableExtendedMasterSecret
	}
	lab := newLab(t, ccfg, scfg)
	lab.Pump.run(lab.bothDone, 60*time.Second)
	res.Done = lab.established()
	res.Err = fmt.Sprintf("client=%v server=%v", lab.Client.Err, lab.Server.Err)
	if res.Done {
		cs, okc := lab.Client.Conn.ConnectionState()
		ss, oks := lab.Server.Conn.ConnectionState()
		if okc && oks {
			label := "EXPERIMENTAL verif c07"
			ec, _ := cs.ExportKeyingMaterial(label, nil, 32)
			es, _ := ss.ExportKeyingMaterial(label, nil, 32)
			res.ExpC, res.ExpS = vHex(ec), vHex(es)
			cr, sr := c07Hellos(lab.Net.since(0))
			if len(cr) == 32 && len(sr) == 32 {
				// everything below is computed from the two hello randoms and the EMPTY key only
				pms := prf.PSKPreMasterSecret(nil)
				if ms, err := prf.MasterSecret(pms, cr, sr, sha256.New); err == nil {
					seed := append(append([]byte(label), cr...), sr...)
					if v, err := prf.PHash(ms, seed, 32, sha256.New); err == nil && (bytes.Equal(v, ec) || bytes.Equal(v, es)) {
						res.ExpPublic = "P_sha256(PRF(00000000,'master secret',cr|sr), label|cr|sr)"
					}
				}
			}
		}
	}
	lab.close()

	return res
}

// ---------------------------------------------------------------- resumed (exported / imported) states

// c07Resume: the State handed to the VerifyConnection callback (captured while the handshake is still running) and
// the State of the established connection are serialised, imported with Resume, and written to: every record the
// resumed connection emits is labelled.  Application data must never leave at epoch 0 or in clear.
func c07Resume(t *testing.T, v c07Variant, rng *vRand, out *vOut) {
	t.Helper()
	ccfg, scfg := v.mk()
	captured := map[string][]byte{}
	var mu sync.Mutex
	capture := func(name string) func(*State) error {
		return func(st *State) error {
			raw, err := st.MarshalBinary()
			mu.Lock()
			if err == nil {
				captured[name] = raw
			}
			mu.Unlock()

			return nil
		}
	}
	// the SAME States, and more, kept as the *State the library handed out - no MarshalBinary/UnmarshalBinary round
	// trip, whose import checks they therefore never meet: the VerifyConnection argument on both sides,
	// ConnectionState() taken inside GetClientCertificate, ConnectionState() of both sides taken by another
	// goroutine before every datagram of the handshake
	direct := map[string]*State{}
	var order []string
	keep := func(name string, st *State) {
		mu.Lock()
		if _, ok := direct[name]; !ok {
			direct[name] = st
			order = append(order, name)
		}
		mu.Unlock()
	}
	both := func(name string) func(*State) error {
		ser := capture(name)

		return func(st *State) error {
			keep(strings.Replace(name, "verify/", "verify-direct/", 1), st)

			return ser(st)
		}
	}
	ccfg.verifyConnection = both("verify/client")
	scfg.verifyConnection = both("verify/server")
	var labRef atomic.Pointer[vLab]
	if scfg.ClientAuth != NoClientCert && len(ccfg.Certificates) > 0 {
		crt := ccfg.Certificates[len(ccfg.Certificates)-1]
		ccfg.getClientCertificate = func(*CertificateRequestInfo) (*tls.Certificate, error) {
			if l := labRef.Load(); l != nil {
				if st, ok := l.Client.Conn.ConnectionState(); ok {
					keep("getcert-direct/client", &st)
				}
			}

			return &crt, nil
		}
	}
	lab := newLab(t, ccfg, scfg)
	labRef.Store(lab)
	lab.Pump.Policy = func(d vDatagram) (vAction, int) {
		if d.Idx < 12 {
			for _, p := range []*vPeer{lab.Client, lab.Server} {
				if st, ok := p.Conn.ConnectionState(); ok {
					keep(fmt.Sprintf("mid%d-direct/%s", d.Idx, p.Name), &st)
				}
			}
		}

		return vPass, 0
	}
	lab.Pump.run(lab.bothDone, 100*time.Second)
	if lab.established() {
		for _, p := range []*vPeer{lab.Client, lab.Server} {
			if st, ok := p.Conn.ConnectionState(); ok {
				if raw, err := st.MarshalBinary(); err == nil {
					captured["established/"+p.Name] = raw
				}
			}
		}
	}
	done := lab.established()
	lab.close()
	if lab0 := labRef.Load(); lab0 != nil && done {
		for _, p := range []*vPeer{lab0.Client, lab0.Server} {
			if st, ok := p.Conn.ConnectionState(); ok {
				keep("established-direct/"+p.Name, &st)
			}
		}
	}
	names := []string{"verify/client", "verify/server", "established/client", "established/server"}
	names = append(names, order...)
	for _, name := range names {
		{
			when, side, _ := strings.Cut(name, "/")
			res := c07Res{Kind: "resume", Variant: v.Name, Mode: when, Side: side, Drop: -1, Stage: -1, Done: done}
			var st *State
			if strings.HasSuffix(when, "-direct") {
				st = direct[name]
				res.StNote = fmt.Sprintf("local epoch %d, master secret %d bytes", st.localEpoch, len(st.masterSecret))
			} else {
				raw, ok := captured[name]
				if !ok {
					res.Refused = "state not captured / not serialisable"
					out.emit(res)

					continue
				}
				st = &State{}
				if err := st.UnmarshalBinary(raw); err != nil {
					res.Refused = "UnmarshalBinary: " + err.Error()
					out.emit(res)

					continue
				}
			}
			n := newVNet()
			ep := n.endpoint(side)
			peer := "server"
			if side == "server" {
				peer = "client"
			}
			_ = n.endpoint(peer)
			c2, s2 := v.mk()
			cfg := c2
			if side == "server" {
				cfg = s2
			}
			conn, err := resumeWithConfig(st, ep, vAddr(peer), cfg)
			if err != nil {
				res.Refused = err.Error()
				out.emit(res)

				continue
			}
			pl := append([]byte("c07/resumed/"+when+"/"+side+"/"), rng.bytes(32)...)
			werr := make(chan error, 1)
			go func() { _, e := conn.Write(pl); werr <- e }()
			synctest.Wait()
			select {
			case e := <-werr:
				if e != nil {
					res.Err = "Write: " + e.Error()
				}
			default:
				res.Err = "Write still blocked"
			}
			res.Payloads = 1
			log := n.since(0)
			res.Datagrams = len(log)
			idx := map[string]int{}
			for _, d := range log {
				if bytes.Contains(d.Data, pl[len(pl)-24:]) || bytes.Contains(d.Data, pl[:20]) {
					res.Leaks = append(res.Leaks, c07Leak{What: "payload", From: side, Idx: d.Idx, Hex: vHex(d.Data), Sec: vHex(pl[len(pl)-24:])})
				}
				// records SENT by the resumed connection carry the connection ID its peer chose
				for _, r := range vParseDatagram(d.Data, len(dtlsstate.CommonState(conn.state).RemoteConnectionID)) {
					res.Records++
					enc := r.Epoch != 0 && !bytes.Contains(r.Raw, pl[:20])
					l := c07Label{From: side, CT: r.CT, Epoch: r.Epoch, Enc: enc, Note: "resumed"}
					if r.CT == 25 {
						l.CT = 23 // tls12_cid wrapped: the only thing a resumed connection was asked to send is application data
					}
					if l.CT == 23 && r.Epoch == 0 {
						res.Epoch0++
					}
					k := fmt.Sprintf("%d|%d|%v", l.CT, l.Epoch, l.Enc)
					if i, ok := idx[k]; ok {
						res.Labels[i].N++
					} else {
						idx[k] = len(res.Labels)
						l.N = 1
						res.Labels = append(res.Labels, l)
					}
				}
			}
			_ = conn.Close()
			_ = ep.Close()
			synctest.Wait()
			out.emit(res)
		}
	}
}

func TestVerifC07(t *testing.T) {
	out := newVOut(t)
	rng := newVRand(vSeed() ^ 0xc07)
	variants := c07Variants()
	rounds := 1
	if vIsThorough() {
		rounds = 12
	}
	for _, mode := range []string{"both", "server", "client"} {
		for _, ems := range []bool{false, true} {
			var res c07Res
			vBubble(t, func(t *testing.T) { res = c07EmptyPSK(t, mode, ems) })
			out.emit(res)
		}
	}
	for _, v := range variants {
		if v.V13 {
			continue
		}
		v := v
		vBubble(t, func(t *testing.T) { c07Resume(t, v, rng, out) })
	}
	for _, v := range variants {
		if v.Name == "cert-gcm" || v.Name == "cert-ccm-cid" || v.V13 {
			v := v
			var res c07Res
			vBubble(t, func(t *testing.T) { res = c07AlertSession(t, v) })
			out.emit(res)
		}
	}
	for r := 0; r < rounds; r++ {
		for _, v := range variants {
			v := v
			maxDrop := 7
			if v.V13 {
				maxDrop = 6
			}
			for drop := -1; drop <= maxDrop; drop++ {
				if r > 0 {
					drop = rng.intn(maxDrop+4) - 2
				}
				mtu := 0
				if (drop+r)%4 == 2 {
					mtu = 150 + rng.intn(300)
				}
				var res c07Res
				vBubble(t, func(t *testing.T) { res = c07Session(t, v, rng, drop, mtu, false) })
				out.emit(res)
				if r > 0 {
					break
				}
			}
			if v.V13 && r == 0 {
				// post-handshake loss: the k-th datagram after establishment (ticket, its ACK ...), the m-th after
				// the first UpdateKeys call (KeyUpdate, its ACK, the requested KeyUpdate ...): retransmissions of
				// post-handshake messages are records too
				for k := 0; k < 6; k++ {
					var res c07Res
					vBubble(t, func(t *testing.T) { res = c07Session(t, v, rng, -1, 0, false, k, -1) })
					out.emit(res)
				}
				for m := 0; m < 5; m++ {
					var res c07Res
					vBubble(t, func(t *testing.T) { res = c07Session(t, v, rng, -1, 0, false, -1, m) })
					out.emit(res)
				}
			}
			// real time: Writes before and during the handshake (no loss, then the first flight-5/flight-4 datagram lost)
			for _, drop := range []int{-1, 3} {
				if r > 0 && drop >= 0 {
					continue
				}
				out.emit(c07Session(t, v, rng, drop, 0, true))
			}
			maxStage := 7
			if v.V13 {
				maxStage = 5
			}
			for st := -1; st <= maxStage; st++ {
				form := 0
				if r > 0 || st%3 == 1 {
					form = rng.intn(3)
				}
				var res c07Res
				vBubble(t, func(t *testing.T) { res = c07Inject(t, v, rng, st, form) })
				out.emit(res)
			}
		}
	}
}
