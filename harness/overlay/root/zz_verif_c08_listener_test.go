// SPDX-FileCopyrightText: 2026 The Pion community <https://pion.ly>
// SPDX-License-Identifier: MIT

//go:build verif

package dtls

// C08, the listener leg: the server runs behind the library's OWN listener (listenWithConfig ->
// internal/net/udp over a loopback UDP socket -> per-connection PacketBuffer -> Conn), which the
// in-memory lab never passes through.  Hostile datagrams of every size the socket carries, sent from
// the genuine client's address, must be consumed and dropped: the handshake completes, the next genuine
// application record is delivered within the bound and Read reports no error for a dropped datagram.
// Real sockets, real time (no synctest bubble).

import (
	"context"
	"errors"
	"net"
	"os"
	"sync"
	"sync/atomic"
	"testing"
	"time"
)

type c08LRes struct {
	Kind      string `json:"kind"` // listener
	ID        int    `json:"id"`
	Variant   string `json:"variant"`
	Phase     string `json:"phase"` // established | handshake
	After     int    `json:"after"` // handshake phase: the junk follows the client's datagram #after
	Size      int    `json:"size"`
	Fill      string `json:"fill"`
	Sent      bool   `json:"sent"`      // the socket took the datagram
	SendErr   string `json:"send_err,omitempty"`
	HsC       string `json:"hs_c"`      // handshake results
	HsS       string `json:"hs_s"`
	Before    bool   `json:"before"`    // a payload written before the junk was delivered
	Delivered int    `json:"delivered"` // genuine payloads (client -> server) delivered after the junk, of 2
	Echo      bool   `json:"echo"`      // a payload server -> client delivered after the junk
	MaxMs     int64  `json:"max_ms"`    // slowest delivery after the junk
	ReadErr   string `json:"read_err,omitempty"` // an error the server's Read returned (other than its deadline)
	ReadErrs  int    `json:"read_errs"`
	Skipped   bool   `json:"skipped,omitempty"`
	Note      string `json:"note,omitempty"`
}

// c08InjSock is the client's socket: after the client's datagram #after has been written, the junk follows
// from the same socket, i.e. from the client's address.
type c08InjSock struct {
	*net.UDPConn
	after int
	junk  []byte
	n     atomic.Int32
	sent  atomic.Bool
	err   atomic.Value
}

func (s *c08InjSock) WriteTo(b []byte, addr net.Addr) (int, error) {
	n, err := s.UDPConn.WriteTo(b, addr)
	if int(s.n.Add(1))-1 == s.after && s.junk != nil {
		if _, jerr := s.UDPConn.WriteTo(s.junk, addr); jerr != nil {
			s.err.Store(jerr.Error())
		} else {
			s.sent.Store(true)
		}
	}

	return n, err
}

func c08Junk(rng *vRand, size int, fill string) []byte {
	j := make([]byte, size)
	switch fill {
	case "0x17":
		for i := range j {
			j[i] = 0x17
		}
	case "random":
		copy(j, rng.bytes(size))
		j[0] |= 0x40 // no DTLS record type
	case "hs-header":
		// looks like the start of a handshake record whose length field covers the whole datagram (as far as 16
		// bits go) and whose body is noise
		copy(j, rng.bytes(size))
		copy(j, []byte{22, 0xfe, 0xfd, 0, 0, 0, 0, 0, 0, 0x7f, 0xff})
		n := min(size-13, 0xffff)
		j[11], j[12] = byte(n>>8), byte(n)
	}

	return j
}

func c08ListenerCase(t *testing.T, id int, vname, phase string, after, size int, fill string, rng *vRand) c08LRes { //nolint:cyclop,gocognit
	t.Helper()
	res := c08LRes{Kind: "listener", ID: id, Variant: vname, Phase: phase, After: after, Size: size, Fill: fill,
		HsC: "pending", HsS: "pending"}
	v := c08VariantByName(vname)
	ccfg, scfg := v.mk()
	ln, err := listenWithConfig("udp", &net.UDPAddr{IP: net.IPv4(127, 0, 0, 1), Port: 0}, scfg)
	if err != nil {
		res.Note = "listen: " + err.Error()

		return res
	}
	defer func() { _ = ln.Close() }()
	type acc struct {
		c   *Conn
		err error
	}
	accCh := make(chan acc, 1)
	go func() {
		c, aerr := ln.Accept()
		var dc *Conn
		if aerr == nil {
			dc, _ = c.(*Conn)
			hctx, cancel := context.WithTimeout(context.Background(), 4*time.Second)
			defer cancel()
			aerr = dc.HandshakeContext(hctx)
		}
		accCh <- acc{dc, aerr}
	}()
	udp, err := net.ListenUDP("udp", &net.UDPAddr{IP: net.IPv4(127, 0, 0, 1), Port: 0})
	if err != nil {
		res.Note = "client socket: " + err.Error()

		return res
	}
	_ = udp.SetWriteBuffer(1 << 20)
	sock := &c08InjSock{UDPConn: udp, after: -1}
	junk := c08Junk(rng, size, fill)
	if phase == "handshake" {
		sock.after, sock.junk = after, junk
	}
	defer func() { _ = sock.Close() }()
	client, err := clientWithConfig(sock, ln.Addr(), ccfg)
	if err != nil {
		res.Note = "client: " + err.Error()

		return res
	}
	defer func() { _ = client.Close() }()
	ctx, cancel := context.WithTimeout(context.Background(), 4*time.Second)
	defer cancel()
	res.HsC = vErrString(client.HandshakeContext(ctx))
	var server *Conn
	select {
	case a := <-accCh:
		res.HsS = vErrString(a.err)
		server = a.c
	case <-time.After(5 * time.Second):
	}
	if server != nil {
		defer func() { _ = server.Close() }()
	}
	if res.HsC != "ok" || res.HsS != "ok" {
		if phase == "handshake" {
			res.Sent = sock.sent.Load()
			if e, ok := sock.err.Load().(string); ok {
				res.SendErr = e
			}
		}

		return res
	}
	// the server's reader
	var mu sync.Mutex
	got := map[string]time.Time{}
	stop := make(chan struct{})
	var rwg sync.WaitGroup
	rwg.Add(1)
	go func() {
		defer rwg.Done()
		buf := make([]byte, 2048)
		for {
			select {
			case <-stop:
				return
			default:
			}
			_ = server.SetReadDeadline(time.Now().Add(100 * time.Millisecond))
			n, rerr := server.Read(buf)
			mu.Lock()
			if rerr != nil {
				var ne net.Error
				if !(errors.As(rerr, &ne) && ne.Timeout()) && !errors.Is(rerr, os.ErrDeadlineExceeded) &&
					!errors.Is(rerr, context.DeadlineExceeded) {
					res.ReadErrs++
					if res.ReadErr == "" {
						res.ReadErr = rerr.Error()
					}
					if res.ReadErrs > 200 {
						mu.Unlock()

						return
					}
				}
			} else {
				got[string(buf[:n])] = time.Now()
			}
			mu.Unlock()
		}
	}()
	deliver := func(msg string, bound time.Duration) (bool, int64) {
		t0 := time.Now()
		if _, werr := client.Write([]byte(msg)); werr != nil {
			return false, 0
		}
		for time.Since(t0) < bound {
			mu.Lock()
			at, ok := got[msg]
			mu.Unlock()
			if ok {
				return true, at.Sub(t0).Milliseconds()
			}
			time.Sleep(2 * time.Millisecond)
		}

		return false, bound.Milliseconds()
	}
	if phase == "established" {
		res.Before, _ = deliver("c08-listener-before", 2*time.Second)
		if _, jerr := udp.WriteTo(junk, ln.Addr()); jerr != nil {
			res.SendErr = jerr.Error()
		} else {
			res.Sent = true
		}
	} else {
		res.Before = true
		res.Sent = sock.sent.Load()
		if e, ok := sock.err.Load().(string); ok {
			res.SendErr = e
		}
	}
	for _, m := range []string{"c08-listener-after-1", "c08-listener-after-2"} {
		ok, ms := deliver(m, 2*time.Second)
		if ok {
			res.Delivered++
		}
		res.MaxMs = max(res.MaxMs, ms)
	}
	// and the other direction
	echo := make(chan bool, 1)
	go func() {
		buf := make([]byte, 2048)
		_ = client.SetReadDeadline(time.Now().Add(2 * time.Second))
		for {
			n, rerr := client.Read(buf)
			if rerr != nil {
				echo <- false

				return
			}
			if string(buf[:n]) == "c08-listener-echo" {
				echo <- true

				return
			}
		}
	}()
	if _, werr := server.Write([]byte("c08-listener-echo")); werr == nil {
		res.Echo = <-echo
	} else {
		_ = client.SetReadDeadline(time.Now())
		<-echo
	}
	close(stop)
	rwg.Wait()

	return res
}

func TestVerifC08Listener(t *testing.T) {
	out := newVOut(t)
	rng := newVRand(vSeed() ^ 0xc0815)
	variants := []string{"cert-gcm", "psk-gcm", "psk-gcm-cid", "v13-aes128"}
	if vIsThorough() {
		variants = append(variants, "psk-cbc-cid", "cert-clientauth", "v13-chacha", "dualc-13", "duals-12")
	}
	fills := []string{"0x17", "random", "hs-header"}
	sizes := []int{64, 8191, 8192, 8193, 9000, 16384, 18445, 18446, 40000, 65507}
	id, bad := 0, map[string]int{}
	run := func(vname, phase string, after, size int) {
		fill := fills[(id+size)%len(fills)]
		if bad[phase] >= 3 {
			out.emit(c08LRes{Kind: "listener", ID: id, Variant: vname, Phase: phase, After: after, Size: size, Fill: fill, Skipped: true})
			id++

			return
		}
		res := c08ListenerCase(t, id, vname, phase, after, size, fill, rng)
		id++
		if res.Note == "" && res.Sent && (res.HsC != "ok" || res.HsS != "ok" || res.Delivered < 2 || !res.Echo || res.ReadErr != "") {
			bad[phase]++
		}
		out.emit(res)
	}
	for _, vname := range variants {
		for _, size := range sizes {
			run(vname, "established", -1, size)
		}
		for after := 0; after <= 2; after++ {
			for _, size := range []int{8193, 18445, 65507} {
				run(vname, "handshake", after, size)
			}
		}
	}
}
