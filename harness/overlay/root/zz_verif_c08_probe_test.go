//go:build verif

package dtls

import (
	"reflect"
	dtlsstate "github.com/pion/dtls/v3/internal/state"
	"testing/synctest"
	"encoding/hex"
	"fmt"
	"os"
	"strings"
	"testing"
	"time"

	"github.com/pion/dtls/v3/pkg/protocol"
)

// scratch probe: inject one datagram after the k-th delivery of a handshake
func c08ProbeRun(t *testing.T, variant string, target string, after int, inj []byte) string {
	var ccfg, scfg *dtlsConfig
	switch variant {
	case "psk-gcm":
		ccfg, scfg = vPSKPair(TLS_PSK_WITH_AES_128_GCM_SHA256)
	case "ecdhe-psk-cbc":
		ccfg, scfg = vPSKPair(TLS_ECDHE_PSK_WITH_AES_128_CBC_SHA256)
	case "cert-cbc-sha":
		ccfg, scfg = vCertPair()
		ccfg.CipherSuites = []CipherSuiteID{TLS_ECDHE_ECDSA_WITH_AES_256_CBC_SHA}
		scfg.CipherSuites = []CipherSuiteID{TLS_ECDHE_ECDSA_WITH_AES_256_CBC_SHA}
	case "v13":
		ccfg, scfg = vCertPair()
		for _, c := range []*dtlsConfig{ccfg, scfg} {
			c.MinVersion, c.MaxVersion = protocol.Version1_3, protocol.Version1_3
		}
	}
	if variant != "v13" {
		ccfg.MaxVersion, scfg.MaxVersion = protocol.Version1_2, protocol.Version1_2
	}
	lab := newLab(t, ccfg, scfg)
	defer lab.close()
	n := 0
	lab.Pump.OnDeliver = func(d vDatagram) {
		n++
		if n == after {
			from := "server"
			if target == "server" {
				from = "client"
			}
			lab.Net.deliver(target, from, inj)
		}
	}
	lab.Pump.run(lab.bothDone, 200*time.Second)

	return fmt.Sprintf("variant=%s target=%s after=%d inj=%s -> established=%v cerr=%v serr=%v deliveries=%d",
		variant, target, after, hex.EncodeToString(inj), lab.established(), lab.Client.Err, lab.Server.Err, n)
}

func TestVerifC08ProbeCBC(t *testing.T) {
	vBubble(t, func(t *testing.T) {
		ccfg, scfg := vCertPair()
		ccfg.CipherSuites = []CipherSuiteID{TLS_ECDHE_ECDSA_WITH_AES_256_CBC_SHA}
		scfg.CipherSuites = []CipherSuiteID{TLS_ECDHE_ECDSA_WITH_AES_256_CBC_SHA}
		lab := newLab(t, ccfg, scfg)
		defer lab.close()
		lab.Pump.run(lab.bothDone, 200*time.Second)
		if !lab.established() {
			t.Fatalf("hs: %v %v", lab.Client.Err, lab.Server.Err)
		}
		lab.Client.startReader()
		start := lab.Net.count()
		payload := []byte("0123456789012345678901234567") // 28 bytes
		if _, err := lab.Server.Conn.Write(payload); err != nil {
			t.Fatal(err)
		}
		synctestWait()
		dgs := lab.Net.since(start)
		raw := dgs[0].Data
		fmt.Println("PROBE genuine", hex.EncodeToString(raw))
		n := len(raw)
		sp := append([]byte(nil), raw[:13]...)
		sp[10] += 5
		sp = append(sp, make([]byte, 16)...)
		sp = append(sp, raw[n-32:]...)
		sp[11], sp[12] = 0, 48
		fmt.Println("PROBE splice", hex.EncodeToString(sp))
		lab.Net.deliver("client", "server", sp)
		synctestWait()
		lab.Net.deliver("client", "server", raw)
		synctestWait()
		fmt.Println("PROBE reads", len(lab.Client.reads()), lab.Client.readErr())
	})
}

func c08ProbeHs(epoch uint16, rseq uint64, ht byte, mseq uint16, tlen, foff int, body []byte) []byte {
	b := []byte{22, 0xfe, 0xfd, byte(epoch >> 8), byte(epoch), byte(rseq >> 40), byte(rseq >> 32), byte(rseq >> 24), byte(rseq >> 16), byte(rseq >> 8), byte(rseq)}
	l := 12 + len(body)
	b = append(b, byte(l>>8), byte(l))
	b = append(b, ht, byte(tlen>>16), byte(tlen>>8), byte(tlen), byte(mseq>>8), byte(mseq), byte(foff>>16), byte(foff>>8), byte(foff), byte(len(body)>>16), byte(len(body)>>8), byte(len(body)))
	return append(b, body...)
}

func TestVerifC08ProbeGrow(t *testing.T) {
	for _, mode := range []string{"cache", "wedge"} {
		vBubble(t, func(t *testing.T) {
			ccfg, scfg := vPSKPair(TLS_PSK_WITH_AES_128_GCM_SHA256)
			lab := newLab(t, ccfg, scfg)
			defer lab.close()
			lab.Pump.run(lab.bothDone, 200*time.Second)
			if !lab.established() {
				t.Fatalf("hs: %v %v", lab.Client.Err, lab.Server.Err)
			}
			lab.Client.startReader()
			c := lab.Client.Conn
			cur := dtlsstate.HandshakeRecvSequence(c.state)
			cacheLen := func() int { return reflect.ValueOf(c.handshakeCache).Elem().FieldByName("cache").Len() }
			fb := reflect.ValueOf(c.fragmentBuffer).Elem()
			fmt.Println("PROBE", mode, "cur", cur, "cache", cacheLen(), "fbcount", fb.FieldByName("totalFragmentCount").Int())
			before := lab.Net.count()
			for i := 0; i < 1200; i++ {
				var d []byte
				if mode == "cache" {
					d = c08ProbeHs(0, uint64(1000+i), 1, uint16(cur+i), 1000, 0, make([]byte, 1000))
				} else {
					d = c08ProbeHs(0, uint64(1000+i), 1, uint16(cur+1+i), 1000, 0, make([]byte, 10))
				}
				lab.Net.deliver("client", "server", d)
				synctestWait()
			}
			fmt.Println("PROBE", mode, "after: cache", cacheLen(), "fbcount", fb.FieldByName("totalFragmentCount").Int(), "fbsize", fb.FieldByName("totalBufferSize").Int(), "emitted", lab.Net.count()-before, "recvseq", dtlsstate.HandshakeRecvSequence(c.state))
			lab.Pump.next = lab.Net.count()
			_, err := lab.Server.Conn.Write([]byte("fresh-genuine-payload"))
			lab.Pump.run(func() bool { return len(lab.Client.reads()) > 0 }, 5*time.Second)
			fmt.Println("PROBE", mode, "write err", err, "reads", len(lab.Client.reads()), "readErr", lab.Client.readErr())
		})
	}
}

func TestVerifC08Probe(t *testing.T) {
	spec := os.Getenv("VERIF_PROBE") // variant:target:after:hex;...
	for _, s := range strings.Split(spec, ";") {
		if s == "" {
			continue
		}
		f := strings.Split(s, ":")
		var after int
		fmt.Sscanf(f[2], "%d", &after)
		inj, _ := hex.DecodeString(f[3])
		var res string
		vBubble(t, func(t *testing.T) { res = c08ProbeRun(t, f[0], f[1], after, inj) })
		fmt.Println("PROBE", res)
	}
}

func synctestWait() { synctest.Wait() }
