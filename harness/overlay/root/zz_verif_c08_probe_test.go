//go:build verif

package dtls

import (
	"testing/synctest"
	"encoding/hex"
	"fmt"
	"os"
	"strings"
	"testing"
	"time"

	"github.com/pion/dtls/v3/pkg/protocol"
)

// scratch probe: inject one datagram after the k-th delivery of a handshake
func c08ProbeRun(t *testing.T, variant string, target string, after int, inj []byte) string {
	var ccfg, scfg *dtlsConfig
	switch variant {
	case "psk-gcm":
		ccfg, scfg = vPSKPair(TLS_PSK_WITH_AES_128_GCM_SHA256)
	case "ecdhe-psk-cbc":
		ccfg, scfg = vPSKPair(TLS_ECDHE_PSK_WITH_AES_128_CBC_SHA256)
	case "cert-cbc-sha":
		ccfg, scfg = vCertPair()
		ccfg.CipherSuites = []CipherSuiteID{TLS_ECDHE_ECDSA_WITH_AES_256_CBC_SHA}
		scfg.CipherSuites = []CipherSuiteID{TLS_ECDHE_ECDSA_WITH_AES_256_CBC_SHA}
	case "v13":
		ccfg, scfg = vCertPair()
		for _, c := range []*dtlsConfig{ccfg, scfg} {
			c.MinVersion, c.MaxVersion = protocol.Version1_3, protocol.Version1_3
		}
	}
	if variant != "v13" {
		ccfg.MaxVersion, scfg.MaxVersion = protocol.Version1_2, protocol.Version1_2
	}
	lab := newLab(t, ccfg, scfg)
	defer lab.close()
	n := 0
	lab.Pump.OnDeliver = func(d vDatagram) {
		n++
		if n == after {
			from := "server"
			if target == "server" {
				from = "client"
			}
			lab.Net.deliver(target, from, inj)
		}
	}
	lab.Pump.run(lab.bothDone, 200*time.Second)

	return fmt.Sprintf("variant=%s target=%s after=%d inj=%s -> established=%v cerr=%v serr=%v deliveries=%d",
		variant, target, after, hex.EncodeToString(inj), lab.established(), lab.Client.Err, lab.Server.Err, n)
}

func TestVerifC08ProbeCBC(t *testing.T) {
	vBubble(t, func(t *testing.T) {
		ccfg, scfg := vCertPair()
		ccfg.CipherSuites = []CipherSuiteID{TLS_ECDHE_ECDSA_WITH_AES_256_CBC_SHA}
		scfg.CipherSuites = []CipherSuiteID{TLS_ECDHE_ECDSA_WITH_AES_256_CBC_SHA}
		lab := newLab(t, ccfg, scfg)
		defer lab.close()
		lab.Pump.run(lab.bothDone, 200*time.Second)
		if !lab.established() {
			t.Fatalf("hs: %v %v", lab.Client.Err, lab.Server.Err)
		}
		lab.Client.startReader()
		start := lab.Net.count()
		payload := []byte("0123456789012345678901234567") // 28 bytes
		if _, err := lab.Server.Conn.Write(payload); err != nil {
			t.Fatal(err)
		}
		synctestWait()
		dgs := lab.Net.since(start)
		raw := dgs[0].Data
		fmt.Println("PROBE genuine", hex.EncodeToString(raw))
		n := len(raw)
		sp := append([]byte(nil), raw[:13]...)
		sp[10] += 5
		sp = append(sp, make([]byte, 16)...)
		sp = append(sp, raw[n-32:]...)
		sp[11], sp[12] = 0, 48
		fmt.Println("PROBE splice", hex.EncodeToString(sp))
		lab.Net.deliver("client", "server", sp)
		synctestWait()
		lab.Net.deliver("client", "server", raw)
		synctestWait()
		fmt.Println("PROBE reads", len(lab.Client.reads()), lab.Client.readErr())
	})
}

func TestVerifC08Probe(t *testing.T) {
	spec := os.Getenv("VERIF_PROBE") // variant:target:after:hex;...
	for _, s := range strings.Split(spec, ";") {
		if s == "" {
			continue
		}
		f := strings.Split(s, ":")
		var after int
		fmt.Sscanf(f[2], "%d", &after)
		inj, _ := hex.DecodeString(f[3])
		var res string
		vBubble(t, func(t *testing.T) { res = c08ProbeRun(t, f[0], f[1], after, inj) })
		fmt.Println("PROBE", res)
	}
}

func synctestWait() { synctest.Wait() }
