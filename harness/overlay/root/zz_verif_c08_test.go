//go:build verif

// C08 robustness harness: hostile datagram streams against real endpoints at every point of the
// client and server state machines.  THE DECIDER FOR "NO PANIC": a panic in an endpoint goroutine
// kills the test binary; the driver (checks/c08.py) reads the journal (the id of the running case is
// written BEFORE the case starts), re-runs that single case with VERIF_C08_TRACE=1 to obtain the last
// datagram delivered before the crash, and restarts the leg after the crashing case.
package dtls

import (
	"bytes"
	"crypto/aes"
	"crypto/cipher"
	"crypto/hmac"
	"crypto/sha1" //nolint:gosec
	"crypto/sha256"
	"encoding/binary"
	"errors"
	"fmt"
	"hash"
	"io"
	"os"
	"reflect"
	"runtime"
	"runtime/debug"
	"runtime/pprof"
	"strconv"
	"strings"
	"sync"
	"testing"
	"testing/synctest"
	"time"

	dtlsflight "github.com/pion/dtls/v3/internal/flight"
	dtlsstate "github.com/pion/dtls/v3/internal/state"
	"github.com/pion/dtls/v3/pkg/crypto/prf"
	"github.com/pion/dtls/v3/pkg/protocol"
	"github.com/pion/dtls/v3/pkg/protocol/handshake"
	"github.com/pion/dtls/v3/pkg/protocol/recordlayer"
)

// ---------------------------------------------------------------- variants

type c08Variant struct {
	Name string
	V13  bool
	CBC  int // MAC length of a CBC suite (0 = not CBC)
	Key  int // CBC key length
	mk   func() (*dtlsConfig, *dtlsConfig)
}

func c08Cert(suite CipherSuiteID) func() (*dtlsConfig, *dtlsConfig) {
	return func() (*dtlsConfig, *dtlsConfig) {
		c, s := vCertPair()
		c.CipherSuites = []CipherSuiteID{suite}
		s.CipherSuites = []CipherSuiteID{suite}
		c.MaxVersion, s.MaxVersion = protocol.Version1_2, protocol.Version1_2

		return c, s
	}
}

// c08CIDGenerator: connection IDs are a function of VERIF_SEED, the suite, the length and the side (reproducible
// runs) instead of RandomCIDGenerator.
func c08CIDGenerator(suite CipherSuiteID, n int, client bool) func() []byte {
	seed := (vSeed()^0xc08c1d)*1099511628211 + uint64(suite)<<8 + uint64(n) //nolint:gosec
	if client {
		seed ^= 0x5555
	}
	rng := newVRand(seed)

	return func() []byte { return rng.bytes(n) }
}

func c08PSK(suite CipherSuiteID, ccid, scid int) func() (*dtlsConfig, *dtlsConfig) {
	return func() (*dtlsConfig, *dtlsConfig) {
		c, s := vPSKPair(suite)
		c.MaxVersion, s.MaxVersion = protocol.Version1_2, protocol.Version1_2
		if ccid > 0 || scid > 0 {
			c.ConnectionIDGenerator = c08CIDGenerator(suite, ccid, true)
			s.ConnectionIDGenerator = c08CIDGenerator(suite, scid, false)
		}

		return c, s
	}
}

func c08V13(suite CipherSuiteID, dual bool) func() (*dtlsConfig, *dtlsConfig) {
	return func() (*dtlsConfig, *dtlsConfig) {
		c, s := vCertPair()
		for _, cfg := range []*dtlsConfig{c, s} {
			cfg.MaxVersion = protocol.Version1_3
			cfg.MinVersion = protocol.Version1_3
			if suite != 0 {
				cfg.CipherSuites = []CipherSuiteID{suite}
			}
		}
		if dual {
			c.MinVersion = protocol.Version1_2 // dual-stack client (version negotiation loop without FSM), 1.3-only server
		}

		return c, s
	}
}

// dual-stack endpoints against a DTLS 1.2-only peer: the other version-negotiation loops of conn.go
func c08Dual12(clientDual bool) func() (*dtlsConfig, *dtlsConfig) {
	return func() (*dtlsConfig, *dtlsConfig) {
		c, s := vCertPair()
		if clientDual {
			c.MinVersion, c.MaxVersion = protocol.Version1_2, protocol.Version1_3
			s.MaxVersion = protocol.Version1_2
		} else {
			s.MinVersion, s.MaxVersion = protocol.Version1_2, protocol.Version1_3
			c.MaxVersion = protocol.Version1_2
		}

		return c, s
	}
}

func c08Variants() []c08Variant {
	return []c08Variant{
		{Name: "psk-gcm", mk: c08PSK(TLS_PSK_WITH_AES_128_GCM_SHA256, 0, 0)},
		{Name: "psk-ccm8", mk: c08PSK(TLS_PSK_WITH_AES_128_CCM_8, 0, 0)},
		{Name: "psk-chacha", mk: c08PSK(TLS_PSK_WITH_CHACHA20_POLY1305_SHA256, 0, 0)},
		{Name: "psk-cbc-sha256", CBC: 32, Key: 16, mk: c08PSK(TLS_PSK_WITH_AES_128_CBC_SHA256, 0, 0)},
		{Name: "ecdhe-psk-cbc-sha256", CBC: 32, Key: 16, mk: c08PSK(TLS_ECDHE_PSK_WITH_AES_128_CBC_SHA256, 0, 0)},
		{Name: "cert-gcm", mk: c08Cert(TLS_ECDHE_ECDSA_WITH_AES_128_GCM_SHA256)},
		{Name: "cert-cbc-sha", CBC: 20, Key: 32, mk: c08Cert(TLS_ECDHE_ECDSA_WITH_AES_256_CBC_SHA)},
		{Name: "cert-chacha", mk: c08Cert(TLS_ECDHE_ECDSA_WITH_CHACHA20_POLY1305_SHA256)},
		{Name: "cert-clientauth", mk: func() (*dtlsConfig, *dtlsConfig) {
			c, s := c08Cert(TLS_ECDHE_ECDSA_WITH_AES_128_GCM_SHA256)()
			cr := vGetCreds()
			c.Certificates = append(c.Certificates, cr.Client)
			s.ClientAuth = RequireAndVerifyClientCert
			s.ClientCAs = cr.Pool

			return c, s
		}},
		{Name: "psk-gcm-cid", mk: c08PSK(TLS_PSK_WITH_AES_128_GCM_SHA256, 4, 6)},
		{Name: "psk-cbc-cid", CBC: 32, Key: 16, mk: c08PSK(TLS_PSK_WITH_AES_128_CBC_SHA256, 3, 5)},
		{Name: "v13-aes128", V13: true, mk: c08V13(TLS_AES_128_GCM_SHA256, false)},
		{Name: "v13-aes256", V13: true, mk: c08V13(TLS_AES_256_GCM_SHA384, false)},
		{Name: "v13-chacha", V13: true, mk: c08V13(TLS_CHACHA20_POLY1305_SHA256, false)},
		{Name: "dualc-13", V13: true, mk: c08V13(0, true)},
		{Name: "dualc-12", mk: c08Dual12(true)},
		{Name: "duals-12", mk: c08Dual12(false)},
	}
}

func c08VariantByName(n string) c08Variant {
	for _, v := range c08Variants() {
		if v.Name == n {
			return v
		}
	}
	panic("c08: unknown variant " + n)
}

// ---------------------------------------------------------------- independent classifier

// c08Class says what a datagram is FOR THE PROPERTY, decided by an independent reading of the
// record formats (RFC 6347 4.1 / RFC 9147 4, RFC 9146) and not by calling the connection code:
//
//	empty | unsplit:<why> | badhdr | forged | undec:<why>   -> "drop" classes: the property says no effect
//	clear                                                       -> parses as unprotected record(s) with decodable
//	                                                               content: may legitimately influence an
//	                                                               unauthenticated handshake / is protocol-fatal
//	auth                                                        -> built with the session keys by the harness
type c08Ctx struct {
	v13    bool // the target runs DTLS 1.3 record framing
	open13 bool // the target offered DTLS 1.3 and the version is still open (dual-stack client before the server's
	            // answer): a datagram has to split by the DTLS 1.3 rules, which admit the plain record types alert,
	            // handshake and ACK only (RFC 9147 4; conn.go unpackDatagram since 680a26e)
	cidLen int  // length of the target's own connection id
	cid13  bool // DTLS 1.3 connection id negotiated and required
	recv   int  // next handshake message_seq the target expects
}

func c08CtxOf(c *Conn) c08Ctx {
	common := dtlsstate.CommonState(c.state)
	ctx := c08Ctx{
		v13:    common.LocalVersion.Equal(protocol.Version1_3),
		cidLen: len(common.LocalConnectionIDForInboundRecords()),
		recv:   dtlsstate.HandshakeRecvSequence(c.state),
	}
	ctx.open13 = common.LocalVersion.Equal(protocol.Version{}) && c.handshakeConfig != nil &&
		c.handshakeConfig.MaxVersion.Equal(protocol.Version1_3)
	if st, ok := c.state.(*dtlsstate.State13); ok {
		ctx.cid13 = st.CID.Negotiated
	}

	return ctx
}

type c08Rec struct {
	uni   bool
	ct    int
	epoch int
	body  []byte
	raw   []byte
	verOK bool
}

// split a datagram into records; "" = ok, else the reason.  reasons: len | ct | cidbit | unihdr
func c08Split(d []byte, ctx c08Ctx) ([]c08Rec, string) {
	var out []c08Rec
	use13 := ctx.v13 || ctx.open13 || (len(d) > 0 && d[0] >= 32 && d[0] <= 63)
	for off := 0; off < len(d); {
		b0 := d[off]
		if use13 && b0 >= 32 && b0 <= 63 {
			hasCID := b0&0x10 != 0
			if hasCID && ctx.cidLen == 0 {
				return nil, "cidbit"
			}
			if !hasCID && ctx.cid13 && ctx.cidLen > 0 {
				return nil, "cidbit"
			}
			h := 1
			if hasCID {
				h += ctx.cidLen
			}
			if b0&0x08 != 0 {
				h += 2
			} else {
				h++
			}
			hasLen := b0&0x04 != 0
			if hasLen {
				h += 2
			}
			if off+h > len(d) {
				return nil, "unihdr"
			}
			n := len(d) - off - h
			if hasLen {
				n = int(binary.BigEndian.Uint16(d[off+h-2:]))
			}
			if n < 16 || n > (1<<14)+256 || off+h+n > len(d) {
				return nil, "len"
			}
			out = append(out, c08Rec{uni: true, ct: int(b0), epoch: int(b0 & 3), raw: d[off : off+h+n], verOK: true})
			off += h + n
			if !hasLen {
				break
			}

			continue
		}
		if use13 && b0 != 21 && b0 != 22 && b0 != 26 {
			return nil, "ct"
		}
		h := 13
		if !use13 && b0 == 25 {
			h += ctx.cidLen
		}
		if len(d)-off <= h {
			return nil, "len"
		}
		n := int(binary.BigEndian.Uint16(d[off+h-2:]))
		if off+h+n > len(d) {
			return nil, "len"
		}
		r := c08Rec{
			ct: int(b0), epoch: int(binary.BigEndian.Uint16(d[off+3:])), body: d[off+h : off+h+n],
			raw: d[off : off+h+n],
		}
		r.verOK = d[off+1] == 0xfe && (d[off+2] == 0xfd || d[off+2] == 0xff)
		out = append(out, r)
		off += h + n
	}

	return out, ""
}

// does the cleartext content of a record decode (RFC layouts)?  "" = yes
func c08ContentUndec(r c08Rec, ctx c08Ctx) string {
	switch r.ct {
	case 20:
		if len(r.body) != 1 || r.body[0] != 1 {
			return "ccs"
		}
	case 21:
		if len(r.body) != 2 {
			return "alert"
		}
	case 22:
		// Only the FIRST fragment decides: FragmentBuffer.Push applies the leading well-formed fragments of a record
		// before it rejects the record at a malformed one, so a record with a decodable first fragment is, for the
		// connection, a decodable handshake fragment followed by junk (class clear: the same content sent alone is
		// a parseable record) - not something the property asks to be dropped.
		b := r.body
		if len(b) == 0 {
			return "hs"
		}
		if len(b) < 12 {
			return "hs"
		}
		if fl := int(b[9])<<16 | int(b[10])<<8 | int(b[11]); 12+fl > len(b) {
			return "hs"
		}
	case 23:
	case 26:
		if len(r.body) < 2 || int(binary.BigEndian.Uint16(r.body))+2 != len(r.body) || (len(r.body)-2)%16 != 0 {
			return "ack"
		}
	case 27:
		if len(r.body) == 0 || (r.body[0] <= 2 && len(r.body) != 9) {
			return "rrc"
		}
	default:
		return "type"
	}

	return ""
}

// c08First: number of records and (epoch, sequence number) of the first legacy record of the last classified datagram
type c08Info struct {
	nrec  int
	epoch int
	seq   uint64
	leg   bool
}

func c08ClassifyInfo(d []byte, ctx c08Ctx) (string, c08Info) {
	recs, why := c08Split(d, ctx)
	info := c08Info{nrec: len(recs)}
	if why == "" && len(recs) > 0 && !recs[0].uni && len(recs[0].raw) >= 13 {
		info.leg = true
		info.epoch = recs[0].epoch
		for _, x := range recs[0].raw[5:11] {
			info.seq = info.seq<<8 | uint64(x)
		}
	}

	return c08Classify(d, ctx), info
}

func c08Fresh(c *Conn, info c08Info) bool {
	if !info.leg {
		return true
	}
	common := dtlsstate.CommonState(c.state)
	if info.epoch >= len(common.ReplayDetector) {
		return true
	}
	_, ok := common.ReplayDetector[info.epoch].Check(info.seq)

	return ok
}

func c08Classify(d []byte, ctx c08Ctx) string {
	if len(d) == 0 {
		return "empty"
	}
	recs, why := c08Split(d, ctx)
	if why != "" {
		return "unsplit:" + why
	}
	first := ""
	set := func(s string) {
		if first == "" {
			first = s
		}
	}
	for _, r := range recs {
		switch {
		case r.uni:
			set("forged")
		case !r.verOK && !ctx.v13:
			set("badhdr")
		case r.epoch != 0 && r.ct != 20:
			if ctx.v13 {
				// a DTLSPlaintext record claiming a non-zero epoch: RFC 9147 4 only allows epoch 0 in clear
				set("undec:epoch13")
			} else {
				set("forged")
			}
		case r.epoch != 0 && r.ct == 20:
			// change_cipher_spec typed record claiming a protected epoch: conn.go takes it as cleartext whatever
			// its epoch (every suite's Decrypt returns CCS records unchanged); a drop class for the property
			set("undec:ccs-epoch")
		default:
			if u := c08ContentUndec(r, ctx); u != "" {
				set("undec:" + u)
			} else if r.ct == 21 && len(recs) == 1 && r.body[0] != 2 && r.body[1] != 0 {
				// a lone unprotected alert that is neither fatal nor close_notify: inert while the handshake is
				// running (conn.go classifyReadLoopError) and once established (handleRecordContent, d95e20d)
				return "warn"
			} else if r.ct == 22 && len(recs) == 1 && len(r.body) >= 12 &&
				12+(int(r.body[9])<<16|int(r.body[10])<<8|int(r.body[11])) == len(r.body) &&
				(int(r.body[4])<<8|int(r.body[5])) >= ctx.recv+50 &&
				(int(r.body[9])<<16|int(r.body[10])<<8|int(r.body[11])) < (int(r.body[1])<<16|int(r.body[2])<<8|int(r.body[3])) {
				// a lone unprotected record with ONE incomplete fragment of a handshake message far ahead of anything
				// the peer will send: it waits in the reassembly buffer (one slot) and nothing else may happen -
				// whatever its record sequence number (5206069: unprotected records never move the replay window)
				return "hsfar"
			} else if r.ct == 27 && len(recs) == 1 {
				// a lone unprotected return_routability_check record that decodes: nothing authenticates it, the
				// property wants it dropped (known finding K-C08-1: the code answers with unexpected_message + error)
				return "rrc0"
			} else if r.ct == 23 && len(recs) == 1 {
				// a lone unprotected application_data record: refused silently in every phase (8aa2dc9)
				return "app0"
			} else if r.ct == 20 && len(recs) == 1 {
				// a lone unprotected change_cipher_spec with the valid body: ends the peer's epoch 0 while the
				// handshake runs, inert once established (ae10e63)
				return "ccs0"
			} else if r.ct == 21 && len(recs) == 1 {
				// a lone unprotected fatal alert / close_notify: exception X1 while the handshake is running,
				// inert once established (d95e20d)
				if r.body[1] == 0 {
					return "alert:close"
				}

				return "alert:fatal"
			} else {
				return "clear"
			}
		}
	}

	return first
}

func c08IsDrop(class string) bool {
	return class != "clear" && class != "auth" && class != "warn" && class != "ccs0" && class != "hsfar" &&
		class != "slot" && class != "pinlen" && !strings.HasPrefix(class, "alert:")
}

// ---------------------------------------------------------------- session with monitors

type c08Effect struct {
	Emit    int    `json:"emit,omitempty"`    // datagrams written by the target
	Alert   string `json:"alert,omitempty"`   // "level:desc" of a cleartext alert among them, or "prot"
	HsErr   string `json:"hs_err,omitempty"`  // handshake of the target failed with this error
	ReadErr string `json:"read_err,omitempty"` // Read surfaced this error
	Closed  bool   `json:"closed,omitempty"`
	Deliv   bool   `json:"deliv,omitempty"` // Read returned a payload nobody wrote
}

func (e c08Effect) none() bool { return e == c08Effect{} }

func (e c08Effect) key() string {
	var p []string
	if e.Emit > 0 {
		p = append(p, "emit")
	}
	if e.Alert != "" {
		p = append(p, "alert="+e.Alert)
	}
	if e.HsErr != "" {
		p = append(p, "hs-abort")
	}
	if e.ReadErr != "" {
		p = append(p, "read-error")
	}
	if e.Closed {
		p = append(p, "closed")
	}
	if e.Deliv {
		p = append(p, "delivered")
	}
	if len(p) == 0 {
		return "none"
	}

	return strings.Join(p, "+")
}

type c08Obs struct {
	Neg    bool      `json:"neg"`   // target is in the dual-stack version negotiation loop (no FSM yet)
	Est    bool      `json:"est"`   // target had completed its handshake
	V13    bool      `json:"v13"`   // target framing
	Class  string    `json:"class"` // classifier verdict
	Gen    string    `json:"gen"`   // generator
	Effect c08Effect `json:"eff"`
	Hex    string    `json:"hex,omitempty"`
	N      int       `json:"n"` // how many injections of this case had the same (est, class, effect key)
	NRec   int       `json:"nrec"`  // records in the datagram (0 when it does not split)
	Fresh  bool      `json:"fresh"` // the first record's number passes the target's replay check
}

type c08Res struct {
	Kind     string   `json:"kind"` // case | journal | trace
	ID       int      `json:"id"`
	Variant  string   `json:"variant"`
	Stage    int      `json:"stage"`
	Target   string   `json:"target"`
	Gen      string   `json:"gen"`
	Inj      int      `json:"inj"`
	DropOnly bool     `json:"drop_only"` // every injected datagram was of a drop class
	Obs      []c08Obs `json:"obs"`
	Done     bool     `json:"done"`      // both handshakes completed
	CErr     string   `json:"cerr"`      // handshake results
	SErr     string   `json:"serr"`
	EchoCS   bool     `json:"echo_cs"` // a fresh payload written by the client after everything was read by the server
	EchoSC   bool     `json:"echo_sc"`
	QMax     int      `json:"qmax"`     // max len(encryptedPackets) seen on the target
	FBCount  int      `json:"fb_count"` // fragment buffer counters at the end (target)
	FBSize   int      `json:"fb_size"`
	Cache0   int      `json:"cache0"` // handshake cache entries of the target before / after the injections
	Cache1   int      `json:"cache1"`
	Stalled  bool     `json:"stalled"` // neither completed nor failed within the virtual time limit
	FirstC   string   `json:"first_c"` // what the FIRST Read of the client / server returned: payload | unknown | err:<text> | ""
	FirstS   string   `json:"first_s"`
	Inert    bool     `json:"inert"` // every injected datagram had to be without effect at the moment it arrived
	                               // (a drop class, or a warning alert while the target's handshake was running)
	LossMs   int64    `json:"loss_ms"` // lossper: virtual ms from the start of the session to the loss (-1: no loss happened)
	DoneMs   int64    `json:"done_ms"` // lossper: virtual ms from the start to the completion of both handshakes (-1: never)
	IvalMs   int64    `json:"ival_ms"` // lossper: the flight (retransmission) interval of the endpoints
	Note     string   `json:"note,omitempty"`
	Hex      string   `json:"hex,omitempty"` // trace lines
	HeapMB   float64  `json:"heap_mb,omitempty"`
}

type c08Slot struct {
	typ  byte
	mseq int
	n    int
}

type c08ReadEv struct {
	payload []byte
	err     string
}

type c08Sess struct {
	t      *testing.T
	lab    *vLab
	v      c08Variant
	out    *vOut
	trace  bool
	id     int
	res    *c08Res
	evs    map[string]*[]c08ReadEv
	seen   map[string]int
	wrote  map[string]bool
	reader map[string]bool
	obsIdx map[string]int
	slots  []c08Slot // gen slot: protected handshake messages the target's peer sends (from a reference session)
}

func c08StartReader(s *c08Sess, p *vPeer) {
	if s.reader[p.Name] {
		return
	}
	s.reader[p.Name] = true
	sink := &[]c08ReadEv{}
	s.evs[p.Name] = sink
	go func() {
		buf := make([]byte, 65536)
		for {
			n, err := p.Conn.Read(buf)
			p.rmu.Lock()
			if err != nil {
				*sink = append(*sink, c08ReadEv{err: vErrString(err)})
			} else {
				*sink = append(*sink, c08ReadEv{payload: append([]byte(nil), buf[:n]...)})
			}
			p.rmu.Unlock()
			if err != nil && (errors.Is(err, io.EOF) || errors.Is(err, ErrConnClosed) || p.Conn.isConnectionClosed()) {
				return
			}
			if err != nil && !p.Conn.isHandshakeCompletedSuccessfully() {
				return
			}
		}
	}()
}

func c08QLen(c *Conn) int {
	c.lock.RLock()
	defer c.lock.RUnlock()

	return len(c.encryptedPackets)
}

func c08FB(c *Conn) (count, size int) {
	fb := reflect.ValueOf(c.fragmentBuffer).Elem()

	return int(fb.FieldByName("totalFragmentCount").Int()), int(fb.FieldByName("totalBufferSize").Int())
}

func c08CacheLen(c *Conn) int {
	return reflect.ValueOf(c.handshakeCache).Elem().FieldByName("cache").Len()
}

// deliver one hostile datagram to `target` and observe what it caused.
func (s *c08Sess) inject(target string, data []byte, class, gen string) c08Effect {
	p := s.lab.peer(target)
	from := s.lab.other(target).Name
	if s.trace {
		s.out.emit(c08Res{Kind: "trace", ID: s.id, Target: target, Gen: gen, Note: class, Hex: vHex(data)})
	}
	est := p.Conn.isHandshakeCompletedSuccessfully()
	if est && !s.reader[target] {
		// the target completed its handshake inside this batch: Read errors must be observable from now on
		c08StartReader(s, p)
		synctest.Wait()
	}
	ctxV13 := c08CtxOf(p.Conn).v13
	_, info := c08ClassifyInfo(data, c08CtxOf(p.Conn))
	fresh := c08Fresh(p.Conn, info)
	neg := p.Conn.fsm == nil
	before := s.lab.Net.count()
	hsDone := p.handshakeDone()
	closed := p.Conn.isConnectionClosed()
	s.lab.Net.deliver(target, from, data)
	synctest.Wait()
	var eff c08Effect
	for _, d := range s.lab.Net.since(before) {
		if d.From != target {
			continue
		}
		eff.Emit++
		if len(d.Data) >= 15 && d.Data[0] == 21 && binary.BigEndian.Uint16(d.Data[11:]) == 2 &&
			binary.BigEndian.Uint16(d.Data[3:]) == 0 {
			eff.Alert = fmt.Sprintf("%d:%d", d.Data[13], d.Data[14])
		} else if eff.Alert == "" && len(d.Data) > 0 && (d.Data[0] == 21 || d.Data[0] == 25 || (d.Data[0] >= 32 && d.Data[0] < 64)) {
			eff.Alert = "prot"
		}
	}
	if !hsDone && p.handshakeDone() && p.Err != nil {
		eff.HsErr = p.Err.Error()
	}
	if !closed && p.Conn.isConnectionClosed() {
		eff.Closed = true
	}
	if sink := s.evs[target]; sink != nil {
		p.rmu.Lock()
		for i := s.seen[target]; i < len(*sink); i++ {
			ev := (*sink)[i]
			if ev.err != "" {
				eff.ReadErr = ev.err
			} else if !s.wrote[string(ev.payload)] && !c08Wrote[string(ev.payload)] {
				eff.Deliv = true
			}
		}
		s.seen[target] = len(*sink)
		p.rmu.Unlock()
	}
	if q := c08QLen(p.Conn); q > s.res.QMax {
		s.res.QMax = q
	}
	s.res.Inj++
	if !c08IsDrop(class) {
		s.res.DropOnly = false
	}
	if !(c08IsDrop(class) || class == "warn" || class == "hsfar" || ((strings.HasPrefix(class, "alert:") || class == "ccs0") && est)) {
		s.res.Inert = false
	}
	k := fmt.Sprintf("%v|%s|%s|%d|%v|%v", est, class, eff.key(), min(info.nrec, 2), fresh, neg)
	if i, ok := s.obsIdx[k]; ok {
		s.res.Obs[i].N++
	} else {
		s.obsIdx[k] = len(s.res.Obs)
		o := c08Obs{Est: est, V13: ctxV13, Class: class, Gen: gen, Effect: eff, N: 1, NRec: info.nrec, Fresh: fresh, Neg: neg}
		if !eff.none() || len(s.res.Obs) < 2 || ((c08IsDrop(class) || class == "warn" || class == "hsfar" || class == "ccs0" || strings.HasPrefix(class, "alert:")) && len(data) <= 64) {
			o.Hex = vHex(data)
		}
		s.res.Obs = append(s.res.Obs, o)
	}

	return eff
}

// ---------------------------------------------------------------- generators

var c08FirstBytes = []byte{0, 1, 19, 20, 21, 22, 23, 24, 25, 26, 27, 28, 31, 32, 0x24, 0x28, 0x2c, 0x2f, 0x30, 0x34, 0x3c, 0x3f, 64, 99, 128, 255} //nolint:gochecknoglobals

var c08Lens = []int{0, 1, 2, 3, 4, 11, 12, 13, 14, 15, 16, 17, 18, 19, 20, 24, 25, 26, 29, 30, 31, 32, 33, 45, 64, 100, 255, 256, 257, 512, 1199, 1200, 1201, 1500, 2000} //nolint:gochecknoglobals

// (a) raw random datagrams, many lengths, incl. DTLS 1.3 unified-header first bytes
func c08Raw(rng *vRand) []byte {
	n := c08Lens[rng.intn(len(c08Lens))]
	if rng.chance(30) {
		n = rng.intn(2001)
	}
	d := rng.bytes(n)
	if n == 0 {
		return d
	}
	if rng.chance(75) {
		d[0] = c08FirstBytes[rng.intn(len(c08FirstBytes))]
	}
	if d[0] >= 20 && d[0] <= 27 && n >= 13 && rng.chance(70) {
		// a plausible DTLSPlaintext header in front of random content
		d[1], d[2] = 0xfe, 0xfd
		if rng.chance(10) {
			d[2] = 0xff
		}
		e := []uint16{0, 0, 0, 1, 2, 3, 0xffff}[rng.intn(7)]
		binary.BigEndian.PutUint16(d[3:], e)
		if rng.chance(60) {
			d[5], d[6] = 0, 0 // keep the sequence number below 2^32: inside every replay window's future
		}
		if rng.chance(70) {
			binary.BigEndian.PutUint16(d[11:], uint16(n-13)) //nolint:gosec
		}
		if d[0] == 22 && n >= 25 && rng.chance(60) {
			// plausible handshake header
			d[13] = []byte{0, 1, 2, 3, 4, 8, 11, 12, 13, 14, 15, 16, 20, 24, 99}[rng.intn(15)]
			fl := n - 25
			if rng.chance(30) {
				fl = rng.intn(n)
			}
			tl := fl
			if rng.chance(30) {
				tl = rng.intn(1 << 24)
			}
			d[14], d[15], d[16] = byte(tl>>16), byte(tl>>8), byte(tl)
			d[17], d[18] = 0, byte(rng.intn(6))
			off := 0
			if rng.chance(25) {
				off = rng.intn(1 << 16)
			}
			d[19], d[20], d[21] = byte(off>>16), byte(off>>8), byte(off)
			d[22], d[23], d[24] = byte(fl>>16), byte(fl>>8), byte(fl)
		}
	}

	return d
}

func c08Put24(b []byte, v int) { b[0], b[1], b[2] = byte(v>>16), byte(v>>8), byte(v) }

func c08FreshSeq(rng *vRand, d []byte) {
	// record sequence number: fresh, so that the anti-replay window does not hide the mutant
	d[5], d[6] = 0, 0
	if rng.chance(50) {
		// small and unused: just ahead of what the genuine sender has used (a tree whose epoch-0 window moves is
		// not blinded by such a record, so what the CONTENT does stays visible there)
		binary.BigEndian.PutUint32(d[7:], uint32(36+rng.intn(24))) //nolint:gosec

		return
	}
	binary.BigEndian.PutUint32(d[7:], uint32(0x10000+rng.intn(1<<28))) //nolint:gosec
}

// (b) structure-aware mutations of a captured genuine datagram
func c08Mutate(rng *vRand, g []byte, cidLen int) (out []byte, name string) {
	d := append([]byte(nil), g...)
	if len(d) == 0 {
		return d, "empty"
	}
	legacy := d[0] >= 20 && d[0] <= 27 && len(d) >= 13
	hdr := 13
	if legacy && d[0] == 25 {
		hdr += cidLen
	}
	hs0 := legacy && d[0] == 22 && d[3] == 0 && d[4] == 0 && len(d) >= hdr+12
	pick := rng.intn(22)
	if !hs0 && pick >= 11 {
		pick = rng.intn(11)
	}
	if legacy && pick != 5 && rng.chance(80) {
		c08FreshSeq(rng, d)
	}
	switch pick {
	case 0:
		for i := 0; i <= rng.intn(3); i++ {
			d[rng.intn(len(d))] ^= 1 << uint(rng.intn(8))
		}

		return d, "bitflip"
	case 1:
		return d[:rng.intn(len(d))], "truncate"
	case 2:
		return append(d, rng.bytes(1+rng.intn(40))...), "extend"
	case 3:
		if legacy && len(d) >= hdr {
			l := []int{0, 1, len(d) - hdr - 1, len(d) - hdr + 1, 0xffff, 0x4000, 0x4001}[rng.intn(7)]
			if l < 0 {
				l = 0
			}
			binary.BigEndian.PutUint16(d[hdr-2:], uint16(l)) //nolint:gosec
		}

		return d, "reclen"
	case 4:
		d[0] = []byte{20, 21, 22, 23, 24, 25, 26, 27, 99, 0x2c, 0x2f, 0x3f, 0}[rng.intn(13)]

		return d, "ctype"
	case 5:
		return d, "replay"
	case 6:
		if legacy {
			v := [][2]byte{{0xfe, 0xff}, {0xfe, 0xfc}, {3, 3}, {0, 0}, {0xff, 0xff}}[rng.intn(5)]
			d[1], d[2] = v[0], v[1]
		}

		return d, "version"
	case 7:
		if legacy {
			binary.BigEndian.PutUint16(d[3:], []uint16{0, 1, 2, 3, 4, 0xffff}[rng.intn(6)])
		}

		return d, "epoch"
	case 8:
		// two copies of the datagram in one
		return append(d, d...), "double"
	case 9:
		// random replacement of a body window
		if len(d) > hdr+1 {
			o := hdr + rng.intn(len(d)-hdr)
			n := 1 + rng.intn(8)
			for i := o; i < len(d) && i < o+n; i++ {
				d[i] = byte(rng.u64())
			}
		}

		return d, "bodybytes"
	case 10:
		// garbage record in front / behind a genuine one
		junk := c08Raw(rng)
		if rng.chance(50) {
			return append(junk, d...), "junk-front"
		}

		return append(d, junk...), "junk-back"
	}
	// handshake-level edits on an epoch-0 handshake record (first fragment in the record)
	h := d[hdr:]
	tl := int(h[1])<<16 | int(h[2])<<8 | int(h[3])
	fl := int(h[9])<<16 | int(h[10])<<8 | int(h[11])
	ms := int(h[4])<<8 | int(h[5])
	fixLen := func() { binary.BigEndian.PutUint16(d[hdr-2:], uint16(len(d)-hdr)) } //nolint:gosec
	switch pick {
	case 11:
		h[0] = []byte{0, 1, 2, 3, 4, 8, 11, 12, 13, 14, 15, 16, 20, 24, 25, 99, 255}[rng.intn(17)]

		return d, "hstype"
	case 12:
		c08Put24(h[1:], []int{0, 1, tl - 1, tl + 1, 0xffffff, 0x10000, fl}[rng.intn(7)]&0xffffff)

		return d, "hslen"
	case 13:
		v := []int{ms + 1, ms + 2, ms + 100, 0xffff, 0, ms - 1}[rng.intn(6)] & 0xffff
		h[4], h[5] = byte(v>>8), byte(v)

		return d, "mseq"
	case 14:
		c08Put24(h[6:], []int{1, tl, tl + 1, 0xffffff, tl - fl + 1, fl}[rng.intn(6)]&0xffffff)

		return d, "foff"
	case 15:
		c08Put24(h[9:], []int{0, 1, fl - 1, fl + 1, 0xffffff, tl + 1}[rng.intn(6)]&0xffffff)

		return d, "flen"
	case 16:
		// zero-length fragment at an offset, giant declared length
		c08Put24(h[1:], []int{0, tl, 0xffffff}[rng.intn(3)])
		c08Put24(h[6:], []int{0, 1, tl}[rng.intn(3)])
		c08Put24(h[9:], 0)
		d = d[:hdr+12]
		fixLen()

		return d, "zerofrag"
	case 17:
		// duplicate the fragment inside the record
		d = append(d, h[:12+min(fl, len(h)-12)]...)
		fixLen()

		return d, "dupfrag"
	case 18:
		// split into two overlapping / gapped fragments of the same message
		if fl >= 4 && len(h) >= 12+fl {
			cut := 1 + rng.intn(fl-1)
			shift := []int{0, -1, 1}[rng.intn(3)]
			a := append([]byte(nil), h[:12]...)
			c08Put24(a[9:], cut)
			a = append(a, h[12:12+cut]...)
			b := append([]byte(nil), h[:12]...)
			c08Put24(b[6:], cut+shift)
			rest := h[12+cut : 12+fl]
			c08Put24(b[9:], len(rest))
			b = append(b, rest...)
			d = append(append(append([]byte(nil), d[:hdr]...), a...), b...)
			fixLen()
		}

		return d, "refrag"
	case 19:
		// next message_seq with the body of this message (future message, buffered)
		v := (ms + 1 + rng.intn(3)) & 0xffff
		h[4], h[5] = byte(v>>8), byte(v)
		h[0] = []byte{1, 2, 11, 12, 14, 16, 20}[rng.intn(7)]

		return d, "future"
	case 20:
		// truncate the BODY but keep all declared lengths consistent: a short, well-framed message
		if fl > 0 && len(h) >= 12+fl {
			nl := rng.intn(min(fl, 6))
			c08Put24(h[1:], nl)
			c08Put24(h[6:], 0)
			c08Put24(h[9:], nl)
			d = d[:hdr+12+nl]
			fixLen()
		}

		return d, "shortbody"
	default:
		// random bytes inside the handshake body, framing intact
		if fl > 0 && len(h) >= 12+fl {
			for i := 0; i <= rng.intn(4); i++ {
				h[12+rng.intn(fl)] = byte(rng.u64())
			}
		}

		return d, "hsbody"
	}
}

// ---- (c) correctly protected but malformed content, built with the session keys

type c08Plain struct {
	name string
	ct   protocol.ContentType
	body []byte
}

func c08HsMsg(typ byte, mseq int, body []byte, declLen, off, flen int) []byte {
	h := make([]byte, 12)
	h[0] = typ
	c08Put24(h[1:], declLen)
	h[4], h[5] = byte(mseq>>8), byte(mseq)
	c08Put24(h[6:], off)
	c08Put24(h[9:], flen)

	return append(h, body...)
}

const c08NPlain = 33 // entries of the list in c08MalformedPlain

func c08MalformedPlain(rng *vRand, mseq int, v13 bool, idx int) c08Plain {
	r := rng.bytes(1 + rng.intn(40))
	list := []c08Plain{
		{"alert-1byte", protocol.ContentTypeAlert, []byte{2}},
		{"alert-3byte", protocol.ContentTypeAlert, []byte{1, 0, 0}},
		{"alert-unknown", protocol.ContentTypeAlert, []byte{byte(rng.intn(256)), byte(1 + rng.intn(255))}},
		{"alert-warning", protocol.ContentTypeAlert, []byte{1, byte(1 + rng.intn(120))}},
		{"hs-short-header", protocol.ContentTypeHandshake, r[:min(len(r), 11)]},
		{"hs-flen-beyond", protocol.ContentTypeHandshake, c08HsMsg(20, mseq, r, len(r)+5, 0, len(r)+5)},
		{"hs-unknown-type", protocol.ContentTypeHandshake, c08HsMsg(99, mseq, r, len(r), 0, len(r))},
		{"hs-hello-request", protocol.ContentTypeHandshake, c08HsMsg(0, mseq, nil, 0, 0, 0)},
		{"hs-client-hello", protocol.ContentTypeHandshake, c08HsMsg(1, mseq, r, len(r), 0, len(r))},
		{"hs-finished-bad", protocol.ContentTypeHandshake, c08HsMsg(20, mseq, r, len(r), 0, len(r))},
		{"hs-finished-empty", protocol.ContentTypeHandshake, c08HsMsg(20, mseq, nil, 0, 0, 0)},
		{"hs-cke-2byte", protocol.ContentTypeHandshake, c08HsMsg(16, mseq, []byte{0, 0}, 2, 0, 2)},
		{"hs-zero-frag-off", protocol.ContentTypeHandshake, c08HsMsg(14, mseq, nil, 0, 1, 0)},
		{"hs-giant-len", protocol.ContentTypeHandshake, c08HsMsg(11, mseq, r, 0xffffff, 0, len(r))},
		{"hs-old-seq", protocol.ContentTypeHandshake, c08HsMsg(20, 0, r, len(r), 0, len(r))},
		{"hs-keyupdate-2byte", protocol.ContentTypeHandshake, c08HsMsg(24, mseq, []byte{1, 1}, 2, 0, 2)},
		{"hs-keyupdate-val7", protocol.ContentTypeHandshake, c08HsMsg(24, mseq, []byte{7}, 1, 0, 1)},
		{"hs-keyupdate-empty", protocol.ContentTypeHandshake, c08HsMsg(24, mseq, nil, 0, 0, 0)},
		{"hs-nst-short", protocol.ContentTypeHandshake, c08HsMsg(4, mseq, r[:min(len(r), 5)], min(len(r), 5), 0, min(len(r), 5))},
		{"hs-nst-lifetime", protocol.ContentTypeHandshake, c08HsMsg(4, mseq, append([]byte{0xff, 0xff, 0xff, 0xff, 0, 0, 0, 0, 1, 1, 0, 1, 1, 0, 0}, nil...), 15, 0, 15)},
		{"hs-newcid", protocol.ContentTypeHandshake, c08HsMsg(9, mseq, r, len(r), 0, len(r))},
		{"unknown-type-99", protocol.ContentType(99), r},
		{"unknown-type-0", protocol.ContentType(0), r},
		{"ccs-protected", protocol.ContentTypeChangeCipherSpec, []byte{1}},
		{"ccs-bad", protocol.ContentTypeChangeCipherSpec, []byte{2, 2}},
		{"appdata-empty", protocol.ContentTypeApplicationData, nil},
		{"ack-odd", protocol.ContentTypeACK, []byte{0, 3, 1, 2, 3}},
		{"ack-lenmismatch", protocol.ContentTypeACK, []byte{0, 32, 0, 0, 0, 0, 0, 0, 0, 3, 0, 0, 0, 0, 0, 0, 0, 1}},
		{"ack-valid-unknown", protocol.ContentTypeACK, []byte{0, 16, 0, 0, 0, 0, 0, 0, 0, 9, 0, 0, 0, 0, 0, 0, 0, 77}},
		{"rrc-empty", protocol.ContentTypeReturnRoutabilityCheck, nil},
		{"rrc-short", protocol.ContentTypeReturnRoutabilityCheck, []byte{0, 1, 2}},
		{"rrc-unknown", protocol.ContentTypeReturnRoutabilityCheck, []byte{9}},
		{"cid-type", protocol.ContentTypeConnectionID, r},
	}
	_ = v13
	if len(list) != c08NPlain {
		panic("c08: c08NPlain out of date")
	}
	if idx >= 0 {
		return list[idx%len(list)]
	}

	return list[rng.intn(len(list))]
}

// seal `pl` the way `sender` (the genuine peer of the target) would: the result authenticates at the target.
func c08Seal(sender *Conn, pl c08Plain, zeros int) ([]byte, error) {
	sender.lock.Lock()
	defer sender.lock.Unlock()
	common := dtlsstate.CommonState(sender.state)
	epoch := common.LocalEpoch()
	seq, err := sender.nextLocalSequenceNumber(epoch)
	if err != nil {
		return nil, err
	}
	if common.LocalVersion.Equal(protocol.Version1_3) {
		return sender.sealRecordContent(epoch, seq, pl.ct, pl.body)
	}
	h := recordlayer.Header{ContentType: pl.ct, Version: protocol.Version1_2, Epoch: epoch, SequenceNumber: seq}
	body := pl.body
	if sender.state.ShouldWrapConnectionID() {
		body = append(append(append([]byte(nil), pl.body...), byte(pl.ct)), make([]byte, zeros)...)
		h.ContentType = protocol.ContentTypeConnectionID
		h.ConnectionID = common.RemoteConnectionID
	}
	h.ContentLen = uint16(len(body)) //nolint:gosec
	raw, err := h.Marshal()
	if err != nil {
		return nil, err
	}
	raw = append(raw, body...)

	return common.CipherSuite.Encrypt(&recordlayer.RecordLayer{Header: h}, raw)
}

// hand-built CBC records (the sender's write keys recomputed from the master secret): valid MAC or not,
// padding of any declared length.
func c08CBCRecord(rng *vRand, sender *Conn, v c08Variant, mode int) (rec []byte, name string, err error) {
	st, ok := sender.state.(*dtlsstate.State12)
	if !ok {
		return nil, "", errors.New("not 1.2")
	}
	common := dtlsstate.CommonState(sender.state)
	cr, sr := common.LocalRandom.MarshalFixed(), common.RemoteRandom.MarshalFixed()
	if !common.IsClient {
		cr, sr = sr, cr
	}
	keys, err := prf.GenerateEncryptionKeys(st.MasterSecret, cr[:], sr[:], v.CBC, v.Key, 16, common.CipherSuite.HashFunc())
	if err != nil {
		return nil, "", err
	}
	wk, mk := keys.ServerWriteKey, keys.ServerMACKey
	if common.IsClient {
		wk, mk = keys.ClientWriteKey, keys.ClientMACKey
	}
	var hf func() hash.Hash = sha256.New
	if v.CBC == 20 {
		hf = sha1.New
	}
	sender.lock.Lock()
	epoch := common.LocalEpoch()
	seq, err := sender.nextLocalSequenceNumber(epoch)
	sender.lock.Unlock()
	if err != nil {
		return nil, "", err
	}
	content := []byte("c08-cbc-" + strconv.Itoa(rng.intn(1000)))
	c08Wrote[string(content)] = true
	ct := byte(23)
	hdr := make([]byte, 13)
	hdr[0], hdr[1], hdr[2] = ct, 0xfe, 0xfd
	binary.BigEndian.PutUint16(hdr[3:], epoch)
	hdr[5], hdr[6] = byte(seq>>40), byte(seq>>32)
	binary.BigEndian.PutUint32(hdr[7:], uint32(seq)) //nolint:gosec
	m := hmac.New(hf, mk)
	ad := make([]byte, 13)
	binary.BigEndian.PutUint16(ad, epoch)
	ad[2], ad[3] = byte(seq>>40), byte(seq>>32)
	binary.BigEndian.PutUint32(ad[4:], uint32(seq)) //nolint:gosec
	ad[8], ad[9], ad[10] = ct, 0xfe, 0xfd
	binary.BigEndian.PutUint16(ad[11:], uint16(len(content))) //nolint:gosec
	m.Write(ad)
	m.Write(content)
	mac := m.Sum(nil)
	var plain []byte
	switch mode {
	case 0: // valid MAC, maximal legal padding (TLS allows up to 255 bytes)
		name = "cbc-longpad-validmac"
		plain = append(append([]byte(nil), content...), mac...)
		pl := 16 - (len(plain)+1)%16
		pl = (pl%16 + 16*(1+rng.intn(14)))
		for pl > 255 {
			pl -= 16
		}
		for i := 0; i <= pl; i++ {
			plain = append(plain, byte(pl))
		}
	case 1: // the whole plaintext is padding: padding length byte = len-1 (every byte equal): longer than record minus MAC
		name = "cbc-allpad"
		n := 16 * (int(v.CBC+1+15) / 16)
		if n < 32 && v.CBC == 20 {
			n = 32
		}
		n += 16 * rng.intn(3)
		plain = make([]byte, n)
		for i := range plain {
			plain[i] = byte(n - 1)
		}
	case 2: // padding length byte larger than the record
		name = "cbc-pad-beyond"
		plain = append(append([]byte(nil), content...), mac...)
		for len(plain)%16 != 15 {
			plain = append(plain, 0xff)
		}
		plain = append(plain, 0xff)
	case 3: // padding covers part of the MAC
		name = "cbc-pad-into-mac"
		n := 16 * (int(v.CBC+1+15)/16 + 1)
		pl := n - v.CBC + 3
		if pl > n-1 {
			pl = n - 1
		}
		plain = rng.bytes(n)
		for i := n - 1 - pl; i < n; i++ {
			plain[i] = byte(pl)
		}
	default: // inconsistent padding bytes
		name = "cbc-pad-inconsistent"
		plain = append(append([]byte(nil), content...), mac...)
		pl := 16 - (len(plain)+1)%16
		pl %= 16
		for i := 0; i <= pl; i++ {
			plain = append(plain, byte(pl))
		}
		if pl > 0 {
			plain[len(plain)-2] ^= 0x40
		} else {
			plain[len(plain)-1] = 3
		}
	}
	blk, err := aes.NewCipher(wk)
	if err != nil {
		return nil, "", err
	}
	iv := rng.bytes(16)
	enc := make([]byte, len(plain))
	cipher.NewCBCEncrypter(blk, iv).CryptBlocks(enc, plain)
	body := append(append([]byte(nil), iv...), enc...)
	binary.BigEndian.PutUint16(hdr[11:], uint16(len(body))) //nolint:gosec

	return append(hdr, body...), name, nil
}

// the unauthenticated CBC splice: header + any 16 bytes + the last two ciphertext blocks of a genuine record.
func c08CBCSplice(rng *vRand, genuine []byte) []byte {
	if len(genuine) < 13+48 || genuine[0] != 23 {
		return nil
	}
	d := append([]byte(nil), genuine[:13]...)
	c08FreshSeq(rng, d)
	d = append(d, rng.bytes(16)...)
	d = append(d, genuine[len(genuine)-32:]...)
	binary.BigEndian.PutUint16(d[11:], 48)

	return d
}

// ---------------------------------------------------------------- cases

var c08Wrote = map[string]bool{"": true} //nolint:gochecknoglobals // payloads an authenticated sender really sent (incl. the empty one)

type c08CorpusItem struct{ name, hex string }

// regression corpus: earlier crashing inputs and the minimal inputs of every finding of this check
var c08Corpus = []c08CorpusItem{ //nolint:gochecknoglobals
	{"F1-zero-frag-offset1", "16fefd0000000000000001000c0e0000000000000001000000"},
	{"F1-zero-frag-offset1-seq", "16fefd000000000000ff01000c0e0000000001000001000000"},
	{"one-byte-unified-2c", "2c"},
	{"unified-cidbit", "300000"},
	{"unified-short", "2f0001"},
	{"one-byte-00", "00"},
	{"appdata-first-byte-only", "17"},
	{"unknown-content-type-99", "63fefd000000000000f00500010a"},
	{"alert-1byte", "15fefd000000000000f0060001ff"},
	{"ccs-2", "14fefd000000000000f007000102"},
	{"ack-epoch0-bad", "1afefd000000000000f008000100"},
	{"cid-type-epoch0", "19fefd000000000000f0090003010203"},
	{"rrc-epoch0-short", "1bfefd000000000000f00b0003000102"},
	{"ccs-epoch1-bad", "14fefd000100000000f00a00010200"[:28]},
	{"ccs-epoch1-valid", "14fefd000100000000f00d000101"},
	{"ccs-epoch1-valid-maxseq", "14fefd0001ffff0000f00e000101"},
	{"ccs-epoch2-valid", "14fefd000200000000f00f000101"},
	{"ccs-epoch0-valid", "14fefd000000000000f010000101"},
	{"appdata-epoch0", "17fefd000000000000f0110004deadbeef"},
	// "=": the record sequence number of the item is kept (small, unused)
	{"=F78-short-serverhello-mseq1", "16fefd00000000000000290010020000040001000000000004fefd386d"},
	{"=F78-short-serverhello-mseq0", "16fefd000000000000002a0010020000040000000000000004fefd386d"},
	{"rrc-challenge", "1bfefd000000000000f012000900a1a2a3a4a5a6a7a8"},
	{"rrc-response", "1bfefd000000000000f013000901a1a2a3a4a5a6a7a8"},
	{"rrc-drop", "1bfefd000000000000f014000902a1a2a3a4a5a6a7a8"},
	{"=rrc-challenge-smallseq", "1bfefd000000000000002b000900a1a2a3a4a5a6a7a8"},
	{"rrc-unknown-type", "1bfefd000000000000f015000109"},
	{"=F70-far-fragment-maxseq", "16fefd0000ffffffffffff000d0b00006401f4000000000001aa"},
	{"=F70-warning-alert-maxseq", "15fefd0000ffffffffffff0002015a"},
	{"ccs-epoch1-bad2", "14fefd000100000000f00c00020101"},
	{"F3-cke-2byte-mseq1", "16fefd000000000000ff02000e1000000200010000000000020000"},
	{"F3-cke-2byte-mseq2", "16fefd000000000000ff03000e1000000200020000000000020000"},
	{"F3-cke-2byte-mseq3", "16fefd000000000000ff04000e1000000200030000000000020000"},
	{"hs-header-only", "16fefd000000000000ff05000c010000000000000000000000"},
	{"hs-giant", "16fefd000000000000ff06000d0bffffff0001000000000001aa"},
}

func c08Hex(h string) []byte {
	b := make([]byte, len(h)/2)
	for i := range b {
		v, _ := strconv.ParseUint(h[2*i:2*i+2], 16, 8)
		b[i] = byte(v)
	}

	return b
}

type c08Case struct {
	Item    int // corpus: index of the single item to inject (-1 = all in order)
	ID      int
	Variant string
	Stage   int // index of the handshake datagram before whose delivery the batch is injected; -1 = established
	Gen     string
	N       int
	Seed    uint64
}

func (s *c08Sess) genuineFor(target string, upto int) [][]byte {
	var out [][]byte
	for _, d := range s.lab.Net.since(0) {
		if d.Idx < upto && d.To == target {
			out = append(out, d.Data)
		}
	}

	return out
}

func (s *c08Sess) batch(c c08Case, rng *vRand, target string, pending []byte) {
	tgt := s.lab.peer(target).Conn
	peer := s.lab.other(target).Conn
	old := s.genuineFor(target, 1<<30)
	var reflectd [][]byte
	for _, d := range s.lab.Net.since(0) {
		if d.From == target {
			reflectd = append(reflectd, d.Data)
		}
	}
	for i := 0; i < c.N; i++ {
		ctx := c08CtxOf(tgt)
		switch c.Gen {
		case "raw":
			d := c08Raw(rng)
			s.inject(target, d, c08Classify(d, ctx), "raw")
		case "corpus":
			if c.Item >= 0 {
				i = c.Item
			}
			if i >= len(c08Corpus) {
				return
			}
			if c08Avoided("corpus:" + c08Corpus[i].name) {
				if c.Item >= 0 {
					return
				}

				continue
			}
			d := c08Hex(c08Corpus[i].hex)
			if i > 0 && len(d) >= 13 && d[0] >= 20 && d[0] <= 27 && !strings.HasPrefix(c08Corpus[i].name, "=") {
				binary.BigEndian.PutUint32(d[7:], uint32(0x100000+16*i)) //nolint:gosec // increasing: never behind the replay window
			}
			s.inject(target, d, c08Classify(d, ctx), "corpus:"+c08Corpus[i].name)
			if c.Item >= 0 {
				return
			}
		case "forged":
			// forged records of the CURRENT epoch with sequence numbers far ahead of the genuine sender: they must
			// not move the anti-replay window (the genuine records that follow must still be accepted)
			cur := dtlsstate.CommonState(tgt.state).RemoteEpoch()
			seqs := []uint64{1 << 20, 1 << 32, recordlayer.MaxSequenceNumber, recordlayer.MaxSequenceNumber - 70, 4096, 100000}
			var d []byte
			if ctx.v13 {
				d = append([]byte{0x2c | byte(cur&3), byte(seqs[i%len(seqs)] >> 8), byte(seqs[i%len(seqs)]), 0, 48}, rng.bytes(48)...)
			} else {
				d = make([]byte, 13, 13+48)
				d[0], d[1], d[2] = 23, 0xfe, 0xfd
				binary.BigEndian.PutUint16(d[3:], cur)
				sq := seqs[i%len(seqs)]
				d[5], d[6] = byte(sq>>40), byte(sq>>32)
				binary.BigEndian.PutUint32(d[7:], uint32(sq)) //nolint:gosec
				if ctx.cidLen > 0 {
					d[0] = 25
					d = append(d[:11], append(append([]byte(nil), dtlsstate.CommonState(tgt.state).LocalConnectionIDForInboundRecords()...), 0, 0)...)
				}
				if i%2 == 1 && ctx.cidLen == 0 {
					// typed change_cipher_spec with the VALID body: no suite authenticates it, so it must be inert
					d[0] = 20
					binary.BigEndian.PutUint16(d[len(d)-2:], 1)
					d = append(d, 1)
				} else {
					binary.BigEndian.PutUint16(d[len(d)-2:], 48)
					d = append(d, rng.bytes(48)...)
				}
			}
			s.inject(target, d, c08Classify(d, ctx), "forged-seq")
		case "warn":
			// an unprotected warning alert (level 1, description other than close_notify), fresh record number
			desc := []byte{0x5a, 0x64, 0x29, 0x0a, 0x6e, 0xff}[(c.Item+i)%6]
			d := []byte{21, 0xfe, 0xfd, 0, 0, 0, 0, 0, 0, 0, 0, 0, 2, 1, desc}
			if tgt.isHandshakeCompletedSuccessfully() && c.Stage < 0 {
				// once established every unprotected alert must be inert: fatal ones and close_notify as well
				switch (c.Item + i) % 3 {
				case 1:
					d[13], d[14] = 2, []byte{40, 10, 20, 80}[i%4]
				case 2:
					d[13], d[14] = []byte{1, 2}[i%2], 0
				}
			}
			// a record number just ahead of the genuine sender's (inside the anti-replay window, so that committing
			// it - which the code does for every unprotected record that decodes - does not push the genuine
			// epoch-0 records out of the window: that would be the known power of an unauthenticated sender, X2)
			binary.BigEndian.PutUint32(d[7:], uint32(28+4*i+rng.intn(4))) //nolint:gosec
			s.inject(target, d, c08Classify(d, ctx), "warn")
		case "dupfirst", "forgefirst":
			// the FIRST record of the pending genuine datagram, re-framed (its handshake message split into two
			// fragments in one record: same content) under a small unused record number, arrives before the genuine
			// one.  Nothing is forged but the framing, so the handshake must go on - in particular the two honest
			// endpoints must not start answering each other's "retransmissions" without delay (F78)
			if len(pending) < 13+12+4 || pending[0] != 22 || pending[3] != 0 || pending[4] != 0 {
				return
			}
			n := int(binary.BigEndian.Uint16(pending[11:]))
			if 13+n > len(pending) {
				return
			}
			h := pending[13 : 13+n]
			fl := int(h[9])<<16 | int(h[10])<<8 | int(h[11])
			if fl < 4 || 12+fl > len(h) {
				return
			}
			off := int(h[6])<<16 | int(h[7])<<8 | int(h[8])
			cut := fl / 2
			a := append([]byte(nil), h[:12]...)
			c08Put24(a[9:], cut)
			a = append(a, h[12:12+cut]...)
			b := append([]byte(nil), h[:12]...)
			c08Put24(b[6:], off+cut)
			c08Put24(b[9:], fl-cut)
			b = append(b, h[12+cut:12+fl]...)
			if c.Gen == "forgefirst" {
				// same framing trick, but the message is FORGED: a few bytes near its end are changed (key share /
				// last extension).  Exception X2 applies - the handshake may fail - but it must fail or stall quietly:
				// no panic, no zero-delay exchange of "retransmissions" between the two honest endpoints (F78)
				for k := 0; k < 3; k++ {
					b[len(b)-1-rng.intn(min(8, fl-cut))] ^= byte(1 + rng.intn(255))
				}
			}
			d := append(append(append([]byte(nil), pending[:13]...), a...), b...)
			d[5], d[6], d[7], d[8], d[9], d[10] = 0, 0, 0, 0, 0, byte(0x29+i)
			binary.BigEndian.PutUint16(d[11:], uint16(len(d)-13)) //nolint:gosec
			s.inject(target, d, "clear", c.Gen)
		case "seqpoison":
			// harmless content under a huge record sequence number: the epoch-0 window must not move (F70)
			sq := []uint64{recordlayer.MaxSequenceNumber, 1 << 47, 1 << 32, recordlayer.MaxSequenceNumber - 1}[(c.Item+i)%4]
			var d []byte
			if (c.Item+i)%3 == 0 {
				d = []byte{21, 0xfe, 0xfd, 0, 0, 0, 0, 0, 0, 0, 0, 0, 2, 1, 0x5a}
			} else {
				d = append([]byte{22, 0xfe, 0xfd, 0, 0, 0, 0, 0, 0, 0, 0, 0, 0}, c08HsMsg(11, (ctx.recv+500+i)&0xffff, []byte{1}, 100, 0, 1)...)
				binary.BigEndian.PutUint16(d[11:], uint16(len(d)-13)) //nolint:gosec
			}
			d[5], d[6] = byte(sq>>40), byte(sq>>32)
			binary.BigEndian.PutUint32(d[7:], uint32(sq)) //nolint:gosec
			s.inject(target, d, c08Classify(d, ctx), "seqpoison")
		case "lossinj":
			// (the datagram is lost by the pump policy) one far-future fragment, small unused record number
			d := append([]byte{22, 0xfe, 0xfd, 0, 0, 0, 0, 0, 0, 0, 40, 0, 0}, c08HsMsg(4, (ctx.recv+300)&0xffff, []byte{1}, 100, 0, 1)...)
			d[10] = byte(40 + i)
			binary.BigEndian.PutUint16(d[11:], uint16(len(d)-13)) //nolint:gosec
			s.inject(target, d, c08Classify(d, ctx), "lossinj")
		case "lossper":
			// one far-future fragment per call (the caller repeats it every quarter of the flight interval).
			// Item 0: fresh every time (new small record number, new message_seq); Item 1: the identical datagram
			k := s.res.Inj
			if c.Item == 1 {
				k = 0
			}
			d := append([]byte{22, 0xfe, 0xfd, 0, 0, 0, 0, 0, 0, 0, 40, 0, 0}, c08HsMsg(2, (ctx.recv+300+k)&0xffff, []byte{1, 2, 3, 4, 5, 6, 7, 8}, 64, 0, 8)...)
			d[10] = byte(40 + k)
			binary.BigEndian.PutUint16(d[11:], uint16(len(d)-13)) //nolint:gosec
			s.inject(target, d, c08Classify(d, ctx), "lossper")
		case "pinlen":
			// ONE forged first fragment of the NEXT expected message: offset 0, declared length 5000, one byte
			d := append([]byte{22, 0xfe, 0xfd, 0, 0, 0, 0, 0, 0, 0, 44, 0, 0}, c08HsMsg(byte(c.Item), ctx.recv&0xffff, []byte{1}, 5000, 0, 1)...)
			binary.BigEndian.PutUint16(d[11:], uint16(len(d)-13)) //nolint:gosec
			s.inject(target, d, "pinlen", "pinlen")
		case "slot":
			// an unprotected record with the message_seq (and type) of a message the genuine peer sends PROTECTED
			if i >= len(s.slots) {
				return
			}
			sl := s.slots[i]
			d := append([]byte{22, 0xfe, 0xfd, 0, 0, 0, 0, 0, 0, 0, 46, 0, 0}, c08HsMsg(sl.typ, sl.mseq, make([]byte, sl.n), sl.n, 0, sl.n)...)
			d[10] = byte(46 + i)
			binary.BigEndian.PutUint16(d[11:], uint16(len(d)-13)) //nolint:gosec
			s.inject(target, d, "slot", fmt.Sprintf("slot:type%d", sl.typ))
		case "flood-frag2":
			// two datagrams of 600 one-byte fragments of far-future messages each (the count limit is per record)
			d := []byte{22, 0xfe, 0xfd, 0, 0, 0, 0, 0, 0, 0, byte(60 + i), 0, 0}
			for k := 0; k < 600; k++ {
				d = append(d, c08HsMsg(11, (ctx.recv+100+600*i+k)&0xffff, []byte{1}, 50, 0, 1)...)
			}
			binary.BigEndian.PutUint16(d[11:], uint16(len(d)-13)) //nolint:gosec
			s.inject(target, d, "clear", "flood-frag2")
		case "flood-cache-auth":
			// the AUTHENTICATED peer sends in-order handshake messages after the handshake (1.3: NewSessionTickets
			// to the client; 1.2: HelloRequest-typed messages): handled or ignored, never retained
			if !peer.isHandshakeCompletedSuccessfully() || !tgt.isHandshakeCompletedSuccessfully() {
				return
			}
			var pl c08Plain
			if ctx.v13 {
				body := append([]byte{0, 0, 0x0e, 0x10, 0, 0, 0, 0, 8}, rng.bytes(8)...)
				body = append(body, 0x02, 0x00)
				body = append(body, rng.bytes(512)...)
				body = append(body, 0, 0)
				pl = c08Plain{"nst-valid", protocol.ContentTypeHandshake, c08HsMsg(4, ctx.recv, body, len(body), 0, len(body))}
			} else {
				body := rng.bytes(600)
				pl = c08Plain{"hs-inorder", protocol.ContentTypeHandshake, c08HsMsg(0, ctx.recv+i, body, len(body), 0, len(body))}
			}
			d, err := c08Seal(peer, pl, 0)
			if err != nil {
				s.res.Note += " seal:" + err.Error()

				return
			}
			s.inject(target, d, "auth", "flood-cache-auth")
		case "flood-queue":
			// forged records claiming the next epoch: each may take one of the 100 queue slots
			var d []byte
			if ctx.v13 {
				d = append([]byte{0x2c | byte((dtlsstate.CommonState(tgt.state).RemoteEpoch()+1)&3), byte(i >> 8), byte(i), 0, 40}, rng.bytes(40)...)
				if dtlsstate.CommonState(tgt.state).RemoteEpoch() == 0 {
					d[0] = 0x2c | 2
				}
			} else {
				d = make([]byte, 13, 13+40)
				d[0], d[1], d[2] = 23, 0xfe, 0xfd
				binary.BigEndian.PutUint16(d[3:], dtlsstate.CommonState(tgt.state).RemoteEpoch()+1)
				binary.BigEndian.PutUint32(d[7:], uint32(5000+i)) //nolint:gosec
				if ctx.cidLen > 0 {
					d[0] = 25
					d = append(d[:11], append(append([]byte(nil), dtlsstate.CommonState(tgt.state).LocalConnectionIDForInboundRecords()...), 0, 0)...)
				}
				binary.BigEndian.PutUint16(d[len(d)-2:], 40)
				d = append(d, rng.bytes(40)...)
			}
			s.inject(target, d, c08Classify(d, ctx), "flood-queue")
		case "flood-frag":
			// small fragments of FUTURE handshake messages that never complete
			cur := dtlsstate.HandshakeRecvSequence(tgt.state)
			body := rng.bytes(8)
			d := append([]byte{22, 0xfe, 0xfd, 0, 0, 0, 0, 0, 0, 0, 0, 0, 0}, c08HsMsg(11, (cur+1+i%60000)&0xffff, body, 4000, 16*(i/60000), len(body))...)
			binary.BigEndian.PutUint32(d[7:], uint32(9000+i)) //nolint:gosec
			binary.BigEndian.PutUint16(d[11:], uint16(len(d)-13)) //nolint:gosec
			s.inject(target, d, c08Classify(d, ctx), "flood-frag")
		case "flood-cache":
			// complete, in-order handshake messages after the handshake: every one is reassembled at once
			cur := dtlsstate.HandshakeRecvSequence(tgt.state)
			body := rng.bytes(600)
			d := append([]byte{22, 0xfe, 0xfd, 0, 0, 0, 0, 0, 0, 0, 0, 0, 0}, c08HsMsg(0, (cur+i)&0xffff, body, len(body), 0, len(body))...)
			binary.BigEndian.PutUint32(d[7:], uint32(9000+i)) //nolint:gosec
			binary.BigEndian.PutUint16(d[11:], uint16(len(d)-13)) //nolint:gosec
			s.inject(target, d, c08Classify(d, ctx), "flood-cache")
		case "mut":
			src := pending
			switch {
			case src == nil || rng.chance(35):
				if len(old) > 0 && (len(reflectd) == 0 || rng.chance(75)) {
					src = old[rng.intn(len(old))]
				} else if len(reflectd) > 0 {
					src = reflectd[rng.intn(len(reflectd))]
				}
			}
			if src == nil {
				src = c08Raw(rng)
			}
			d, name := c08Mutate(rng, src, ctx.cidLen)
			class, minfo := c08ClassifyInfo(d, ctx)
			if class == "forged" && minfo.nrec > 1 {
				// a local edit of a genuine multi-record datagram leaves the other records authentic
				class = "clear"
			}
			switch name {
			case "replay", "double", "junk-front", "junk-back", "extend":
				if class == "forged" {
					// the datagram still contains a byte-identical genuine protected record: that part is
					// authentic (a replay / the pending record itself), not a forgery
					class = "clear"
				}
			}
			s.inject(target, d, class, "mut:"+name)
		case "prot":
			if !peer.isHandshakeCompletedSuccessfully() || !tgt.isHandshakeCompletedSuccessfully() {
				d := c08Raw(rng)
				s.inject(target, d, c08Classify(d, ctx), "raw")

				continue
			}
			if s.v.CBC > 0 && !peer.state.ShouldWrapConnectionID() && ((c.Item < 0 && rng.chance(30)) || c.Item >= 100) {
				mode := rng.intn(5)
				if c.Item >= 100 {
					mode = c.Item - 100
				}
				d, name, err := c08CBCRecord(rng, peer, s.v, mode)
				if err != nil {
					s.res.Note += " cbc:" + err.Error()

					continue
				}
				if c08Avoided("prot:" + name) {
					continue
				}
				s.inject(target, d, "auth", "prot:"+name)

				continue
			}
			idx := -1
			if c.Item >= 100 {
				continue // a CBC item on a variant where it does not apply
			}
			if c.Item >= 0 {
				idx = c.Item // one malformed content per session: an earlier one may end the session
			}
			pl := c08MalformedPlain(rng, dtlsstate.HandshakeRecvSequence(tgt.state), ctx.v13, idx)
			if c08Avoided("prot:" + pl.name) {
				continue
			}
			d, err := c08Seal(peer, pl, rng.intn(3))
			if err != nil {
				s.res.Note += " seal(" + pl.name + "):" + err.Error()

				continue
			}
			s.inject(target, d, "auth", "prot:"+pl.name)
		}
		if tp := s.lab.peer(target); tp.Conn.isConnectionClosed() || (tp.handshakeDone() && tp.Err != nil) {
			break
		}
	}
}

func c08Run(t *testing.T, out *vOut, c c08Case, trace bool) c08Res {
	t.Helper()
	v := c08VariantByName(c.Variant)
	res := c08Res{Kind: "case", ID: c.ID, Variant: c.Variant, Stage: c.Stage, Gen: c.Gen, DropOnly: true, Inert: true,
		LossMs: -1, DoneMs: -1}
	s := &c08Sess{
		t: t, v: v, out: out, trace: trace, id: c.ID, res: &res,
		evs: map[string]*[]c08ReadEv{}, seen: map[string]int{}, wrote: map[string]bool{},
		reader: map[string]bool{}, obsIdx: map[string]int{},
	}
	rng := newVRand(c.Seed)
	slots := map[string][]c08Slot{}
	if c.Gen == "slot" {
		// reference session of the same variant: which handshake messages does each side send PROTECTED?
		rc, rs := v.mk()
		ref := newLab(t, rc, rs)
		ref.Pump.run(ref.bothDone, 150*time.Second)
		for _, p := range []*vPeer{ref.Client, ref.Server} {
			for _, ty := range []handshake.Type{
				handshake.TypeEncryptedExtensions, handshake.TypeCertificateRequest, handshake.TypeCertificate,
				handshake.TypeCertificateVerify, handshake.TypeFinished,
			} {
				for _, ep := range []uint16{1, 2} {
					for _, it := range p.Conn.handshakeCache.Pull(dtlsflight.HandshakeCachePullRule{Typ: ty, Epoch: ep, IsClient: p.Name == "client"}) {
						if it != nil && len(it.Data) >= 12 {
							// the target of these slots is the OTHER side
							slots[ref.other(p.Name).Name] = append(slots[ref.other(p.Name).Name],
								c08Slot{typ: byte(ty), mseq: int(it.MessageSequence), n: min(len(it.Data)-12, 48)})
						}
					}
				}
			}
		}
		ref.close()
	}
	ccfg, scfg := v.mk()
	if c.Gen == "bigpsk" {
		// F69: a pre-shared key whose pre_master_secret length fields are at the 16-bit edge
		big := bytes.Repeat([]byte{0xab}, c.Item)
		ccfg.psk = func([]byte) ([]byte, error) { return big, nil }
		scfg.psk = func([]byte) ([]byte, error) { return big, nil }
	}
	t0 := time.Now()
	lab := newLab(t, ccfg, scfg)
	s.lab = lab
	c08Watch.mu.Lock()
	c08Watch.net, c08Watch.id = lab.Net, c.ID
	c08Watch.mu.Unlock()
	injected := false
	lab.Pump.Policy = func(d vDatagram) (vAction, int) {
		if c.Gen == "lossper" {
			if d.Idx == c.Stage && !injected {
				// this transmission is lost; from now on its SENDER gets a harmless forged record every quarter of
				// the flight interval (driven below): its retransmission timer must still fire on time
				injected = true
				res.Target = d.From
				res.LossMs = time.Since(t0).Milliseconds()

				return vDrop, 0
			}

			return vPass, 0
		}
		if c.Gen == "lossinj" {
			if d.Idx == c.Stage && !injected {
				// this transmission is lost; at that moment its SENDER gets one harmless forged record: it must
				// still retransmit (F62: the DTLS 1.3 client took such a record for the implicit ACK of its Finished)
				injected = true
				res.Target = d.From
				s.batch(c, rng, d.From, nil)

				return vDrop, 0
			}

			return vPass, 0
		}
		if c.Stage >= 0 && d.Idx == c.Stage && !injected {
			s.slots = slots[d.To]
			injected = true
			res.Target = d.To
			res.Cache0 = c08CacheLen(lab.peer(d.To).Conn)
			s.batch(c, rng, d.To, d.Data)
			res.Cache1 = c08CacheLen(lab.peer(d.To).Conn)
		}

		return vPass, 0
	}
	if c.Gen == "lossper" {
		// run up to the loss, then c.N periods of a quarter interval each (first forged record an eighth of an
		// interval after the loss, so that none coincides with the timer), then let the handshake finish
		ival := lab.Client.Conn.handshakeConfig.InitialRetransmitInterval
		res.IvalMs = ival.Milliseconds()
		lab.Pump.run(func() bool { return injected || lab.bothDone() }, 150*time.Second)
		if injected {
			lab.Pump.run(lab.bothDone, ival/8)
			for k := 0; k < c.N && !lab.bothDone(); k++ {
				s.batch(c08Case{Item: c.Item, ID: c.ID, Variant: c.Variant, Stage: c.Stage, Gen: c.Gen, N: 1}, rng, res.Target, nil)
				lab.Pump.run(lab.bothDone, ival/4)
			}
		}
	}
	ok := lab.Pump.run(lab.bothDone, 150*time.Second)
	if c.Gen == "lossper" && lab.bothDone() {
		res.DoneMs = time.Since(t0).Milliseconds()
	}
	res.Done = lab.established()
	res.CErr, res.SErr = "pending", "pending"
	if lab.Client.handshakeDone() {
		res.CErr = vErrString(lab.Client.Err)
	}
	if lab.Server.handshakeDone() {
		res.SErr = vErrString(lab.Server.Err)
	}
	res.Stalled = !ok && res.CErr == "pending" && res.SErr == "pending"
	lab.Pump.Policy = nil
	if res.Done {
		c08StartReader(s, lab.Client)
		c08StartReader(s, lab.Server)
		synctest.Wait()
		if !injected {
			// established stage: alternate targets by case id
			target := []string{"client", "server"}[c.ID%2]
			res.Target = target
			res.Stage = -1
			// a genuine application record captured but not yet delivered: mutation material
			sender := lab.other(target)
			pl := append([]byte(fmt.Sprintf("c08-genuine-%d-", c.ID)), rng.bytes(12+16*rng.intn(3))...)
			s.wrote[string(pl)] = true
			start := lab.Net.count()
			_, _ = sender.Conn.Write(pl)
			synctest.Wait()
			var pending []byte
			for _, d := range lab.Net.since(start) {
				if d.From == sender.Name {
					pending = d.Data
				}
			}
			res.Cache0 = c08CacheLen(lab.peer(target).Conn)
			if c.Gen == "prot" && v.CBC == 20 && pending != nil && rng.chance(50) {
				if sp := c08CBCSplice(rng, pending); sp != nil && !c08Avoided("mut:cbc-splice") {
					s.inject(target, sp, "forged", "mut:cbc-splice")
				}
			}
			s.batch(c, rng, target, pending)
			res.Cache1 = c08CacheLen(lab.peer(target).Conn)
			lab.Pump.next = start // now the genuine record (and whatever the endpoints emitted) gets delivered
			lab.Pump.run(func() bool { return true }, time.Second)
		}
		// echo: fresh genuine payloads in both directions
		echo := func(from, to *vPeer) bool {
			pl := []byte(fmt.Sprintf("c08-echo-%s-%d", from.Name, c.ID))
			s.wrote[string(pl)] = true
			if _, err := from.Conn.Write(pl); err != nil {
				return false
			}
			got := func() bool {
				to.rmu.Lock()
				defer to.rmu.Unlock()
				for _, ev := range *s.evs[to.Name] {
					if string(ev.payload) == string(pl) {
						return true
					}
				}

				return false
			}
			lab.Pump.run(got, 3*time.Second)

			return got()
		}
		res.EchoCS = echo(lab.Client, lab.Server)
		res.EchoSC = echo(lab.Server, lab.Client)
	}
	if res.Target != "" {
		res.FBCount, res.FBSize = c08FB(lab.peer(res.Target).Conn)
	}
	first := func(p *vPeer) string {
		sink := s.evs[p.Name]
		if sink == nil {
			return ""
		}
		p.rmu.Lock()
		defer p.rmu.Unlock()
		if len(*sink) == 0 {
			return ""
		}
		ev := (*sink)[0]
		switch {
		case ev.err != "":
			return "err:" + ev.err
		case s.wrote[string(ev.payload)] || c08Wrote[string(ev.payload)]:
			return "payload"
		default:
			return "unknown"
		}
	}
	res.FirstC, res.FirstS = first(lab.Client), first(lab.Server)
	lab.close()

	return res
}

func c08Cases(seed uint64, thorough bool) []c08Case {
	rng := newVRand(seed ^ 0xc08c08)
	var cases []c08Case
	add := func(v string, stage int, gen string, n int) {
		cases = append(cases, c08Case{ID: len(cases), Variant: v, Stage: stage, Gen: gen, N: n, Seed: rng.u64(), Item: -1})
	}
	rounds := 1
	if thorough {
		rounds = 40
	}
	for r := 0; r < rounds; r++ {
		for _, v := range c08Variants() {
			maxStage := 7
			if v.V13 {
				maxStage = 5
			}
			for st := 0; st <= maxStage; st++ {
				add(v.Name, st, "raw", 10)
				add(v.Name, st, "mut", 14)
			}
			for st := 0; st <= maxStage && r == 0; st++ {
				add(v.Name, st, "corpus", len(c08Corpus))
				if v.Name == "psk-gcm" || v.Name == "ecdhe-psk-cbc-sha256" || v.Name == "cert-clientauth" || v.Name == "v13-aes128" {
					// every corpus item on its own at every point (an earlier item may end the session)
					for it := range c08Corpus {
						add(v.Name, st, "corpus", 1)
						cases[len(cases)-1].Item = it
					}
				}
			}
			if r == 0 {
				add(v.Name, -1, "corpus", len(c08Corpus))
				add(v.Name, -1, "corpus", len(c08Corpus))
				for _, st := range []int{2, 3, 4, 5, -1, -1} {
					add(v.Name, st, "flood-queue", 130)
				}
			}
			if r == 0 && (v.Name == "psk-gcm" || v.Name == "cert-gcm" || v.Name == "psk-gcm-cid" || v.Name == "v13-aes128") {
				add(v.Name, -1, "flood-frag", 1100)
				add(v.Name, -1, "flood-frag", 1100)
				add(v.Name, 3, "flood-frag", 1100)
				add(v.Name, -1, "flood-cache", 1300)
				add(v.Name, -1, "flood-cache", 1300)
			}
			if r == 0 {
				add(v.Name, -1, "forged", 6)
				add(v.Name, -1, "forged", 6)
				for st := -1; st <= maxStage; st++ {
					for n := 1; n <= 3; n++ {
						add(v.Name, st, "warn", n)
						cases[len(cases)-1].Item = st + n + 7
					}
				}
				for k := 0; k < 3; k++ { // established: warning / fatal / close_notify mixes
					add(v.Name, -1, "warn", 4)
					cases[len(cases)-1].Item = k
				}
			}
			if r == 0 {
				for st := -1; st <= maxStage; st++ {
					// F70: harmless content under huge record sequence numbers, once and twice
					add(v.Name, st, "seqpoison", 1+(st+1)%2)
					cases[len(cases)-1].Item = st + 1
					if st >= 0 {
						// F62 and relatives: datagram #st is lost and its sender gets a harmless forged record
						add(v.Name, st, "dupfirst", 1)
						add(v.Name, st, "forgefirst", 1)
						// K-C08-2: the slot of a message the peer sends protected; K-C08-3b: the next message's length pinned
						add(v.Name, st, "slot", 2)
						add(v.Name, st, "pinlen", 1)
						cases[len(cases)-1].Item = []int{1, 2, 11, 16, 20, 8}[st%6]
					}
				}
				for st := 0; st <= 10; st++ {
					// F62 and relatives: datagram #st (up to the last one of the handshake) is lost and its sender gets a
					// harmless forged record at that moment
					add(v.Name, st, "lossinj", 1)
				}
				for st := 0; st <= 10; st++ {
					// retransmission starved: datagram #st is lost and from then on its sender gets a harmless forged
					// record every quarter of the flight interval for 8 intervals (fresh ones / one identical one)
					for it := 0; it < 2; it++ {
						add(v.Name, st, "lossper", 32)
						cases[len(cases)-1].Item = it
					}
				}
				add(v.Name, -1, "flood-cache-auth", 300)
				add(v.Name, -1, "flood-cache-auth", 300)
				add(v.Name, 0, "flood-frag2", 2)
				add(v.Name, 2, "flood-frag2", 2)
			}
			if r == 0 && v.Name == "psk-gcm" {
				for _, l := range []int{65531, 65532, 65533, 65535} {
					add(v.Name, 99, "bigpsk", 0)
					cases[len(cases)-1].Item = l
				}
			}
			add(v.Name, -1, "raw", 12)
			add(v.Name, -1, "mut", 14)
			add(v.Name, -1, "mut", 14)
			for k := 0; k < 3; k++ {
				add(v.Name, -1, "prot", 16)
			}
			for k := 0; k < c08NPlain && r == 0; k++ {
				add(v.Name, -1, "prot", 1)
				cases[len(cases)-1].Item = k
			}
			for k := 0; k < 5 && r == 0 && v.CBC > 0; k++ {
				add(v.Name, -1, "prot", 1)
				cases[len(cases)-1].Item = 100 + k
			}
		}
	}

	return cases
}

// watchdog (outside the bubble, real time): an endpoint goroutine that spins never lets synctest.Wait return,
// and every datagram it writes is kept by the lab network.  The watchdog turns that into a crash with all
// goroutine stacks, which the driver reports as a livelock of the journalled case.
var c08Watch struct { //nolint:gochecknoglobals
	mu  sync.Mutex
	net *vNet
	id  int
}

func c08StartWatchdog() {
	go func() {
		var ms runtime.MemStats
		for {
			time.Sleep(100 * time.Millisecond)
			c08Watch.mu.Lock()
			n, id := c08Watch.net, c08Watch.id
			c08Watch.mu.Unlock()
			if n != nil {
				if cnt := n.count(); cnt > 40000 {
					debug.SetTraceback("all")
					// a goroutine profile stops the world and so also shows the stack of the spinning goroutine
					_ = pprof.Lookup("goroutine").WriteTo(os.Stderr, 2)
					panic(fmt.Sprintf("c08 watchdog: livelock: case %d: %d datagrams on the wire and still running", id, cnt))
				}
			}
			runtime.ReadMemStats(&ms)
			if ms.HeapAlloc > 3<<30 {
				debug.SetTraceback("all")
				panic(fmt.Sprintf("c08 watchdog: memory: case %d: heap %d MB", id, ms.HeapAlloc>>20))
			}
		}
	}()
}

func c08Avoided(name string) bool {
	for _, a := range strings.Split(os.Getenv("VERIF_C08_AVOID"), ",") {
		if a != "" && a == name {
			return true
		}
	}

	return false
}

func c08EnvInt(name string, def int) int {
	if v := os.Getenv(name); v != "" {
		if n, err := strconv.Atoi(v); err == nil {
			return n
		}
	}

	return def
}

func TestVerifC08(t *testing.T) {
	out := newVOut(t)
	cases := c08Cases(vSeed(), vIsThorough())
	from := c08EnvInt("VERIF_C08_FROM", 0)
	only := c08EnvInt("VERIF_C08_ONLY", -1)
	shard, shards := c08EnvInt("VERIF_C08_SHARD", 0), c08EnvInt("VERIF_C08_SHARDS", 1)
	trace := os.Getenv("VERIF_C08_TRACE") != ""
	c08StartWatchdog()
	var m0 runtime.MemStats
	runtime.GC()
	runtime.ReadMemStats(&m0)
	for _, c := range cases {
		if c.ID < from || (only >= 0 && c.ID != only) || c.ID%shards != shard {
			continue
		}
		c := c
		out.emit(c08Res{Kind: "journal", ID: c.ID, Variant: c.Variant, Stage: c.Stage, Gen: c.Gen})
		var res c08Res
		vBubble(t, func(t *testing.T) { res = c08Run(t, out, c, trace) })
		out.emit(res)
	}
	var m1 runtime.MemStats
	runtime.GC()
	runtime.ReadMemStats(&m1)
	out.emit(c08Res{Kind: "mem", ID: -1, HeapMB: (float64(m1.HeapAlloc) - float64(m0.HeapAlloc)) / (1 << 20)})
}

// TestVerifC08Replay delivers ONE datagram (VERIF_C08_REPLAY=variant:stage:target:hex) to `target` just
// before handshake datagram #stage is delivered (stage -1: after the handshake) and reports what happened.
func TestVerifC08Replay(t *testing.T) {
	out := newVOut(t)
	f := strings.Split(os.Getenv("VERIF_C08_REPLAY"), ":")
	if len(f) != 4 {
		t.Skip("VERIF_C08_REPLAY not set")
	}
	stage, _ := strconv.Atoi(f[1])
	target, data := f[2], c08Hex(f[3])
	c08StartWatchdog()
	vBubble(t, func(t *testing.T) {
		v := c08VariantByName(f[0])
		res := c08Res{Kind: "case", ID: -1, Variant: v.Name, Stage: stage, Gen: "replay", Target: target, DropOnly: true}
		s := &c08Sess{
			t: t, v: v, out: out, id: -1, res: &res,
			evs: map[string]*[]c08ReadEv{}, seen: map[string]int{}, wrote: map[string]bool{},
			reader: map[string]bool{}, obsIdx: map[string]int{},
		}
		ccfg, scfg := v.mk()
		lab := newLab(t, ccfg, scfg)
		s.lab = lab
		c08Watch.mu.Lock()
		c08Watch.net, c08Watch.id = lab.Net, -1
		c08Watch.mu.Unlock()
		injected := false
		lab.Pump.Policy = func(d vDatagram) (vAction, int) {
			if stage >= 0 && d.Idx == stage && !injected {
				injected = true
				s.inject(target, data, c08Classify(data, c08CtxOf(lab.peer(target).Conn)), "replay")
			}

			return vPass, 0
		}
		lab.Pump.run(lab.bothDone, 150*time.Second)
		res.Done = lab.established()
		res.CErr, res.SErr = "pending", "pending"
		if lab.Client.handshakeDone() {
			res.CErr = vErrString(lab.Client.Err)
		}
		if lab.Server.handshakeDone() {
			res.SErr = vErrString(lab.Server.Err)
		}
		lab.Pump.Policy = nil
		if res.Done {
			c08StartReader(s, lab.Client)
			c08StartReader(s, lab.Server)
			synctest.Wait()
			if !injected {
				s.inject(target, data, c08Classify(data, c08CtxOf(lab.peer(target).Conn)), "replay")
				lab.Pump.run(func() bool { return true }, time.Second)
			}
			for _, dir := range [][2]*vPeer{{lab.Client, lab.Server}, {lab.Server, lab.Client}} {
				from, to := dir[0], dir[1]
				pl := []byte("c08-replay-echo-" + from.Name)
				_, werr := from.Conn.Write(pl)
				got := func() bool {
					to.rmu.Lock()
					defer to.rmu.Unlock()
					for _, ev := range *s.evs[to.Name] {
						if string(ev.payload) == string(pl) {
							return true
						}
					}

					return false
				}
				if werr == nil {
					lab.Pump.run(got, 3*time.Second)
				}
				if from == lab.Client {
					res.EchoCS = got()
				} else {
					res.EchoSC = got()
				}
			}
		}
		lab.close()
		out.emit(res)
		fmt.Printf("REPLAY %+v\n", res)
	})
}
