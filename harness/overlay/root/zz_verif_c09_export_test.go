//go:build verif

package dtls

import (
	"fmt"
	"strings"
	"sync"
	"testing"
	"testing/synctest"
	"time"

	dtlsstate "github.com/pion/dtls/v3/internal/state"
)

// C09 export leg: emission histories of ONE connection that contain several state exports.
// ConnectionState() is called at k >= 1 different moments (right after the handshake, after some
// writes, after more writes); every State handed out is resumed twice - as returned and through
// MarshalBinary/UnmarshalBinary - on a side transport, and the imported connection writes.
// Observation per import: the records the exporting connection had put on the wire up to that
// export moment (prefix of `orig`) and the records of the imported connection. The monitor
// (checks/c09.py) is C09's own predicate over the union of the two.

type c09xImport struct {
	Export int      `json:"export"` // index of the export moment
	Via    string   `json:"via"`    // "direct" | "gob"
	API    string   `json:"api"`    // "config" (resumeWithConfig) | "options" (ResumeWithOptions)
	Prefix int      `json:"prefix"` // number of records of `orig` emitted up to the export moment
	Epoch  int      `json:"epoch"`  // local epoch in the State
	Seq    uint64   `json:"seq"`    // sequence number in the State (diagnostic only)
	Recs   []c09Rec `json:"recs"`   // records emitted by the imported connection, in order
	Err    string   `json:"err"`
}

type c09xCase struct {
	Kind    string       `json:"kind"`
	Variant string       `json:"variant"`
	Side    string       `json:"side"` // which peer is exported
	MTU     int          `json:"mtu"`
	Drop    int          `json:"drop"`
	Writers int          `json:"writers"`
	Sched   []int        `json:"sched"` // application writes of the exported side before each export
	After   int          `json:"after"` // writes on each imported connection
	Orig    []c09Rec     `json:"orig"`  // every record of the exported side, emission order
	Imports []c09xImport `json:"imports"`
	Done    bool         `json:"done"`
	Notes   []string     `json:"notes"`
}

func c09xRecords(lab *vLab, from string, cid int, start int) []c09Rec {
	var recs []c09Rec
	for _, d := range lab.Net.since(start) {
		if d.From != from {
			continue
		}
		for _, r := range vParseDatagram(d.Data, cid) {
			if r.Uni || r.CT < 0 {
				recs = append(recs, c09Rec{Epoch: -1, CT: -1})

				continue
			}
			recs = append(recs, c09Rec{Epoch: r.Epoch, Seq: r.Seq, CT: r.CT})
		}
	}

	return recs
}

func c09xOptions(variant, side string) []Option {
	// options equivalent to the PSK lab configs (only used for the psk variants)
	hint := []byte("verif-" + side)
	opts := []Option{
		WithPSK(func([]byte) ([]byte, error) { return []byte{0xAB, 0xC1, 0x23}, nil }),
		WithPSKIdentityHint(hint),
	}
	switch {
	case strings.Contains(variant, "cbc"):
		opts = append(opts, WithCipherSuites(TLS_PSK_WITH_AES_128_CBC_SHA256))
	default:
		opts = append(opts, WithCipherSuites(TLS_PSK_WITH_AES_128_GCM_SHA256))
	}
	if strings.Contains(variant, "cid") {
		opts = append(opts, WithConnectionIDGenerator(RandomCIDGenerator(4)))
	}

	return opts
}

func runC09Export(t *testing.T, variant, side string, mtu, drop, writers int, sched []int, after int) c09xCase {
	t.Helper()
	res := c09xCase{
		Kind: "export", Variant: variant, Side: side, MTU: mtu, Drop: drop, Writers: writers,
		Sched: sched, After: after,
	}
	ccfg, scfg := c09Configs(variant, mtu)
	lab := newLab(t, ccfg, scfg)
	lab.Pump.Policy = func(d vDatagram) (vAction, int) {
		if d.Idx == drop {
			return vDrop, 0
		}

		return vPass, 0
	}
	lab.Pump.run(lab.bothDone, 400*time.Second)
	res.Done = lab.established()
	if !res.Done {
		res.Notes = append(res.Notes, fmt.Sprintf("handshake: client=%v server=%v", lab.Client.Err, lab.Server.Err))
		lab.close()

		return res
	}
	lab.Pump.Policy = nil
	lab.Client.startReader()
	lab.Server.startReader()
	ccid := len(dtlsstate.CommonState(lab.Client.Conn.state).LocalConnectionIDForInboundRecords())
	scid := len(dtlsstate.CommonState(lab.Server.Conn.state).LocalConnectionIDForInboundRecords())
	cid := scid // records sent by the client carry the server's CID
	if side == "server" {
		cid = ccid
	}
	exp := lab.peer(side)
	oth := lab.other(side)

	type pending struct {
		export int
		prefix int
		st     State
		raw    []byte
	}
	var pend []pending
	for k, w := range sched {
		// w application writes of the exported side (split over `writers` goroutines), the peer writes too
		var wg sync.WaitGroup
		for g := 0; g < writers; g++ {
			n := w / writers
			if g < w%writers {
				n++
			}
			wg.Add(1)
			go func(g, n int) {
				defer wg.Done()
				for i := 0; i < n; i++ {
					_, _ = exp.Conn.Write([]byte(fmt.Sprintf("x-%d-%d-%d", k, g, i)))
				}
			}(g, n)
		}
		wg.Wait()
		if k%2 == 1 {
			_, _ = oth.Conn.Write([]byte(fmt.Sprintf("peer-%d", k)))
		}
		lab.Pump.run(func() bool { return true }, time.Second)
		// export moment k
		st, ok := exp.Conn.ConnectionState()
		if !ok {
			res.Notes = append(res.Notes, fmt.Sprintf("ConnectionState #%d failed", k))

			continue
		}
		prefix := len(c09xRecords(lab, side, cid, 0))
		stm := st
		raw, err := stm.MarshalBinary()
		if err != nil {
			res.Notes = append(res.Notes, fmt.Sprintf("marshal #%d: %v", k, err))
		}
		pend = append(pend, pending{export: k, prefix: prefix, st: st, raw: raw})
	}
	lab.Pump.run(func() bool { return true }, time.Second)
	res.Orig = c09xRecords(lab, side, cid, 0)

	// import every exported State, as returned and through the serialisation
	nimp := 0
	for _, p := range pend {
		for _, via := range []string{"direct", "gob"} {
			im := c09xImport{Export: p.export, Via: via, API: "config", Prefix: p.prefix}
			var st *State
			if via == "direct" {
				cp := p.st
				st = &cp
			} else {
				if p.raw == nil {
					continue
				}
				st = &State{}
				if err := st.UnmarshalBinary(p.raw); err != nil {
					im.Err = "unmarshal: " + err.Error()
					res.Imports = append(res.Imports, im)

					continue
				}
			}
			im.Epoch, im.Seq = int(st.localEpoch), st.sequenceNumber
			name := fmt.Sprintf("imp%d", nimp)
			nimp++
			ep := lab.Net.endpoint(name)
			mark := lab.Net.count()
			var conn2 *Conn
			var err error
			if strings.HasPrefix(variant, "psk") && via == "gob" {
				im.API = "options"
				conn2, err = ResumeWithOptions(st, ep, vAddr("sink"), c09xOptions(variant, side)...)
			} else {
				var cfg2 *dtlsConfig
				c2, s2 := c09Configs(variant, mtu)
				if side == "client" {
					cfg2 = c2
				} else {
					cfg2 = s2
				}
				conn2, err = resumeWithConfig(st, ep, vAddr("sink"), cfg2)
			}
			if err != nil {
				im.Err = "resume: " + err.Error()
				res.Imports = append(res.Imports, im)
				_ = ep.Close()

				continue
			}
			for i := 0; i < after; i++ {
				if _, err := conn2.Write([]byte(fmt.Sprintf("imported-%d-%d", p.export, i))); err != nil {
					im.Err = "write: " + err.Error()

					break
				}
				synctest.Wait()
			}
			_ = conn2.Close() // its close_notify is a record of the imported connection as well
			synctest.Wait()
			_ = ep.Close()
			synctest.Wait()
			im.Recs = c09xRecords(lab, name, cid, mark)
			res.Imports = append(res.Imports, im)
		}
	}
	lab.close()

	return res
}

func TestVerifC09Export(t *testing.T) {
	out := newVOut(t)
	rng := newVRand(vSeed() ^ 0xc09e)
	variants := []string{"psk-gcm", "psk-gcm-cid", "cert-gcm", "cert-ccm-cid", "psk-cbc-cid"}
	type job struct {
		variant, side      string
		mtu, drop, writers int
		sched              []int
		after              int
	}
	var jobs []job
	// systematic: every variant and side, export right after the handshake, after some writes, after more
	for _, v := range variants {
		for _, side := range []string{"client", "server"} {
			jobs = append(jobs, job{v, side, 0, -1, 1, []int{0, 3, 2}, 3})
			jobs = append(jobs, job{v, side, 0, -1, 1, []int{2}, 2}) // single export (what resume_test.go does)
		}
	}
	n := 150
	if vIsThorough() {
		n = 1500
	}
	for i := 0; i < n; i++ {
		k := 1 + rng.intn(4)
		sched := make([]int, k)
		for j := range sched {
			sched[j] = rng.intn(7)
		}
		if rng.chance(50) {
			sched[0] = 0
		}
		mtu := 0
		if rng.chance(20) {
			mtu = 60 + rng.intn(300)
		}
		side := "client"
		if rng.chance(50) {
			side = "server"
		}
		jobs = append(jobs, job{
			variants[rng.intn(len(variants))], side, mtu, rng.intn(14) - 4, 1 + rng.intn(2), sched, 1 + rng.intn(4),
		})
	}
	for _, j := range jobs {
		j := j
		var res c09xCase
		vBubble(t, func(t *testing.T) {
			res = runC09Export(t, j.variant, j.side, j.mtu, j.drop, j.writers, j.sched, j.after)
		})
		out.emit(res)
	}
}
