//go:build verif

package dtls

import (
	"fmt"
	"sync"
	"sync/atomic"
	"testing"
	"testing/synctest"
	"time"

	dtlsstate "github.com/pion/dtls/v3/internal/state"
	"github.com/pion/dtls/v3/pkg/protocol/recordlayer"
)

type c09Rec struct {
	Epoch int    `json:"e"`
	Seq   uint64 `json:"s"`
	CT    int    `json:"ct"`
	Phase int    `json:"ph"` // 0 = before export/import, 1 = after
}

type c09Case struct {
	Kind     string    `json:"kind"`
	Variant  string    `json:"variant"`
	MTU      int       `json:"mtu"`
	Drop     int       `json:"drop"` // index of the dropped datagram (-1 none)
	Dup      int       `json:"dup"`
	Client   []c09Rec  `json:"client"`
	Server   []c09Rec  `json:"server"`
	ImportAt int       `json:"import_epoch"` // epoch at which the server was exported/imported (-1 none)
	Done     bool      `json:"done"`
	Notes    []string  `json:"notes"`
	WrapOK   int       `json:"wrap_ok"`  // wrap leg: number of writes that succeeded
	WrapErr  int       `json:"wrap_err"` // wrap leg: number of writes that failed
	WrapBase uint64    `json:"wrap_base"`
}

func c09Configs(variant string, mtu int) (*dtlsConfig, *dtlsConfig) {
	var c, s *dtlsConfig
	switch variant {
	case "psk-gcm":
		c, s = vPSKPair(TLS_PSK_WITH_AES_128_GCM_SHA256)
	case "psk-gcm-cid":
		c, s = vPSKPair(TLS_PSK_WITH_AES_128_GCM_SHA256)
		c.ConnectionIDGenerator = RandomCIDGenerator(4)
		s.ConnectionIDGenerator = RandomCIDGenerator(7)
	case "cert-gcm":
		c, s = vCertPair()
	case "cert-ccm-cid":
		c, s = vCertPair()
		c.CipherSuites = []CipherSuiteID{TLS_ECDHE_ECDSA_WITH_AES_128_CCM}
		s.CipherSuites = []CipherSuiteID{TLS_ECDHE_ECDSA_WITH_AES_128_CCM}
		c.ConnectionIDGenerator = RandomCIDGenerator(8)
		s.ConnectionIDGenerator = RandomCIDGenerator(3)
	case "psk-cbc-cid":
		c, s = vPSKPair(TLS_PSK_WITH_AES_128_CBC_SHA256)
		c.ConnectionIDGenerator = RandomCIDGenerator(2)
		s.ConnectionIDGenerator = RandomCIDGenerator(2)
	default:
		panic(variant)
	}
	if mtu > 0 {
		c.MTU, s.MTU = mtu, mtu
	}

	return c, s
}

func c09Collect(lab *vLab, res *c09Case, from int, phase int) {
	ccid := len(dtlsstate.CommonState(lab.Client.Conn.state).LocalConnectionIDForInboundRecords())
	scid := len(dtlsstate.CommonState(lab.Server.Conn.state).LocalConnectionIDForInboundRecords())
	for _, d := range lab.Net.since(from) {
		cid := scid // records sent by the client carry the server's CID
		if d.From == "server" {
			cid = ccid
		}
		for _, r := range vParseDatagram(d.Data, cid) {
			if r.Uni || r.CT < 0 {
				res.Notes = append(res.Notes, fmt.Sprintf("unparsed record from %s", d.From))

				continue
			}
			rec := c09Rec{Epoch: r.Epoch, Seq: r.Seq, CT: r.CT, Phase: phase}
			if d.From == "client" {
				res.Client = append(res.Client, rec)
			} else {
				res.Server = append(res.Server, rec)
			}
		}
	}
}

// c09CloseExporter: the exporting connection is closed with Close() (transport open) before the import.
var c09CloseExporter bool

func runC09(t *testing.T, variant string, mtu, drop, dup int, writers, perWriter int, doImport bool) c09Case {
	t.Helper()
	res := c09Case{Kind: "session", Variant: variant, MTU: mtu, Drop: drop, Dup: dup, ImportAt: -1}
	ccfg, scfg := c09Configs(variant, mtu)
	lab := newLab(t, ccfg, scfg)
	lab.Pump.Policy = func(d vDatagram) (vAction, int) {
		if d.Idx == drop {
			return vDrop, 0
		}
		if d.Idx == dup {
			return vDup, 0
		}

		return vPass, 0
	}
	lab.Pump.run(lab.bothDone, 400*time.Second)
	res.Done = lab.established()
	if !res.Done {
		res.Notes = append(res.Notes, fmt.Sprintf("handshake: client=%v server=%v", lab.Client.Err, lab.Server.Err))
		c09Collect(lab, &res, 0, 0)
		lab.close()

		return res
	}
	lab.Pump.Policy = nil
	lab.Client.startReader()
	lab.Server.startReader()
	// concurrent writers on both sides
	var wg sync.WaitGroup
	for _, p := range []*vPeer{lab.Client, lab.Server} {
		for w := 0; w < writers; w++ {
			wg.Add(1)
			go func(p *vPeer, w int) {
				defer wg.Done()
				for i := 0; i < perWriter; i++ {
					_, _ = p.Conn.Write([]byte(fmt.Sprintf("%s-%d-%d", p.Name, w, i)))
				}
			}(p, w)
		}
	}
	wg.Wait()
	lab.Pump.run(func() bool { return true }, time.Second)
	mark := lab.Net.count()
	c09Collect(lab, &res, 0, 0)
	if doImport {
		// export the server's session, stop the original without letting it emit, import, continue
		st, ok := lab.Server.Conn.ConnectionState()
		if !ok {
			res.Notes = append(res.Notes, "ConnectionState failed")
		} else {
			raw, err := st.MarshalBinary()
			if err != nil {
				t.Fatalf("marshal: %v", err)
			}
			res.ImportAt = int(st.localEpoch)
			if c09CloseExporter {
				// the application shuts the exporting connection down with Close while its
				// transport is still open (export -> Close -> resume elsewhere): the close_notify
				// it emits belongs to the same session as the records of the imported connection
				res.Kind = "session-export-close"
				_ = lab.Server.Conn.Close()
				synctest.Wait()
			}
			_ = lab.Server.EP.Close() // the original can no longer write
			synctest.Wait()
			st2 := &State{}
			if err := st2.UnmarshalBinary(raw); err != nil {
				t.Fatalf("unmarshal: %v", err)
			}
			ep2 := lab.Net.endpoint("server")
			_, scfg2 := c09Configs(variant, mtu)
			conn2, err := resumeWithConfig(st2, ep2, vAddr("client"), scfg2)
			if err != nil {
				t.Fatalf("resume: %v", err)
			}
			old := lab.Server
			lab.Server = &vPeer{Name: "server", EP: ep2, Conn: conn2, Done: make(chan struct{})}
			close(lab.Server.Done)
			for i := 0; i < 4; i++ {
				if _, err := conn2.Write([]byte(fmt.Sprintf("resumed-%d", i))); err != nil {
					res.Notes = append(res.Notes, "resumed write: "+err.Error())
				}
				synctest.Wait()
			}
			lab.Pump.next = mark
			lab.Pump.run(func() bool { return true }, time.Second)
			c09Collect(lab, &res, mark, 1)
			mark = lab.Net.count()
			defer func() { _ = old.Conn.Close() }()
		}
	}
	// close both: alerts are records too
	_ = lab.Client.Conn.Close()
	lab.Pump.next = mark
	lab.Pump.run(func() bool { return true }, time.Second)
	_ = lab.Server.Conn.Close()
	synctest.Wait()
	phase := 0
	if res.ImportAt >= 0 {
		phase = 1
	}
	c09Collect(lab, &res, mark, phase)
	lab.close()

	return res
}

// wrap leg: preset the epoch-1 counter just below 2^48 and write.
func runC09Wrap(t *testing.T, variant string, below uint64, writes int) c09Case {
	t.Helper()
	res := c09Case{Kind: "wrap", Variant: variant, Drop: -1, Dup: -1, ImportAt: -1}
	ccfg, scfg := c09Configs(variant, 0)
	lab := newLab(t, ccfg, scfg)
	lab.Pump.run(lab.bothDone, 200*time.Second)
	res.Done = lab.established()
	if !res.Done {
		lab.close()

		return res
	}
	common := dtlsstate.CommonState(lab.Client.Conn.state)
	base := uint64(recordlayer.MaxSequenceNumber) - below
	atomic.StoreUint64(&common.LocalSequenceNumber[1], base)
	res.WrapBase = base
	mark := lab.Net.count()
	for i := 0; i < writes; i++ {
		if _, err := lab.Client.Conn.Write([]byte("w")); err != nil {
			res.WrapErr++
		} else {
			res.WrapOK++
		}
		synctest.Wait()
	}
	c09Collect(lab, &res, mark, 0)
	// do not Close (it would try to allocate a number for close_notify as well, which is fine but noisy)
	_ = lab.Client.EP.Close()
	_ = lab.Server.EP.Close()
	synctest.Wait()
	_ = lab.Client.Conn.Close()
	_ = lab.Server.Conn.Close()
	synctest.Wait()

	return res
}

func TestVerifC09(t *testing.T) {
	out := newVOut(t)
	rng := newVRand(vSeed() ^ 0xc09)
	variants := []string{"psk-gcm", "psk-gcm-cid", "cert-gcm", "cert-ccm-cid", "psk-cbc-cid"}
	type job struct {
		variant         string
		mtu, drop, dup  int
		writers, perW   int
		imp             bool
	}
	var jobs []job
	maxDrop := 9
	if vIsThorough() {
		maxDrop = 14
	}
	// systematic: drop each of the first datagrams once (forces a retransmission of every flight)
	for _, v := range []string{"psk-gcm", "psk-gcm-cid", "cert-ccm-cid"} {
		for d := -1; d < maxDrop; d++ {
			jobs = append(jobs, job{v, 0, d, -1, 2, 5, d%3 == 0})
		}
	}
	// small MTU: fragmented flights, with a loss
	for _, v := range []string{"psk-gcm-cid", "cert-gcm", "cert-ccm-cid"} {
		for _, mtu := range []int{10, 60, 150} {
			jobs = append(jobs, job{v, mtu, 2 + rng.intn(10), -1, 1, 3, false})
		}
	}
	n := 12
	if vIsThorough() {
		n = 400
	}
	for i := 0; i < n; i++ {
		mtu := 0
		if rng.chance(30) {
			mtu = 20 + rng.intn(300)
		}
		jobs = append(jobs, job{
			variants[rng.intn(len(variants))], mtu, rng.intn(16) - 2, rng.intn(24) - 8,
			1 + rng.intn(3), 1 + rng.intn(12), rng.chance(40),
		})
	}
	for _, j := range jobs {
		j := j
		var res c09Case
		vBubble(t, func(t *testing.T) {
			res = runC09(t, j.variant, j.mtu, j.drop, j.dup, j.writers, j.perW, j.imp)
		})
		out.emit(res)
	}
	// export -> Close of the exporting connection (its transport still open) -> import -> Write
	c09CloseExporter = true
	for _, v := range []string{"psk-gcm", "cert-ccm-cid", "psk-cbc-cid"} {
		v := v
		var res c09Case
		vBubble(t, func(t *testing.T) { res = runC09(t, v, 0, -1, -1, 1, 3, true) })
		out.emit(res)
	}
	c09CloseExporter = false
	for _, below := range []uint64{0, 1, 3} {
		below := below
		var res c09Case
		vBubble(t, func(t *testing.T) { res = runC09Wrap(t, "psk-gcm", below, 6) })
		out.emit(res)
	}
}
