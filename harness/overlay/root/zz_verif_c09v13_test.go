//go:build verif

package dtls

import (
	"crypto/tls"
	"context"
	"fmt"
	"sync"
	"testing"
	"testing/synctest"
	"time"

	"github.com/pion/dtls/v3/pkg/protocol"
	"github.com/pion/dtls/v3/pkg/protocol/recordlayer"
)

// DTLS 1.3 leg of C09 (needs zz_verif_c20_test.go for c20Open: run with tags c09 + c20): the record
// sequence numbers are encrypted on the wire; every record is opened with its sender's write
// generations to learn (epoch, sequence number).

func c09CollectV13(lab *vLab, res *c09Case) {
	for _, d := range lab.Net.since(0) {
		sender := lab.peer(d.From).Conn
		pkts, err := recordlayer.UnpackDatagram13(d.Data, 0, false, true)
		if err != nil {
			res.Notes = append(res.Notes, "unpack: "+err.Error())

			continue
		}
		for _, p := range pkts {
			var rec c09Rec
			if len(p) > 0 && protocol.IsDTLS13Ciphertext(protocol.ContentType(p[0])) {
				r, ok := c20Open(sender, p)
				if !ok {
					res.Notes = append(res.Notes, fmt.Sprintf("unopenable record from %s (%s)", d.From, r.Kind))

					continue
				}
				rec = c09Rec{Epoch: r.Epoch, Seq: r.Seq, CT: 23}
			} else {
				rs := vParseDatagram(p, 0)
				if len(rs) != 1 || rs[0].CT < 0 {
					res.Notes = append(res.Notes, "unparsed plaintext record from "+d.From)

					continue
				}
				rec = c09Rec{Epoch: rs[0].Epoch, Seq: rs[0].Seq, CT: rs[0].CT}
			}
			if d.From == "client" {
				res.Client = append(res.Client, rec)
			} else {
				res.Server = append(res.Server, rec)
			}
		}
	}
}

func runC09V13(t *testing.T, drop, dup int, writers, perWriter, updates int) c09Case {
	t.Helper()

	return runC09V13x(t, drop, dup, writers, perWriter, updates, 0, false, -1)
}

// runC09V13x: mtu > 0 fragments the handshake messages (partial acknowledgement and partial
// retransmission of protected flights), clientAuth adds the client's Certificate/CertificateVerify,
// drop2 is a second lost datagram.
func runC09V13x(t *testing.T, drop, dup int, writers, perWriter, updates, mtu int, clientAuth bool, drop2 int) c09Case {
	t.Helper()
	res := c09Case{Kind: "session13", Variant: "v13-cert", Drop: drop, Dup: dup, ImportAt: -1}
	ccfg, scfg := vCertPair()
	ccfg.MinVersion, ccfg.MaxVersion = protocol.Version1_3, protocol.Version1_3
	scfg.MinVersion, scfg.MaxVersion = protocol.Version1_3, protocol.Version1_3
	if mtu > 0 {
		ccfg.MTU, scfg.MTU = mtu, mtu
		res.Variant = fmt.Sprintf("v13-cert-mtu%d", mtu)
	}
	if clientAuth {
		cr := vGetCreds()
		ccfg.Certificates = []tls.Certificate{cr.Client}
		scfg.ClientAuth = RequireAndVerifyClientCert
		scfg.ClientCAs = cr.Pool
		res.Variant += "-clientauth"
	}
	if drop2 >= 0 {
		res.Variant += fmt.Sprintf("-drop2:%d", drop2)
	}
	lab := newLab(t, ccfg, scfg)
	lab.Pump.Policy = func(d vDatagram) (vAction, int) {
		if d.Idx == drop || d.Idx == drop2 {
			return vDrop, 0
		}
		if d.Idx == dup {
			return vDup, 0
		}

		return vPass, 0
	}
	lab.Pump.run(lab.bothDone, 120*time.Second)
	res.Done = lab.established()
	if res.Done {
		lab.Pump.Policy = nil
		lab.Client.startReader()
		lab.Server.startReader()
		var wg sync.WaitGroup
		running := int32(0)
		var mu sync.Mutex
		for _, p := range []*vPeer{lab.Client, lab.Server} {
			for w := 0; w < writers; w++ {
				wg.Add(1)
				mu.Lock()
				running++
				mu.Unlock()
				go func(p *vPeer, w int) {
					defer wg.Done()
					for i := 0; i < perWriter; i++ {
						_, _ = p.Conn.Write([]byte(fmt.Sprintf("%s-%d-%d", p.Name, w, i)))
					}
					mu.Lock()
					running--
					mu.Unlock()
				}(p, w)
			}
			if updates > 0 {
				wg.Add(1)
				mu.Lock()
				running++
				mu.Unlock()
				go func(p *vPeer) {
					defer wg.Done()
					for i := 0; i < updates; i++ {
						ctx, cancel := context.WithTimeout(context.Background(), 20*time.Second)
						_ = p.Conn.UpdateKeys(ctx, KeyUpdateOptions{RequestPeerUpdate: i%2 == 0})
						cancel()
					}
					mu.Lock()
					running--
					mu.Unlock()
				}(p)
			}
		}
		lab.Pump.run(func() bool {
			mu.Lock()
			defer mu.Unlock()

			return running == 0
		}, 120*time.Second)
		wg.Wait()
		lab.Pump.run(func() bool { return true }, time.Second)
		_ = lab.Client.Conn.Close()
		lab.Pump.run(func() bool { return true }, time.Second)
		_ = lab.Server.Conn.Close()
		synctest.Wait()
	}
	c09CollectV13(lab, &res)
	lab.close()

	return res
}

func TestVerifC09V13(t *testing.T) {
	out := newVOut(t)
	rng := newVRand(vSeed() ^ 0xc0913)
	type job struct{ drop, dup, writers, perW, updates int }
	var jobs []job
	for d := -1; d < 12; d++ {
		jobs = append(jobs, job{d, -1, 2, 4, 2})
	}
	n := 10
	if vIsThorough() {
		n = 300
	}
	for i := 0; i < n; i++ {
		jobs = append(jobs, job{rng.intn(16) - 2, rng.intn(24) - 8, 1 + rng.intn(3), 1 + rng.intn(8), rng.intn(4)})
	}
	for _, j := range jobs {
		j := j
		var res c09Case
		vBubble(t, func(t *testing.T) { res = runC09V13(t, j.drop, j.dup, j.writers, j.perW, j.updates) })
		out.emit(res)
	}
	// fragmented protected flights: every single lost datagram among the first ones (partial ACK, then
	// partial retransmission of the un-ACKed fragments), plus sampled pairs
	type fjob struct {
		mtu        int
		ca         bool
		drop, drp2 int
	}
	var fjobs []fjob
	for _, mtu := range []int{100, 200} {
		for _, ca := range []bool{false, true} {
			last := 70
			if mtu == 200 {
				last = 40
			}
			step := 1
			if !vIsThorough() {
				step = 2
			}
			for d := 0; d < last; d += step {
				fjobs = append(fjobs, fjob{mtu, ca, d, -1})
			}
		}
	}
	np := 20
	if vIsThorough() {
		np = 400
	}
	for i := 0; i < np; i++ {
		fjobs = append(fjobs, fjob{[]int{100, 200, 300}[rng.intn(3)], rng.chance(50), rng.intn(60), rng.intn(80)})
	}
	for _, j := range fjobs {
		j := j
		var res c09Case
		vBubble(t, func(t *testing.T) { res = runC09V13x(t, j.drop, -1, 1, 2, 1, j.mtu, j.ca, j.drp2) })
		out.emit(res)
	}
}
