//go:build verif

// C10 correspondence harness, live DTLS 1.2 handshake leg: a passive decoder that holds the key log.
//
// Real client+server handshakes run in the synctest lab. Everything below is taken from the captured
// datagrams and the client's KeyLogWriter line only - never from pion's handshake cache or its
// transcript pull rules:
//   - every handshake message is reassembled from the plaintext epoch-0 records, in the order its
//     first fragment appeared ON THE WIRE (own record / fragment parser);
//   - the two hello randoms, the negotiated suite and the extended_master_secret extension are read
//     from the ServerHello / ClientHello bodies on the wire;
//   - both epoch-1 Finished records are opened with keys this file derives itself from the logged
//     master secret (own P_hash over Go stdlib HMAC; stdlib AES-GCM / AES-CBC+HMAC / x/crypto
//     ChaCha20-Poly1305), so verify_data is the value a conforming peer receives.
//
// Emitted cases (evaluated by Crypto/C10Run.v, model Crypto/C10Transcript.v):
//
//	fn 13/14  in = master secret :: bodies of all messages that preceded the client/server Finished on the
//	          wire (HelloVerifyRequest and the initial ClientHello included: the model applies RFC 6347
//	          4.2.1), n = (msg_type, message_seq) per body, out = verify_data read from the wire
//	fn 15     in = bodies preceding CertificateVerify, out = the byte string under which the client's
//	          signature was checked with the public key of its Certificate message (hs.cv_ok)
//	fn 17     in = pre-master secret :: bodies through ClientKeyExchange, out = key-log master secret
//	          (RFC 7627 session hash in wire order); without the extension the existing fn 2 is used
package dtls

import (
	"bytes"
	"crypto"
	"crypto/aes"
	"crypto/cipher"
	"crypto/ecdsa"
	"crypto/ed25519"
	stdelliptic "crypto/elliptic"
	"crypto/rand"
	"crypto/hmac"
	"crypto/sha1" //nolint:gosec
	"crypto/sha256"
	"crypto/sha512"
	"crypto/tls"
	"crypto/x509"
	"encoding/binary"
	"encoding/hex"
	"fmt"
	"hash"
	"strings"
	"sync"
	"testing"
	"time"

	dtlsflight "github.com/pion/dtls/v3/internal/flight"
	dtlsstate "github.com/pion/dtls/v3/internal/state"
	"github.com/pion/dtls/v3/pkg/crypto/selfsign"
	"github.com/pion/dtls/v3/pkg/protocol"
	"github.com/pion/dtls/v3/pkg/protocol/handshake"
	"golang.org/x/crypto/chacha20poly1305"
)

const c10SiteKeyLog = "KeyLogWriter (internal/config HandshakeConfig.WriteKeyLog and its callers)"
const c10SiteSKE = "pkg/protocol/handshake/message_server_key_exchange.go Marshal (PSK / ECDHE_PSK)"
const c10SiteCV13 = "pkg/crypto/signaturehash SelectSignatureScheme13 (DTLS 1.3 CertificateVerify)"
const c10SiteHS = "internal/flight/flight12 handshake_messages (Finished verify_data, CertificateVerify, session hash)"

// ---------------------------------------------------------------- independent wire decoder

type c10WireMsg struct {
	From   string
	Epoch  int
	Typ    int
	Seq    int
	Body   []byte
	have   []bool
	Record []byte // epoch-1 handshake record (header included), still protected
}

func (m *c10WireMsg) complete() bool {
	for _, b := range m.have {
		if !b {
			return false
		}
	}

	return true
}

var c10HTNames = map[int]string{ //nolint:gochecknoglobals
	0: "HelloRequest", 1: "ClientHello", 2: "ServerHello", 3: "HelloVerifyRequest", 11: "Certificate",
	12: "ServerKeyExchange", 13: "CertificateRequest", 14: "ServerHelloDone", 15: "CertificateVerify",
	16: "ClientKeyExchange", 20: "Finished",
}

func c10MsgName(m *c10WireMsg) string {
	n, ok := c10HTNames[m.Typ]
	if !ok {
		n = fmt.Sprintf("type%d", m.Typ)
	}

	return fmt.Sprintf("%s:%s(seq %d)", m.From[:1], n, m.Seq)
}

func c10u24(b []byte) int { return int(b[0])<<16 | int(b[1])<<8 | int(b[2]) }

// c10WireMessages walks the captured datagrams in emission order and returns the handshake messages in
// wire order (position = first appearance of any fragment; retransmissions are the same message), plus
// one placeholder per sender for its first epoch-1 handshake record (the Finished).
func c10WireMessages(t *testing.T, dgs []vDatagram) []*c10WireMsg {
	t.Helper()
	var order []*c10WireMsg
	byKey := map[string]*c10WireMsg{}
	for _, d := range dgs {
		b := d.Data
		for len(b) >= 13 {
			ct := b[0]
			if ct&0xe0 == 0x20 {
				break // DTLS 1.3 unified header: protected, not looked at here
			}
			epoch := int(binary.BigEndian.Uint16(b[3:5]))
			ln := int(binary.BigEndian.Uint16(b[11:13]))
			if 13+ln > len(b) {
				t.Fatalf("truncated record in datagram %d", d.Idx)
			}
			rec := b[:13+ln]
			b = b[13+ln:]
			if ct != 22 {
				continue
			}
			if epoch == 1 {
				k := d.From + "/fin"
				if byKey[k] == nil {
					m := &c10WireMsg{From: d.From, Epoch: 1, Typ: 20, Seq: -1, Record: bytes.Clone(rec)}
					byKey[k] = m
					order = append(order, m)
				}

				continue
			}
			if epoch != 0 {
				continue
			}
			p := rec[13:]
			for len(p) >= 12 {
				total, seq := c10u24(p[1:4]), int(binary.BigEndian.Uint16(p[4:6]))
				off, fl := c10u24(p[6:9]), c10u24(p[9:12])
				if 12+fl > len(p) || off+fl > total {
					t.Fatalf("bad handshake fragment in datagram %d", d.Idx)
				}
				k := fmt.Sprintf("%s/%d", d.From, seq)
				m := byKey[k]
				if m == nil {
					m = &c10WireMsg{From: d.From, Typ: int(p[0]), Seq: seq, Body: make([]byte, total), have: make([]bool, total)}
					byKey[k] = m
					order = append(order, m)
				}
				if m.Typ != int(p[0]) || len(m.Body) != total {
					t.Fatalf("message_seq %d of %s reused for a different message", seq, d.From)
				}
				copy(m.Body[off:], p[12:12+fl])
				for i := off; i < off+fl; i++ {
					m.have[i] = true
				}
				p = p[12+fl:]
			}
		}
	}

	return order
}

// c10PHash: RFC 5246 section 5 P_hash over Go's HMAC (the decoder's own key derivation).
func c10PHash(h func() hash.Hash, secret, seed []byte, n int) []byte {
	var out []byte
	a := seed
	for len(out) < n {
		m := hmac.New(h, secret)
		m.Write(a)
		a = m.Sum(nil)
		m = hmac.New(h, secret)
		m.Write(a)
		m.Write(seed)
		out = m.Sum(out)
	}

	return out[:n]
}

type c10SuiteParams struct {
	name   string
	kind   string // gcm | cbc | chacha
	hcode  int    // PRF / Finished hash: 256 | 384
	mac    func() hash.Hash
	macLen int
	keyLen int
	ivLen  int
	psk    bool // plain PSK key exchange (premaster from the PSK alone)
}

// RFC 5288 / 5289 / 5487 / 5489 / 7905 / 8422 parameters of the suites the decoder can open
var c10SuiteTable = map[uint16]c10SuiteParams{ //nolint:gochecknoglobals
	0xc02b: {name: "TLS_ECDHE_ECDSA_WITH_AES_128_GCM_SHA256", kind: "gcm", hcode: 256, keyLen: 16, ivLen: 4},
	0xc02c: {name: "TLS_ECDHE_ECDSA_WITH_AES_256_GCM_SHA384", kind: "gcm", hcode: 384, keyLen: 32, ivLen: 4},
	0xc00a: {name: "TLS_ECDHE_ECDSA_WITH_AES_256_CBC_SHA", kind: "cbc", hcode: 256, mac: sha1.New, macLen: 20, keyLen: 32},
	0xcca9: {name: "TLS_ECDHE_ECDSA_WITH_CHACHA20_POLY1305_SHA256", kind: "chacha", hcode: 256, keyLen: 32, ivLen: 12},
	0x00a8: {name: "TLS_PSK_WITH_AES_128_GCM_SHA256", kind: "gcm", hcode: 256, keyLen: 16, ivLen: 4, psk: true},
	0x00ae: {name: "TLS_PSK_WITH_AES_128_CBC_SHA256", kind: "cbc", hcode: 256, mac: sha256.New, macLen: 32, keyLen: 16, psk: true},
	0xccab: {name: "TLS_PSK_WITH_CHACHA20_POLY1305_SHA256", kind: "chacha", hcode: 256, keyLen: 32, ivLen: 12, psk: true},
	0xc037: {name: "TLS_ECDHE_PSK_WITH_AES_128_CBC_SHA256", kind: "cbc", hcode: 256, mac: sha256.New, macLen: 32, keyLen: 16},
}

func (p c10SuiteParams) prfHash() func() hash.Hash {
	if p.hcode == 384 {
		return sha512.New384
	}

	return sha256.New
}

// c10OpenRecord opens one protected DTLS 1.2 record sent by `fromClient` and returns its plaintext.
func c10OpenRecord(p c10SuiteParams, ms, cr, sr, rec []byte, fromClient bool) ([]byte, error) {
	seed := append(append([]byte("key expansion"), sr...), cr...)
	kb := c10PHash(p.prfHash(), ms, seed, 2*(p.macLen+p.keyLen+p.ivLen))
	pick := func(off, n int) []byte {
		if !fromClient {
			off += n
		}

		return kb[off : off+n]
	}
	macKey := pick(0, p.macLen)
	key := pick(2*p.macLen, p.keyLen)
	iv := pick(2*p.macLen+2*p.keyLen, p.ivLen)
	body := rec[13:]
	aad := func(plainLen int) []byte {
		a := make([]byte, 13)
		copy(a[0:8], rec[3:11]) // epoch || sequence_number
		copy(a[8:11], rec[0:3]) // type, version
		binary.BigEndian.PutUint16(a[11:], uint16(plainLen)) //nolint:gosec

		return a
	}
	switch p.kind {
	case "gcm":
		if len(body) < 8+16 {
			return nil, fmt.Errorf("short GCM record")
		}
		blk, err := aes.NewCipher(key)
		if err != nil {
			return nil, err
		}
		g, err := cipher.NewGCM(blk)
		if err != nil {
			return nil, err
		}
		nonce := append(bytes.Clone(iv), body[:8]...)

		return g.Open(nil, nonce, body[8:], aad(len(body)-8-16))
	case "chacha":
		if len(body) < 16 {
			return nil, fmt.Errorf("short ChaCha20-Poly1305 record")
		}
		c, err := chacha20poly1305.New(key)
		if err != nil {
			return nil, err
		}
		nonce := bytes.Clone(iv)
		for i := 0; i < 8; i++ {
			nonce[4+i] ^= rec[3+i]
		}

		return c.Open(nil, nonce, body, aad(len(body)-16))
	case "cbc":
		if len(body) < 32 || len(body)%16 != 0 {
			return nil, fmt.Errorf("bad CBC record length")
		}
		blk, err := aes.NewCipher(key)
		if err != nil {
			return nil, err
		}
		pt := make([]byte, len(body)-16)
		cipher.NewCBCDecrypter(blk, body[:16]).CryptBlocks(pt, body[16:]) //nolint:staticcheck
		pad := int(pt[len(pt)-1])
		if pad+1+p.macLen > len(pt) {
			return nil, fmt.Errorf("bad CBC padding")
		}
		for _, x := range pt[len(pt)-1-pad:] {
			if int(x) != pad {
				return nil, fmt.Errorf("bad CBC padding bytes")
			}
		}
		content := pt[:len(pt)-1-pad-p.macLen]
		m := hmac.New(p.mac, macKey)
		m.Write(aad(len(content)))
		m.Write(content)
		if !hmac.Equal(m.Sum(nil), pt[len(content):len(content)+p.macLen]) {
			return nil, fmt.Errorf("CBC record MAC does not verify under the key-log keys")
		}

		return content, nil
	}

	return nil, fmt.Errorf("no decoder for suite kind %q", p.kind)
}

// ServerHello: version(2) random(32) session_id<0..32> cipher_suite(2) compression(1) extensions<0..2^16-1>
func c10ParseServerHello(b []byte) (random, sid []byte, suite uint16, ems bool, ok bool) {
	if len(b) < 35 {
		return nil, nil, 0, false, false
	}
	random = b[2:34]
	n := int(b[34])
	if len(b) < 35+n+3 {
		return nil, nil, 0, false, false
	}
	sid = b[35 : 35+n]
	rest := b[35+n:]
	suite = binary.BigEndian.Uint16(rest[0:2])
	rest = rest[3:]
	if len(rest) >= 2 {
		el := int(binary.BigEndian.Uint16(rest))
		ext := rest[2:]
		if el <= len(ext) {
			ext = ext[:el]
		}
		for len(ext) >= 4 {
			typ, l := binary.BigEndian.Uint16(ext), int(binary.BigEndian.Uint16(ext[2:]))
			if typ == 0x0017 {
				ems = true
			}
			if 4+l > len(ext) {
				break
			}
			ext = ext[4+l:]
		}
	}

	return random, sid, suite, ems, true
}

// c10VerifyCV checks the client's CertificateVerify (SignatureAndHashAlgorithm, opaque signature<0..2^16-1>)
// over `transcript` with the public key of the first certificate of the client's Certificate message.
func c10VerifyCV(certBody, cvBody, transcript []byte) (scheme string, ok bool, err error) {
	if len(certBody) < 6 || len(cvBody) < 4 {
		return "", false, fmt.Errorf("short Certificate / CertificateVerify")
	}
	cl := c10u24(certBody[3:6])
	if 6+cl > len(certBody) {
		return "", false, fmt.Errorf("bad certificate_list")
	}
	cert, err := x509.ParseCertificate(certBody[6 : 6+cl])
	if err != nil {
		return "", false, err
	}
	alg := binary.BigEndian.Uint16(cvBody[0:2])
	sl := int(binary.BigEndian.Uint16(cvBody[2:4]))
	if 4+sl != len(cvBody) {
		return "", false, fmt.Errorf("bad signature length")
	}
	sig := cvBody[4:]
	scheme = fmt.Sprintf("0x%04x", alg)
	switch pub := cert.PublicKey.(type) {
	case ed25519.PublicKey:
		if alg != 0x0807 {
			return scheme, false, fmt.Errorf("Ed25519 key with algorithm %s", scheme)
		}

		return scheme + " ed25519", ed25519.Verify(pub, transcript, sig), nil
	case *ecdsa.PublicKey:
		var h crypto.Hash
		switch alg {
		case 0x0403:
			h = crypto.SHA256
		case 0x0503:
			h = crypto.SHA384
		case 0x0603:
			h = crypto.SHA512
		default:
			return scheme, false, fmt.Errorf("ECDSA key with algorithm %s", scheme)
		}
		hh := h.New()
		hh.Write(transcript)

		return scheme + " ecdsa", ecdsa.VerifyASN1(pub, hh.Sum(nil), sig), nil
	}

	return scheme, false, fmt.Errorf("unsupported client key type %T", cert.PublicKey)
}

// ---------------------------------------------------------------- model-side serialisation helpers

// the decoder's own RFC 6347 4.2.6 serialisation (only used for the CertificateVerify check; the Finished
// and master-secret cases hand the bodies to the model, which serialises them itself)
func c10Unfragmented(m *c10WireMsg) []byte {
	out := make([]byte, 12, 12+len(m.Body))
	out[0] = byte(m.Typ)
	out[1], out[2], out[3] = byte(len(m.Body)>>16), byte(len(m.Body)>>8), byte(len(m.Body))
	binary.BigEndian.PutUint16(out[4:], uint16(m.Seq)) //nolint:gosec
	copy(out[9:12], out[1:4])

	return append(out, m.Body...)
}

func c10Counted(ms []*c10WireMsg) []*c10WireMsg {
	var out []*c10WireMsg
	for _, m := range ms {
		if m.Typ == 3 {
			out = nil

			continue
		}
		out = append(out, m)
	}

	return out
}

type c10HSInfo struct {
	Variant string `json:"variant"`
	Suite   string `json:"suite"`
	Side    string `json:"side,omitempty"`
	Check   string `json:"check"`
	Order   string `json:"order"` // wire order of the messages handed to the model
	EMS     bool   `json:"ems"`
	Resumed bool   `json:"resumed"`
	CertReq bool   `json:"certificate_request"`
	CVOk    *bool  `json:"cv_ok,omitempty"`
	CVAlg   string `json:"cv_alg,omitempty"`
	CVErr   string `json:"cv_err,omitempty"`
	Version string `json:"version,omitempty"`
	Label   string `json:"label,omitempty"`    // key log label looked up
	KeyLog  string `json:"key_log,omitempty"`  // what the KeyLogWriter received
	Hint    string `json:"hint,omitempty"`     // server psk_identity_hint: absent | present
	KeyExch string `json:"key_exchange,omitempty"`
	Key     string `json:"key,omitempty"`      // curve of the signing key (DTLS 1.3 CertificateVerify)
	Scheme  string `json:"scheme,omitempty"`   // SignatureScheme on the wire
}

type c10HSCase struct {
	c10RootCase
	HS c10HSInfo `json:"hs"`
}

func c10EmitHS(out *vOut, fn, h int, tag string, first []byte, msgs []*c10WireMsg, obs []byte, info c10HSInfo) {
	c := c10HSCase{HS: info}
	c.Fn, c.H, c.Tag, c.Site = fn, h, tag, c10SiteHS
	c.In, c.N, c.Out = []string{}, []uint64{}, []string{vHex(obs)}
	if first != nil {
		c.In = append(c.In, vHex(first))
	}
	names := make([]string, 0, len(msgs))
	for _, m := range msgs {
		c.In = append(c.In, vHex(m.Body))
		c.N = append(c.N, uint64(m.Typ), uint64(m.Seq)) //nolint:gosec
		names = append(names, c10MsgName(m))
	}
	c.HS.Order = strings.Join(names, " ")
	out.emit(c)
}

// ---------------------------------------------------------------- the handshakes

type c10MemStore struct {
	mu sync.Mutex
	m  map[string]Session
}

func (s *c10MemStore) Set(key []byte, v Session) error {
	s.mu.Lock()
	defer s.mu.Unlock()
	s.m[string(key)] = Session{ID: bytes.Clone(v.ID), Secret: bytes.Clone(v.Secret)}

	return nil
}

func (s *c10MemStore) Get(key []byte) (Session, error) {
	s.mu.Lock()
	defer s.mu.Unlock()
	v := s.m[string(key)]

	return Session{ID: bytes.Clone(v.ID), Secret: bytes.Clone(v.Secret)}, nil
}

func (s *c10MemStore) Del(key []byte) error {
	s.mu.Lock()
	defer s.mu.Unlock()
	delete(s.m, string(key))

	return nil
}

type c10HSVariant struct {
	name     string
	suite    CipherSuiteID
	auth     ClientAuthType
	cliCert  string // "" | lab | selfsigned (ECDSA P-256)
	noEMS    bool
	noHVR    bool
	mtu      int
	resume   bool // run the handshake twice with session stores; the second one is observed
	noHint   bool // the server has a PSK callback but no identity hint (legal)
	dropOnce bool // lose the first datagram of the server's certificate flight once (retransmission)
}

var c10PSK = []byte{0xAB, 0xC1, 0x23} //nolint:gochecknoglobals // the lab's PSK (vPSKPair)

func c10HSVariants() []c10HSVariant {
	ecdsa128 := TLS_ECDHE_ECDSA_WITH_AES_128_GCM_SHA256
	vs := []c10HSVariant{
		{name: "cert/no-client-auth", suite: ecdsa128, auth: NoClientCert},
		{name: "cert/RequireAnyClientCert", suite: ecdsa128, auth: RequireAnyClientCert, cliCert: "lab"},
		{name: "cert/RequestClientCert", suite: ecdsa128, auth: RequestClientCert, cliCert: "lab"},
		{name: "cert/RequestClientCert/client-has-no-certificate", suite: ecdsa128, auth: RequestClientCert},
		{name: "cert/RequireAndVerifyClientCert/sha384", suite: TLS_ECDHE_ECDSA_WITH_AES_256_GCM_SHA384,
			auth: RequireAndVerifyClientCert, cliCert: "lab"},
		{name: "cert/RequireAnyClientCert/no-ems", suite: ecdsa128, auth: RequireAnyClientCert, cliCert: "lab", noEMS: true},
		{name: "cert/no-client-auth/no-ems", suite: ecdsa128, auth: NoClientCert, noEMS: true},
		{name: "cert/RequireAnyClientCert/ecdsa-client-key/cbc", suite: TLS_ECDHE_ECDSA_WITH_AES_256_CBC_SHA,
			auth: RequireAnyClientCert, cliCert: "selfsigned"},
		{name: "cert/RequireAnyClientCert/chacha/no-hello-verify", suite: TLS_ECDHE_ECDSA_WITH_CHACHA20_POLY1305_SHA256,
			auth: RequireAnyClientCert, cliCert: "lab", noHVR: true},
		{name: "cert/RequireAnyClientCert/fragmented-mtu-200", suite: ecdsa128, auth: RequireAnyClientCert, cliCert: "lab",
			mtu: 200},
		{name: "cert/RequireAnyClientCert/server-flight-lost-once", suite: ecdsa128, auth: RequireAnyClientCert,
			cliCert: "lab", dropOnce: true},
		{name: "cert/no-client-auth/resumed", suite: ecdsa128, auth: NoClientCert, resume: true},
		{name: "psk/gcm", suite: TLS_PSK_WITH_AES_128_GCM_SHA256},
		{name: "psk/gcm/no-ems", suite: TLS_PSK_WITH_AES_128_GCM_SHA256, noEMS: true},
		{name: "psk/cbc-sha256", suite: TLS_PSK_WITH_AES_128_CBC_SHA256},
		{name: "psk/chacha/no-ems", suite: TLS_PSK_WITH_CHACHA20_POLY1305_SHA256, noEMS: true},
		{name: "ecdhe-psk/cbc-sha256", suite: TLS_ECDHE_PSK_WITH_AES_128_CBC_SHA256},
		{name: "ecdhe-psk/cbc-sha256/no-server-hint", suite: TLS_ECDHE_PSK_WITH_AES_128_CBC_SHA256, noHint: true},
		{name: "psk/gcm/no-server-hint", suite: TLS_PSK_WITH_AES_128_GCM_SHA256, noHint: true},
	}

	return vs
}

var (
	c10SelfOnce sync.Once       //nolint:gochecknoglobals
	c10SelfCert tls.Certificate //nolint:gochecknoglobals
)

func c10Configs(t *testing.T, v c10HSVariant) (*dtlsConfig, *dtlsConfig) {
	t.Helper()
	var ccfg, scfg *dtlsConfig
	if p, ok := c10SuiteTable[uint16(v.suite)]; ok && (p.psk || strings.Contains(p.name, "_PSK_")) {
		ccfg, scfg = vPSKPair(v.suite)
	} else {
		ccfg, scfg = vCertPair()
		ccfg.CipherSuites = []CipherSuiteID{v.suite}
		scfg.CipherSuites = []CipherSuiteID{v.suite}
		scfg.ClientAuth = v.auth
		if v.auth == RequireAndVerifyClientCert {
			scfg.ClientCAs = vGetCreds().Pool
		}
		switch v.cliCert {
		case "lab":
			ccfg.Certificates = []tls.Certificate{vGetCreds().Client}
		case "selfsigned":
			c10SelfOnce.Do(func() {
				var err error
				if c10SelfCert, err = selfsign.GenerateSelfSigned(); err != nil {
					t.Fatal(err)
				}
			})
			ccfg.Certificates = []tls.Certificate{c10SelfCert}
		}
	}
	ccfg.MaxVersion, scfg.MaxVersion = protocol.Version1_2, protocol.Version1_2
	if v.noHint {
		scfg.PSKIdentityHint = nil
	}
	if v.noEMS {
		ccfg.ExtendedMasterSecret, scfg.ExtendedMasterSecret = DisableExtendedMasterSecret, DisableExtendedMasterSecret
	}
	if v.noHVR {
		scfg.InsecureSkipVerifyHello = true
	}
	if v.mtu > 0 {
		ccfg.MTU, scfg.MTU = v.mtu, v.mtu
	}

	return ccfg, scfg
}

// c10KeyLogLookup: the line `label <random> <secret>` a passive decoder finds under the ClientHello.random
// it saw on the wire; when there is none, the last line with that label (for the report).
func c10KeyLogLookup(log, label string, wireCR []byte) (lineCR, secret []byte, found bool) {
	for _, line := range strings.Split(log, "\n") {
		f := strings.Fields(line)
		if len(f) != 3 || f[0] != label {
			continue
		}
		r, _ := hex.DecodeString(f[1])
		sec, _ := hex.DecodeString(f[2])
		if bytes.Equal(r, wireCR) {
			return r, sec, true
		}
		lineCR, secret = r, sec
	}

	return lineCR, secret, false
}

// c10EmitKeyLog: function code 18 - the claim "this side's key log has a usable line for `label`".
func c10EmitKeyLog(out *vOut, info c10HSInfo, side, label, log string, wireCR, secret []byte) {
	lcr, lsec, _ := c10KeyLogLookup(log, label, wireCR)
	c := c10HSCase{HS: info}
	c.HS.Side, c.HS.Check, c.HS.Label, c.HS.KeyLog = side, "keylog", label, log
	if len(c.HS.KeyLog) > 600 {
		c.HS.KeyLog = c.HS.KeyLog[:600] + "..."
	}
	c.Fn, c.H, c.Site = 18, 256, c10SiteKeyLog
	c.Tag = "live handshake: key log line under ClientHello.random"
	c.In, c.N, c.Out = []string{vHex(wireCR), vHex(lcr), vHex(lsec), vHex(secret)}, []uint64{}, []string{"01"}
	out.emit(c)
}

func c10FindLast(msgs []*c10WireMsg, from string, typ int) int {
	idx := -1
	for i, m := range msgs {
		if m.From == from && m.Typ == typ && m.Epoch == 0 {
			idx = i
		}
	}

	return idx
}

// TestVerifC10Handshake12: see the file comment.
func TestVerifC10Handshake12(t *testing.T) {
	out := newVOut(t)
	reps := 1
	if vIsThorough() {
		reps = 12
	}
	for rep := 0; rep < reps; rep++ {
		for _, v := range c10HSVariants() {
			vBubble(t, func(t *testing.T) {
				c10RunHandshake(t, out, v)
			})
		}
	}
}

func c10RunHandshake(t *testing.T, out *vOut, v c10HSVariant) { //nolint:cyclop,gocyclo,maintidx
	t.Helper()
	ccfg, scfg := c10Configs(t, v)
	klog, sklog := &c10KeyLog{}, &c10KeyLog{}
	ccfg.KeyLogWriter, scfg.KeyLogWriter = klog, sklog
	if v.resume {
		ccfg.sessionStore = &c10MemStore{m: map[string]Session{}}
		scfg.sessionStore = &c10MemStore{m: map[string]Session{}}
		first := c10Establish(t, ccfg, scfg)
		first.close()
		klog, sklog = &c10KeyLog{}, &c10KeyLog{}
		ccfg.KeyLogWriter, scfg.KeyLogWriter = klog, sklog
	}
	lab := newLab(t, ccfg, scfg)
	if v.dropOnce {
		dropped := false
		lab.Pump.Policy = func(d vDatagram) (vAction, int) {
			if !dropped && d.From == "server" && len(d.Data) > 25 && d.Data[0] == 22 && d.Data[13] == 2 {
				dropped = true

				return vDrop, 0
			}

			return vPass, 0
		}
	}
	lab.Pump.run(lab.bothDone, 200*time.Second)
	if !lab.established() {
		t.Fatalf("%s: handshake failed: client=%v server=%v", v.name, lab.Client.Err, lab.Server.Err)
	}
	defer lab.close()

	msgs := c10WireMessages(t, lab.Net.since(0))
	for _, m := range msgs {
		if m.Epoch == 0 && !m.complete() {
			t.Fatalf("%s: %s not completely captured", v.name, c10MsgName(m))
		}
	}
	chIdx, shIdx := c10FindLast(msgs, "client", 1), c10FindLast(msgs, "server", 2)
	if chIdx < 0 || shIdx < 0 || len(msgs[chIdx].Body) < 34 {
		t.Fatalf("%s: no ClientHello / ServerHello on the wire", v.name)
	}
	cr := msgs[chIdx].Body[2:34]
	sr, _, suiteID, ems, ok := c10ParseServerHello(msgs[shIdx].Body)
	if !ok {
		t.Fatalf("%s: unparsable ServerHello", v.name)
	}
	// the master secret a decoder gets from either key log under the ClientHello.random of the wire (when
	// neither log has such a line the client's own state is used so that the other checks still run; the
	// key log cases below then fail)
	_, ms, okc := c10KeyLogLookup(klog.String(), "CLIENT_RANDOM", cr)
	if !okc {
		var oks bool
		if _, ms, oks = c10KeyLogLookup(sklog.String(), "CLIENT_RANDOM", cr); !oks {
			cst, _ := lab.Client.Conn.ConnectionState()
			ms = bytes.Clone(cst.masterSecret)
		}
	}
	if len(ms) != 48 {
		t.Fatalf("%s: no master secret", v.name)
	}
	sp, known := c10SuiteTable[suiteID]
	if !known {
		t.Fatalf("%s: negotiated suite 0x%04x has no decoder", v.name, suiteID)
	}
	ckeIdx := c10FindLast(msgs, "client", 16)
	info := c10HSInfo{
		Variant: v.name, Suite: sp.name, EMS: ems, Resumed: ckeIdx < 0,
		CertReq: c10FindLast(msgs, "server", 13) >= 0,
	}
	if v.resume != info.Resumed {
		t.Fatalf("%s: resumed=%v, expected %v", v.name, info.Resumed, v.resume)
	}
	if v.auth != NoClientCert && !strings.Contains(sp.name, "_PSK_") && !info.CertReq {
		t.Fatalf("%s: no CertificateRequest on the wire", v.name)
	}

	info.Version = "DTLS 1.2"
	// (the records below are opened with `ms`, so `ms` is the secret a usable line must carry)
	c10EmitKeyLog(out, info, "client", "CLIENT_RANDOM", klog.String(), cr, ms)
	c10EmitKeyLog(out, info, "server", "CLIENT_RANDOM", sklog.String(), cr, ms)

	// PSK / ECDHE_PSK ServerKeyExchange (RFC 4279 2, RFC 5489 2): hint<0..2^16-1> [|| ServerECDHParams]
	if skeIdx := c10FindLast(msgs, "server", 12); skeIdx >= 0 && strings.Contains(sp.name, "_PSK_") {
		body := msgs[skeIdx].Body
		si := info
		si.Side, si.Check, si.Hint, si.KeyExch = "server", "server_key_exchange", "present", "PSK"
		if scfg.PSKIdentityHint == nil {
			si.Hint = "absent"
		}
		c := c10HSCase{HS: si}
		c.Fn, c.H, c.Site = 16, sp.hcode, c10SiteSKE
		c.Tag = "live handshake: PSK ServerKeyExchange encoding"
		c.In, c.N, c.Out = []string{vHex(scfg.PSKIdentityHint)}, []uint64{}, []string{vHex(body)}
		if strings.Contains(sp.name, "ECDHE_PSK") {
			c.HS.KeyExch = "ECDHE_PSK"
			// ServerECDHParams is the tail of the message: 03 | named_curve(2) | len(1) | point
			var curve uint64
			var pub []byte
			for _, pl := range []int{32, 65, 97, 133} {
				if n := len(body); n >= pl+4 && body[n-pl-4] == 3 && int(body[n-pl-1]) == pl {
					curve, pub = uint64(binary.BigEndian.Uint16(body[n-pl-3:])), body[n-pl:]
				}
			}
			if pub == nil {
				t.Fatalf("%s: no ServerECDHParams at the end of the ServerKeyExchange %x", v.name, body)
			}
			c.In, c.N = append(c.In, vHex(pub)), []uint64{curve}
		}
		out.emit(c)
	}

	// the two Finished: open the records, check the shape, then hand everything that preceded each on
	// the wire to the model
	nfin := 0
	for i, m := range msgs {
		if m.Epoch != 1 {
			continue
		}
		pt, err := c10OpenRecord(sp, ms, cr, sr, m.Record, m.From == "client")
		if err != nil {
			t.Fatalf("%s: the key-log decoder cannot open the %s Finished record: %v", v.name, m.From, err)
		}
		if len(pt) != 24 || pt[0] != 20 || c10u24(pt[1:4]) != 12 || c10u24(pt[6:9]) != 0 || c10u24(pt[9:12]) != 12 {
			t.Fatalf("%s: first epoch-1 handshake record of the %s is not an unfragmented Finished: %x", v.name, m.From, pt)
		}
		m.Seq = int(binary.BigEndian.Uint16(pt[4:6]))
		m.Body = bytes.Clone(pt[12:])
		fi := info
		fi.Side, fi.Check = m.From, "finished"
		fn := 13
		if m.From == "server" {
			fn = 14
		}
		c10EmitHS(out, fn, sp.hcode, "live handshake: "+m.From+" Finished verify_data over the wire-order transcript",
			ms, msgs[:i], m.Body, fi)
		nfin++
	}
	if nfin != 2 {
		t.Fatalf("%s: %d Finished records captured, want 2", v.name, nfin)
	}

	// CertificateVerify: signed over everything before it on the wire (RFC 5246 7.4.8)
	if cvIdx := c10FindLast(msgs, "client", 15); cvIdx >= 0 {
		certIdx := c10FindLast(msgs, "client", 11)
		if certIdx < 0 {
			t.Fatalf("%s: CertificateVerify without a client Certificate", v.name)
		}
		var transcript []byte
		for _, m := range c10Counted(msgs[:cvIdx]) {
			transcript = append(transcript, c10Unfragmented(m)...)
		}
		alg, good, err := c10VerifyCV(msgs[certIdx].Body, msgs[cvIdx].Body, transcript)
		ci := info
		ci.Side, ci.Check, ci.CVOk, ci.CVAlg = "client", "certificate_verify", &good, alg
		if err != nil {
			ci.CVErr = err.Error()
		}
		c10EmitHS(out, 15, sp.hcode, "live handshake: CertificateVerify input (wire-order handshake_messages)",
			nil, msgs[:cvIdx], transcript, ci)
	} else if v.cliCert != "" {
		t.Fatalf("%s: the client has a certificate and was asked for it but sent no CertificateVerify", v.name)
	}

	// master secret from the pre-master secret: RFC 7627 session hash in wire order / RFC 5246 8.1
	if ckeIdx >= 0 {
		var pms []byte
		how := "client State12.PreMasterSecret"
		if sp.psk {
			// RFC 4279: uint16 N, N zero octets, uint16 N, PSK
			n := len(c10PSK)
			pms = append(pms, byte(n>>8), byte(n))
			pms = append(pms, make([]byte, n)...)
			pms = append(pms, byte(n>>8), byte(n))
			pms = append(pms, c10PSK...)
			how = "RFC 4279 premaster built from the PSK"
		} else if st, isSt := lab.Client.Conn.state.(*dtlsstate.State12); isSt {
			pms = bytes.Clone(st.PreMasterSecret)
		}
		if len(pms) > 0 {
			mi := info
			mi.Side, mi.Check = "client", "master_secret ("+how+")"
			if ems {
				c10EmitHS(out, 17, sp.hcode, "live handshake: extended master secret over the wire-order session hash",
					pms, msgs[:ckeIdx+1], ms, mi)
			} else {
				c := c10HSCase{HS: mi}
				c.Fn, c.H, c.Tag, c.Site = 2, sp.hcode, "live handshake: master secret", c10SiteHS
				c.In, c.N, c.Out = []string{vHex(pms), vHex(cr), vHex(sr)}, []uint64{}, []string{vHex(ms)}
				out.emit(c)
			}
		}
	}
}

// ---------------------------------------------------------------- DTLS 1.3

// TestVerifC10Handshake13: DTLS 1.3 handshakes with ECDSA server keys on different curves and a
// KeyLogWriter on both sides.
//
//	fn 64  n = NamedGroup of the server's certificate key, out = SignatureScheme of the server's
//	       CertificateVerify as the client received and accepted it (RFC 8446 4.2.3: the scheme names the curve)
//	fn 18  per side and NSS label: the key log has a line `label <ClientHello.random> <secret>` with the
//	       secret of the connection (secrets read from the client's key schedule, in-package)
func TestVerifC10Handshake13(t *testing.T) {
	out := newVOut(t)
	type v13 struct {
		name  string
		curve stdelliptic.Curve
		group uint64
	}
	for _, v := range []v13{
		{"dtls13/ecdsa-secp256r1-server-key", stdelliptic.P256(), 23},
		{"dtls13/ecdsa-secp384r1-server-key", stdelliptic.P384(), 24},
	} {
		vBubble(t, func(t *testing.T) {
			key, err := ecdsa.GenerateKey(v.curve, rand.Reader)
			if err != nil {
				t.Fatal(err)
			}
			cert, err := selfsign.SelfSign(key)
			if err != nil {
				t.Fatal(err)
			}
			ccfg, scfg := vCertPair()
			ccfg.InsecureSkipVerify = true
			scfg.Certificates = []tls.Certificate{cert}
			ccfg.MinVersion, ccfg.MaxVersion = protocol.Version1_3, protocol.Version1_3
			scfg.MinVersion, scfg.MaxVersion = protocol.Version1_3, protocol.Version1_3
			klog, sklog := &c10KeyLog{}, &c10KeyLog{}
			ccfg.KeyLogWriter, scfg.KeyLogWriter = klog, sklog
			lab := c10Establish(t, ccfg, scfg)
			defer lab.close()
			lab.Server.startReader()
			if _, err := lab.Client.Conn.Write([]byte("application data")); err != nil {
				t.Fatal(err)
			}
			lab.Pump.step()

			msgs := c10WireMessages(t, lab.Net.since(0))
			chIdx := c10FindLast(msgs, "client", 1)
			if chIdx < 0 || len(msgs[chIdx].Body) < 34 || !msgs[chIdx].complete() {
				t.Fatalf("%s: no ClientHello on the wire", v.name)
			}
			cr := msgs[chIdx].Body[2:34]
			st13, ok := lab.Client.Conn.state.(*dtlsstate.State13)
			if !ok {
				t.Fatalf("%s: client state is %T", v.name, lab.Client.Conn.state)
			}
			info := c10HSInfo{Variant: v.name, Suite: st13.CipherSuite.String(), Version: "DTLS 1.3"}

			items := lab.Client.Conn.handshakeCache.Pull(dtlsflight.HandshakeCachePullRule{
				Typ: handshake.TypeCertificateVerify, Epoch: 2, IsClient: false,
			})
			if len(items) != 1 || items[0] == nil || len(items[0].Data) < 16 {
				t.Fatalf("%s: the client did not retain the server's CertificateVerify", v.name)
			}
			scheme := items[0].Data[12:14]
			ci := info
			ci.Side, ci.Check = "server", "certificate_verify scheme"
			ci.Key, ci.Scheme = v.curve.Params().Name, fmt.Sprintf("0x%04x", binary.BigEndian.Uint16(scheme))
			c := c10HSCase{HS: ci}
			c.Fn, c.H, c.Site = 64, 256, c10SiteCV13
			c.Tag = "live handshake: DTLS 1.3 CertificateVerify SignatureScheme for the key's curve"
			c.In, c.N, c.Out = []string{}, []uint64{v.group}, []string{vHex(scheme)}
			out.emit(c)

			ks := st13.KeySchedule
			for _, l := range []struct {
				label  string
				secret []byte
			}{
				{"CLIENT_HANDSHAKE_TRAFFIC_SECRET", ks.HandshakeTraffic.Client},
				{"SERVER_HANDSHAKE_TRAFFIC_SECRET", ks.HandshakeTraffic.Server},
				{"CLIENT_TRAFFIC_SECRET_0", ks.ClientApplicationTrafficSecret0},
				{"SERVER_TRAFFIC_SECRET_0", ks.ServerApplicationTrafficSecret0},
				{"EXPORTER_SECRET", ks.ExporterMasterSecret},
			} {
				if len(l.secret) == 0 {
					t.Fatalf("%s: the client's key schedule has no %s", v.name, l.label)
				}
				c10EmitKeyLog(out, info, "client", l.label, klog.String(), cr, l.secret)
				c10EmitKeyLog(out, info, "server", l.label, sklog.String(), cr, l.secret)
			}
		})
	}
}
