//go:build verif

// C10 leg `keyupdate13`: DTLS 1.3 key-update chains seen by a passive decoder.
//
// A live DTLS 1.3 connection is re-keyed several times in BOTH directions (Conn.UpdateKeys, with and
// without update_requested), application data is written under every generation, every datagram is
// captured. The decoder holds only the key log of the client (CLIENT_TRAFFIC_SECRET_0 /
// SERVER_TRAFFIC_SECRET_0 found under the ClientHello.random read from the wire) and derives
// application_traffic_secret_n by iterating HKDF-Expand-Label(., "traffic upd", "", Hash.length) with its own
// HKDF (stdlib hmac); key / iv / sn of generation n open the records of epoch 3+n (stdlib AES-GCM,
// x/crypto ChaCha20-Poly1305, own sequence-number unmasking). Nothing of the library's key schedule or
// record protection is used by the decoder.
//
//	fn 57  in = secret 0 from the key log, n = suite, g; out = secret / key / iv / sn under which the records
//	       of epoch 3+g captured from that direction open ([] when they open under none of the generations
//	       0..updates+1); the model recomputes them as generation_keys (traffic_secret_n) in Coq
//	fn 58  in = secret 0, n = g; out = TrafficGeneration.Secret the writer (resp. reader) keeps for generation g
//	       - the value the NEXT update will be derived from
package dtls

import (
	"bytes"
	"context"
	"crypto/aes"
	"crypto/cipher"
	"crypto/hmac"
	"crypto/sha256"
	"crypto/sha512"
	"encoding/binary"
	"fmt"
	"hash"
	"testing"
	"time"

	dtlsstate "github.com/pion/dtls/v3/internal/state"
	"github.com/pion/dtls/v3/pkg/protocol"
	"golang.org/x/crypto/chacha20"
	"golang.org/x/crypto/chacha20poly1305"
)

const c10SiteKU = "internal/handshake/post_handshake.go nextTrafficGeneration (DTLS 1.3 key update: " +
	"application_traffic_secret_N chain and the record keys of every epoch)"

type c10KUInfo struct {
	Variant   string `json:"variant"`
	Suite     string `json:"suite"`
	Dir       string `json:"direction"` // who wrote the records
	Gen       int    `json:"generation"`
	Epoch     int    `json:"epoch"`
	Updates   int    `json:"updates"`             // key updates performed per direction in this run
	Script    string `json:"script"`              // the calls made, in order
	Check     string `json:"check"`               // "records" (fn 57), "writer secret" / "reader secret" (fn 58)
	Records   int    `json:"records"`             // records of that epoch captured from that direction
	Opened    int    `json:"opened"`              // ... that opened under generation g derived from the key log
	Bad       bool   `json:"bad"`                 // at least one did not
	OpenedGen int    `json:"opened_under"`        // generation whose keys do open the failing record (-1: none)
	Record    string `json:"record,omitempty"`    // first failing record (else the first record), as captured
	Dgram     int    `json:"datagram"`            // its datagram index
	Seq       uint64 `json:"seq"`                 // its record sequence number (unmasked with the keys that open it)
	Inner     string `json:"plaintext,omitempty"` // what it carries once opened
	Delivered bool   `json:"delivered_to_peer"`   // the peer's Read returned the application data of that epoch
	Secret0   string `json:"secret_0"`            // application_traffic_secret_0 of the direction
	S0Source  string `json:"secret_0_source"`
	RefKeys   string `json:"reference,omitempty"` // reference secret/key/iv/sn of generation g (decoder's own HKDF)
}

type c10KUCase struct {
	c10RootCase
	KU c10KUInfo `json:"ku"`
}

// ---- the decoder's own HKDF (RFC 5869 / RFC 8446 7.1 with the "dtls13" prefix of RFC 9147 5.9)

func c10kuExpandLabel(h func() hash.Hash, secret []byte, label string, length int) []byte {
	full := "dtls13" + label
	info := []byte{byte(length >> 8), byte(length), byte(len(full))}
	info = append(info, full...)
	info = append(info, 0)
	var out, block []byte
	for ctr := byte(1); len(out) < length; ctr++ {
		m := hmac.New(h, secret)
		m.Write(block)
		m.Write(info)
		m.Write([]byte{ctr})
		block = m.Sum(nil)
		out = append(out, block...)
	}

	return out[:length]
}

type c10kuSuite struct {
	id     CipherSuiteID
	name   string
	h      func() hash.Hash
	hcode  int
	keyLen int
	chacha bool
}

func c10kuSuites() []c10kuSuite {
	return []c10kuSuite{
		{TLS_AES_128_GCM_SHA256, "TLS_AES_128_GCM_SHA256", sha256.New, 256, 16, false},
		{TLS_AES_256_GCM_SHA384, "TLS_AES_256_GCM_SHA384", sha512.New384, 384, 32, false},
		{TLS_CHACHA20_POLY1305_SHA256, "TLS_CHACHA20_POLY1305_SHA256", sha256.New, 256, 32, true},
	}
}

type c10kuKeys struct{ secret, key, iv, sn []byte }

// c10kuGeneration: application_traffic_secret_g and its record keys from secret 0.
func c10kuGeneration(s c10kuSuite, secret0 []byte, g int) c10kuKeys {
	sec := bytes.Clone(secret0)
	for i := 0; i < g; i++ {
		sec = c10kuExpandLabel(s.h, sec, "traffic upd", s.h().Size())
	}

	return c10kuKeys{
		secret: sec,
		key:    c10kuExpandLabel(s.h, sec, "key", s.keyLen),
		iv:     c10kuExpandLabel(s.h, sec, "iv", 12),
		sn:     c10kuExpandLabel(s.h, sec, "sn", s.keyLen),
	}
}

// c10kuRecord: one DTLSCiphertext as captured (unified header, no connection ID).
type c10kuRecord struct {
	from  string
	dgram int
	raw   []byte
	hdr   int // header length
	bits  int // low two epoch bits
}

// c10kuRecords splits the datagrams into unified-header records; plaintext (epoch 0) records are skipped.
func c10kuRecords(dgs []vDatagram) []c10kuRecord {
	var recs []c10kuRecord
	for _, d := range dgs {
		b := d.Data
		for len(b) > 0 {
			if b[0]&0xe0 != 0x20 {
				if len(b) < 13 {
					break
				}
				n := 13 + int(binary.BigEndian.Uint16(b[11:13]))
				if n > len(b) {
					break
				}
				b = b[n:]

				continue
			}
			if b[0]&0x10 != 0 { // connection IDs are not negotiated by this leg
				break
			}
			hdr := 1
			if b[0]&0x08 != 0 {
				hdr += 2
			} else {
				hdr++
			}
			n := len(b)
			if b[0]&0x04 != 0 {
				if len(b) < hdr+2 {
					break
				}
				n = hdr + 2 + int(binary.BigEndian.Uint16(b[hdr:hdr+2]))
				hdr += 2
			}
			if n > len(b) || n < hdr+16 {
				break
			}
			recs = append(recs, c10kuRecord{from: d.From, dgram: d.Idx, raw: bytes.Clone(b[:n]), hdr: hdr, bits: int(b[0] & 3)})
			b = b[n:]
		}
	}

	return recs
}

// c10kuOpen: RFC 9147 4.2.3 (sequence number unmasking) and 4 / RFC 8446 5.2-5.3 (AEAD, nonce = iv xor seq,
// additional data = the header with the clear sequence number). Records per epoch stay far below 2^8 resp.
// 2^16 here, so the wire bits are the whole sequence number.
func c10kuOpen(s c10kuSuite, k c10kuKeys, r c10kuRecord) (content []byte, ctype byte, seq uint64, ok bool) {
	ct := r.raw[r.hdr:]
	mask := make([]byte, 16)
	var aead cipher.AEAD
	if s.chacha {
		c, err := chacha20.NewUnauthenticatedCipher(k.sn, ct[4:16])
		if err != nil {
			return nil, 0, 0, false
		}
		c.SetCounter(binary.LittleEndian.Uint32(ct[:4]))
		c.XORKeyStream(mask, mask)
		aead, _ = chacha20poly1305.New(k.key)
	} else {
		sb, err := aes.NewCipher(k.sn)
		if err != nil {
			return nil, 0, 0, false
		}
		sb.Encrypt(mask, ct[:16])
		blk, _ := aes.NewCipher(k.key)
		aead, _ = cipher.NewGCM(blk)
	}
	aad := bytes.Clone(r.raw[:r.hdr])
	if r.raw[0]&0x08 != 0 {
		aad[1] ^= mask[0]
		aad[2] ^= mask[1]
		seq = uint64(binary.BigEndian.Uint16(aad[1:3]))
	} else {
		aad[1] ^= mask[0]
		seq = uint64(aad[1])
	}
	nonce := bytes.Clone(k.iv)
	for i := 0; i < 8; i++ {
		nonce[4+i] ^= byte(seq >> (56 - 8*i))
	}
	inner, err := aead.Open(nil, nonce, ct, aad)
	if err != nil {
		return nil, 0, seq, false
	}
	end := len(inner)
	for end > 0 && inner[end-1] == 0 {
		end--
	}
	if end == 0 {
		return nil, 0, seq, false
	}

	return inner[:end-1], inner[end-1], seq, true
}

// ---- the run

type c10kuRun struct {
	t      *testing.T
	lab    *vLab
	suite  c10kuSuite
	script []string
	gen    map[string]int // write generation per side, counted by the harness from the calls that returned
	mark   int
	// per direction and generation: what the decoder saw
	seen  map[string]map[int]*c10KUInfo
	s0    map[string][]byte
	max   int
	s0src string
	// payload written under (dir, gen) and whether the peer delivered it
	delivered map[string]map[int]bool
}

func (r *c10kuRun) other(side string) string {
	if side == "client" {
		return "server"
	}

	return "client"
}

func (r *c10kuRun) writeGen(side string) int {
	st, ok := r.lab.peer(side).Conn.state.(*dtlsstate.State13)
	if !ok || st.TrafficKeys == nil {
		return -1
	}
	g, ok := st.TrafficKeys.CurrentWrite()
	if !ok {
		return -1
	}

	return int(g.Generation) //nolint:gosec
}

// update: side calls UpdateKeys; returns once the call returned (and, with update_requested, once the peer
// has moved its own write generation on as well).
func (r *c10kuRun) update(side string, request bool) {
	r.t.Helper()
	conn := r.lab.peer(side).Conn
	done := make(chan error, 1)
	go func() { done <- conn.UpdateKeys(context.Background(), KeyUpdateOptions{RequestPeerUpdate: request}) }()
	var err error
	returned := false
	peer := r.other(side)
	wantPeer := r.gen[peer]
	if request {
		wantPeer++
	}
	ok := r.lab.Pump.run(func() bool {
		if !returned {
			select {
			case err = <-done:
				returned = true
			default:
				return false
			}
		}

		return err != nil || !request || r.writeGen(peer) >= wantPeer
	}, 120*time.Second)
	if !ok || err != nil {
		r.t.Fatalf("%s: UpdateKeys(request=%v) by the %s did not complete: returned=%v err=%v [%v]",
			r.suite.name, request, side, returned, err, r.script)
	}
	r.gen[side]++
	r.script = append(r.script, fmt.Sprintf("%s.UpdateKeys(request=%v)", side, request))
	if request {
		r.gen[peer]++
	}
	r.decode()
}

// write: side writes one application record under its current generation; the peer must deliver it.
func (r *c10kuRun) write(side string) {
	r.t.Helper()
	g := r.gen[side]
	payload := []byte(fmt.Sprintf("c10 key update leg: %s application data, generation %d", side, g))
	if _, err := r.lab.peer(side).Conn.Write(payload); err != nil {
		r.t.Fatalf("%s: Write by the %s under generation %d: %v", r.suite.name, side, g, err)
	}
	peer := r.lab.peer(r.other(side))
	got := r.lab.Pump.run(func() bool {
		for _, p := range peer.reads() {
			if bytes.Equal(p, payload) {
				return true
			}
		}

		return false
	}, 30*time.Second)
	if r.delivered[side] == nil {
		r.delivered[side] = map[int]bool{}
	}
	r.delivered[side][g] = got
	r.script = append(r.script, fmt.Sprintf("%s.Write", side))
	r.decode()
}

// decode: the passive decoder on everything captured since the last call.
func (r *c10kuRun) decode() {
	dgs := r.lab.Net.since(r.mark)
	if len(dgs) == 0 {
		return
	}
	r.mark = dgs[len(dgs)-1].Idx + 1
	for _, rec := range c10kuRecords(dgs) {
		cur := r.gen[rec.from]
		// the generation a decoder expects: the latest one of the sender whose epoch has these low bits
		exp := -1
		for g := cur; g >= 0; g-- {
			if (3+g)&3 == rec.bits {
				exp = g

				break
			}
		}
		if exp < 0 {
			continue // epoch 2 (handshake traffic keys): not an application generation
		}
		if r.seen[rec.from] == nil {
			r.seen[rec.from] = map[int]*c10KUInfo{}
		}
		info := r.seen[rec.from][exp]
		if info == nil {
			info = &c10KUInfo{Gen: exp, Epoch: 3 + exp, Dir: rec.from, OpenedGen: exp, Dgram: -1}
			r.seen[rec.from][exp] = info
		}
		info.Records++
		content, ctype, seq, ok := c10kuOpen(r.suite, c10kuGeneration(r.suite, r.s0[rec.from], exp), rec)
		if ok {
			info.Opened++
			if info.Dgram < 0 {
				info.Record, info.Dgram, info.Seq = vHex(rec.raw), rec.dgram, seq
				info.Inner = fmt.Sprintf("content type %d: %s", ctype, vHex(content))
			}

			continue
		}
		if info.Bad {
			continue
		}
		info.Bad, info.OpenedGen = true, -1
		info.Record, info.Dgram, info.Seq, info.Inner = vHex(rec.raw), rec.dgram, 0, ""
		for g := 0; g <= r.max+1; g++ {
			if c, ct, s, ok := c10kuOpen(r.suite, c10kuGeneration(r.suite, r.s0[rec.from], g), rec); ok {
				info.OpenedGen, info.Seq = g, s
				info.Inner = fmt.Sprintf("content type %d: %s", ct, vHex(c))

				break
			}
		}
	}
}

func c10kuRunOne(t *testing.T, out *vOut, s c10kuSuite, pattern string, updates int) {
	t.Helper()
	variant := fmt.Sprintf("dtls13/keyupdate/%s/%s/%d", s.name, pattern, updates)
	ccfg, scfg := vCertPair()
	for _, c := range []*dtlsConfig{ccfg, scfg} {
		c.MinVersion, c.MaxVersion = protocol.Version1_3, protocol.Version1_3
		c.CipherSuites = []CipherSuiteID{s.id}
	}
	klog := &c10KeyLog{}
	ccfg.KeyLogWriter = klog
	lab := c10Establish(t, ccfg, scfg)
	defer lab.close()
	lab.Client.startReader()
	lab.Server.startReader()
	lab.Pump.step()

	msgs := c10WireMessages(t, lab.Net.since(0))
	chIdx := c10FindLast(msgs, "client", 1)
	if chIdx < 0 || len(msgs[chIdx].Body) < 34 || !msgs[chIdx].complete() {
		t.Fatalf("%s: no ClientHello on the wire", variant)
	}
	cr := msgs[chIdx].Body[2:34]
	run := &c10kuRun{
		t: t, lab: lab, suite: s, gen: map[string]int{"client": 0, "server": 0}, max: updates,
		seen: map[string]map[int]*c10KUInfo{}, s0: map[string][]byte{}, delivered: map[string]map[int]bool{},
	}
	// secret 0 of each direction: the key log line when there is one (DTLS 1.3 key logging is a known gap of
	// /repo, reported by leg handshake13), else the application_traffic_secret_0 of the client's key schedule
	// as it stood when the handshake completed (checked against the RFC schedule by leg schedule13)
	cst, _ := lab.Client.Conn.state.(*dtlsstate.State13)
	if cst == nil {
		t.Fatalf("%s: client state is %T", variant, lab.Client.Conn.state)
	}
	for side, label := range map[string]string{"client": "CLIENT_TRAFFIC_SECRET_0", "server": "SERVER_TRAFFIC_SECRET_0"} {
		_, sec, ok := c10KeyLogLookup(klog.String(), label, cr)
		run.s0src = "key log of the client"
		if !ok || len(sec) != s.h().Size() {
			run.s0src = "State13.KeySchedule of the client at the end of the handshake (nothing is key-logged)"
			sec = bytes.Clone(cst.KeySchedule.ClientApplicationTrafficSecret0)
			if side == "server" {
				sec = bytes.Clone(cst.KeySchedule.ServerApplicationTrafficSecret0)
			}
		}
		if len(sec) != s.h().Size() {
			t.Fatalf("%s: no application_traffic_secret_0 for the %s direction", variant, side)
		}
		run.s0[side] = sec
	}
	run.mark = 0
	run.decode() // epoch-3 records of the establishment (ACK, NewSessionTicket)

	run.write("client")
	run.write("server")
	for k := 1; k <= updates; k++ {
		switch pattern {
		case "alternate": // each side re-keys its own direction in turn
			run.update("client", false)
			run.write("client")
			run.update("server", false)
			run.write("server")
		case "requested": // one call re-keys both directions (update_requested), callers alternate
			side := "client"
			if k%2 == 0 {
				side = "server"
			}
			run.update(side, true)
			run.write("client")
			run.write("server")
		default: // "burst": all updates of one direction first, then all of the other
			run.update("client", false)
			run.write("client")
		}
	}
	if pattern == "burst" {
		run.write("server")
		for k := 1; k <= updates; k++ {
			run.update("server", false)
			run.write("server")
			if k == updates/2 {
				run.write("client")
			}
		}
	}

	script := fmt.Sprint(run.script)
	if len(script) > 1500 {
		script = script[:1500] + "..."
	}
	for _, side := range []string{"client", "server"} {
		for g := 0; g <= updates; g++ {
			info := run.seen[side][g]
			if info == nil {
				t.Fatalf("%s: no record of epoch %d captured from the %s", variant, 3+g, side)
			}
			info.Variant, info.Suite, info.Updates, info.Script, info.Check = variant, s.name, updates, script, "records"
			info.Delivered = run.delivered[side][g]
			info.Secret0, info.S0Source = vHex(run.s0[side]), run.s0src
			ref := c10kuGeneration(s, run.s0[side], g)
			info.RefKeys = fmt.Sprintf("secret %s key %s iv %s sn %s", vHex(ref.secret), vHex(ref.key), vHex(ref.iv), vHex(ref.sn))
			c := c10KUCase{KU: *info}
			c.Fn, c.H, c.Site = 57, s.hcode, c10SiteKU
			c.Tag = "live key update: secret / key / iv / sn that open the records of epoch 3+g"
			c.In, c.N, c.Out = []string{vHex(run.s0[side])}, []uint64{uint64(s.id), uint64(g)}, []string{} //nolint:gosec
			if info.OpenedGen >= 0 {
				k := c10kuGeneration(s, run.s0[side], info.OpenedGen)
				c.Out = []string{vHex(k.secret), vHex(k.key), vHex(k.iv), vHex(k.sn)}
			}
			out.emit(c)

			// the secret each end keeps for that generation (what the next update is derived from)
			wst, _ := lab.peer(side).Conn.state.(*dtlsstate.State13)
			rst, _ := lab.peer(run.other(side)).Conn.state.(*dtlsstate.State13)
			if wst == nil || rst == nil || wst.TrafficKeys == nil || rst.TrafficKeys == nil {
				t.Fatalf("%s: no DTLS 1.3 traffic key state", variant)
			}
			wg, wok := wst.TrafficKeys.Write(uint16(3 + g)) //nolint:gosec
			rg, rok := rst.TrafficKeys.Read(uint16(3 + g))  //nolint:gosec
			for _, x := range []struct {
				check string
				g     *dtlsstate.TrafficGeneration
				ok    bool
			}{{"writer secret", wg, wok}, {"reader secret", rg, rok}} {
				if !x.ok || x.g == nil {
					continue // generation no longer retained
				}
				if g > 8 && g != updates && g%5 != 0 {
					continue // long chains: the kept secret is compared at every fifth generation and at the end
				}
				ki := *info
				ki.Check, ki.Record, ki.Inner = x.check, "", ""
				sc := c10KUCase{KU: ki}
				sc.Fn, sc.H, sc.Site = 58, s.hcode, c10SiteKU
				sc.Tag = "live key update: TrafficGeneration.Secret of generation g (" + x.check + ")"
				sc.In, sc.N, sc.Out = []string{vHex(run.s0[side])}, []uint64{uint64(g)}, []string{vHex(x.g.Secret)} //nolint:gosec
				out.emit(sc)
			}
		}
	}
}

func TestVerifC10KeyUpdate13(t *testing.T) {
	out := newVOut(t)
	updates := []int{5, 3}
	if vIsThorough() {
		updates = []int{5, 3, 9, 17, 40}
	}
	for _, s := range c10kuSuites() {
		for pi, pattern := range []string{"alternate", "requested", "burst"} {
			for ui, n := range updates {
				if (!vIsThorough() && ui > 0 || n >= 40) && (pi+int(s.id))%3 != 0 {
					continue // quick: every suite x pattern with 5 updates, plus one 3-update run per suite;
					// thorough: 5, 3, 9, 17 everywhere and one 40-update run per suite
				}
				vBubble(t, func(t *testing.T) { c10kuRunOne(t, out, s, pattern, n) })
			}
		}
	}
}
