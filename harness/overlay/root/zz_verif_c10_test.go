//go:build verif

// C10 correspondence harness, root package: the RFC 5705 exporter of State.ExportKeyingMaterial on
// constructed DTLS 1.2 states for every suite, and on real DTLS 1.2 / 1.3 connections established
// in the synctest lab (both sides must export the same bytes, and those bytes must be what the
// RFC prescribes: RFC 5705 for 1.2, RFC 8446 section 7.5 for 1.3).
package dtls

import (
	"bytes"
	"encoding/hex"
	"strings"
	"sync"
	"testing"
	"testing/synctest"
	"time"

	"github.com/pion/dtls/v3/internal/ciphersuite"
	dtlsstate "github.com/pion/dtls/v3/internal/state"
	"github.com/pion/dtls/v3/pkg/protocol"
)

type c10RootCase struct {
	Fn   int      `json:"fn"`
	H    int      `json:"h"`
	In   []string `json:"in"`
	N    []uint64 `json:"n"`
	Out  []string `json:"out"`
	Tag  string   `json:"tag,omitempty"`
	Site string   `json:"site,omitempty"`
	Note string   `json:"note,omitempty"`
	// Expect: regression corpus cases carry the recorded RFC value (checked against out[0])
	Expect string `json:"expect,omitempty"`
	// hello randoms of the connection, for the "not computable from the hellos" monitor
	CR string `json:"cr,omitempty"`
	SR string `json:"sr,omitempty"`
}

func c10Emit(o *vOut, fn, h int, tag, site, note string, in [][]byte, n []uint64, out [][]byte) {
	c := c10RootCase{Fn: fn, H: h, Tag: tag, Site: site, Note: note, N: n, In: []string{}, Out: []string{}}
	if c.N == nil {
		c.N = []uint64{}
	}
	for _, b := range in {
		c.In = append(c.In, vHex(b))
	}
	for _, b := range out {
		c.Out = append(c.Out, vHex(b))
	}
	o.emit(c)
}

func c10HashCode(id CipherSuiteID) int {
	switch ciphersuite.ID(id) {
	case ciphersuite.TLS_ECDHE_ECDSA_WITH_AES_256_GCM_SHA384, ciphersuite.TLS_ECDHE_RSA_WITH_AES_256_GCM_SHA384,
		ciphersuite.TLS_AES_256_GCM_SHA384:
		return 384
	}

	return 256
}

var c10Labels = []string{"EXTRACTOR-dtls_srtp", "EXPORTER-verif", "EXPORTER_c10 test label"} //nolint:gochecknoglobals

const c10Site13 = "state.go ExportKeyingMaterial (DTLS 1.3)"

// c10Export13 calls ExportKeyingMaterial on a constructed DTLS 1.3 state and emits the RFC 8446 7.5
// comparison (fn 61) plus the negative monitor (fn 63: the output must not be the value computable
// from the two hello randoms alone).
func c10Export13(
	t *testing.T, out *vOut, tag, expect string, id CipherSuiteID, em []byte, label string, ln int, lr, rr [32]byte,
	isClient bool,
) {
	t.Helper()
	s := &State{
		localEpoch: 3, remoteEpoch: 3, CipherSuiteID: id, isClient: isClient,
		version: protocol.Version1_3, exporterSecret: em,
	}
	s.localRandom.UnmarshalFixed(lr)
	s.remoteRandom.UnmarshalFixed(rr)
	got, err := s.ExportKeyingMaterial(label, nil, ln)
	if err != nil {
		t.Fatalf("ExportKeyingMaterial(1.3, %v): %v", id, err)
	}
	lrb, rrb := s.localRandom.MarshalFixed(), s.remoteRandom.MarshalFixed()
	cr, sr := lrb[:], rrb[:]
	if !isClient {
		cr, sr = rrb[:], lrb[:]
	}
	h := c10HashCode(id)
	c := c10RootCase{
		Fn: 61, H: h, Tag: tag, Site: c10Site13, Expect: expect, N: []uint64{uint64(ln)}, //nolint:gosec
		In: []string{vHex(em), vHex([]byte(label))}, Out: []string{vHex(got)}, CR: vHex(cr), SR: vHex(sr),
	}
	out.emit(c)
	if ln > 0 {
		c10Emit(out, 63, h, "exporter output not computable from the hello randoms", c10Site13,
			"fn 63 is a negative monitor: out must differ from P_hash(\"\", label || client_random || server_random)",
			[][]byte{[]byte(label), cr, sr}, []uint64{uint64(ln)}, [][]byte{got}) //nolint:gosec
	}
}

func TestVerifC10ExporterUnit(t *testing.T) {
	r := newVRand(vSeed() ^ 0xc1060)
	out := newVOut(t)
	per := 3
	if vIsThorough() {
		per = 100
	}
	// regression corpus, runs first: the exporter_master_secret / label / length recorded when the
	// DTLS 1.3 exporter was still keyed with the empty secret; the output must be the recorded RFC value
	{
		em, _ := hex.DecodeString("ebc07115e72f9bd0683f35445c2ec564b06c5f34a2db6db074221a3cfca3b1b1")
		var lr, rr [32]byte
		copy(lr[:], r.bytes(32))
		copy(rr[:], r.bytes(32))
		c10Export13(t, out, "regression: State.ExportKeyingMaterial (DTLS 1.3, RFC 8446 7.5)",
			"653b0d1d23eb4b850763b14fe2903356ca35eae7cd0387aefd1e8ef4801d57b0c8ba1c2677756b9530602078796fd31fb137a3e2f66d95900979f20c",
			CipherSuiteID(ciphersuite.TLS_AES_128_GCM_SHA256), em, "EXTRACTOR-dtls_srtp", 60, lr, rr, true)
	}
	for _, id := range []ciphersuite.ID{
		ciphersuite.TLS_AES_128_GCM_SHA256, ciphersuite.TLS_AES_256_GCM_SHA384, ciphersuite.TLS_CHACHA20_POLY1305_SHA256,
	} {
		hl := 32
		if id == ciphersuite.TLS_AES_256_GCM_SHA384 {
			hl = 48
		}
		for k := 0; k < 2*per; k++ {
			var lr, rr [32]byte
			copy(lr[:], r.bytes(32))
			copy(rr[:], r.bytes(32))
			ln := []int{60, 32, 1 + r.intn(100), 0}[r.intn(4)]
			c10Export13(t, out, "State.ExportKeyingMaterial (DTLS 1.3, RFC 8446 7.5)", "", CipherSuiteID(id),
				r.bytes(hl), c10Labels[r.intn(len(c10Labels))], ln, lr, rr, k%2 == 0)
		}
	}
	for id := 0; id <= 0xffff; id++ {
		cid := ciphersuite.ID(id)
		if ciphersuite.ForID(cid, nil) == nil || ciphersuite.IDSupportsVersion(cid, protocol.Version1_3) {
			continue
		}
		for k := 0; k < per; k++ {
			s := &State{localEpoch: 1, remoteEpoch: 1, CipherSuiteID: CipherSuiteID(id), isClient: k%2 == 0}
			s.masterSecret = r.bytes(48)
			var lr, rr [32]byte
			copy(lr[:], r.bytes(32))
			copy(rr[:], r.bytes(32))
			s.localRandom.UnmarshalFixed(lr)
			s.remoteRandom.UnmarshalFixed(rr)
			lrb, rrb := s.localRandom.MarshalFixed(), s.remoteRandom.MarshalFixed()
			label := c10Labels[r.intn(len(c10Labels))]
			ln := []int{60, 32, 1 + r.intn(100), 0}[r.intn(4)]
			got, err := s.ExportKeyingMaterial(label, nil, ln)
			if err != nil {
				t.Fatalf("ExportKeyingMaterial(%v): %v", cid, err)
			}
			cr, sr := lrb[:], rrb[:]
			if !s.isClient {
				cr, sr = rrb[:], lrb[:]
			}
			c10Emit(out, 9, c10HashCode(CipherSuiteID(id)), "State.ExportKeyingMaterial", "", "",
				[][]byte{s.masterSecret, []byte(label), cr, sr}, []uint64{uint64(ln)}, [][]byte{got}) //nolint:gosec
		}
	}
}

func c10Establish(t *testing.T, ccfg, scfg *dtlsConfig) *vLab {
	t.Helper()
	lab := newLab(t, ccfg, scfg)
	lab.Pump.run(lab.bothDone, 200*time.Second)
	if !lab.established() {
		t.Fatalf("handshake failed: client=%v server=%v", lab.Client.Err, lab.Server.Err)
	}

	return lab
}

func TestVerifC10ExporterE2E(t *testing.T) {
	out := newVOut(t)
	reps := 1
	if vIsThorough() {
		reps = 10
	}
	for rep := 0; rep < reps; rep++ {
		for _, v13 := range []bool{false, true} {
			vBubble(t, func(t *testing.T) {
				ccfg, scfg := vCertPair()
				if v13 {
					ccfg.MinVersion, ccfg.MaxVersion = protocol.Version1_3, protocol.Version1_3
					scfg.MinVersion, scfg.MaxVersion = protocol.Version1_3, protocol.Version1_3
				} else {
					ccfg.MaxVersion, scfg.MaxVersion = protocol.Version1_2, protocol.Version1_2
				}
				lab := c10Establish(t, ccfg, scfg)
				defer lab.close()
				cs, ok1 := lab.Client.Conn.ConnectionState()
				ss, ok2 := lab.Server.Conn.ConnectionState()
				if !ok1 || !ok2 {
					t.Fatal("no connection state")
				}
				for _, label := range c10Labels[:2] {
					const ln = 60
					ce, err1 := cs.ExportKeyingMaterial(label, nil, ln)
					se, err2 := ss.ExportKeyingMaterial(label, nil, ln)
					if err1 != nil || err2 != nil {
						t.Fatalf("export: %v %v", err1, err2)
					}
					if !bytes.Equal(ce, se) {
						t.Fatalf("client and server export different keying material")
					}
					crb, srb := cs.localRandom.MarshalFixed(), cs.remoteRandom.MarshalFixed()
					h := c10HashCode(cs.CipherSuiteID)
					if !v13 {
						c10Emit(out, 9, h, "State.ExportKeyingMaterial (DTLS 1.2 connection)", "", "",
							[][]byte{cs.masterSecret, []byte(label), crb[:], srb[:]}, []uint64{ln}, [][]byte{ce})

						continue
					}
					st13, ok := lab.Client.Conn.state.(*dtlsstate.State13)
					if !ok {
						t.Fatalf("client state is %T, want *State13", lab.Client.Conn.state)
					}
					em := st13.KeySchedule.ExporterMasterSecret
					if len(em) == 0 {
						t.Fatal("no exporter master secret on an established DTLS 1.3 connection")
					}
					c := c10RootCase{
						Fn: 61, H: h, Tag: "State.ExportKeyingMaterial (DTLS 1.3 connection, RFC 8446 7.5)",
						Site: c10Site13, N: []uint64{ln},
						In: []string{vHex(em), vHex([]byte(label))}, Out: []string{vHex(ce)},
						CR: vHex(crb[:]), SR: vHex(srb[:]),
					}
					out.emit(c)
					c10Emit(out, 63, h, "exporter output not computable from the hello randoms", c10Site13,
						"fn 63 is a negative monitor: out must differ from P_hash(\"\", label || client_random || server_random)",
						[][]byte{[]byte(label), crb[:], srb[:]}, []uint64{ln}, [][]byte{ce})
				}
			})
		}
	}
}

type c10KeyLog struct {
	mu sync.Mutex
	b  bytes.Buffer
}

func (k *c10KeyLog) Write(p []byte) (int, error) {
	k.mu.Lock()
	defer k.mu.Unlock()

	return k.b.Write(p)
}

func (k *c10KeyLog) String() string {
	k.mu.Lock()
	defer k.mu.Unlock()

	return k.b.String()
}

// TestVerifC10Live: real connections; application records captured from the wire are recomputed
// by the model keyed ONLY from the client's KeyLogWriter line (client random + master secret) and the
// server random, for the suites whose primitive the model implements (AES-CCM, AES-CBC).
func TestVerifC10Live(t *testing.T) {
	out := newVOut(t)
	type variant struct {
		suite CipherSuiteID
		cid   bool
	}
	vs := []variant{
		{TLS_PSK_WITH_AES_128_CCM, false}, {TLS_PSK_WITH_AES_128_CCM_8, true}, {TLS_PSK_WITH_AES_256_CCM_8, false},
		{TLS_PSK_WITH_AES_128_CBC_SHA256, false}, {TLS_PSK_WITH_AES_128_CBC_SHA256, true},
		{TLS_ECDHE_ECDSA_WITH_AES_128_CCM, true}, {TLS_ECDHE_ECDSA_WITH_AES_256_CBC_SHA, false},
	}
	writes := 3
	if vIsThorough() {
		writes = 40
	}
	for _, v := range vs {
		vBubble(t, func(t *testing.T) {
			var ccfg, scfg *dtlsConfig
			if ciphersuite.ForID(ciphersuite.ID(v.suite), nil).AuthenticationType() == ciphersuite.AuthenticationTypePreSharedKey {
				ccfg, scfg = vPSKPair(v.suite)
			} else {
				ccfg, scfg = vCertPair()
				ccfg.CipherSuites = []CipherSuiteID{v.suite}
				scfg.CipherSuites = []CipherSuiteID{v.suite}
			}
			ccfg.MaxVersion, scfg.MaxVersion = protocol.Version1_2, protocol.Version1_2
			if v.cid {
				ccfg.ConnectionIDGenerator = RandomCIDGenerator(4)
				scfg.ConnectionIDGenerator = RandomCIDGenerator(6)
			}
			klog := &c10KeyLog{}
			ccfg.KeyLogWriter = klog
			lab := c10Establish(t, ccfg, scfg)
			defer lab.close()

			var cr, ms []byte
			for _, line := range strings.Split(klog.String(), "\n") {
				f := strings.Fields(line)
				if len(f) == 3 && f[0] == "CLIENT_RANDOM" {
					cr, _ = hex.DecodeString(f[1])
					ms, _ = hex.DecodeString(f[2])
				}
			}
			if len(cr) != 32 || len(ms) != 48 {
				t.Fatalf("no CLIENT_RANDOM line in the key log: %q", klog.String())
			}
			cs, _ := lab.Client.Conn.ConnectionState()
			srb := cs.remoteRandom.MarshalFixed()
			crb := cs.localRandom.MarshalFixed()
			if !bytes.Equal(crb[:], cr) {
				t.Fatalf("key log client random differs from the ClientHello random")
			}
			clientCID := dtlsstate.CommonState(lab.Client.Conn.state).LocalConnectionIDForInboundRecords()
			serverCID := dtlsstate.CommonState(lab.Server.Conn.state).LocalConnectionIDForInboundRecords()

			for _, from := range []string{"server", "client"} {
				for w := 0; w < writes; w++ {
					synctest.Wait()
					start := lab.Net.count()
					payload := []byte(strings.Repeat("x", w*7) + "live-" + from)
					if _, err := lab.peer(from).Conn.Write(payload); err != nil {
						t.Fatal(err)
					}
					synctest.Wait()
					cidIn := clientCID // records sent by the server carry the client's CID
					if from == "client" {
						cidIn = serverCID
					}
					for _, d := range lab.Net.since(start) {
						if d.From != from {
							continue
						}
						for _, ri := range vParseDatagram(d.Data, len(cidIn)) {
							if ri.CT != int(protocol.ContentTypeApplicationData) && ri.CT != int(protocol.ContentTypeConnectionID) {
								continue
							}
							plain := payload
							var cid []byte
							hs := 13
							fn, tag, site, note := 73, "live record "+v.suite.String(), "", ""
							if ri.CT == int(protocol.ContentTypeConnectionID) {
								tag += " cid"
								cid = cidIn
								hs += len(cid)
								plain = append(bytes.Clone(payload), byte(protocol.ContentTypeApplicationData))
							}
							var eiv []byte
							sp := ciphersuite.ForID(ciphersuite.ID(v.suite), nil)
							if strings.Contains(sp.String(), "_CBC_") {
								eiv = ri.Raw[hs : hs+16]
							}
							cl := uint64(0)
							if from == "client" {
								cl = 1
							}
							c10Emit(out, fn, 256, tag, site, note,
								[][]byte{ms, cr, srb[:], cid, plain, eiv},
								[]uint64{uint64(v.suite), cl, uint64(ri.Epoch), ri.Seq, uint64(ri.CT), 0xfefd}, //nolint:gosec
								[][]byte{ri.Raw})
						}
					}
					lab.Pump.step()
				}
			}
		})
	}
}
