//go:build verif

// C11 "steered answer" leg: associations in which one endpoint is not honest or an on-path party rewrites
// what no Finished message covers - the FIRST (cookie-less) ClientHello of a DTLS 1.2 handshake with hello
// verification, the ServerHello of a rogue server (ServerHelloMessageHook) - plus the option-set pairs the
// plain product cannot express: a server with two certificates selected by SNI, sessions resumed under an
// EMS policy other than the one they were negotiated under, a dual-stack pair downgraded through the first
// ClientHello. Uses the runner and observation of zz_verif_c11_test.go (tag c11).
package dtls

import (
	"bytes"
	"crypto/x509"
	"errors"
	"fmt"
	"testing"

	"github.com/pion/dtls/v3/pkg/crypto/elliptic"
	"github.com/pion/dtls/v3/pkg/protocol"
	"github.com/pion/dtls/v3/pkg/protocol/extension"
	"github.com/pion/dtls/v3/pkg/protocol/handshake"
	"github.com/pion/dtls/v3/pkg/protocol/recordlayer"
)

var errC11Refused = errors.New("verif c11: the application refuses this peer")

// c11RewriteFirstHello returns the datagram with its ClientHello (no cookie, message_seq 0, one unfragmented
// record) rewritten by f, or nil when the datagram is not such a ClientHello.
func c11RewriteFirstHello(data []byte, f func(m *handshake.MessageClientHello) bool) []byte {
	rec := &recordlayer.RecordLayer{}
	if len(data) < 14 || data[0] != byte(protocol.ContentTypeHandshake) {
		return nil
	}
	if err := rec.Unmarshal(data); err != nil {
		return nil
	}
	hs, ok := rec.Content.(*handshake.Handshake)
	if !ok || rec.Header.Epoch != 0 {
		return nil
	}
	m, ok := hs.Message.(*handshake.MessageClientHello)
	if !ok || len(m.Cookie) != 0 || hs.Header.MessageSequence != 0 {
		return nil
	}
	if int(rec.Header.ContentLen)+13 != len(data) {
		return nil // more records in the datagram: leave it alone
	}
	if !f(m) {
		return nil
	}
	out, err := (&recordlayer.RecordLayer{
		Header:  rec.Header,
		Content: &handshake.Handshake{Header: handshake.Header{MessageSequence: hs.Header.MessageSequence}, Message: m},
	}).Marshal()
	if err != nil {
		return nil
	}

	return out
}

// c11SteerApply installs what res.Steer asks for: the rogue ServerHello hook on the server's configuration and
// the on-path rewriter (returned; nil when there is none).
func c11SteerApply(res *c11Case, ccfg *dtlsConfig, scfg *dtlsConfig) func(vDatagram) [][]byte {
	st := res.Steer
	switch st.Refuse {
	case 1:
		ccfg.VerifyPeerCertificate = func([][]byte, [][]*x509.Certificate) error { return errC11Refused }
	case 2:
		ccfg.verifyConnection = func(*State) error { return errC11Refused }
	}
	if st.SHALPN > 0 || st.SHSuite > 0 || st.SHSessionID {
		name := fmt.Sprintf("p%d", st.SHALPN)
		scfg.ServerHelloMessageHook = func(sh handshake.MessageServerHello) handshake.Message {
			if st.SHALPN > 0 {
				exts := make([]extension.Value, 0, len(sh.Extensions)+1)
				done := false
				for _, e := range sh.Extensions {
					if e.ExtensionType() == extension.TypeALPN {
						exts = append(exts, &extension.ALPNSelection{Protocol: name})
						done = true

						continue
					}
					exts = append(exts, e)
				}
				if !done {
					exts = append(exts, &extension.ALPNSelection{Protocol: name})
				}
				sh.Extensions = exts
			}
			if st.SHSuite > 0 {
				id := uint16(st.SHSuite)
				sh.CipherSuiteID = &id
			}
			if st.SHSessionID {
				sh.SessionID = bytes.Repeat([]byte{0xAB}, 32)
			}
			res.Steer.Applied++

			return &sh
		}
	}
	if st.CH1Groups == nil && st.CH1ALPN == nil && !st.CH1StripEMS && !st.CH1StripSNI && !st.CH1StripVers {
		return nil
	}

	return func(d vDatagram) [][]byte {
		if d.From != "client" {
			return nil
		}
		out := c11RewriteFirstHello(d.Data, func(m *handshake.MessageClientHello) bool {
			exts := make([]extension.Value, 0, len(m.Extensions))
			changed := false
			for _, e := range m.Extensions {
				switch e.ExtensionType() {
				case extension.TypeSupportedGroups:
					if st.CH1Groups != nil {
						g := &extension.SupportedGroups{}
						for _, x := range st.CH1Groups {
							g.Groups = append(g.Groups, elliptic.Curve(x))
						}
						exts = append(exts, g)
						changed = true

						continue
					}
				case extension.TypeALPN:
					if st.CH1ALPN != nil {
						a := &extension.ALPNOffer{}
						for _, x := range st.CH1ALPN {
							a.Protocols = append(a.Protocols, fmt.Sprintf("p%d", x))
						}
						exts = append(exts, a)
						changed = true

						continue
					}
				case extension.TypeExtendedMasterSecret:
					if st.CH1StripEMS {
						changed = true

						continue
					}
				case extension.TypeServerName:
					if st.CH1StripSNI {
						changed = true

						continue
					}
				case extension.TypeSupportedVersions:
					if st.CH1StripVers {
						changed = true

						continue
					}
				default:
				}
				exts = append(exts, e)
			}
			m.Extensions = exts

			return changed
		})
		if out == nil {
			return nil
		}
		res.Steer.Applied++
		if st.CH1StripVers && st.Twice {
			// before bddd645 a dual-stack server only looked at the ClientHello again when another record arrived (F20);
			// the second copy carries the next (unauthenticated) record sequence number so that it is not a replay
			again := append([]byte(nil), out...)
			again[10]++

			return [][]byte{out, again}
		}

		return [][]byte{out}
	}
}

type c11SteerJob struct {
	gen    string
	c, s   c11Cfg
	resume bool
	opt    c11Opt
}

func c11SteerFixed() []c11SteerJob {
	var jobs []c11SteerJob
	add := func(name string, resume bool, f func(c, s *c11Cfg, o *c11Opt)) {
		var c, s c11Cfg
		c.CID, s.CID = -1, -1
		var o c11Opt
		f(&c, &s, &o)
		jobs = append(jobs, c11SteerJob{gen: "steer:" + name, c: c, s: s, resume: resume, opt: o})
	}
	// ---- rogue server: the ServerHello names a protocol the client never offered
	add("rogue-alpn", false, func(c, s *c11Cfg, o *c11Opt) {
		s.Key = 1
		c.ALPN, s.ALPN = []int{1, 2}, []int{2, 3}
		o.Steer.SHALPN = 4
	})
	add("rogue-alpn-psk-skiphv", false, func(c, s *c11Cfg, o *c11Opt) {
		c.PSK, c.Hint, s.PSK, s.Hint = true, true, true, true
		c.SuitesSet, c.Suites, s.SuitesSet, s.Suites = true, []int{0x00a8}, true, []int{0x00a8}
		c.ALPN, s.ALPN = []int{1}, []int{1}
		s.SkipHV = true
		o.Steer.SHALPN = 3
	})
	add("rogue-alpn-resumed", true, func(c, s *c11Cfg, o *c11Opt) {
		s.Key = 1
		c.Store, s.Store = true, true
		c.ALPN, s.ALPN = []int{1, 2}, []int{2, 3}
		o.Steer.SHALPN = 4
		c0, s0 := *c, *s
		o.SeedC, o.SeedS = &c0, &s0
	})
	add("control-hook-names-offered-protocol", false, func(c, s *c11Cfg, o *c11Opt) {
		s.Key = 1
		c.ALPN, s.ALPN = []int{1, 2}, []int{2, 3}
		o.Steer.SHALPN = 1
	})
	// ---- ServerHello message hook (an honest application hook, or a rogue server): the server must commit what its
	// FINAL ServerHello says
	add("hook-appends-alpn-server-without-alpn", false, func(c, s *c11Cfg, o *c11Opt) {
		s.Key = 1
		c.ALPN = []int{1, 2}
		o.Steer.SHALPN = 2
	})
	add("hook-rewrites-alpn", false, func(c, s *c11Cfg, o *c11Opt) {
		s.Key = 2
		c.ALPN, s.ALPN = []int{1, 2}, []int{1, 2}
		o.Steer.SHALPN = 2
	})
	add("hook-rewrites-alpn-resumed", true, func(c, s *c11Cfg, o *c11Opt) {
		s.Key = 1
		c.Store, s.Store = true, true
		c.ALPN, s.ALPN = []int{1, 2}, []int{1, 2}
		o.Steer.SHALPN = 2
		c0, s0 := *c, *s
		o.SeedC, o.SeedS = &c0, &s0
	})
	add("hook-swaps-cipher-suite", false, func(_, s *c11Cfg, o *c11Opt) {
		s.Key = 2
		o.Steer.SHSuite = 0xc02f
	})
	add("hook-swaps-cipher-suite-psk", false, func(c, s *c11Cfg, o *c11Opt) {
		c.PSK, c.Hint, s.PSK, s.Hint = true, true, true, true
		c.SuitesSet, c.Suites, s.SuitesSet, s.Suites = true, []int{0xc0a4, 0xc0a8}, true, []int{0xc0a4, 0xc0a8}
		o.Steer.SHSuite = 0xc0a8
	})
	add("control-hook-names-the-same-suite", false, func(_, s *c11Cfg, o *c11Opt) {
		s.Key = 2
		o.Steer.SHSuite = 0xc02b
	})
	// ---- the hook renames the session: both sides must name it alike and the next connection must resume (full
	// handshake); on a resumption the echoed id is the signal, a changed id is refused
	add("hook-rewrites-session-id", false, func(c, s *c11Cfg, o *c11Opt) {
		s.Key = 1
		c.Store, s.Store = true, true
		o.Steer.SHSessionID = true
	})
	add("hook-rewrites-session-id-psk", false, func(c, s *c11Cfg, o *c11Opt) {
		c.PSK, c.Hint, s.PSK, s.Hint = true, true, true, true
		c.SuitesSet, c.Suites, s.SuitesSet, s.Suites = true, []int{0x00a8}, true, []int{0x00a8}
		c.Store, s.Store = true, true
		c.CID, s.CID = 4, 4
		o.Steer.SHSessionID = true
	})
	add("hook-rewrites-session-id-and-alpn", false, func(c, s *c11Cfg, o *c11Opt) {
		s.Key = 2
		c.Store, s.Store = true, true
		c.ALPN, s.ALPN = []int{1, 2}, []int{1, 2}
		o.Steer.SHSessionID, o.Steer.SHALPN = true, 2
	})
	add("hook-rewrites-session-id-resumed", true, func(c, s *c11Cfg, o *c11Opt) {
		s.Key = 1
		c.Store, s.Store = true, true
		o.Steer.SHSessionID = true
		c0, s0 := *c, *s
		o.SeedC, o.SeedS = &c0, &s0
	})
	// ---- a client that REFUSES the server's flight while connection IDs are negotiated: the alert must reach the
	// server.  DTLS 1.3: abortFlight3 clears the connection IDs before the alert is written (known finding)
	for _, v := range []int{3, 2} {
		for _, cids := range [][2]int{{0, 4}, {4, 8}, {4, 0}} {
			for kind := 0; kind <= 2; kind++ {
				v, cids, kind := v, cids, kind
				what := []string{"certificate-name", "verify-peer-certificate", "verify-connection"}[kind]
				name := fmt.Sprintf("cid-client-refuses-%s-dtls1%d-cid%d-%d", what, v, cids[0], cids[1])
				if v == 2 || cids[1] == 0 {
					name = "control-" + name
				}
				add(name, false, func(c, s *c11Cfg, o *c11Opt) {
					s.Key = 2
					c.Min, c.Max, s.Min, s.Max = v, v, v, v
					c.CID, s.CID = cids[0], cids[1]
					if kind == 0 {
						c.SNI = 1
					} else {
						o.Steer.Refuse = kind
					}
				})
			}
		}
	}
	// ---- on-path rewriting of the first ClientHello only (hello verification on)
	add("ch1-groups-cert", false, func(c, s *c11Cfg, o *c11Opt) {
		s.Key = 1
		c.Curves, s.Curves = []int{24}, []int{24, 29}
		o.Steer.CH1Groups = []int{29}
	})
	add("ch1-groups-ecdhe-psk", false, func(c, s *c11Cfg, o *c11Opt) {
		c.PSK, c.Hint, s.PSK, s.Hint = true, true, true, true
		c.SuitesSet, c.Suites, s.SuitesSet, s.Suites = true, []int{0xc037}, true, []int{0xc037}
		c.Curves, s.Curves = []int{23, 24}, []int{29, 23}
		o.Steer.CH1Groups = []int{29}
	})
	add("ch1-groups-reordered", false, func(c, s *c11Cfg, o *c11Opt) {
		s.Key = 2
		c.Curves, s.Curves = []int{29, 23, 24}, []int{24, 23}
		o.Steer.CH1Groups = []int{24, 23, 29}
	})
	add("ch1-strip-ems", false, func(_, s *c11Cfg, o *c11Opt) {
		s.Key = 1
		o.Steer.CH1StripEMS = true
	})
	add("ch1-strip-ems-client-requires", false, func(c, s *c11Cfg, o *c11Opt) {
		s.Key = 1
		c.EMS = 1
		o.Steer.CH1StripEMS = true
	})
	add("ch1-strip-ems-psk-cid-srtp", false, func(c, s *c11Cfg, o *c11Opt) {
		c.PSK, c.Hint, s.PSK, s.Hint = true, true, true, true
		c.SuitesSet, c.Suites, s.SuitesSet, s.Suites = true, []int{0xc0a8, 0x00a8}, true, []int{0x00a8}
		c.CID, s.CID = 4, 8
		c.SRTP, s.SRTP = []int{1, 7}, []int{7}
		o.Steer.CH1StripEMS = true
	})
	add("ch1-alpn-narrowed", false, func(c, s *c11Cfg, o *c11Opt) {
		s.Key = 1
		c.ALPN, s.ALPN = []int{1, 2}, []int{2, 1}
		o.Steer.CH1ALPN = []int{1}
	})
	add("ch1-alpn-foreign", false, func(c, s *c11Cfg, o *c11Opt) {
		s.Key = 1
		c.ALPN, s.ALPN = []int{1, 2}, []int{3, 2}
		o.Steer.CH1ALPN = []int{3}
	})
	add("ch1-strip-sni-two-certificates", false, func(c, s *c11Cfg, o *c11Opt) {
		s.Key, s.Key2 = 1, 2
		c.SNI = 1
		o.Steer.CH1StripSNI = true
	})
	add("control-ch1-rewrite-without-hello-verify", false, func(_, s *c11Cfg, o *c11Opt) {
		// with the cookie exchange off the only ClientHello is covered by the Finished messages: the rewrite breaks them
		s.Key = 1
		s.SkipHV = true
		o.Steer.CH1StripEMS = true
	})
	// ---- a server with two certificates, selected by SNI
	add("sni-rsa-certificate-behind-ecdsa-default", false, func(c, s *c11Cfg, _ *c11Opt) {
		s.Key, s.Key2 = 2, 3
		c.SNI = 1
	})
	add("sni-ecdsa-certificate-behind-rsa-default", false, func(c, s *c11Cfg, _ *c11Opt) {
		s.Key, s.Key2 = 3, 2
		c.SNI = 1
	})
	add("sni-rsa-only-client-refused", false, func(c, s *c11Cfg, _ *c11Opt) {
		s.Key, s.Key2 = 2, 3
		c.SNI = 1
		c.SuitesSet, c.Suites = true, []int{0xc02f, 0xc030}
	})
	add("control-sni-default-name", false, func(_, s *c11Cfg, _ *c11Opt) { s.Key, s.Key2 = 2, 3 })
	add("control-sni-same-family", false, func(c, s *c11Cfg, _ *c11Opt) { s.Key, s.Key2 = 1, 2; c.SNI = 1 })
	add("control-sni-dtls13", false, func(c, s *c11Cfg, _ *c11Opt) {
		s.Key, s.Key2 = 2, 1
		c.SNI = 1
		c.Min, c.Max, s.Min, s.Max = 3, 3, 3, 3
	})
	add("control-sni-unknown-name", false, func(c, s *c11Cfg, _ *c11Opt) { s.Key = 1; c.SNI = 1 })
	// ---- sessions resumed under another EMS policy than the one they were negotiated under
	ems := func(name string, psk bool, seedC, seedS, mainC, mainS int) {
		add(name, true, func(c, s *c11Cfg, o *c11Opt) {
			if psk {
				c.PSK, c.Hint, s.PSK, s.Hint = true, true, true, true
				c.SuitesSet, c.Suites, s.SuitesSet, s.Suites = true, []int{0x00a8}, true, []int{0x00a8}
			} else {
				s.Key = 1
			}
			c.Store, s.Store = true, true
			c0, s0 := *c, *s
			c0.EMS, s0.EMS = seedC, seedS
			o.SeedC, o.SeedS = &c0, &s0
			c.EMS, s.EMS = mainC, mainS
		})
	}
	ems("ems-server-requires-resumes-session-without-ems", false, 2, 0, 0, 1)
	ems("ems-server-requires-resumes-session-without-ems-psk", true, 2, 0, 0, 1)
	ems("ems-client-requires-resumes-session-without-ems", false, 0, 2, 1, 0)
	ems("control-ems-required-resumes-session-with-ems", false, 0, 0, 1, 1)
	ems("control-ems-disabled-after-ems-session", false, 0, 0, 2, 0)
	// the whole cross product: main client policy x main server policy over {Request 0, Require 1, Disable 2}, resuming a
	// session made with EMS (seed 0/0) and without it (client disabled it, server disabled it), certificate and PSK.
	// A side that requires EMS must abort when THIS handshake's hellos do not carry it - resumed or not.
	for _, psk := range []bool{false, true} {
		for _, seed := range [][3]int{{0, 0, 1}, {2, 0, 0}, {0, 2, 0}} {
			for mc := 0; mc <= 2; mc++ {
				for ms := 0; ms <= 2; ms++ {
					name := fmt.Sprintf("ems-resume-seed%d%d-main%d%d", seed[0], seed[1], mc, ms)
					if psk {
						name += "-psk"
					}
					ems(name, psk, seed[0], seed[1], mc, ms)
				}
			}
		}
	}
	// ---- dual-stack downgrade through the first ClientHello
	add("downgrade-dual-stack-strip-supported-versions", false, func(c, s *c11Cfg, o *c11Opt) {
		s.Key = 1
		c.Min, c.Max, s.Min, s.Max = 2, 3, 2, 3
		c.Curves = []int{29}
		o.Steer.CH1StripVers = true
	})
	add("downgrade-dual-stack-strip-supported-versions-forwarded-twice", false, func(c, s *c11Cfg, o *c11Opt) {
		s.Key = 1
		c.Min, c.Max, s.Min, s.Max = 2, 3, 2, 3
		c.Curves = []int{29}
		o.Steer.CH1StripVers, o.Steer.Twice = true, true
	})
	add("downgrade-dual-client-13-only-server", false, func(c, s *c11Cfg, o *c11Opt) {
		s.Key = 1
		c.Min, c.Max, s.Min, s.Max = 2, 3, 3, 3
		c.Curves = []int{29}
		o.Steer.CH1StripVers = true
	})

	return jobs
}

// generated: DTLS 1.2 pairs of the C11 generator with hello verification on x one applicable rewrite of the
// first ClientHello (chosen so that the first ClientHello is still acceptable to the server)
func c11SteerGenerated(r *vRand, n int) []c11SteerJob {
	var jobs []c11SteerJob
	for tries := 0; len(jobs) < n && tries < 60*n; tries++ {
		c, s, _ := c11GenPair(r, "")
		if c.Max == 3 || s.Max == 3 || s.SkipHV || c.MTU != 0 || s.MTU != 0 {
			continue
		}
		var o c11Opt
		if r.chance(25) {
			// sessions stored under one pair of EMS policies, resumed under another
			comp := func() (int, int) {
				for {
					a, b := r.intn(3), r.intn(3)
					if !(a == 1 && b == 2 || a == 2 && b == 1) {
						return a, b
					}
				}
			}
			c.Store, s.Store = true, true
			c0, s0 := c, s
			c0.EMS, s0.EMS = comp()
			c.EMS, s.EMS = comp()
			o.SeedC, o.SeedS = &c0, &s0
			jobs = append(jobs, c11SteerJob{gen: "steer:generated-ems-resume", c: c, s: s, resume: true, opt: o})

			continue
		}
		c.Store, s.Store = false, false
		switch r.intn(4) {
		case 0:
			if c.EMS == 2 {
				continue
			}
			o.Steer.CH1StripEMS = true
		case 1:
			if len(c.ALPN) < 2 || len(s.ALPN) == 0 {
				continue
			}
			o.Steer.CH1ALPN = c11Shuffle(r, c.ALPN)[:1+r.intn(len(c.ALPN)-1)]
		case 2:
			sc := s.Curves
			if sc == nil {
				sc = []int{29, 23, 24}
			}
			var pool []int
			for _, x := range sc {
				if x != 4588 {
					pool = append(pool, x)
				}
			}
			if len(pool) == 0 || c.PSK && c.Suites != nil && c.Suites[0] != 0xc037 && len(c.Suites) == 1 {
				continue
			}
			o.Steer.CH1Groups = c11Shuffle(r, pool)[:1+r.intn(len(pool))]
		default:
			o.Steer.CH1StripSNI = true
		}
		jobs = append(jobs, c11SteerJob{gen: "steer:generated", c: c, s: s, opt: o})
	}

	return jobs
}

func TestVerifC11Steer(t *testing.T) {
	out := newVOut(t)
	c11GetCreds()
	r := newVRand(vSeed() ^ 0xc1157)
	jobs := c11SteerFixed()
	n := 60
	if vIsThorough() {
		n = 2500
	}
	jobs = append(jobs, c11SteerGenerated(r, n)...)
	for i, j := range jobs {
		j := j
		var res, plain c11Case
		vBubble(t, func(t *testing.T) { res = runC11Opt(t, i, j.gen, j.c, j.s, j.resume, nil, j.opt) })
		res.Kind = "c11steer"
		out.emit(res)
		st := j.opt.Steer
		if st.CH1Groups != nil || st.CH1ALPN != nil || st.CH1StripEMS || st.CH1StripSNI {
			// the same pair left alone: what the association must come out as
			vBubble(t, func(t *testing.T) {
				plain = runC11Opt(t, i, j.gen+":untouched", j.c, j.s, j.resume, nil, c11Opt{SeedC: j.opt.SeedC, SeedS: j.opt.SeedS})
			})
			plain.Kind = "c11steer"
			out.emit(plain)
		}
	}
}
