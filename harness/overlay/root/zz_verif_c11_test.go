//go:build verif

// C11 (negotiation honours both policies) / C01 (handshake agreement): configuration-pair
// generator, scripted-network runner and full observation of both endpoints of one association.
// Shared by TestVerifC11 (perfect network) and TestVerifC01 (zz_verif_c01_test.go, fault masks).
package dtls

import (
	"context"
	"crypto/sha256"
	"crypto/tls"
	"crypto/x509"
	"encoding/hex"
	"errors"
	"fmt"
	"os"
	"sort"
	"sync"
	"testing"
	"testing/synctest"
	"time"

	"github.com/pion/dtls/v3/internal/ciphersuite"
	"github.com/pion/dtls/v3/internal/ciphersuite/types"
	dtlsstate "github.com/pion/dtls/v3/internal/state"
	"github.com/pion/dtls/v3/pkg/crypto/elliptic"
	"github.com/pion/dtls/v3/pkg/protocol"
	"github.com/pion/dtls/v3/pkg/protocol/alert"
	"github.com/pion/dtls/v3/pkg/protocol/extension"
	extension13 "github.com/pion/dtls/v3/pkg/protocol/extension/dtls13"
	"github.com/pion/dtls/v3/pkg/protocol/handshake"
)

// ---------------------------------------------------------------- credentials

// Key types of a certificate: 0 none, 1 Ed25519 (the lab's fixed leaves), 2 ECDSA P-256, 3 RSA 2048.
// ECDSA/RSA leaves: fixed credentials of zz_verif_c11_creds_test.go, issued by a private CA with
// ecdsa-with-SHA256 like the lab CA's leaves.
type c11Creds struct {
	Pool   *x509.CertPool // lab CA + the CAs of this harness
	Server [4]tls.Certificate
	Client [4]tls.Certificate
	Alt    [4]tls.Certificate // second server certificate, for the name "alt.verif" (zz_verif_c11_creds_alt_test.go)
}

var (
	c11CredsOnce sync.Once //nolint:gochecknoglobals
	c11CredsVal  *c11Creds //nolint:gochecknoglobals
)

func c11GetCreds() *c11Creds {
	c11CredsOnce.Do(func() {
		lab := vGetCreds()
		pool := x509.NewCertPool()
		pool.AddCert(lab.CA)
		pool.AddCert(vPemCert(c11PemCA))
		cr := &c11Creds{Pool: pool}
		cr.Server[1], cr.Client[1] = lab.Server, lab.Client
		cr.Server[2] = vKeyPair(c11PemServerECDSACert, c11PemServerECDSAKey)
		cr.Server[3] = vKeyPair(c11PemServerRSACert, c11PemServerRSAKey)
		cr.Client[2] = vKeyPair(c11PemClientECDSACert, c11PemClientECDSAKey)
		cr.Client[3] = vKeyPair(c11PemClientRSACert, c11PemClientRSAKey)
		pool.AddCert(vPemCert(c11PemAltCA))
		cr.Alt[1] = vKeyPair(c11PemAltEd25519Cert, c11PemAltEd25519Key)
		cr.Alt[2] = vKeyPair(c11PemAltECDSACert, c11PemAltECDSAKey)
		cr.Alt[3] = vKeyPair(c11PemAltRSACert, c11PemAltRSAKey)
		c11CredsVal = cr
	})

	return c11CredsVal
}

// ---------------------------------------------------------------- configuration description

// c11Cfg is the projected option set of one endpoint (what the model sees).
type c11Cfg struct {
	Min        int    `json:"min"` // 0 unset, 2 = DTLS 1.2, 3 = DTLS 1.3
	Max        int    `json:"max"`
	SuitesSet  bool   `json:"suites_set"` // CipherSuites != nil
	Suites     []int  `json:"suites"`
	PSK        bool   `json:"psk"`
	Hint       bool   `json:"hint"`
	Key        int    `json:"key"`         // certificate key type (0 none)
	ClientAuth int    `json:"client_auth"` // server only
	SkipVerify bool   `json:"skip_verify"` // client only
	Curves     []int  `json:"curves"`
	Sigs       []int  `json:"sigs"`
	CSigs      []int  `json:"csigs"`
	EMS        int    `json:"ems"`
	SRTP       []int  `json:"srtp"`
	MKI        string `json:"mki"`
	ALPN       []int  `json:"alpn"` // protocol "p<k>"
	CID        int    `json:"cid"`  // -1 no generator, 0 only-send, n>0 fixed CID of n bytes
	SkipHV     bool   `json:"skip_hv"`
	Store      bool   `json:"store"`
	MTU        int    `json:"mtu"`
	Key2       int    `json:"key2"` // server: key type of a second certificate, for the name "alt.verif" (0 none)
	SNI        int    `json:"sni"`  // client: 0 = connects to "server.verif", 1 = to "alt.verif"
	Custom     bool   `json:"custom"` // WithCustomCipherSuites: one user-supplied suite (id 0xFFFE, AES-128-GCM/SHA-256, ECDHE-ECDSA)
}

// c11CustomSuite is a user-supplied cipher suite under a private identifier.
type c11CustomSuite struct {
	ciphersuite.TLSEcdheEcdsaWithAes128GcmSha256
}

func (*c11CustomSuite) ID() CipherSuiteID { return 0xFFFE }

func c11Version(v int) protocol.Version {
	switch v {
	case 2:
		return protocol.Version1_2
	case 3:
		return protocol.Version1_3
	default:
		return protocol.Version{}
	}
}

func c11FixedCID(isClient bool, n int) []byte {
	b := make([]byte, n)
	for i := range b {
		if isClient {
			b[i] = byte(0xC0 + i)
		} else {
			b[i] = byte(0x50 + i)
		}
	}

	return b
}

func (d c11Cfg) build(isClient bool, store SessionStore) *dtlsConfig {
	cr := c11GetCreds()
	c := vBaseConfig()
	c.MinVersion, c.MaxVersion = c11Version(d.Min), c11Version(d.Max)
	if d.SuitesSet {
		c.CipherSuites = make([]CipherSuiteID, 0, len(d.Suites))
		for _, s := range d.Suites {
			c.CipherSuites = append(c.CipherSuites, CipherSuiteID(s))
		}
	}
	if d.PSK {
		c.psk = func([]byte) ([]byte, error) { return []byte{0xAB, 0xC1, 0x23}, nil }
	}
	if d.Hint {
		if isClient {
			c.PSKIdentityHint = []byte("verif-client")
		} else {
			c.PSKIdentityHint = []byte("verif-server")
		}
	}
	if d.Key > 0 {
		if isClient {
			c.Certificates = []tls.Certificate{cr.Client[d.Key]}
		} else {
			c.Certificates = []tls.Certificate{cr.Server[d.Key]}
		}
	}
	if !isClient && d.Key2 > 0 {
		c.Certificates = append(c.Certificates, cr.Alt[d.Key2])
	}
	if isClient {
		c.RootCAs = cr.Pool
		c.ServerName = "server.verif"
		if d.SNI == 1 {
			c.ServerName = "alt.verif"
		}
		c.InsecureSkipVerify = d.SkipVerify
	} else {
		c.ClientAuth = ClientAuthType(d.ClientAuth)
		c.ClientCAs = cr.Pool
		c.InsecureSkipVerifyHello = d.SkipHV
	}
	for _, x := range d.Curves {
		c.EllipticCurves = append(c.EllipticCurves, elliptic.Curve(x))
	}
	for _, x := range d.Sigs {
		c.SignatureSchemes = append(c.SignatureSchemes, tls.SignatureScheme(x))
	}
	for _, x := range d.CSigs {
		c.CertificateSignatureSchemes = append(c.CertificateSignatureSchemes, tls.SignatureScheme(x))
	}
	c.ExtendedMasterSecret = ExtendedMasterSecretType(d.EMS)
	for _, x := range d.SRTP {
		c.SRTPProtectionProfiles = append(c.SRTPProtectionProfiles, SRTPProtectionProfile(x))
	}
	if d.MKI != "" {
		c.SRTPMasterKeyIdentifier, _ = hex.DecodeString(d.MKI)
	}
	for _, x := range d.ALPN {
		c.SupportedProtocols = append(c.SupportedProtocols, fmt.Sprintf("p%d", x))
	}
	switch {
	case d.CID == 0:
		c.ConnectionIDGenerator = OnlySendCIDGenerator()
	case d.CID > 0:
		n := d.CID
		c.ConnectionIDGenerator = func() []byte { return c11FixedCID(isClient, n) }
	}
	if d.Store && store != nil {
		c.sessionStore = store
	}
	if d.Custom {
		c.customCipherSuites = func() []CipherSuite { return []CipherSuite{&c11CustomSuite{}} }
	}
	if d.MTU > 0 {
		c.MTU = d.MTU
	}

	return c
}

// ---------------------------------------------------------------- session store (own copy: no dependency on c02 files)

type c11Store struct {
	mu sync.Mutex
	m  map[string]Session
}

func newC11Store() *c11Store { return &c11Store{m: map[string]Session{}} }

func (s *c11Store) Set(key []byte, v Session) error {
	s.mu.Lock()
	defer s.mu.Unlock()
	s.m[string(key)] = v

	return nil
}

func (s *c11Store) Get(key []byte) (Session, error) {
	s.mu.Lock()
	defer s.mu.Unlock()

	return s.m[string(key)], nil
}

func (s *c11Store) Del(key []byte) error {
	s.mu.Lock()
	defer s.mu.Unlock()
	delete(s.m, string(key))

	return nil
}

func (s *c11Store) size() int {
	s.mu.Lock()
	defer s.mu.Unlock()

	return len(s.m)
}

// ---------------------------------------------------------------- observations

type c11Hello struct {
	Seen      bool     `json:"seen"`
	LegacyVer int      `json:"legacy"` // 2 / 3 / 0
	Suites    []int    `json:"suites"` // ClientHello: offered ids (SCSV removed, flag below); ServerHello: [chosen]
	SCSV      bool     `json:"scsv"`
	Exts      []int    `json:"exts"`     // extension types in wire order
	Versions  []int    `json:"versions"` // supported_versions (2/3), empty when absent
	Groups    []int    `json:"groups"`
	Shares    []int    `json:"shares"` // key_share groups
	Sigs      []int    `json:"sigs"`
	CSigs     []int    `json:"csigs"`
	SRTP      []int    `json:"srtp"`
	MKI       string   `json:"mki"`
	ALPN      []string `json:"alpn"`
	HasCID    bool     `json:"has_cid"`
	CID       string   `json:"cid"`
	EMS       bool     `json:"ems"`
	SessIDLen int      `json:"sidlen"`
	HRR       bool     `json:"hrr"`
	Count     int      `json:"count"` // how many distinct messages of this kind were seen (CH1/CH2, HRR/SH)
}

type c11Side struct {
	Built    bool     `json:"built"`
	BuildErr string   `json:"build_err"`
	Done     bool     `json:"done"`
	Class    string   `json:"class"` // ok | sent | recv | err | pending | notbuilt
	Alert    int      `json:"alert"` // description for sent/recv, -1 otherwise
	Level    int      `json:"level"`
	Err      string   `json:"err"`
	HasState bool     `json:"has_state"`
	Version  int      `json:"version"` // in-package LocalVersion: 2/3
	Suite    int      `json:"suite"`
	ALPN     string   `json:"alpn"`
	SessID   string   `json:"sessid"`
	NCerts   int      `json:"ncerts"`
	CertHash string   `json:"certhash"`
	Hint     string   `json:"hint"`
	SRTP     int      `json:"srtp"` // 0 none
	RMKIok   bool     `json:"rmki_ok"`
	RMKI     string   `json:"rmki"`
	EMS      bool     `json:"ems"`
	LCID     string   `json:"lcid"`
	RCID     string   `json:"rcid"`
	RRC      bool     `json:"rrc"`
	Group    int      `json:"group"`
	Exp      []string `json:"exp"`
	ExpErr   string   `json:"exp_err"`
	Reads    []string `json:"reads"`
	Sent     string   `json:"sent_chain"` // hash of the chain this side is configured to present ("" if none)
	SentN    int      `json:"sent_n"`
	PeerKey  int      `json:"peer_key"` // key type of the leaf of PeerCertificates: 1 Ed25519, 2 ECDSA, 3 RSA (0 none)
	PeerName string   `json:"peer_name"`
	MSHash   string   `json:"ms_hash"` // DTLS 1.2: hash of the master secret in force (in-package)
	Hidden   bool     `json:"hidden"`  // class sent: the alert went out protected (not readable on the wire)
	ErrAlert int      `json:"err_alert"` // class err: the alert this side's error carries (it was raised, not seen by the peer); -1 none
}

// c11Steer describes what an on-path party or a rogue server does to one association (all zero = nothing).
type c11Steer struct {
	CH1Groups    []int `json:"ch1_groups"`     // supported_groups of the FIRST (cookie-less) ClientHello replaced
	CH1ALPN      []int `json:"ch1_alpn"`       // its ALPN offer replaced
	CH1StripEMS  bool  `json:"ch1_strip_ems"`  // its extended_master_secret extension removed
	CH1StripSNI  bool  `json:"ch1_strip_sni"`  // its server_name extension removed
	CH1StripVers bool  `json:"ch1_strip_vers"` // its supported_versions removed
	Twice        bool  `json:"twice"`          // ... and the rewritten datagram forwarded twice (second copy: next record number)
	SHALPN       int   `json:"sh_alpn"`        // rogue server: the ServerHello names protocol "p<k>" (0 = untouched)
	SHSuite      int   `json:"sh_suite"`       // ServerHello hook: the ServerHello names this cipher suite (0 = untouched)
	SHSessionID  bool  `json:"sh_sessionid"`   // ServerHello hook: the ServerHello carries another session id (32 x 0xAB)
	Refuse       int   `json:"refuse"`         // the CLIENT refuses the server: 1 VerifyPeerCertificate fails, 2 VerifyConnection fails
	Applied      int   `json:"applied"`        // how many datagrams were rewritten
}

// c11Next: the connection made after a hooked full handshake, with the same session stores and no hook.
type c11Next struct {
	Run      bool   `json:"run"`
	OK       bool   `json:"ok"`
	CHSidLen int    `json:"ch_sidlen"`
	SHSidLen int    `json:"sh_sidlen"`
	SHDSeen  bool   `json:"shd_seen"`
	Resumed  bool   `json:"resumed"`
	ClientID string `json:"client_sessid"`
	ServerID string `json:"server_sessid"`
}

// c11Seed: the earlier association that left the sessions in the stores, when it used other option sets.
type c11Seed struct {
	Used   bool   `json:"used"`
	C      c11Cfg `json:"c"`
	S      c11Cfg `json:"s"`
	OK     bool   `json:"ok"`
	EMS    bool   `json:"ems"`     // extended master secret in force in that association (both sides)
	MSHash string `json:"ms_hash"` // hash of its master secret (server side)
}

type c11Alert struct {
	From    string `json:"from"`
	Level   int    `json:"level"`
	Desc    int    `json:"desc"`
	Epoch   int    `json:"epoch"`
	Wrapped bool   `json:"wrapped"` // sent as an unencrypted tls12_cid record
}

type c11Case struct {
	Kind    string     `json:"kind"`
	ID      int        `json:"id"`
	Gen     string     `json:"gen"` // how the pair was generated (compatible / break:<dim> / random / lattice)
	C       c11Cfg     `json:"c"`
	S       c11Cfg     `json:"s"`
	Resume  bool       `json:"resume"` // a first handshake seeded both stores
	Seeded  bool       `json:"seeded"` // ... and it succeeded
	Mask    []string   `json:"mask"`
	Client  c11Side    `json:"client"`
	Server  c11Side    `json:"server"`
	CH      c11Hello   `json:"ch"` // last ClientHello on the wire
	CH1     c11Hello   `json:"ch1"`
	SH      c11Hello   `json:"sh"` // last non-HRR ServerHello on the wire
	HRRSeen bool       `json:"hrr_seen"`
	HVRSeen bool       `json:"hvr_seen"`
	SHDSeen bool       `json:"shd_seen"`
	SKESig  int        `json:"ske_sig"` // DTLS 1.2 ServerKeyExchange signature scheme id (0 = none seen)
	SKECrv  int        `json:"ske_curve"`
	CVSig   int        `json:"cv_sig"` // DTLS 1.2 client CertificateVerify scheme id (0 = none seen)
	Alerts  []c11Alert `json:"alerts"`
	TDone   int64      `json:"tdone"`
	DataOK  bool       `json:"data_ok"`
	NDgram  int        `json:"ndgram"`
	Storm   bool       `json:"storm"` // more than 3000 datagrams: the run was cut off
	Steer   c11Steer   `json:"steer"`
	Seed    c11Seed    `json:"seed"`
	Next    c11Next    `json:"next"`
}

// c11Opt: what a run does besides pairing the two option sets.
type c11Opt struct {
	Steer c11Steer
	SeedC *c11Cfg // option sets of the seeding association (nil = the same as the main one)
	SeedS *c11Cfg
}

func c11Ver(v protocol.Version) int {
	switch {
	case v.Equal(protocol.Version1_2):
		return 2
	case v.Equal(protocol.Version1_3):
		return 3
	default:
		return 0
	}
}

func c11ChainHash(chain [][]byte) string {
	if len(chain) == 0 {
		return ""
	}
	h := sha256.New()
	for _, c := range chain {
		var l [4]byte
		l[0], l[1], l[2], l[3] = byte(len(c)>>24), byte(len(c)>>16), byte(len(c)>>8), byte(len(c))
		h.Write(l[:])
		h.Write(c)
	}

	return hex.EncodeToString(h.Sum(nil)[:12])
}

func c11ParseHelloExts(h *c11Hello, exts []extension.Value) {
	for _, e := range exts {
		h.Exts = append(h.Exts, int(e.ExtensionType()))
		switch x := e.(type) {
		case *extension13.OfferedVersions:
			for _, v := range x.Versions {
				h.Versions = append(h.Versions, c11Ver(v))
			}
		case *extension13.SelectedVersion:
			h.Versions = append(h.Versions, c11Ver(x.Version))
		case *extension.SupportedGroups:
			for _, g := range x.Groups {
				h.Groups = append(h.Groups, int(g))
			}
		case *extension13.ClientKeyShare:
			for _, s := range x.Shares {
				h.Shares = append(h.Shares, int(s.Group))
			}
		case *extension13.ServerKeyShare:
			h.Shares = append(h.Shares, int(x.Share.Group))
		case *extension13.RetryKeyShare:
			h.Shares = append(h.Shares, int(x.SelectedGroup))
		case *extension.SignatureAlgorithms:
			for _, s := range x.Schemes {
				h.Sigs = append(h.Sigs, int(s))
			}
		case *extension.CertificateSignatureAlgorithms:
			for _, s := range x.Schemes {
				h.CSigs = append(h.CSigs, int(s))
			}
		case *extension.SRTPOffer:
			for _, p := range x.ProtectionProfiles {
				h.SRTP = append(h.SRTP, int(p))
			}
			h.MKI = hex.EncodeToString(x.MasterKeyIdentifier)
		case *extension.SRTPSelection:
			h.SRTP = append(h.SRTP, int(x.ProtectionProfile))
			h.MKI = hex.EncodeToString(x.MasterKeyIdentifier)
		case *extension.ALPNOffer:
			h.ALPN = append(h.ALPN, x.Protocols...)
		case *extension.ALPNSelection:
			h.ALPN = append(h.ALPN, x.Protocol)
		case *extension.ConnectionID:
			h.HasCID = true
			h.CID = hex.EncodeToString(x.CID)
		default:
			if e.ExtensionType() == extension.TypeExtendedMasterSecret {
				h.EMS = true
			}
		}
	}
}

// c11Wire reassembles the plaintext (epoch 0) handshake messages of both directions from the
// datagram log and parses the hellos with the repository's handshake package.
type c11Wire struct {
	frag map[string][]byte
	have map[string][]bool
	done map[string]bool
	res  *c11Case
	cidC int // length of the CID the client expects on records addressed to it
	cidS int
}

func newC11Wire(res *c11Case) *c11Wire {
	w := &c11Wire{frag: map[string][]byte{}, have: map[string][]bool{}, done: map[string]bool{}, res: res}
	if res.C.CID > 0 {
		w.cidC = res.C.CID
	}
	if res.S.CID > 0 {
		w.cidS = res.S.CID
	}

	return w
}

func (w *c11Wire) feed(d vDatagram) {
	cidLen := w.cidS
	if d.From == "server" {
		cidLen = w.cidC
	}
	for _, r := range vParseDatagram(d.Data, cidLen) {
		if r.Uni || r.CT < 0 {
			continue
		}
		if r.CT == int(protocol.ContentTypeConnectionID) {
			// unencrypted inner plaintext: content || real type || zero padding
			inner := r.Raw[13+cidLen:]
			for len(inner) > 0 && inner[len(inner)-1] == 0 {
				inner = inner[:len(inner)-1]
			}
			if r.Epoch == 0 && len(inner) == 3 && inner[2] == byte(protocol.ContentTypeAlert) && inner[0] <= 2 {
				w.res.Alerts = append(w.res.Alerts, c11Alert{
					From: d.From, Level: int(inner[0]), Desc: int(inner[1]), Epoch: r.Epoch, Wrapped: true,
				})
			}

			continue
		}
		body := r.Raw[13:]
		if r.CT == int(protocol.ContentTypeAlert) && len(body) == 2 && (r.Epoch == 0 || body[0] <= 2) {
			w.res.Alerts = append(w.res.Alerts, c11Alert{From: d.From, Level: int(body[0]), Desc: int(body[1]), Epoch: r.Epoch})

			continue
		}
		if r.CT != int(protocol.ContentTypeHandshake) || r.Epoch != 0 || r.HType < 0 {
			continue
		}
		key := fmt.Sprintf("%s/%d/%d/%d", d.From, r.MsgSeq, r.HType, r.TLen)
		if w.done[key] {
			continue
		}
		if _, ok := w.frag[key]; !ok {
			w.frag[key] = make([]byte, r.TLen)
			w.have[key] = make([]bool, r.TLen)
		}
		if r.FOff+r.FLen > r.TLen || len(body) < 12+r.FLen {
			continue
		}
		copy(w.frag[key][r.FOff:], body[12:12+r.FLen])
		for i := r.FOff; i < r.FOff+r.FLen; i++ {
			w.have[key][i] = true
		}
		complete := true
		for _, b := range w.have[key] {
			if !b {
				complete = false

				break
			}
		}
		if complete {
			w.done[key] = true
			w.message(d.From, handshake.Type(r.HType), w.frag[key])
		}
	}
}

func (w *c11Wire) message(from string, typ handshake.Type, body []byte) {
	res := w.res
	switch typ {
	case handshake.TypeClientHello:
		if from != "client" {
			return
		}
		m := &handshake.MessageClientHello{}
		if err := m.Unmarshal(body); err != nil {
			return
		}
		h := c11Hello{Seen: true, LegacyVer: c11Ver(m.Version), SessIDLen: len(m.SessionID), Count: res.CH.Count + 1}
		for _, id := range m.CipherSuiteIDs {
			if id == 0x00ff {
				h.SCSV = true

				continue
			}
			h.Suites = append(h.Suites, int(id))
		}
		c11ParseHelloExts(&h, m.Extensions)
		if !res.CH1.Seen {
			res.CH1 = h
		}
		res.CH = h
	case handshake.TypeHelloVerifyRequest:
		if from == "server" {
			res.HVRSeen = true
		}
	case handshake.TypeServerHello:
		if from != "server" {
			return
		}
		m := &handshake.MessageServerHello{}
		if err := m.Unmarshal(body); err != nil {
			return
		}
		rnd := m.Random.MarshalFixed()
		if hex.EncodeToString(rnd[:]) == hex.EncodeToString(handshake.HelloRetryRequestRandom()) {
			res.HRRSeen = true

			return
		}
		h := c11Hello{Seen: true, LegacyVer: c11Ver(m.Version), SessIDLen: len(m.SessionID), Count: res.SH.Count + 1}
		if m.CipherSuiteID != nil {
			h.Suites = []int{int(*m.CipherSuiteID)}
		}
		c11ParseHelloExts(&h, m.Extensions)
		res.SH = h
	case handshake.TypeServerHelloDone:
		if from == "server" {
			res.SHDSeen = true
		}
	case handshake.TypeServerKeyExchange:
		if from != "server" || !res.SH.Seen || len(res.SH.Suites) != 1 {
			return
		}
		cs := ciphersuite.ForID(ciphersuite.ID(res.SH.Suites[0]), nil)
		if cs == nil {
			return
		}
		m := &handshake.MessageServerKeyExchange{KeyExchangeAlgorithm: types.KeyExchangeAlgorithm(cs.KeyExchangeAlgorithm())}
		if err := m.Unmarshal(body); err != nil {
			return
		}
		res.SKECrv = int(m.NamedCurve)
		if len(m.Signature) > 0 {
			res.SKESig = c11SchemeID(int(m.HashAlgorithm), int(m.SignatureAlgorithm))
		}
	case handshake.TypeCertificateVerify:
		if from != "client" {
			return
		}
		m := &handshake.MessageCertificateVerify{}
		if err := m.Unmarshal(body); err != nil {
			return
		}
		res.CVSig = c11SchemeID(int(m.HashAlgorithm), int(m.SignatureAlgorithm))
	default:
	}
}

// scheme id as on the wire: PSS ids are the whole 16-bit value, the rest is hash<<8|sig
func c11SchemeID(hash, sig int) int {
	if sig > 0xff {
		return sig
	}

	return hash<<8 | sig
}

func c11Observe(p *vPeer, side *c11Side) {
	common := dtlsstate.CommonState(p.Conn.state)
	side.Version = c11Ver(common.LocalVersion)
	st, ok := p.Conn.ConnectionState()
	side.HasState = ok
	if ok {
		side.Suite = int(st.CipherSuiteID)
		side.ALPN = st.NegotiatedProtocol
		side.SessID = hex.EncodeToString(st.SessionID)
		side.NCerts = len(st.PeerCertificates)
		side.CertHash = c11ChainHash(st.PeerCertificates)
		side.Hint = hex.EncodeToString(st.IdentityHint)
		for _, label := range []string{"EXTRACTOR-dtls_srtp", "EXPERIMENTAL-verif-a", "EXPERIMENTAL-verif-b"} {
			b, err := st.ExportKeyingMaterial(label, nil, 40)
			if err != nil {
				side.ExpErr = err.Error()
			}
			side.Exp = append(side.Exp, hex.EncodeToString(b))
		}
	}
	if prof, ok := p.Conn.SelectedSRTPProtectionProfile(); ok {
		side.SRTP = int(prof)
	}
	mki, ok := p.Conn.RemoteSRTPMasterKeyIdentifier()
	side.RMKIok = ok
	side.RMKI = hex.EncodeToString(mki)
	side.LCID = hex.EncodeToString(common.LocalConnectionID())
	side.RCID = hex.EncodeToString(common.RemoteConnectionID)
	side.RRC = common.RRCNegotiated
	if side.HasState && len(st.PeerCertificates) > 0 {
		if leaf, err := x509.ParseCertificate(st.PeerCertificates[0]); err == nil {
			switch leaf.PublicKeyAlgorithm {
			case x509.Ed25519:
				side.PeerKey = 1
			case x509.ECDSA:
				side.PeerKey = 2
			case x509.RSA:
				side.PeerKey = 3
			default:
			}
			if len(leaf.DNSNames) > 0 {
				side.PeerName = leaf.DNSNames[0]
			}
		}
	}
	switch s := p.Conn.state.(type) {
	case *dtlsstate.State12:
		if len(s.MasterSecret) > 0 {
			h := sha256.Sum256(s.MasterSecret)
			side.MSHash = hex.EncodeToString(h[:8])
		}
		side.EMS = s.ExtendedMasterSecret
		if common.IsClient {
			if s.LocalKeypair != nil {
				side.Group = int(s.LocalKeypair.Curve)
			}
		} else if common.CipherSuite != nil && common.CipherSuite.KeyExchangeAlgorithm().Has(types.KeyExchangeAlgorithmEcdhe) {
			side.Group = int(s.NamedCurve)
		}
	case *dtlsstate.State13:
		side.Group = int(s.SelectedGroup)
	}
}

func c11Classify(side *c11Side, err error, name string, alerts []c11Alert) {
	side.Alert = -1
	if err == nil {
		side.Class = "ok"

		return
	}
	side.Err = err.Error()
	var ae *alertError
	if errors.As(err, &ae) {
		side.Class, side.Alert, side.Level = "recv", int(ae.Description), int(ae.Level)

		return
	}
	for _, a := range alerts {
		if a.From == name {
			side.Class, side.Alert, side.Level = "sent", a.Desc, a.Level

			return
		}
	}
	side.Class = "err"
}

// ---------------------------------------------------------------- runner

// like newLab but reports constructor errors instead of failing the test
// c11ConfigHook lets a debugging run attach loggers to both configurations.
var c11ConfigHook func(c, s *dtlsConfig)

func c11NewLab(ccfg, scfg *dtlsConfig, res *c11Case) *vLab {
	if c11ConfigHook != nil {
		c11ConfigHook(ccfg, scfg)
	}
	n := newVNet()
	lab := &vLab{Net: n}
	cep := n.endpoint("client")
	sep := n.endpoint("server")
	cc, cerr := clientWithConfig(cep, vAddr("server"), ccfg)
	var sc *Conn
	var serr error
	// ServerWithOptions validates the configuration before creating the connection
	if serr = validateConfig(scfg); serr == nil {
		sc, serr = serverWithConfig(sep, vAddr("client"), scfg)
	}
	res.Client.Built, res.Server.Built = cerr == nil, serr == nil
	if cerr != nil {
		res.Client.BuildErr = cerr.Error()
	}
	if serr != nil {
		res.Server.BuildErr = serr.Error()
	}
	if cerr != nil || serr != nil {
		if cc != nil {
			_ = cc.Close()
		}
		if sc != nil {
			_ = sc.Close()
		}

		return nil
	}
	lab.Client = &vPeer{Name: "client", EP: cep, Conn: cc, Done: make(chan struct{})}
	lab.Server = &vPeer{Name: "server", EP: sep, Conn: sc, Done: make(chan struct{})}
	lab.Pump = &vPump{net: n}

	return lab
}

func c11Start(lab *vLab) {
	for _, p := range []*vPeer{lab.Client, lab.Server} {
		go func(p *vPeer) {
			p.Err = p.Conn.HandshakeContext(context.Background())
			close(p.Done)
		}(p)
	}
}

// c11Pump delivers datagrams according to mask (action per emission index) until both handshakes
// have returned or `limit` of virtual time has passed with nothing left to do.
func c11Pump(lab *vLab, mask []string, limit time.Duration, onDgram func(vDatagram), stop func() bool) int {
	return c11PumpRewrite(lab, mask, limit, onDgram, stop, nil)
}

// c11PumpRewrite: `rewrite` (on-path party) may replace an emitted datagram by any number of datagrams; nil or
// a nil result leaves it alone. The wire observer sees what is delivered.
func c11PumpRewrite(
	lab *vLab, mask []string, limit time.Duration, onDgram func(vDatagram), stop func() bool,
	rewrite func(vDatagram) [][]byte,
) int {
	type held struct {
		d     vDatagram
		after int
	}
	var helds []held
	delivered := 0
	deliver := func(d vDatagram) {
		lab.Net.deliver(d.To, d.From, d.Data)
		delivered++
		synctest.Wait()
	}
	next := 0
	deadline := time.Now().Add(limit)
	for {
		synctest.Wait()
		progressed := false
		for _, d := range lab.Net.since(next) {
			next = d.Idx + 1
			if rewrite != nil {
				if repl := rewrite(d); repl != nil {
					for _, b := range repl {
						d2 := d
						d2.Data = b
						if onDgram != nil {
							onDgram(d2)
						}
						deliver(d2)
					}
					progressed = true

					continue
				}
			}
			if onDgram != nil {
				onDgram(d)
			}
			act := "pass"
			if d.Idx < len(mask) {
				act = mask[d.Idx]
			}
			switch act {
			case "pass":
				deliver(d)
			case "drop":
			case "dup":
				deliver(d)
				deliver(d)
			default:
				k := 1
				fmt.Sscanf(act, "hold:%d", &k)
				helds = append(helds, held{d: d, after: delivered + k})
			}
			progressed = true
			for i := 0; i < len(helds); {
				if helds[i].after <= delivered {
					h := helds[i]
					helds = append(helds[:i], helds[i+1:]...)
					deliver(h.d)
				} else {
					i++
				}
			}
		}
		if stop() && len(helds) == 0 {
			break
		}
		if delivered > 3000 {
			// the endpoints keep answering each other without virtual time advancing: give up
			break
		}
		if progressed {
			continue
		}
		if len(helds) > 0 {
			h := helds[0]
			helds = helds[1:]
			deliver(h.d)

			continue
		}
		if !time.Now().Before(deadline) {
			break
		}
		tm := time.NewTimer(time.Until(deadline))
		select {
		case <-lab.Net.notify:
		case <-tm.C:
		}
		tm.Stop()
	}

	return next
}

func c11SentChain(d c11Cfg, isClient bool, side *c11Side) {
	if d.Key == 0 {
		return
	}
	cr := c11GetCreds()
	chain := cr.Server[d.Key].Certificate
	if isClient {
		chain = cr.Client[d.Key].Certificate
	}
	side.Sent, side.SentN = c11ChainHash(chain), len(chain)
}

// runC11 runs one association (optionally preceded by a seeding handshake for resumption).
func runC11(t *testing.T, id int, gen string, c, s c11Cfg, resume bool, mask []string) c11Case {
	t.Helper()

	return runC11Opt(t, id, gen, c, s, resume, mask, c11Opt{})
}

func runC11Opt(t *testing.T, id int, gen string, c, s c11Cfg, resume bool, mask []string, opt c11Opt) c11Case {
	t.Helper()
	res := c11Case{Kind: "c11", ID: id, Gen: gen, C: c, S: s, Resume: resume, Mask: mask, Steer: opt.Steer}
	res.Client.Alert, res.Server.Alert = -1, -1
	c11SentChain(c, true, &res.Client)
	c11SentChain(s, false, &res.Server)
	if c.SNI == 1 && s.Key > 0 && s.Key2 > 0 {
		// the chain the client's server name selects
		alt := c11GetCreds().Alt[s.Key2].Certificate
		res.Server.Sent, res.Server.SentN = c11ChainHash(alt), len(alt)
	}
	var cs, ss *c11Store
	if c.Store {
		cs = newC11Store()
	}
	if s.Store {
		ss = newC11Store()
	}
	if resume {
		tmp := c11Case{}
		c0, s0 := c, s
		if opt.SeedC != nil && opt.SeedS != nil {
			c0, s0 = *opt.SeedC, *opt.SeedS
			res.Seed = c11Seed{Used: true, C: c0, S: s0}
			if c0.Store && cs == nil {
				cs = newC11Store()
			}
			if s0.Store && ss == nil {
				ss = newC11Store()
			}
		}
		lab0 := c11NewLab(c0.build(true, cs), s0.build(false, ss), &tmp)
		if lab0 != nil {
			c11Start(lab0)
			c11Pump(lab0, nil, 150*time.Second, nil, lab0.bothDone)
			res.Seeded = lab0.established() && (cs == nil || cs.size() > 0) && (ss == nil || ss.size() > 0)
			if res.Seed.Used {
				var a, b c11Side
				c11Observe(lab0.Client, &a)
				c11Observe(lab0.Server, &b)
				res.Seed.OK, res.Seed.EMS, res.Seed.MSHash = lab0.established(), a.EMS && b.EMS, b.MSHash
			}
			lab0.close()
		}
	}
	ccfg, scfg := c.build(true, cs), s.build(false, ss)
	rewrite := c11SteerApply(&res, ccfg, scfg)
	lab := c11NewLab(ccfg, scfg, &res)
	if lab == nil {
		res.Client.Class, res.Server.Class = "notbuilt", "notbuilt"

		return res
	}
	defer lab.close()
	c11Start(lab)
	wire := newC11Wire(&res)
	limit := 150 * time.Second
	if len(mask) > 0 {
		limit = 500 * time.Second
	}
	next := c11PumpRewrite(lab, mask, limit, wire.feed, lab.bothDone, rewrite)
	res.TDone = lab.Net.now().Milliseconds()
	res.NDgram = next
	res.Storm = next > 3000
	res.Client.Done, res.Server.Done = lab.Client.handshakeDone(), lab.Server.handshakeDone()
	for _, x := range []struct {
		p    *vPeer
		side *c11Side
	}{{lab.Client, &res.Client}, {lab.Server, &res.Server}} {
		if !x.side.Done {
			x.side.Class, x.side.Alert = "pending", -1

			continue
		}
		c11Classify(x.side, x.p.Err, x.p.Name, res.Alerts)
		c11Observe(x.p, x.side)
	}
	// an alert that went out PROTECTED (DTLS 1.3, handshake epoch) is not readable on the wire: the side whose error
	// carries an alert which its peer reports having received did send it
	for _, x := range []struct {
		p           *vPeer
		side, other *c11Side
	}{{lab.Client, &res.Client, &res.Server}, {lab.Server, &res.Server, &res.Client}} {
		var a *alert.Alert
		if x.side.Class == "err" && x.other.Class == "recv" && errors.As(x.p.Err, &a) && int(a.Description) == x.other.Alert {
			x.side.Class, x.side.Alert, x.side.Level, x.side.Hidden = "sent", int(a.Description), int(a.Level), true
		}
	}
	for _, x := range []struct {
		p    *vPeer
		side *c11Side
	}{{lab.Client, &res.Client}, {lab.Server, &res.Server}} {
		x.side.ErrAlert = -1
		var a *alert.Alert
		if x.side.Class == "err" && errors.As(x.p.Err, &a) {
			x.side.ErrAlert = int(a.Description)
		}
	}
	if lab.established() {
		lab.Client.startReader()
		lab.Server.startReader()
		payloads := [][]byte{[]byte("c2s-one"), []byte("c2s-two"), []byte("s2c-one"), []byte("s2c-two")}
		_, e1 := lab.Client.Conn.Write(payloads[0])
		_, e2 := lab.Client.Conn.Write(payloads[1])
		_, e3 := lab.Server.Conn.Write(payloads[2])
		_, e4 := lab.Server.Conn.Write(payloads[3])
		p := &vPump{net: lab.Net, next: next}
		p.run(func() bool { return len(lab.Client.reads()) >= 2 && len(lab.Server.reads()) >= 2 }, 10*time.Second)
		for _, b := range lab.Client.reads() {
			res.Client.Reads = append(res.Client.Reads, string(b))
		}
		for _, b := range lab.Server.reads() {
			res.Server.Reads = append(res.Server.Reads, string(b))
		}
		res.DataOK = e1 == nil && e2 == nil && e3 == nil && e4 == nil &&
			fmt.Sprint(res.Server.Reads) == "[c2s-one c2s-two]" && fmt.Sprint(res.Client.Reads) == "[s2c-one s2c-two]"
	}
	if lab.established() && opt.Steer.SHSessionID && cs != nil && ss != nil {
		// the session the hooked handshake left in the two stores must be one both sides find again: the next
		// connection (same stores, no hook) resumes
		tmp := c11Case{C: c, S: s}
		lab1 := c11NewLab(c.build(true, cs), s.build(false, ss), &tmp)
		if lab1 != nil {
			res.Next.Run = true
			c11Start(lab1)
			w1 := newC11Wire(&tmp)
			c11Pump(lab1, nil, 150*time.Second, w1.feed, lab1.bothDone)
			var a, b c11Side
			c11Observe(lab1.Client, &a)
			c11Observe(lab1.Server, &b)
			res.Next.OK = lab1.established()
			res.Next.CHSidLen, res.Next.SHSidLen, res.Next.SHDSeen = tmp.CH.SessIDLen, tmp.SH.SessIDLen, tmp.SHDSeen
			res.Next.Resumed = res.Next.OK && tmp.CH.SessIDLen > 0 && tmp.SH.SessIDLen > 0 && !tmp.SHDSeen
			res.Next.ClientID, res.Next.ServerID = a.SessID, b.SessID
			lab1.close()
		}
	}

	return res
}

// ---------------------------------------------------------------- generator

var ( //nolint:gochecknoglobals
	c11SuitesECDSA = []int{0xc02b, 0xc02c, 0xc00a, 0xc0ac, 0xc0ae, 0xcca9}
	c11SuitesRSA   = []int{0xc02f, 0xc030, 0xc014, 0xcca8}
	c11SuitesPSK   = []int{0x00a8, 0x00ae, 0xc0a4, 0xc0a8, 0xc0a9, 0xccab}
	c11SuitesEPSK  = []int{0xc037}
	c11Suites13    = []int{0x1301, 0x1302, 0x1303}
	c11CurvesAll   = []int{29, 23, 24, 4588}
	c11SigsAll     = []int{0x0403, 0x0503, 0x0603, 0x0807, 0x0401, 0x0501, 0x0804, 0x0805}
	c11SRTPAll     = []int{1, 2, 7, 8}
	c11MKIs        = []string{"", "", "aa", "bbcc"}
	c11MTUs        = []int{0, 0, 0, 1200, 300, 120}
)

func c11Pick(r *vRand, pool []int, n int) []int {
	idx := r.perm(len(pool))
	if n > len(pool) {
		n = len(pool)
	}
	out := make([]int, 0, n)
	for _, i := range idx[:n] {
		out = append(out, pool[i])
	}

	return out
}

func (r *vRand) perm(n int) []int {
	p := make([]int, n)
	for i := range p {
		p[i] = i
	}
	for i := n - 1; i > 0; i-- {
		j := r.intn(i + 1)
		p[i], p[j] = p[j], p[i]
	}

	return p
}

func c11Shuffle(r *vRand, l []int) []int {
	out := make([]int, 0, len(l))
	for _, i := range r.perm(len(l)) {
		out = append(out, l[i])
	}

	return out
}

// a list that contains `common` plus up to `extra` further elements of pool, shuffled; or nil (default) sometimes
func c11ListWith(r *vRand, pool []int, common []int, extra int, nilPct int) []int {
	if r.chance(nilPct) {
		return nil
	}
	l := append([]int(nil), common...)
	for _, x := range c11Pick(r, pool, r.intn(extra+1)) {
		dup := false
		for _, y := range l {
			if y == x {
				dup = true
			}
		}
		if !dup {
			l = append(l, x)
		}
	}

	return c11Shuffle(r, l)
}

func c11KeySuites(key int) []int {
	if key == 3 {
		return c11SuitesRSA
	}

	return c11SuitesECDSA
}

func c11KeySigs(key int, v13 bool) []int {
	switch key {
	case 1:
		return []int{0x0807}
	case 2:
		return []int{0x0403, 0x0503, 0x0603}
	default:
		if v13 {
			return []int{0x0804, 0x0805}
		}

		return []int{0x0401, 0x0501}
	}
}

// c11GenPair draws a pair that is compatible in every dimension (as far as the generator can tell),
// then optionally empties the intersection of exactly one dimension.
func c11GenPair(r *vRand, breakDim string) (c, s c11Cfg, resume bool) {
	c.CID, s.CID = -1, -1
	// version ranges: common version cv
	ranges := [][2]int{{0, 0}, {2, 2}, {2, 3}, {0, 3}, {3, 3}}
	var cr, sr [2]int
	for {
		cr, sr = ranges[r.intn(len(ranges))], ranges[r.intn(len(ranges))]
		lo := func(x [2]int) int {
			if x[0] == 3 {
				return 3
			}

			return 2
		}
		hi := func(x [2]int) int {
			if x[1] == 3 {
				return 3
			}

			return 2
		}
		bothDual := lo(cr) == 2 && hi(cr) == 3 && lo(sr) == 2 && hi(sr) == 3
		if lo(cr) <= hi(sr) && lo(sr) <= hi(cr) && !(bothDual && r.chance(85)) {
			break
		}
	}
	c.Min, c.Max, s.Min, s.Max = cr[0], cr[1], sr[0], sr[1]
	has12 := func(x [2]int) bool { return x[0] != 3 }
	has13 := func(x [2]int) bool { return x[1] == 3 }
	common13 := has13(cr) && has13(sr)
	// authentication mode
	mode := r.intn(10) // 0-5 cert, 6-8 psk, 9 ecdhe-psk
	key := 1 + r.intn(3)
	if common13 && key == 3 && r.chance(75) {
		key = 1 + r.intn(2) // an RSA key cannot complete DTLS 1.3 (CertificateVerify is not encodable): keep it rare
	}
	switch {
	case mode <= 5 || common13:
		s.Key = key
		if r.chance(25) {
			s.ClientAuth = 1 + r.intn(4)
			c.Key = 1 + r.intn(3)
			if common13 && c.Key == 3 && r.chance(75) {
				c.Key = 1 + r.intn(2)
			}
			if r.chance(15) {
				c.Key = 0
			}
		}
		c.SkipVerify = r.chance(30)
		var c12, s12 []int
		if has12(cr) && has12(sr) || !common13 {
			common := c11Pick(r, c11KeySuites(key), 1+r.intn(2))
			all12 := append(append([]int(nil), c11SuitesECDSA...), c11SuitesRSA...)
			c12 = c11ListWith(r, all12, common, 3, 0)
			s12 = c11ListWith(r, all12, common, 3, 0)
		}
		mk := func(x [2]int, l12 []int) (bool, []int) {
			if r.chance(45) {
				return false, nil
			}
			var l []int
			if has13(x) {
				l = append(l, c11Pick(r, c11Suites13, 1+r.intn(3))...)
			}
			if has12(x) {
				l = append(l, l12...)
			}
			if len(l) == 0 {
				return false, nil
			}

			return true, c11Shuffle(r, l)
		}
		c.SuitesSet, c.Suites = mk(cr, c12)
		s.SuitesSet, s.Suites = mk(sr, s12)
		if common13 && c.SuitesSet && s.SuitesSet {
			// make sure one 1.3 suite is shared
			c.Suites = append(c.Suites, 0x1301)
			s.Suites = append(s.Suites, 0x1301)
			c.Suites, s.Suites = c11Dedup(c.Suites), c11Dedup(s.Suites)
		}
	default:
		c.PSK, s.PSK = true, true
		c.Hint = true
		s.Hint = r.chance(60)
		pool := c11SuitesPSK
		if mode == 9 {
			pool = c11SuitesEPSK
		}
		common := c11Pick(r, pool, 1+r.intn(2))
		allp := append(append([]int(nil), c11SuitesPSK...), c11SuitesEPSK...)
		c.SuitesSet, c.Suites = true, c11ListWith(r, allp, common, 2, 0)
		s.SuitesSet, s.Suites = true, c11ListWith(r, allp, common, 2, 0)
	}
	// curves (X25519MLKEM768 is a DTLS 1.3-only group: a list made of it alone narrows the range)
	cpool := c11CurvesAll[:3]
	if common13 {
		cpool = c11CurvesAll
	}
	ccommon := c11Pick(r, c11CurvesAll[:3], 1)
	c.Curves = c11ListWith(r, cpool, ccommon, 2, 50)
	s.Curves = c11ListWith(r, cpool, ccommon, 2, 50)
	// signature schemes
	if s.Key > 0 {
		need := []int{0x0403} // the chains are signed ecdsa-with-SHA256
		need = append(need, c11KeySigs(s.Key, false)[0], c11KeySigs(s.Key, true)[0])
		if c.Key > 0 {
			need = append(need, c11KeySigs(c.Key, false)[0], c11KeySigs(c.Key, true)[0])
		}
		need = c11Dedup(need)
		c.Sigs = c11ListWith(r, c11SigsAll, need, 2, 55)
		s.Sigs = c11ListWith(r, c11SigsAll, need, 2, 55)
		if r.chance(15) {
			c.CSigs = c11ListWith(r, c11SigsAll, []int{0x0403}, 2, 0)
		}
	}
	// EMS
	c.EMS, s.EMS = r.intn(3), r.intn(3)
	if c.EMS == 1 && s.EMS == 2 || c.EMS == 2 && s.EMS == 1 {
		s.EMS = 0
		c.EMS = r.intn(2)
	}
	// SRTP
	if r.chance(50) {
		com := c11Pick(r, c11SRTPAll, 1)
		c.SRTP = c11ListWith(r, c11SRTPAll, com, 2, 0)
		s.SRTP = c11ListWith(r, c11SRTPAll, com, 2, 0)
		c.MKI = c11MKIs[r.intn(len(c11MKIs))]
		if r.chance(50) {
			s.MKI = c.MKI
		} else {
			s.MKI = c11MKIs[r.intn(len(c11MKIs))]
		}
	}
	// ALPN
	switch r.intn(4) {
	case 0:
		com := c11Pick(r, []int{1, 2, 3}, 1)
		c.ALPN = c11ListWith(r, []int{1, 2, 3, 4}, com, 2, 0)
		s.ALPN = c11ListWith(r, []int{1, 2, 3, 4}, com, 2, 0)
	case 1:
		if r.chance(50) {
			c.ALPN = c11Pick(r, []int{1, 2, 3}, 1+r.intn(2))
		} else {
			s.ALPN = c11Pick(r, []int{1, 2, 3}, 1+r.intn(2))
		}
	default:
	}
	// connection IDs
	cids := []int{-1, -1, 0, 4, 8}
	c.CID, s.CID = cids[r.intn(len(cids))], cids[r.intn(len(cids))]
	s.SkipHV = r.chance(30)
	if r.chance(30) {
		c.Store, s.Store = true, true
		resume = r.chance(60)
		if r.chance(10) {
			s.Store = false
		}
	}
	// a second server certificate for another name, and which name the client asks for
	if s.Key > 0 && r.chance(14) {
		s.Key2 = 1 + r.intn(3)
		if common13 && s.Key2 == 3 && r.chance(50) {
			s.Key2 = 1 + r.intn(2)
		}
		c.SNI = r.intn(2)
	} else if s.Key > 0 && r.chance(2) {
		c.SNI = 1 // a name the server has no certificate for
	}
	m := c11MTUs[r.intn(len(c11MTUs))]
	c.MTU, s.MTU = m, m
	if r.chance(10) {
		s.MTU = c11MTUs[r.intn(len(c11MTUs))]
	}

	// ---- single-dimension empty intersection
	switch breakDim {
	case "version":
		if r.chance(50) {
			c.Min, c.Max, s.Min, s.Max = 0, 0, 3, 3
		} else {
			c.Min, c.Max, s.Min, s.Max = 3, 3, 2, 2
		}
		c.SuitesSet, c.Suites, s.SuitesSet, s.Suites = false, nil, false, nil
		if c.PSK {
			c.PSK, c.Hint, s.PSK, s.Hint = false, false, false, false
			s.Key = 1
		}
		c.Curves, s.Curves = nil, nil
	case "suite":
		if s.Key > 0 && !(c.Max == 3 && s.Max == 3) {
			// client offers only suites of the other key family
			other := c11SuitesRSA
			if s.Key == 3 {
				other = c11SuitesECDSA
			}
			c.SuitesSet, c.Suites = true, c11Pick(r, other, 1+r.intn(3))
			c.Min, c.Max = 0, 0
			if s.Min == 3 {
				s.Min = 2
			}
		} else if c.PSK {
			a := c11Pick(r, c11SuitesPSK, 4)
			c.Suites, s.Suites = a[:2], a[2:]
		} else {
			c.SuitesSet, c.Suites = true, []int{0x1302}
			s.SuitesSet, s.Suites = true, []int{0x1303}
			c.Min, c.Max, s.Min, s.Max = 3, 3, 3, 3
		}
	case "authmode":
		// PSK client against a certificate server (or the reverse)
		if c.PSK {
			s.PSK, s.Hint, s.Key = false, false, 1
			s.SuitesSet, s.Suites = false, nil
		} else {
			c.PSK, c.Hint = true, true
			c.Key = 0
			c.SuitesSet, c.Suites = true, c11Pick(r, c11SuitesPSK, 2)
			c.Min, c.Max = 0, 0
			if s.Min == 3 {
				s.Min = 2
			}
		}
	case "curve":
		a := c11Pick(r, c11CurvesAll[:3], 3)
		c.Curves, s.Curves = a[:1+r.intn(2)], a[2:]
	case "sig":
		if s.Key > 0 {
			// the client allows nothing the server's key can sign with
			var l []int
			for _, x := range c11SigsAll {
				bad := false
				for _, y := range append(c11KeySigs(s.Key, false), c11KeySigs(s.Key, true)...) {
					if x == y {
						bad = true
					}
				}
				if !bad {
					l = append(l, x)
				}
			}
			c.Sigs = c11Shuffle(r, l)
			if s.Key != 2 {
				c.Sigs = c11Dedup(append([]int{0x0403}, c.Sigs...))
			}
			if r.chance(50) {
				s.Sigs, c.Sigs = c.Sigs, nil
			}
		}
	case "ems":
		if r.chance(50) {
			c.EMS, s.EMS = 1, 2
		} else {
			c.EMS, s.EMS = 2, 1
		}
	case "srtp":
		a := c11Pick(r, c11SRTPAll, 4)
		switch r.intn(3) {
		case 0:
			c.SRTP, s.SRTP = a[:2], a[2:]
		case 1:
			c.SRTP, s.SRTP = nil, a[:2]
		default:
			c.SRTP, s.SRTP = a[:2], nil
		}
	case "alpn":
		a := c11Pick(r, []int{1, 2, 3, 4}, 4)
		c.ALPN, s.ALPN = a[:1+r.intn(2)], a[2:]
	case "keytype":
		// server certificate whose key type fits none of the server's own / the client's suites
		if s.Key > 0 {
			fam := c11SuitesRSA
			if s.Key == 3 {
				fam = c11SuitesECDSA
			}
			if r.chance(50) {
				s.SuitesSet, s.Suites = true, c11Pick(r, fam, 2)
				s.Min, s.Max = 0, 0
				if c.Min == 3 {
					c.Min = 2
				}
			} else {
				// mixed list on a dual-stack server: the 1.2 part is wiped out by the key type
				s.SuitesSet, s.Suites = true, append(c11Pick(r, fam, 1+r.intn(2)), 0x1301)
				s.Min, s.Max = 2, 3
				c.Min, c.Max = 0, 0
				c.SuitesSet, c.Suites = false, nil
			}
		}
	default:
	}

	return c, s, resume
}

func c11Dedup(l []int) []int {
	var out []int
	seen := map[int]bool{}
	for _, x := range l {
		if !seen[x] {
			seen[x] = true
			out = append(out, x)
		}
	}

	return out
}

// fully independent draws for both sides
func c11GenRandom(r *vRand) (c, s c11Cfg, resume bool) {
	one := func(isClient bool) c11Cfg {
		var d c11Cfg
		ranges := [][2]int{{0, 0}, {2, 2}, {2, 3}, {0, 3}, {3, 3}, {3, 2}, {3, 0}}
		x := ranges[r.intn(len(ranges)-2)]
		if r.chance(4) {
			x = ranges[len(ranges)-2+r.intn(2)]
		}
		d.Min, d.Max = x[0], x[1]
		all := append(append(append(append(append([]int(nil), c11SuitesECDSA...), c11SuitesRSA...), c11SuitesPSK...), c11SuitesEPSK...), c11Suites13...)
		if r.chance(60) {
			d.SuitesSet = true
			d.Suites = c11Pick(r, all, 1+r.intn(5))
		}
		d.PSK = r.chance(30)
		d.Hint = d.PSK && (isClient || r.chance(50))
		if !isClient || r.chance(30) {
			d.Key = r.intn(4)
		}
		if !isClient && d.Key == 0 && !d.PSK {
			d.Key = 1 + r.intn(3)
		}
		if isClient && d.PSK {
			d.Key = 0
		}
		if !isClient && r.chance(20) {
			d.ClientAuth = r.intn(5)
		}
		d.SkipVerify = r.chance(50)
		if r.chance(50) {
			d.Curves = c11Pick(r, c11CurvesAll, 1+r.intn(3))
		}
		if r.chance(40) {
			d.Sigs = c11Pick(r, c11SigsAll, 1+r.intn(5))
		}
		d.EMS = r.intn(3)
		if r.chance(30) {
			d.SRTP = c11Pick(r, c11SRTPAll, 1+r.intn(3))
			d.MKI = c11MKIs[r.intn(len(c11MKIs))]
		}
		if r.chance(30) {
			d.ALPN = c11Pick(r, []int{1, 2, 3}, 1+r.intn(2))
		}
		d.CID = []int{-1, -1, 0, 4, 8}[r.intn(5)]
		d.SkipHV = r.chance(30)
		d.Store = r.chance(20)
		d.MTU = c11MTUs[r.intn(len(c11MTUs))]

		return d
	}
	c, s = one(true), one(false)

	return c, s, c.Store && s.Store && r.chance(50)
}

var c11BreakDims = []string{ //nolint:gochecknoglobals
	"version", "suite", "authmode", "curve", "sig", "ems", "srtp", "alpn", "keytype",
}

type c11Job struct {
	gen    string
	c, s   c11Cfg
	resume bool
	mask   []string
	opt    c11Opt
}

// reduced lattice: two values per dimension, every combination
func c11Lattice() []c11Job {
	var jobs []c11Job
	type dim struct {
		name string
		set  func(c, s *c11Cfg, v int)
	}
	dims := []dim{
		{"cver", func(c, _ *c11Cfg, v int) { c.Min, c.Max = 0, []int{0, 3}[v] }},
		{"sver", func(_, s *c11Cfg, v int) { s.Min, s.Max = []int{0, 3}[v], []int{0, 3}[v] }},
		{"csuites", func(c, _ *c11Cfg, v int) {
			if v == 1 {
				c.SuitesSet, c.Suites = true, []int{0xc02c, 0xc02b, 0x1302, 0x1301}
			}
		}},
		{"ssuites", func(_, s *c11Cfg, v int) {
			if v == 1 {
				s.SuitesSet, s.Suites = true, []int{0x1301, 0xc02b, 0xc02f}
			}
		}},
		{"ccurves", func(c, _ *c11Cfg, v int) {
			if v == 1 {
				c.Curves = []int{24, 23}
			}
		}},
		{"scurves", func(_, s *c11Cfg, v int) {
			if v == 1 {
				s.Curves = []int{23, 29}
			}
		}},
		{"skey", func(_, s *c11Cfg, v int) { s.Key = []int{1, 2}[v] }},
		{"cems", func(c, _ *c11Cfg, v int) { c.EMS = []int{1, 2}[v] }},
		{"sems", func(_, s *c11Cfg, v int) { s.EMS = []int{0, 1}[v] }},
		{"csrtp", func(c, _ *c11Cfg, v int) {
			if v == 1 {
				c.SRTP, c.MKI = []int{1, 7}, "aa"
			}
		}},
		{"ssrtp", func(_, s *c11Cfg, v int) {
			if v == 1 {
				s.SRTP, s.MKI = []int{7, 2}, "aa"
			}
		}},
		{"calpn", func(c, _ *c11Cfg, v int) {
			if v == 1 {
				c.ALPN = []int{1, 2}
			}
		}},
		{"salpn", func(_, s *c11Cfg, v int) {
			if v == 1 {
				s.ALPN = []int{2, 3}
			}
		}},
		{"cid", func(c, s *c11Cfg, v int) {
			if v == 1 {
				c.CID, s.CID = 4, 0
			}
		}},
	}
	n := len(dims)
	for code := 0; code < 1<<n; code++ {
		var c, s c11Cfg
		c.CID, s.CID = -1, -1
		for i, d := range dims {
			d.set(&c, &s, (code>>i)&1)
		}
		jobs = append(jobs, c11Job{gen: "lattice", c: c, s: s})
	}

	return jobs
}

func c11Jobs(r *vRand, n int) []c11Job {
	var jobs []c11Job
	for i := 0; i < n; i++ {
		x := r.intn(100)
		switch {
		case x < 62:
			c, s, res := c11GenPair(r, "")
			jobs = append(jobs, c11Job{gen: "compatible", c: c, s: s, resume: res})
		case x < 90:
			d := c11BreakDims[r.intn(len(c11BreakDims))]
			c, s, res := c11GenPair(r, d)
			jobs = append(jobs, c11Job{gen: "break:" + d, c: c, s: s, resume: res})
		default:
			c, s, res := c11GenRandom(r)
			jobs = append(jobs, c11Job{gen: "random", c: c, s: s, resume: res})
		}
	}

	return jobs
}

func TestVerifC11(t *testing.T) {
	out := newVOut(t)
	c11GetCreds()
	r := newVRand(vSeed() ^ 0xc11)
	n := 420
	if vIsThorough() {
		n = 12000
	}
	if v := os.Getenv("VERIF_C11_N"); v != "" {
		fmt.Sscanf(v, "%d", &n)
	}
	jobs := c11Jobs(r, n)
	// every break dimension at least a few times, deterministic part
	for _, d := range c11BreakDims {
		for k := 0; k < 4; k++ {
			c, s, res := c11GenPair(r, d)
			jobs = append(jobs, c11Job{gen: "break:" + d, c: c, s: s, resume: res})
		}
	}
	lat := c11Lattice()
	if !vIsThorough() {
		// quick tier: a seeded sample of the lattice
		idx := r.perm(len(lat))[:160]
		sort.Ints(idx)
		var l2 []c11Job
		for _, i := range idx {
			l2 = append(l2, lat[i])
		}
		lat = l2
	}
	jobs = append(jobs, lat...)
	for i, j := range jobs {
		j := j
		var res c11Case
		vBubble(t, func(t *testing.T) { res = runC11(t, i, j.gen, j.c, j.s, j.resume, nil) })
		out.emit(res)
	}
}

// c11RegressPairs: one fixed pair per behaviour the check has to keep seeing (controls first).
func c11RegressPairs() []c11Job {
	var jobs []c11Job
	add := func(name string, f func(c, s *c11Cfg)) {
		var c, s c11Cfg
		c.CID, s.CID = -1, -1
		f(&c, &s)
		jobs = append(jobs, c11Job{gen: "regress:" + name, c: c, s: s})
	}
	add("control-cert12", func(_, s *c11Cfg) { s.Key = 1 })
	add("control-cert13", func(c, s *c11Cfg) { s.Key = 2; c.Min, c.Max, s.Min, s.Max = 3, 3, 3, 3 })
	add("control-dualclient-12server", func(c, s *c11Cfg) { s.Key = 1; c.Min, c.Max = 2, 3 })
	add("control-12client-dualserver", func(_, s *c11Cfg) { s.Key = 1; s.Min, s.Max = 2, 3 })
	add("control-13client-dualserver", func(c, s *c11Cfg) { s.Key = 1; c.Min, c.Max, s.Min, s.Max = 3, 3, 2, 3 })
	add("control-dualclient-13server", func(c, s *c11Cfg) { s.Key = 1; c.Min, c.Max, s.Min, s.Max = 2, 3, 3, 3 })
	// the server's suite list is wiped out by its own key type: HandshakeContext returns without an alert
	add("server-suites-empty-after-key-filter", func(_, s *c11Cfg) {
		s.Key = 1
		s.SuitesSet, s.Suites = true, []int{0xc02f}
	})
	// ... or by the negotiated version on a dual-stack server
	add("server-suites-empty-after-version-filter", func(_, s *c11Cfg) {
		s.Key = 1
		s.Min, s.Max = 2, 3
		s.SuitesSet, s.Suites = true, []int{0x1301, 0xc02f}
	})
	add("rsa-server-dtls13", func(c, s *c11Cfg) { s.Key = 3; c.Min, c.Max, s.Min, s.Max = 3, 3, 3, 3 })
	add("rsa-client-dtls13", func(c, s *c11Cfg) {
		s.Key, c.Key, s.ClientAuth = 1, 3, 2
		c.Min, c.Max, s.Min, s.Max = 3, 3, 3, 3
	})
	add("dual-stack-both", func(c, s *c11Cfg) { s.Key = 1; c.Min, c.Max, s.Min, s.Max = 2, 3, 2, 3 })
	add("dual-client-13server-skip-hello-verify", func(c, s *c11Cfg) {
		s.Key = 1
		c.Min, c.Max, s.Min, s.Max = 2, 3, 3, 3
		c.Curves = []int{29}
		s.SkipHV = true
	})
	add("alert-with-connection-id", func(c, s *c11Cfg) {
		s.Key = 2
		c.Sigs, s.Sigs = []int{0x0403}, []int{0x0503, 0x0403}
		c.CID, s.CID = 0, 4
	})
	add("alpn-disjoint-dtls13", func(c, s *c11Cfg) {
		s.Key = 1
		c.Min, c.Max, s.Min, s.Max = 3, 3, 3, 3
		c.ALPN, s.ALPN = []int{1}, []int{2}
	})
	add("alpn-disjoint-dtls12", func(c, s *c11Cfg) { s.Key = 1; c.ALPN, s.ALPN = []int{1}, []int{2} })
	add("client-certificate-verify-scheme", func(c, s *c11Cfg) {
		s.Key, c.Key, s.ClientAuth = 1, 2, 2
		c.SkipVerify = true
		c.Sigs = []int{0x0503, 0x0807}
	})
	// a fatal alert raised after the DTLS 1.3 handshake keys exist goes out unprotected and is ignored by the peer
	add("client-certificate-required-dtls13", func(c, s *c11Cfg) {
		s.Key, s.ClientAuth = 1, 4
		c.Min, c.Max, s.Min, s.Max = 3, 3, 3, 3
	})
	add("client-certificate-required-dtls12", func(_, s *c11Cfg) { s.Key, s.ClientAuth = 1, 4 })
	// client authentication with no scheme that both lists allow for the client's key: the client refuses
	// (insufficient_security) instead of signing outside its own policy
	add("client-certificate-verify-no-common-scheme", func(c, s *c11Cfg) {
		s.Key, c.Key, s.ClientAuth = 1, 2, 2
		c.SkipVerify = true
		c.Sigs, s.Sigs = []int{0x0807, 0x0503}, []int{0x0807, 0x0403}
	})
	add("server-ignores-client-signature-algorithms", func(c, s *c11Cfg) {
		s.Key = 2
		c.Sigs, s.Sigs = []int{0x0403}, []int{0x0503, 0x0403}
	})
	add("ems-required-vs-disabled", func(c, s *c11Cfg) { s.Key = 1; c.EMS, s.EMS = 1, 2 })
	add("ems-disabled-vs-required", func(c, s *c11Cfg) { s.Key = 1; c.EMS, s.EMS = 2, 1 })
	add("no-common-curve-12", func(c, s *c11Cfg) { s.Key = 1; c.Curves, s.Curves = []int{29}, []int{23} })
	add("no-common-curve-13", func(c, s *c11Cfg) {
		s.Key = 1
		c.Min, c.Max, s.Min, s.Max = 3, 3, 3, 3
		c.Curves, s.Curves = []int{29}, []int{23}
	})
	add("no-common-srtp", func(c, s *c11Cfg) { s.Key = 1; c.SRTP, s.SRTP = []int{1}, []int{7} })
	add("srtp-only-client", func(c, s *c11Cfg) { s.Key = 1; c.SRTP = []int{1} })
	add("srtp-only-server", func(_, s *c11Cfg) { s.Key = 1; s.SRTP = []int{1} })
	add("version-12-vs-13", func(_, s *c11Cfg) { s.Key = 1; s.Min, s.Max = 3, 3 })
	add("version-13-vs-12", func(c, s *c11Cfg) { s.Key = 1; c.Min, c.Max = 3, 3 })
	add("psk-client-cert-server", func(c, s *c11Cfg) {
		s.Key = 1
		c.PSK, c.Hint = true, true
		c.SuitesSet, c.Suites = true, []int{0x00a8}
	})

	return jobs
}

func TestVerifC11Regress(t *testing.T) {
	out := newVOut(t)
	c11GetCreds()
	for i, j := range c11RegressPairs() {
		j := j
		var res c11Case
		vBubble(t, func(t *testing.T) { res = runC11(t, i, j.gen, j.c, j.s, j.resume, nil) })
		out.emit(res)
	}
}
