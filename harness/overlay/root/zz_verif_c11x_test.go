//go:build verif

package dtls

import (
	"encoding/json"
	"fmt"
	"os"
	"testing"

	"github.com/pion/logging"
)

type c11xLogger struct{ scope string }

func (l *c11xLogger) p(lv, f string, a ...any) {
	fmt.Printf("      [%s %s] %s\n", l.scope, lv, fmt.Sprintf(f, a...))
}
func (l *c11xLogger) Trace(m string)            { l.p("T", "%s", m) }
func (l *c11xLogger) Tracef(f string, a ...any) { l.p("T", f, a...) }
func (l *c11xLogger) Debug(m string)            { l.p("D", "%s", m) }
func (l *c11xLogger) Debugf(f string, a ...any) { l.p("D", f, a...) }
func (l *c11xLogger) Info(m string)             { l.p("I", "%s", m) }
func (l *c11xLogger) Infof(f string, a ...any)  { l.p("I", f, a...) }
func (l *c11xLogger) Warn(m string)             { l.p("W", "%s", m) }
func (l *c11xLogger) Warnf(f string, a ...any)  { l.p("W", f, a...) }
func (l *c11xLogger) Error(m string)            { l.p("E", "%s", m) }
func (l *c11xLogger) Errorf(f string, a ...any) { l.p("E", f, a...) }

type c11xFactory struct{ side string }

func (f c11xFactory) NewLogger(scope string) logging.LeveledLogger {
	return &c11xLogger{scope: f.side + "/" + scope}
}

func TestVerifC11X(t *testing.T) {
	c11GetCreds()
	var c, s c11Cfg
	if err := json.Unmarshal([]byte(os.Getenv("C11X_C")), &c); err != nil {
		t.Fatal(err)
	}
	if err := json.Unmarshal([]byte(os.Getenv("C11X_S")), &s); err != nil {
		t.Fatal(err)
	}
	if os.Getenv("C11X_LOG") != "" {
		c11ConfigHook = func(c, s *dtlsConfig) {
			c.LoggerFactory = c11xFactory{"C"}
			s.LoggerFactory = c11xFactory{"S"}
		}
		defer func() { c11ConfigHook = nil }()
	}
	// optional: C11X_STEER = a c11Steer (on-path rewrite / rogue ServerHello), C11X_SEED_C / C11X_SEED_S = the option
	// sets of the association that seeds the session stores (with C11X_RESUME=1)
	var opt c11Opt
	if v := os.Getenv("C11X_STEER"); v != "" {
		if err := json.Unmarshal([]byte(v), &opt.Steer); err != nil {
			t.Fatal(err)
		}
		opt.Steer.Applied = 0
	}
	if v, w := os.Getenv("C11X_SEED_C"), os.Getenv("C11X_SEED_S"); v != "" && w != "" {
		var c0, s0 c11Cfg
		if err := json.Unmarshal([]byte(v), &c0); err != nil {
			t.Fatal(err)
		}
		if err := json.Unmarshal([]byte(w), &s0); err != nil {
			t.Fatal(err)
		}
		opt.SeedC, opt.SeedS = &c0, &s0
	}
	// optional: C11X_MASK = the network script (JSON list of pass/drop/dup/hold:k per emitted datagram), C11X_GEN = label
	var mask []string
	if v := os.Getenv("C11X_MASK"); v != "" {
		if err := json.Unmarshal([]byte(v), &mask); err != nil {
			t.Fatal(err)
		}
	}
	gen := "x"
	if v := os.Getenv("C11X_GEN"); v != "" {
		gen = v
	}
	var res c11Case
	vBubble(t, func(t *testing.T) { res = runC11Opt(t, 0, gen, c, s, os.Getenv("C11X_RESUME") == "1", mask, opt) })
	b, _ := json.Marshal(res)
	fmt.Println(string(b))
	if out := os.Getenv("VERIF_OUT"); out != "" {
		_ = os.WriteFile(out, append(b, '\n'), 0o600)
	}
}
