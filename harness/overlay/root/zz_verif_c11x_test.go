//go:build verif

package dtls

import (
	"encoding/json"
	"fmt"
	"os"
	"testing"
)

func TestVerifC11X(t *testing.T) {
	c11GetCreds()
	var c, s c11Cfg
	if err := json.Unmarshal([]byte(os.Getenv("C11X_C")), &c); err != nil {
		t.Fatal(err)
	}
	if err := json.Unmarshal([]byte(os.Getenv("C11X_S")), &s); err != nil {
		t.Fatal(err)
	}
	var res c11Case
	vBubble(t, func(t *testing.T) { res = runC11(t, 0, "x", c, s, os.Getenv("C11X_RESUME") == "1", nil) })
	b, _ := json.Marshal(res)
	fmt.Println(string(b))
}
