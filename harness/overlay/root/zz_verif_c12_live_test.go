//go:build verif

package dtls

// C12 live leg: the reassembly path of real endpoints (conn.go readAndBuffer -> bufferHandshakeRecord ->
// FragmentBuffer -> handshake cache) in situations the fragment-buffer histories cannot express:
//   repartition   a ClientHello whose retransmission is cut with another fragment size
//   epoch-splice  a forged epoch-0 fragment of the (protected) DTLS 1.3 Certificate message
//   jumbo         an MTU larger than what the receiving side of the same library reads per datagram
//   record-len    an MTU larger than what one record can carry
//   train         the library's own sender cutting one message into more fragments than the
//                 receiver's fixed limit (fragmentBufferMaxCount)
// Every scenario has a control run in the same lab that differs only in the one parameter; the
// driver (checks/c12.py) judges the printed observations.

import (
	"bytes"
	"crypto/ed25519"
	"crypto/tls"
	"crypto/x509"
	"crypto/x509/pkix"
	"fmt"
	"math/big"
	"testing"
	"testing/synctest"
	"time"

	"github.com/pion/dtls/v3/pkg/protocol"
	"github.com/pion/dtls/v3/pkg/protocol/handshake"
)

type c12LiveObs struct {
	Scenario string `json:"scenario"`
	Variant  string `json:"variant"` // control | test
	Params   string `json:"params"`
	// outcome
	Done      bool   `json:"done"` // both handshakes returned within the virtual time limit
	CErr      string `json:"cerr"`
	SErr      string `json:"serr"`
	Answered  bool   `json:"answered"`  // repartition: the server sent anything back
	VirtualMs int64  `json:"virtualms"` // virtual time used
	// wire
	Datagrams     int  `json:"datagrams"`
	LargestDgram  int  `json:"largest"`       // largest datagram the observed sender wrote
	InboundBuffer int  `json:"inboundbuffer"` // conn.go inboundBufferSize
	MaxFragBody   int  `json:"maxfragbody"`   // largest fragment_length seen in an epoch-0 handshake record of the sender
	MTU           int  `json:"mtu"`           // the sender's configured MTU
	WireBad       int  `json:"wirebad"`       // epoch-0 handshake records whose record length != 12 + fragment_length, or stray bytes
	WireBadWhat   string `json:"wirebadwhat,omitempty"`
	TrainMsgLen   int  `json:"trainmsglen"` // Length of the longest epoch-0 message the sender emitted
	TrainFrags    int  `json:"trainfrags"`  // number of distinct fragments (offsets) of that message
	TrainMsgType  int  `json:"trainmsgtype"`
	// repartition
	MsgLen int      `json:"msglen,omitempty"`
	Parts  [][2]int `json:"parts,omitempty"` // (offset, length) of every fragment delivered, in order
	Cover  bool     `json:"cover"`           // the delivered fragments cover [0, msglen)
	// epoch-splice
	CertSeq      int    `json:"certseq"`
	CertLen      int    `json:"certlen"`
	CertEpochRx  int    `json:"certepochrx"`  // epoch under which the client cached the server's Certificate (-1: not cached)
	CertSame     bool   `json:"certsame"`     // cached bytes == bytes the server sent
	ForgedInside bool   `json:"forgedinside"` // the forged filler bytes are inside the cached message
	Forged       string `json:"forged,omitempty"`
}

// self-signed Ed25519 certificate (deterministic: fixed key seed, Ed25519 signing uses no randomness)
// for "server.verif" whose DER encoding is padded with DNS names to about `approx` bytes.
func c12Cert(t *testing.T, approx int) (tls.Certificate, *x509.CertPool) {
	t.Helper()
	seed := bytes.Repeat([]byte{0x12}, ed25519.SeedSize)
	priv := ed25519.NewKeyFromSeed(seed)
	names := []string{"server.verif"}
	for i := 0; 300+len(names)*43 < approx; i++ {
		names = append(names, fmt.Sprintf("pad-%030d.verif", i))
	}
	tpl := &x509.Certificate{
		SerialNumber: big.NewInt(12), Subject: pkix.Name{CommonName: "server.verif"},
		NotBefore: time.Unix(0, 0), NotAfter: time.Date(2100, 1, 1, 0, 0, 0, 0, time.UTC),
		KeyUsage: x509.KeyUsageDigitalSignature, ExtKeyUsage: []x509.ExtKeyUsage{x509.ExtKeyUsageServerAuth},
		DNSNames: names, BasicConstraintsValid: true,
	}
	der, err := x509.CreateCertificate(bytes.NewReader(make([]byte, 64)), tpl, tpl, priv.Public(), priv)
	if err != nil {
		t.Fatalf("c12Cert: %v", err)
	}
	leaf, err := x509.ParseCertificate(der)
	if err != nil {
		t.Fatalf("c12Cert: %v", err)
	}
	pool := x509.NewCertPool()
	pool.AddCert(leaf)

	return tls.Certificate{Certificate: [][]byte{der}, PrivateKey: priv, Leaf: leaf}, pool
}

func c12Pair(t *testing.T, version protocol.Version, certBytes, serverMTU int) (*dtlsConfig, *dtlsConfig) {
	t.Helper()
	c, s := vCertPair()
	if certBytes > 0 {
		cert, pool := c12Cert(t, certBytes)
		s.Certificates = []tls.Certificate{cert}
		c.RootCAs = pool
	}
	c.MinVersion, c.MaxVersion = version, version
	s.MinVersion, s.MaxVersion = version, version
	if serverMTU > 0 {
		s.MTU = serverMTU
	}

	return c, s
}

// wire statistics of everything `from` wrote
func c12Wire(lab *vLab, from string, obs *c12LiveObs) {
	frags := map[int]map[int]bool{}
	mlen, mty := map[int]int{}, map[int]int{}
	for _, d := range lab.Net.since(0) {
		obs.Datagrams++
		if d.From != from {
			continue
		}
		if len(d.Data) > obs.LargestDgram {
			obs.LargestDgram = len(d.Data)
		}
		// walk the records as their declared lengths say
		b := d.Data
		for len(b) > 0 {
			if protocol.IsDTLS13Ciphertext(protocol.ContentType(b[0])) {
				break // protected DTLS 1.3 records are not inspected here
			}
			if len(b) < 13 {
				obs.WireBad++
				obs.WireBadWhat = fmt.Sprintf("datagram %d: %d stray bytes after the last declared record", d.Idx, len(b))

				break
			}
			declared := int(b[11])<<8 | int(b[12])
			epoch := int(b[3])<<8 | int(b[4])
			if 13+declared > len(b) {
				obs.WireBad++
				obs.WireBadWhat = fmt.Sprintf("datagram %d: record declares %d content bytes, %d left", d.Idx, declared, len(b)-13)

				break
			}
			if b[0] == byte(protocol.ContentTypeHandshake) && epoch == 0 && declared >= 12 {
				h := b[13:]
				ty := int(h[0])
				length := int(h[1])<<16 | int(h[2])<<8 | int(h[3])
				seq := int(h[4])<<8 | int(h[5])
				off := int(h[6])<<16 | int(h[7])<<8 | int(h[8])
				fl := int(h[9])<<16 | int(h[10])<<8 | int(h[11])
				if 12+fl != declared {
					obs.WireBad++
					obs.WireBadWhat = fmt.Sprintf("datagram %d: handshake type %d fragment_length %d but the record "+
						"header declares %d content bytes", d.Idx, ty, fl, declared)
				}
				if fl > obs.MaxFragBody {
					obs.MaxFragBody = fl
				}
				if frags[seq] == nil {
					frags[seq] = map[int]bool{}
				}
				frags[seq][off] = true
				mlen[seq], mty[seq] = length, ty
			}
			b = b[13+declared:]
		}
	}
	for seq, l := range mlen {
		if l > obs.TrainMsgLen {
			obs.TrainMsgLen, obs.TrainFrags, obs.TrainMsgType = l, len(frags[seq]), mty[seq]
		}
	}
}

// one complete handshake in the lab; `before` may inject datagrams before anything is delivered
func c12Handshake(t *testing.T, obs *c12LiveObs, ccfg, scfg *dtlsConfig, limit time.Duration,
	before func(lab *vLab), after func(lab *vLab),
) {
	t.Helper()
	start := time.Now()
	lab := newLab(t, ccfg, scfg)
	defer lab.close()
	if before != nil {
		before(lab)
	}
	lab.Pump.run(lab.bothDone, limit)
	obs.Done = lab.bothDone()
	obs.CErr, obs.SErr = "pending", "pending"
	if lab.Client.handshakeDone() {
		obs.CErr = vErrString(lab.Client.Err)
	}
	if lab.Server.handshakeDone() {
		obs.SErr = vErrString(lab.Server.Err)
	}
	obs.VirtualMs = time.Since(start).Milliseconds()
	obs.InboundBuffer = inboundBufferSize
	obs.MTU = scfg.MTU
	c12Wire(lab, "server", obs)
	if after != nil {
		after(lab)
	}
}

// ---------------------------------------------------------------- repartition (K-C12-1, live)

func c12Cut(total, size int) [][2]int {
	var out [][2]int
	for off := 0; off < total; off += size {
		out = append(out, [2]int{off, min(size, total-off)})
	}

	return out
}

// A real client is only the source of a well-formed (large: 40 ALPN names) ClientHello; the harness
// re-cuts its body and plays the client towards a real DTLS 1.2 server.
func c12Repartition(t *testing.T, variant string, mk func(total int) [][2]int) c12LiveObs {
	t.Helper()
	obs := c12LiveObs{Scenario: "repartition", Variant: variant}
	c, s := c12Pair(t, protocol.Version1_2, 0, 0)
	for i := 0; i < 40; i++ {
		c.SupportedProtocols = append(c.SupportedProtocols, fmt.Sprintf("verif-proto-%013d", i))
	}
	s.SupportedProtocols = []string{c.SupportedProtocols[0]}
	start := time.Now()
	n := newVNet()
	cep, sep := n.endpoint("client"), n.endpoint("server")
	cli, err := clientWithConfig(cep, vAddr("server"), c)
	if err != nil {
		t.Fatal(err)
	}
	srv, err := serverWithConfig(sep, vAddr("client"), s)
	if err != nil {
		t.Fatal(err)
	}
	cdone, sdone := make(chan struct{}), make(chan struct{})
	go func() { _ = cli.HandshakeContext(t.Context()); close(cdone) }()
	synctest.Wait()
	// the client's first flight: reassemble the ClientHello body from its fragments
	var ty, seq, total int
	var body []byte
	for _, d := range n.since(0) {
		for _, r := range vParseDatagram(d.Data, 0) {
			if r.CT != int(protocol.ContentTypeHandshake) || r.HType != int(handshake.TypeClientHello) {
				continue
			}
			if body == nil {
				ty, seq, total = r.HType, r.MsgSeq, r.TLen
				body = make([]byte, total)
			}
			copy(body[r.FOff:], r.Raw[13+12:13+12+r.FLen])
		}
	}
	_ = cli.Close()
	_ = cep.Close()
	<-cdone
	if total < 700 {
		t.Fatalf("c12Repartition: ClientHello of %d bytes is too small for the scenario", total)
	}
	mark := n.count()
	go func() { _ = srv.HandshakeContext(t.Context()); close(sdone) }()
	synctest.Wait()
	obs.MsgLen = total
	obs.Parts = mk(total)
	covered := make([]bool, total)
	for i, p := range obs.Parts {
		hdr := []byte{
			byte(ty), byte(total >> 16), byte(total >> 8), byte(total), byte(seq >> 8), byte(seq),
			byte(p[0] >> 16), byte(p[0] >> 8), byte(p[0]), byte(p[1] >> 16), byte(p[1] >> 8), byte(p[1]),
		}
		content := append(hdr, body[p[0]:p[0]+p[1]]...)
		rec := []byte{22, 0xfe, 0xfd, 0, 0, 0, 0, 0, 0, 0, byte(i), byte(len(content) >> 8), byte(len(content))}
		n.deliver("server", "client", append(rec, content...))
		synctest.Wait()
		for k := p[0]; k < p[0]+p[1]; k++ {
			covered[k] = true
		}
	}
	obs.Cover = true
	for _, c := range covered {
		obs.Cover = obs.Cover && c
	}
	time.Sleep(1500 * time.Millisecond)
	synctest.Wait()
	for _, d := range n.since(mark) {
		if d.From == "server" {
			obs.Answered = true
		}
	}
	obs.VirtualMs = time.Since(start).Milliseconds()
	obs.Params = fmt.Sprintf("ClientHello of %d bytes, %d fragments delivered", total, len(obs.Parts))
	_ = srv.Close()
	_ = sep.Close()
	<-sdone
	synctest.Wait()

	return obs
}

// ---------------------------------------------------------------- epoch splice (K-C12-2, live)

const c12SpliceMTU = 200

func c12FindCert(conn *Conn) (seq int, data []byte, epoch int) {
	for q := 0; q < 12; q++ {
		if it, ok := conn.handshakeCache.PullExact(uint16(q), false); ok && it.Typ == handshake.TypeCertificate { //nolint:gosec
			return q, bytes.Clone(it.Data), int(it.Epoch)
		}
	}

	return -1, nil, -1
}

func c12Splice(t *testing.T, variant string, certSeq, certLen int) c12LiveObs {
	t.Helper()
	obs := c12LiveObs{Scenario: "epoch-splice", Variant: variant, CertSeq: certSeq, CertLen: certLen, CertEpochRx: -1}
	c, s := c12Pair(t, protocol.Version1_3, 0, c12SpliceMTU)
	filler := byte(0xEE)
	var forgedLen int
	before := func(lab *vLab) {
		if variant != "test" {
			return
		}
		// one unprotected record, as anybody on the path could write it: handshake fragment of the
		// server's Certificate message (message_seq certSeq), second MTU-sized slice, filler bytes
		forgedLen = min(c12SpliceMTU, certLen-c12SpliceMTU)
		off := c12SpliceMTU
		hdr := []byte{
			byte(handshake.TypeCertificate), byte(certLen >> 16), byte(certLen >> 8), byte(certLen),
			byte(certSeq >> 8), byte(certSeq), byte(off >> 16), byte(off >> 8), byte(off),
			byte(forgedLen >> 16), byte(forgedLen >> 8), byte(forgedLen),
		}
		content := append(hdr, bytes.Repeat([]byte{filler}, forgedLen)...)
		rec := []byte{22, 0xfe, 0xfd, 0, 0, 0, 0, 0, 0, 0, 9, byte(len(content) >> 8), byte(len(content))}
		obs.Forged = vHex(append(rec, hdr...)) + fmt.Sprintf("+%d*%02x", forgedLen, filler)
		lab.Net.deliver("client", "server", append(rec, content...))
		synctest.Wait()
	}
	after := func(lab *vLab) {
		sseq, sent, _ := c12FindCert(lab.Server.Conn)
		_, got, ep := c12FindCert(lab.Client.Conn)
		if sseq >= 0 {
			obs.CertSeq, obs.CertLen = sseq, len(sent)-12
		}
		obs.CertEpochRx = ep
		obs.CertSame = got != nil && bytes.Equal(got, sent)
		obs.ForgedInside = forgedLen > 0 && got != nil && bytes.Contains(got, bytes.Repeat([]byte{filler}, forgedLen))
	}
	c12Handshake(t, &obs, c, s, 20*time.Second, before, after)
	obs.Params = fmt.Sprintf("DTLS 1.3, server MTU %d, Certificate message_seq %d length %d", c12SpliceMTU, obs.CertSeq, obs.CertLen)

	return obs
}

// ---------------------------------------------------------------- MTU scenarios (K-C12-3, K-C12-4, 9ff70b9)

func c12MTURun(t *testing.T, scenario, variant string, certBytes, mtu int, limit time.Duration) c12LiveObs {
	t.Helper()
	obs := c12LiveObs{Scenario: scenario, Variant: variant}
	c, s := c12Pair(t, protocol.Version1_2, certBytes, mtu)
	der := len(s.Certificates[0].Certificate[0])
	c12Handshake(t, &obs, c, s, limit, nil, nil)
	obs.Params = fmt.Sprintf("DTLS 1.2, server WithMTU(%d), certificate of %d bytes", mtu, der)

	return obs
}

// TestVerifC12Live emits one JSON line per (scenario, variant).
func TestVerifC12Live(t *testing.T) {
	out := newVOut(t)
	run := func(fn func(t *testing.T) c12LiveObs) {
		var obs c12LiveObs
		vBubble(t, func(t *testing.T) { obs = fn(t) })
		out.emit(obs)
	}
	// K-C12-1: [0,400) of the first transmission, then the whole message twice in 600-byte fragments
	run(func(t *testing.T) c12LiveObs {
		return c12Repartition(t, "control", func(total int) [][2]int { return c12Cut(total, 400) })
	})
	run(func(t *testing.T) c12LiveObs {
		return c12Repartition(t, "control600", func(total int) [][2]int { return c12Cut(total, 600) })
	})
	run(func(t *testing.T) c12LiveObs {
		return c12Repartition(t, "test", func(total int) [][2]int {
			parts := [][2]int{{0, 400}}
			parts = append(parts, c12Cut(total, 600)...)

			return append(parts, c12Cut(total, 600)...)
		})
	})
	// K-C12-2
	var ctl c12LiveObs
	run(func(t *testing.T) c12LiveObs { ctl = c12Splice(t, "control", -1, 0); return ctl })
	if ctl.CertSeq >= 0 && ctl.CertLen > c12SpliceMTU {
		run(func(t *testing.T) c12LiveObs { return c12Splice(t, "test", ctl.CertSeq, ctl.CertLen) })
	}
	// K-C12-3: jumbo MTU against the 8192-byte read buffer
	run(func(t *testing.T) c12LiveObs { return c12MTURun(t, "jumbo", "control", 10000, 1200, 40*time.Second) })
	run(func(t *testing.T) c12LiveObs { return c12MTURun(t, "jumbo", "test", 10000, 9000, 40*time.Second) })
	// 9ff70b9: a fragment that does not fit the 16-bit record length must never be written
	run(func(t *testing.T) c12LiveObs { return c12MTURun(t, "record-len", "test", 68000, 100000, 10*time.Second) })
	// K-C12-4: the library's own sender produces trains beyond the receiver's fragment-count limit
	run(func(t *testing.T) c12LiveObs { return c12MTURun(t, "train", "control", 1100, 2, 12*time.Second) })
	run(func(t *testing.T) c12LiveObs { return c12MTURun(t, "train", "test", 1100, 1, 12*time.Second) })
	run(func(t *testing.T) c12LiveObs { return c12MTURun(t, "train34k", "control", 34000, 40, 12*time.Second) })
	run(func(t *testing.T) c12LiveObs { return c12MTURun(t, "train34k", "test", 34000, 20, 12*time.Second) })
}
