//go:build verif

package dtls

// C12 sender-side correspondence: (*Conn).fragmentHandshake on a bare Conn with a given MTU, for
// generated bodies; ties coq/theories/Frag/Split.v.

import (
	"testing"

	"github.com/pion/dtls/v3/pkg/protocol/handshake"
)

// vC12Msg is a handshake.Message whose body is arbitrary bytes.
type vC12Msg struct {
	ty   handshake.Type
	body []byte
}

func (m *vC12Msg) Marshal() ([]byte, error) { return m.body, nil }
func (m *vC12Msg) Unmarshal([]byte) error   { return nil }
func (m *vC12Msg) Type() handshake.Type     { return m.ty }

type vC12SplitCase struct {
	Mtu   int      `json:"mtu"`
	Ty    int      `json:"ty"`
	HLen  int      `json:"hlen"` // Header.Length as set by Handshake.Marshal (prepareRawPacket path)
	Seq   int      `json:"seq"`
	Len   int      `json:"len"`
	Body  string   `json:"body,omitempty"`  // hex, small cases only
	Frags []string `json:"frags,omitempty"` // hex of every emitted fragment, small cases only
	// checked here against the body for all cases (big ones are not sent to Coq)
	N       int    `json:"n"`       // number of fragments
	MaxBody int    `json:"maxbody"` // largest fragment body
	CatOK   bool   `json:"catok"`   // bodies concatenate to the message body
	OffOK   bool   `json:"offok"`   // offsets contiguous from 0, fragment_length = body length
	HdrOK   bool   `json:"hdrok"`   // type / Length / message_seq repeated in every fragment
	Err     string `json:"err,omitempty"`
	Panic   bool   `json:"panic"`
}

func vC12Split(mtu, ty, seq int, body []byte, small bool) vC12SplitCase {
	c := vC12SplitCase{Mtu: mtu, Ty: ty, Seq: seq, Len: len(body)}
	conn := &Conn{maximumTransmissionUnit: mtu}
	hs := &handshake.Handshake{
		Header:  handshake.Header{MessageSequence: uint16(seq)},
		Message: &vC12Msg{ty: handshake.Type(ty), body: body},
	}
	// conn.go prepareRawPacket -> cacheHandshakePacket -> pkt.Record.Marshal() -> Handshake.Marshal
	// sets Header.Length / Type before processHandshakePacket calls fragmentHandshake
	if _, err := hs.Marshal(); err != nil {
		c.Err = err.Error()

		return c
	}
	c.HLen = int(hs.Header.Length)
	var frags [][]byte
	func() {
		defer func() {
			if r := recover(); r != nil {
				c.Panic = true
			}
		}()
		var err error
		frags, err = conn.fragmentHandshake(hs)
		if err != nil {
			c.Err = err.Error()
		}
	}()
	c.N = len(frags)
	c.CatOK, c.OffOK, c.HdrOK = true, true, true
	var cat []byte
	off := 0
	for _, f := range frags {
		if len(f) < 12 {
			c.OffOK = false

			continue
		}
		fb := f[12:]
		if len(fb) > c.MaxBody {
			c.MaxBody = len(fb)
		}
		gotOff := int(f[6])<<16 | int(f[7])<<8 | int(f[8])
		gotLen := int(f[9])<<16 | int(f[10])<<8 | int(f[11])
		if gotOff != off || gotLen != len(fb) {
			c.OffOK = false
		}
		if int(f[0]) != ty || (int(f[1])<<16|int(f[2])<<8|int(f[3])) != len(body) || (int(f[4])<<8|int(f[5])) != seq {
			c.HdrOK = false
		}
		off += len(fb)
		cat = append(cat, fb...)
		if small {
			c.Frags = append(c.Frags, vHex(f))
		}
	}
	c.CatOK = string(cat) == string(body)
	if small {
		c.Body = vHex(body)
	}

	return c
}

// TestVerifC12Split emits one JSON line per (mtu, body).
func TestVerifC12Split(t *testing.T) {
	out := newVOut(t)
	r := newVRand(vSeed())
	// exhaustive small sub-space: every body length 0..12 with every MTU 1..13
	for n := 0; n <= 12; n++ {
		for mtu := 1; mtu <= 13; mtu++ {
			out.emit(vC12Split(mtu, 1+n%20, n, r.bytes(n), true))
		}
	}
	nsmall, nbig := 600, 400
	if vIsThorough() {
		nsmall, nbig = 20000, 20000
	}
	for i := 0; i < nsmall; i++ {
		mtu := 1 + r.intn(40)
		n := r.intn(97)
		if r.chance(25) {
			n = mtu * r.intn(5) // 0 and exact multiples of the MTU
		}
		out.emit(vC12Split(mtu, r.intn(256), r.intn(65536), r.bytes(n), true))
	}
	for i := 0; i < nbig; i++ {
		mtu := 1 + r.intn(2000)
		n := r.intn(40001)
		if r.chance(25) {
			n = mtu * r.intn(21)
		}
		out.emit(vC12Split(mtu, r.intn(256), r.intn(65536), r.bytes(n), false))
	}
}
