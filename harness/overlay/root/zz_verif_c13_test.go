//go:build verif

package dtls

import (
	"bytes"
	"context"
	"crypto/tls"
	"fmt"
	"sync"
	"testing"
	"testing/synctest"
	"time"

	dtlsstate "github.com/pion/dtls/v3/internal/state"
	"github.com/pion/dtls/v3/pkg/protocol"
	"github.com/pion/dtls/v3/pkg/protocol/extension"
	"github.com/pion/dtls/v3/pkg/protocol/handshake"
	"github.com/pion/dtls/v3/pkg/protocol/recordlayer"
)

// ---- C13: an attacker-driven server: every datagram it receives is crafted by the harness.

type c13Step struct {
	In          string `json:"in"`            // ch | other | timer
	MSeq        int    `json:"mseq"`          // ClientHello message sequence
	Cookie      string `json:"cookie"`        // none | right | wrong | stale | trunc | extra
	Body        string `json:"body"`          // same | version | random | session | suites | suiteorder | compression | ext
	Out         string `json:"out"`           // "" | hvr | flight4 | alert | mixed:<kinds>
	HVRCookieOK bool   `json:"hvr_cookie_ok"` // emitted HVR carries the connection's cookie
	InBytes     int    `json:"in_bytes"`
	OutBytes    int    `json:"out_bytes"`
	OutKinds    []int  `json:"out_kinds"` // handshake types / content types seen in the emitted datagrams
	KeyGen      bool   `json:"keygen"`    // after this step the server holds an ephemeral key-exchange key pair
}

type c13Case struct {
	Kind    string    `json:"kind"`
	Variant string    `json:"variant"`
	Steps   []c13Step `json:"steps"`
	Done    bool      `json:"server_done"`
	Err     string    `json:"server_err"`
}

type c13Server struct {
	net    *vNet
	ep     *vEndpoint
	conn   *Conn
	done   chan struct{}
	err    error
	recSeq uint64
	mark   int
	cookie []byte // cookie of this connection, learned from the first HVR
}

func c13ServerConfig(variant string) *dtlsConfig {
	var s *dtlsConfig
	switch variant {
	case "cert":
		_, s = vCertPair()
	case "psk":
		_, s = vPSKPair(TLS_PSK_WITH_AES_128_GCM_SHA256)
	case "cert-store":
		// a server with a session store that knows no session: an offered (unknown) session id
		// must not change the cookie exchange
		_, s = vCertPair()
		s.sessionStore = &c13Store{m: map[string]Session{}}
	default:
		panic(variant)
	}

	return s
}

type c13Store struct {
	mu sync.Mutex
	m  map[string]Session
}

func (s *c13Store) Set(key []byte, v Session) error {
	s.mu.Lock()
	defer s.mu.Unlock()
	s.m[string(key)] = v

	return nil
}

func (s *c13Store) Get(key []byte) (Session, error) {
	s.mu.Lock()
	defer s.mu.Unlock()

	return s.m[string(key)], nil
}

func (s *c13Store) Del(key []byte) error {
	s.mu.Lock()
	defer s.mu.Unlock()
	delete(s.m, string(key))

	return nil
}

func c13ClientConfig(variant string) *dtlsConfig {
	var c *dtlsConfig
	switch variant {
	case "cert", "cert-store":
		c, _ = vCertPair()
	case "psk":
		c, _ = vPSKPair(TLS_PSK_WITH_AES_128_GCM_SHA256)
	}

	return c
}

// template ClientHello: what a genuine pion client sends first under this variant.
// c13Templates: one first ClientHello per variant for the whole run, so that the "stale" cookie was
// issued by an earlier connection for byte-identical ClientHello bytes (a cookie must not be
// transferable between connections even then).
var c13Templates = map[string]*handshake.MessageClientHello{}

func c13Template(t *testing.T, variant string) *handshake.MessageClientHello {
	t.Helper()
	if m, ok := c13Templates[variant]; ok {
		return m
	}
	m := c13NewTemplate(t, variant)
	c13Templates[variant] = m

	return m
}

func c13NewTemplate(t *testing.T, variant string) *handshake.MessageClientHello {
	t.Helper()
	n := newVNet()
	cep := n.endpoint("client")
	cc, err := clientWithConfig(cep, vAddr("server"), c13ClientConfig(variant))
	if err != nil {
		t.Fatal(err)
	}
	ctx, cancel := context.WithCancel(context.Background())
	go func() { _ = cc.HandshakeContext(ctx) }()
	synctest.Wait()
	ds := n.since(0)
	cancel()
	_ = cc.Close()
	_ = cep.Close()
	synctest.Wait()
	if len(ds) == 0 {
		t.Fatal("client emitted nothing")
	}
	raw := ds[0].Data
	h := &handshake.Handshake{}
	if err := h.Unmarshal(raw[recordlayer.FixedHeaderSize:]); err != nil {
		t.Fatalf("template parse: %v", err)
	}
	ch, ok := h.Message.(*handshake.MessageClientHello)
	if !ok {
		t.Fatal("template is not a ClientHello")
	}

	return ch
}

func c13Start(t *testing.T, variant string) *c13Server {
	t.Helper()
	n := newVNet()
	ep := n.endpoint("server")
	conn, err := serverWithConfig(ep, vAddr("attacker"), c13ServerConfig(variant))
	if err != nil {
		t.Fatal(err)
	}
	s := &c13Server{net: n, ep: ep, conn: conn, done: make(chan struct{})}
	go func() {
		s.err = conn.HandshakeContext(context.Background())
		close(s.done)
	}()
	synctest.Wait()

	return s
}

func (s *c13Server) stop() {
	_ = s.conn.Close()
	_ = s.ep.Close()
	synctest.Wait()
}

func (s *c13Server) frame(hsType handshake.Type, mseq int, body []byte) []byte {
	hh := handshake.Header{
		Type: hsType, Length: uint32(len(body)), MessageSequence: uint16(mseq),
		FragmentOffset: 0, FragmentLength: uint32(len(body)),
	}
	hraw, _ := hh.Marshal()
	payload := append(hraw, body...)
	rh := recordlayer.Header{
		ContentType: protocol.ContentTypeHandshake, Version: protocol.Version1_2, Epoch: 0,
		SequenceNumber: s.recSeq, ContentLen: uint16(len(payload)),
	}
	s.recSeq++
	rraw, _ := rh.Marshal()

	return append(rraw, payload...)
}

// deliver one crafted datagram (or let time pass) and classify what the server emitted
func (s *c13Server) observe(st *c13Step, data []byte, wait time.Duration) {
	before := s.net.count()
	if data != nil {
		st.InBytes = len(data)
		s.net.deliver("server", "attacker", data)
		synctest.Wait()
	} else {
		time.Sleep(wait)
		synctest.Wait()
	}
	kinds := map[string]bool{}
	for _, d := range s.net.since(before) {
		st.OutBytes += len(d.Data)
		for _, r := range vParseDatagram(d.Data, 0) {
			switch {
			case r.CT == int(protocol.ContentTypeAlert):
				kinds["alert"] = true
				st.OutKinds = append(st.OutKinds, 21)
			case r.CT == int(protocol.ContentTypeHandshake) && r.Epoch == 0 && r.HType == int(handshake.TypeHelloVerifyRequest):
				kinds["hvr"] = true
				st.OutKinds = append(st.OutKinds, r.HType)
				hv := &handshake.Handshake{}
				if err := hv.Unmarshal(r.Raw[recordlayer.FixedHeaderSize:]); err == nil {
					if m, ok := hv.Message.(*handshake.MessageHelloVerifyRequest); ok {
						if s.cookie == nil {
							s.cookie = bytes.Clone(m.Cookie)
						}
						st.HVRCookieOK = bytes.Equal(m.Cookie, s.cookie)
					}
				}
			case r.CT == int(protocol.ContentTypeHandshake):
				kinds["flight4"] = true
				st.OutKinds = append(st.OutKinds, r.HType)
			default:
				kinds["flight4"] = true
				st.OutKinds = append(st.OutKinds, r.CT)
			}
		}
	}
	// key-exchange work committed so far (the handshake goroutine is parked: synctest.Wait above)
	if s12, ok := s.conn.state.(*dtlsstate.State12); ok {
		st.KeyGen = s12.LocalKeypair != nil
	}
	switch {
	case len(kinds) == 0:
		st.Out = ""
	case len(kinds) == 1:
		for k := range kinds {
			st.Out = k
		}
	default:
		st.Out = "mixed"
	}
}

func c13Mutate(ch handshake.MessageClientHello, body string) handshake.MessageClientHello {
	m := ch
	m.CipherSuiteIDs = append([]uint16(nil), ch.CipherSuiteIDs...)
	m.Extensions = append([]extension.Value(nil), ch.Extensions...)
	switch body {
	case "same":
	case "version":
		m.Version = protocol.Version1_0
	case "random":
		m.Random.RandomBytes[3] ^= 0x40
	case "session":
		m.SessionID = bytes.Repeat([]byte{0x5a}, 32)
	case "suites":
		if len(m.CipherSuiteIDs) > 1 {
			m.CipherSuiteIDs = m.CipherSuiteIDs[:len(m.CipherSuiteIDs)-1]
		} else {
			m.CipherSuiteIDs = append(m.CipherSuiteIDs, 0x00ff)
		}
	case "suiteorder":
		if len(m.CipherSuiteIDs) > 1 {
			m.CipherSuiteIDs[0], m.CipherSuiteIDs[1] = m.CipherSuiteIDs[1], m.CipherSuiteIDs[0]
		} else {
			m.CipherSuiteIDs = append([]uint16{0x00ff}, m.CipherSuiteIDs...)
		}
	case "compression":
		m.CompressionMethods = append(append([]*protocol.CompressionMethod(nil), ch.CompressionMethods...), ch.CompressionMethods...)
	case "ext":
		m.Extensions = append(m.Extensions, &extension.ALPNOffer{Protocols: []string{"verif"}})
	case "cidext":
		m.Extensions = append(m.Extensions, &extension.ConnectionID{CID: []byte{0xc1, 0xd2}})
	case "srtpext":
		m.Extensions = append(m.Extensions, &extension.SRTPOffer{ProtectionProfiles: []extension.SRTPProtectionProfile{0x0001}})
	}

	return m
}

func runC13(t *testing.T, variant string, script []c13Step, stale []byte, rng *vRand) c13Case {
	t.Helper()
	res := c13Case{Kind: "c13", Variant: variant}
	tmpl := c13Template(t, variant)
	s := c13Start(t, variant)
	defer s.stop()
	for _, st := range script {
		st := st
		switch st.In {
		case "timer":
			s.observe(&st, nil, 70*time.Second)
		case "other":
			// a handshake message of another type far ahead in the sequence: buffered, never released
			s.observe(&st, s.frame(handshake.TypeClientKeyExchange, 7, []byte{0, 2, 1, 2}), 0)
		default:
			m := c13Mutate(*tmpl, st.Body)
			switch st.Cookie {
			case "none":
				m.Cookie = nil
			case "right":
				m.Cookie = bytes.Clone(s.cookie)
				if s.cookie == nil {
					// no cookie issued yet: the best an attacker can do is guess
					m.Cookie = rng.bytes(20)
				}
			case "wrong":
				m.Cookie = rng.bytes(20)
			case "stale":
				m.Cookie = bytes.Clone(stale)
			case "trunc":
				if len(s.cookie) > 10 {
					m.Cookie = bytes.Clone(s.cookie[:10])
				} else {
					m.Cookie = []byte{1}
				}
			case "extra":
				m.Cookie = append(bytes.Clone(s.cookie), 0x7f)
			}
			body, err := m.Marshal()
			if err != nil {
				t.Fatalf("marshal: %v", err)
			}
			s.observe(&st, s.frame(handshake.TypeClientHello, st.MSeq, body), 0)
		}
		res.Steps = append(res.Steps, st)
	}
	select {
	case <-s.done:
		res.Done = true
		res.Err = vErrString(s.err)
	default:
	}

	return res
}

// a cookie issued by an earlier connection of the same server configuration
func c13StaleCookie(t *testing.T, variant string) []byte {
	t.Helper()
	var ck []byte
	vBubble(t, func(t *testing.T) {
		tmpl := c13Template(t, variant)
		s := c13Start(t, variant)
		defer s.stop()
		body, _ := tmpl.Marshal()
		st := c13Step{}
		s.observe(&st, s.frame(handshake.TypeClientHello, 0, body), 0)
		ck = bytes.Clone(s.cookie)
	})

	return ck
}

func TestVerifC13(t *testing.T) {
	out := newVOut(t)
	rng := newVRand(vSeed() ^ 0xc13)
	cookies := []string{"none", "right", "wrong", "stale", "trunc", "extra"}
	bodies := []string{"same", "version", "random", "session", "suites", "suiteorder", "compression", "ext", "cidext", "srtpext"}
	for _, variant := range []string{"cert", "psk", "cert-store"} {
		stale := c13StaleCookie(t, variant)
		var scripts [][]c13Step
		ch := func(m int, c, b string) c13Step { return c13Step{In: "ch", MSeq: m, Cookie: c, Body: b} }
		// every (first ClientHello, second ClientHello) pair: cookie class x body class
		for _, c := range cookies {
			for _, b := range bodies {
				scripts = append(scripts, []c13Step{ch(0, "none", "same"), ch(1, c, b), {In: "timer"}})
			}
		}
		// repetitions, gaps, timers, early second hellos, retransmitted first hellos with changed bodies
		scripts = append(scripts,
			[]c13Step{{In: "timer"}, ch(0, "none", "same"), {In: "timer"}, ch(0, "none", "same"), ch(0, "none", "random"), {In: "other"}, {In: "timer"}, ch(1, "right", "same")},
			[]c13Step{ch(1, "wrong", "same"), ch(0, "none", "same"), {In: "other"}},
			[]c13Step{ch(1, "right", "same"), ch(0, "none", "same"), {In: "other"}},
			[]c13Step{ch(0, "wrong", "same"), ch(1, "right", "same")},
			[]c13Step{ch(0, "none", "same"), ch(2, "right", "same"), ch(3, "right", "same"), {In: "timer"}, ch(1, "right", "same")},
			[]c13Step{ch(0, "none", "same"), {In: "other"}, {In: "other"}, ch(0, "right", "same"), ch(1, "stale", "same")},
			[]c13Step{ch(0, "none", "suites"), ch(1, "right", "same")},
			[]c13Step{ch(0, "none", "suites"), ch(1, "right", "suites")},
			[]c13Step{ch(0, "none", "session"), {In: "timer"}, ch(0, "none", "session"), ch(1, "wrong", "session"), ch(1, "right", "session")},
			[]c13Step{ch(0, "none", "session"), ch(1, "right", "session")},
			[]c13Step{ch(0, "none", "session"), ch(1, "right", "same")},
		)
		n := 30
		if vIsThorough() {
			n = 1500
		}
		for i := 0; i < n; i++ {
			l := 2 + rng.intn(7)
			var sc []c13Step
			for j := 0; j < l; j++ {
				switch rng.intn(8) {
				case 0:
					sc = append(sc, c13Step{In: "timer"})
				case 1:
					sc = append(sc, c13Step{In: "other"})
				default:
					m := rng.intn(3)
					if rng.chance(60) {
						m = rng.intn(2)
					}
					b := "same"
					if rng.chance(35) {
						b = bodies[rng.intn(len(bodies))]
					}
					if m == 0 && b == "version" {
						b = "random" // a first ClientHello of another version is refused outright (not the cookie logic)
					}
					sc = append(sc, ch(m, cookies[rng.intn(len(cookies))], b))
				}
			}
			scripts = append(scripts, sc)
		}
		for _, sc := range scripts {
			sc := sc
			var res c13Case
			vBubble(t, func(t *testing.T) { res = runC13(t, variant, sc, stale, rng) })
			out.emit(res)
		}
	}
	_ = fmt.Sprint
	_ = tls.Certificate{}
}
