//go:build verif

package dtls

import (
	"bytes"
	"context"
	"testing"
	"testing/synctest"
	"time"

	"github.com/pion/dtls/v3/pkg/crypto/elliptic"
	"github.com/pion/dtls/v3/pkg/protocol"
	"github.com/pion/dtls/v3/pkg/protocol/extension"
	extension13 "github.com/pion/dtls/v3/pkg/protocol/extension/dtls13"
	"github.com/pion/dtls/v3/pkg/protocol/handshake"
	"github.com/pion/dtls/v3/pkg/protocol/recordlayer"
)

// DTLS 1.3 leg of C13 (monitor-only; needs zz_verif_c13_test.go for c13Step/c13Case: tags c13 + c13v13):
// a real 1.3 server, a real 1.3 client used only as a source of well-formed ClientHellos, and the
// harness in the middle deciding what reaches the server.

type c13v13 struct {
	net     *vNet
	srv     *Conn
	cli     *Conn
	sep     *vEndpoint
	cep     *vEndpoint
	recSeq  uint64
	sdone   chan struct{}
	serr    error
	cookie  []byte
}

func c13v13Start(t *testing.T) *c13v13 {
	t.Helper()
	n := newVNet()
	c, s := vCertPair()
	c.MinVersion, c.MaxVersion = protocol.Version1_3, protocol.Version1_3
	s.MinVersion, s.MaxVersion = protocol.Version1_3, protocol.Version1_3
	// small key share so that the ClientHello is one record
	c.EllipticCurves = []elliptic.Curve{elliptic.X25519, elliptic.P256}
	s.EllipticCurves = []elliptic.Curve{elliptic.X25519, elliptic.P256}
	x := &c13v13{net: n, sep: n.endpoint("server"), cep: n.endpoint("client"), sdone: make(chan struct{}), recSeq: 100}
	var err error
	if x.cli, err = clientWithConfig(x.cep, vAddr("server"), c); err != nil {
		t.Fatal(err)
	}
	if x.srv, err = serverWithConfig(x.sep, vAddr("client"), s); err != nil {
		t.Fatal(err)
	}
	go func() { _ = x.cli.HandshakeContext(context.Background()) }()
	go func() {
		x.serr = x.srv.HandshakeContext(context.Background())
		close(x.sdone)
	}()
	synctest.Wait()

	return x
}

func (x *c13v13) stop() {
	_ = x.cli.Close()
	_ = x.srv.Close()
	_ = x.cep.Close()
	_ = x.sep.Close()
	synctest.Wait()
}

// classify what the server emitted since `from`
func (x *c13v13) serverOut(from int, st *c13Step) (hrrCookie []byte) {
	kinds := map[string]bool{}
	for _, d := range x.net.since(from) {
		if d.From != "server" {
			continue
		}
		st.OutBytes += len(d.Data)
		pkts, err := recordlayer.UnpackDatagram13(d.Data, 0, false, true)
		if err != nil {
			kinds["other"] = true

			continue
		}
		for _, p := range pkts {
			if len(p) > 0 && protocol.IsDTLS13Ciphertext(protocol.ContentType(p[0])) {
				kinds["flight4"] = true // protected server flight
				st.OutKinds = append(st.OutKinds, int(p[0]))

				continue
			}
			for _, r := range vParseDatagram(p, 0) {
				switch {
				case r.CT == int(protocol.ContentTypeAlert):
					kinds["alert"] = true
					st.OutKinds = append(st.OutKinds, 21)
				case r.CT == int(protocol.ContentTypeHandshake) && r.HType == int(handshake.TypeServerHello):
					h := &handshake.Handshake{}
					isHRR := false
					if err := h.Unmarshal(r.Raw[recordlayer.FixedHeaderSize:]); err == nil {
						if sh, ok := h.Message.(*handshake.MessageServerHello); ok {
							rb := sh.Random.MarshalFixed()
							isHRR = bytes.Equal(rb[:], handshake.HelloRetryRequestRandom())
							for _, e := range sh.Extensions {
								if ck, ok := e.(*extension13.Cookie); ok {
									hrrCookie = bytes.Clone(ck.Cookie)
								}
							}
						}
					}
					if isHRR {
						kinds["hvr"] = true
						st.OutKinds = append(st.OutKinds, 3)
						if x.cookie == nil {
							x.cookie = bytes.Clone(hrrCookie)
						}
						st.HVRCookieOK = bytes.Equal(hrrCookie, x.cookie)
					} else {
						kinds["flight4"] = true
						st.OutKinds = append(st.OutKinds, 2)
					}
				default:
					kinds["flight4"] = true
					st.OutKinds = append(st.OutKinds, r.CT)
				}
			}
		}
	}
	switch {
	case len(kinds) == 0:
		st.Out = ""
	case len(kinds) == 1:
		for k := range kinds {
			st.Out = k
		}
	default:
		st.Out = "mixed"
	}

	return hrrCookie
}

// rebuild a ClientHello datagram from a (possibly modified) message
func (x *c13v13) frameCH(m *handshake.MessageClientHello, mseq int) []byte {
	body, err := m.Marshal()
	if err != nil {
		panic(err)
	}
	hh := handshake.Header{Type: handshake.TypeClientHello, Length: uint32(len(body)), MessageSequence: uint16(mseq), FragmentLength: uint32(len(body))}
	hraw, _ := hh.Marshal()
	payload := append(hraw, body...)
	rh := recordlayer.Header{ContentType: protocol.ContentTypeHandshake, Version: protocol.Version1_2, SequenceNumber: x.recSeq, ContentLen: uint16(len(payload))}
	x.recSeq++
	rraw, _ := rh.Marshal()

	return append(rraw, payload...)
}

func c13v13ParseCH(raw []byte) *handshake.MessageClientHello {
	h := &handshake.Handshake{}
	if err := h.Unmarshal(raw[recordlayer.FixedHeaderSize:]); err != nil {
		return nil
	}
	ch, _ := h.Message.(*handshake.MessageClientHello)

	return ch
}

// one scenario: first ClientHello(s), the HelloRetryRequest goes back to the real client, its second
// ClientHello is captured and delivered in the chosen mutated form
func runC13V13(t *testing.T, second string, repeatFirst int, timerBefore bool) c13Case {
	t.Helper()
	res := c13Case{Kind: "c13v13", Variant: "v13-cert"}
	x := c13v13Start(t)
	defer x.stop()
	step := func(st c13Step, data []byte, wait time.Duration) []byte {
		before := x.net.count()
		if data != nil {
			st.InBytes = len(data)
			x.net.deliver("server", "client", data)
			synctest.Wait()
		} else {
			time.Sleep(wait)
			synctest.Wait()
		}
		ck := x.serverOut(before, &st)
		res.Steps = append(res.Steps, st)

		return ck
	}
	ds := x.net.since(0)
	if len(ds) == 0 || ds[0].From != "client" {
		t.Fatal("no first ClientHello")
	}
	ch0raw := ds[0].Data
	if timerBefore {
		step(c13Step{In: "timer"}, nil, 70*time.Second)
	}
	var cookie []byte
	var hrrIdx int
	for i := 0; i <= repeatFirst; i++ {
		before := x.net.count()
		ck := step(c13Step{In: "ch", MSeq: 0, Cookie: "none", Body: "same"}, ch0raw, 0)
		if ck != nil && cookie == nil {
			cookie = ck
			for _, d := range x.net.since(before) {
				if d.From == "server" {
					hrrIdx = d.Idx
				}
			}
		}
	}
	step(c13Step{In: "timer"}, nil, 70*time.Second)
	if cookie == nil {
		return res // the server did not ask for a retry with a cookie: nothing more to probe
	}
	// hand the HelloRetryRequest to the real client and capture its second ClientHello
	mark := x.net.count()
	x.net.deliver("client", "server", x.net.since(hrrIdx)[0].Data)
	synctest.Wait()
	var ch2 *handshake.MessageClientHello
	for _, d := range x.net.since(mark) {
		if d.From == "client" {
			if m := c13v13ParseCH(d.Data); m != nil {
				ch2 = m

				break
			}
		}
	}
	if ch2 == nil {
		res.Err = "client produced no second ClientHello"

		return res
	}
	m := *ch2
	m.Extensions = append([]extension.Value(nil), ch2.Extensions...)
	m.CipherSuiteIDs = append([]uint16(nil), ch2.CipherSuiteIDs...)
	st := c13Step{In: "ch", MSeq: 1, Cookie: "right", Body: "same"}
	setCookie := func(c []byte) {
		for i, e := range m.Extensions {
			if _, ok := e.(*extension13.Cookie); ok {
				if c == nil {
					m.Extensions = append(m.Extensions[:i:i], m.Extensions[i+1:]...)
				} else {
					m.Extensions[i] = &extension13.Cookie{Cookie: c}
				}

				return
			}
		}
	}
	switch second {
	case "right":
	case "wrong":
		st.Cookie = "wrong"
		c := bytes.Clone(cookie)
		c[len(c)/2] ^= 0x55
		setCookie(c)
	case "trunc":
		st.Cookie = "trunc"
		setCookie(bytes.Clone(cookie[:len(cookie)/2]))
	case "none":
		st.Cookie = "none"
		setCookie(nil)
	case "random":
		st.Body = "random"
		m.Random.RandomBytes[5] ^= 0x11
	case "suites":
		st.Body = "suites"
		if len(m.CipherSuiteIDs) > 1 {
			m.CipherSuiteIDs = m.CipherSuiteIDs[1:]
		}
	case "suiteorder":
		st.Body = "suiteorder"
		if len(m.CipherSuiteIDs) > 1 {
			m.CipherSuiteIDs[0], m.CipherSuiteIDs[1] = m.CipherSuiteIDs[1], m.CipherSuiteIDs[0]
		}
	case "session":
		st.Body = "session"
		m.SessionID = bytes.Repeat([]byte{0x33}, 32)
	}
	step(st, x.frameCH(&m, 1), 0)
	step(c13Step{In: "timer"}, nil, 5*time.Second)
	select {
	case <-x.sdone:
		res.Done = true
		res.Err = vErrString(x.serr)
	default:
	}

	return res
}

func TestVerifC13V13(t *testing.T) {
	out := newVOut(t)
	for _, second := range []string{"right", "wrong", "trunc", "none", "random", "suites", "suiteorder", "session"} {
		for _, rep := range []int{0, 2} {
			for _, tb := range []bool{false, true} {
				second, rep, tb := second, rep, tb
				var res c13Case
				vBubble(t, func(t *testing.T) { res = runC13V13(t, second, rep, tb) })
				out.emit(res)
			}
		}
	}
}
