//go:build verif

// C15 correspondence harness (b2): the "newest record" rule ACROSS EPOCHS under bursts of stale
// records. DTLS 1.3 connections with connection IDs and RRC. The network keeps back authentic
// records of OLDER epochs that were never delivered:
//   - records the peer wrote in epoch e after its KeyUpdate and before the ACK came back (each above
//     everything the endpoint accepted in epoch e, so each "the newest of its own epoch"), over one or
//     two key updates (epochs 3->4->5);
//   - ACK records of the handshake epoch (2) the peer protected but that never arrived (the
//     epoch 2->3 transition; old read keys are kept);
//   - sometimes the FIRST record (sequence number 0) of a new epoch.
// After records of the newest epoch were accepted from the active address the kept records arrive
// from a NON-active address in bursts of 1..4 back to back, bursts separated by current-epoch
// records from the active address. None of them is newer than everything accepted so far (order:
// epoch, then sequence number), so none may start a path challenge; a challenge that does start is
// answered (relayed through the peer) so that a wrongly moved RemoteAddr() shows. A really newest
// record from the candidate address closes the case as positive control (challenge REQUIRED).
// Cases are emitted in the format of TestVerifC15E2E (same monitors, same model comparison).
package dtls

import (
	"fmt"
	"sort"
	"testing"

	dtlsflight "github.com/pion/dtls/v3/internal/flight"
	"github.com/pion/dtls/v3/pkg/protocol"
	"github.com/pion/dtls/v3/pkg/protocol/recordlayer"
)

// the peer protects one ACK record in `epoch` (never sent); it joins the pool when the EUT's keys open it
func (r *c15Runner) peerCraftAck(epoch uint16) int {
	pkt := &dtlsflight.Packet{
		Record: &recordlayer.RecordLayer{
			Header: recordlayer.Header{Version: protocol.Version1_2, Epoch: epoch},
			Content: &protocol.ACK{Records: []protocol.RecordNumber{{
				Epoch: uint64(epoch), SequenceNumber: 0,
			}}},
		},
		ShouldEncrypt: true,
	}
	datagrams, _, err := r.peer.Conn.prepareRawPacketsTracked([]*dtlsflight.Packet{pkt})
	if err != nil || len(datagrams) != 1 {
		return -1
	}
	n0 := len(r.pool)
	r.poolFromPeer([]vDatagram{{Data: datagrams[0].raw}}, "", nil)
	if len(r.pool) != n0+1 || r.pool[n0].Epoch != int(epoch) {
		r.pool = r.pool[:n0]

		return -1
	}

	return n0
}

// answer an unanswered challenge of the EUT through the peer and deliver the response from the
// challenged address (a relay): if the challenge was justified this is an honest migration, if not
// RemoteAddr() moves on the strength of a stale record
func (r *c15Runner) relayOpenChallenges() {
	for _, e := range r.emits {
		if e.Fwd || e.Type != "chal" {
			continue
		}
		r.forward(e, r.eut.Name)
		for i, p := range r.pool {
			if p.Kind == "resp" && p.Cookie == e.Cookie && p.Uses == 0 {
				r.deliver(i, e.To)
			}
		}
	}
}

func c15DirectedBurst(r *c15Runner, rng *vRand, nKU int, hsAcks int, keepZero bool, shuffle bool) string {
	script := ""
	var kept []int
	for i := 0; i < 1+rng.intn(2) && r.res.Err == ""; i++ {
		r.peerWrite("", rng)
		r.deliver(len(r.pool)-1, r.peer.Name)
	}
	for ku := 0; ku < nKU && r.res.Err == ""; ku++ {
		finish := r.peerKeyUpdateBegin()
		if finish == nil || r.res.Err != "" {
			return script
		}
		old := r.epoch
		k := 2 + rng.intn(4)
		for i := 0; i < k; i++ {
			r.peerWrite("", rng)
			if last := r.pool[len(r.pool)-1]; last.Epoch != old || last.Kind != "app" {
				r.res.Err = "burst: the peer did not stay in the old epoch"

				return script
			}
			kept = append(kept, len(r.pool)-1)
		}
		finish()
		script += fmt.Sprintf("K%d", k)
		if r.res.Err != "" {
			return script
		}
		if keepZero {
			// the first record of the new epoch is kept back as well
			r.peerWrite("", rng)
			if last := r.pool[len(r.pool)-1]; last.Epoch == r.epoch && last.Seq == 0 {
				kept = append(kept, len(r.pool)-1)
				script += "Z"
			}
		}
		for i := 0; i < 1+rng.intn(2) && r.res.Err == ""; i++ {
			r.peerWrite("", rng)
			r.deliver(len(r.pool)-1, r.peer.Name)
		}
	}
	for i := 0; i < hsAcks; i++ {
		if j := r.peerCraftAck(2); j >= 0 {
			kept = append(kept, j)
			script += "A"
		}
	}
	if r.res.Err != "" {
		return script
	}
	if len(kept) < 2 {
		r.res.Err = "burst: fewer than two stale records"

		return script
	}
	if shuffle {
		for i := len(kept) - 1; i > 0; i-- {
			j := rng.intn(i + 1)
			kept[i], kept[j] = kept[j], kept[i]
		}
	} else {
		// oldest first within each epoch (each then is the highest its epoch's window has seen);
		// epochs in random order
		perm := map[int]int{}
		for _, e := range []int{2, 3, 4, 5, 6} {
			perm[e] = rng.intn(1000)
		}
		sort.SliceStable(kept, func(a, b int) bool {
			pa, pb := r.pool[kept[a]], r.pool[kept[b]]
			if pa.Epoch != pb.Epoch {
				return perm[pa.Epoch] < perm[pb.Epoch]
			}

			return pa.Seq < pb.Seq
		})
	}
	cands := []string{"cand1", "cand1", "cand2"}
	for len(kept) > 0 && r.res.Err == "" {
		b := 1 + rng.intn(4)
		if b > len(kept) {
			b = len(kept)
		}
		from := cands[rng.intn(len(cands))]
		for _, i := range kept[:b] {
			r.deliver(i, from)
			r.relayOpenChallenges()
		}
		kept = kept[b:]
		script += fmt.Sprintf("B%d", b)
		// current-epoch traffic from the active address between the bursts
		for i := 0; i < rng.intn(3) && r.res.Err == ""; i++ {
			r.peerWrite("", rng)
			r.deliver(len(r.pool)-1, r.eut.Conn.RemoteAddr().String())
			script += "c"
		}
	}
	if r.res.Err != "" {
		return script
	}
	r.eutSend()
	// positive control: a really newest record from a new address must be challenged
	r.peerWrite("", rng)
	r.deliver(len(r.pool)-1, "cand1")
	r.relayOpenChallenges()
	r.eutSend()

	return script
}

// parameters of the "burst" mode of c15Run (set by the caller right before the run)
var c15BurstCfg struct {
	nKU, hsAcks       int
	keepZero, shuffle bool
}

func c15RunBurst(t *testing.T, rng *vRand, lc, ls int, eut string, nKU, hsAcks int, keepZero, shuffle bool) c15Case {
	t.Helper()
	c15BurstCfg.nKU, c15BurstCfg.hsAcks, c15BurstCfg.keepZero, c15BurstCfg.shuffle = nKU, hsAcks, keepZero, shuffle

	return c15Run(t, rng, 0, true, false, lc, ls, eut, 0, "burst", 0)
}

func TestVerifC15Burst(t *testing.T) {
	out := newVOut(t)
	rng := newVRand(vSeed() ^ 0xc15b)
	reps := 5
	if vIsThorough() {
		reps = 50
	}
	names := []string{"server", "client"}
	pairs := [][2]int{{4, 4}, {1, 8}, {8, 1}, {8, 8}, {4, 1}} // both sides receive an ID
	for rep := 0; rep < reps; rep++ {
		for _, eut := range names {
			for _, shape := range [][2]int{{1, 0}, {2, 0}, {0, 3}, {1, 2}} { // key updates, handshake-epoch ACKs
				p := pairs[rng.intn(len(pairs))]
				nKU, hsAcks := shape[0], shape[1]
				if hsAcks > 0 {
					hsAcks = 2 + rng.intn(3)
				}
				keepZero := nKU > 0 && rng.intn(3) == 0
				shuffle := rng.intn(4) == 0
				var res c15Case
				vBubble(t, func(t *testing.T) {
					res = c15RunBurst(t, rng, p[0], p[1], eut, nKU, hsAcks, keepZero, shuffle)
				})
				out.emit(res)
			}
		}
	}
}
