//go:build verif

// C15 correspondence harness (b): real connections in the scripted lab. After a handshake with
// connection-ID generators of chosen lengths, the harness alone decides which datagram reaches the
// endpoint under test (EUT), from which SOURCE address and when (virtual time). The other endpoint
// is only used as a generator of genuine records (application data, path challenges, path
// responses). Every step is emitted with RemoteAddr(), the decoded RRC records the EUT emitted
// (type, destination, size, cookie) and whether Read returned a payload, for comparison with
// coq/theories/Rrc/C15Conn.v and for the implementation-side monitors in checks/c15.py.
//
// Records are identified by (epoch, sequence number). Besides the records written after the
// handshake the pool holds every protected record the peer emitted DURING the handshake that the
// harness did not deliver (directed "stale" scenarios withhold the first datagram that carries a
// record of the application epoch: the first epoch-3 record in DTLS 1.3, the first transmission of
// the Finished in DTLS 1.2), and in DTLS 1.3 the peer can update its keys, after which undelivered
// records of the superseded epoch are still in the pool. Such records are later delivered from a
// NEW source address: they are authentic and not replays, but not the newest record.
package dtls

import (
	"context"
	"encoding/binary"
	"errors"
	"fmt"
	"io"
	"testing"
	"testing/synctest"
	"time"

	dtlsstate "github.com/pion/dtls/v3/internal/state"
	"github.com/pion/dtls/v3/pkg/protocol"
	"github.com/pion/dtls/v3/pkg/protocol/recordlayer"
)

// handshake under a delivery policy; returns the datagrams that were delivered, in delivery order
func c15Establish(t *testing.T, ccfg, scfg *dtlsConfig, policy vPolicy) (*vLab, []vDatagram) {
	t.Helper()
	lab := newLab(t, ccfg, scfg)
	var delivered []vDatagram
	lab.Pump.Policy = policy
	lab.Pump.OnDeliver = func(d vDatagram) { delivered = append(delivered, d) }
	lab.Pump.run(lab.bothDone, 200*time.Second)
	if !lab.established() {
		t.Fatalf("handshake failed: client=%v server=%v", lab.Client.Err, lab.Server.Err)
	}

	return lab, delivered
}

// decoded view of one protected DTLS 1.2 record, opened with the RECEIVER's keys (pure)
type c15Plain struct {
	OK      bool
	HdrCT   int    // content type in the header (25 = tls12_cid)
	CT      int    // real content type
	CID     []byte // connection ID field of the header when HdrCT == 25
	Epoch   int
	Seq     uint64
	RRCType int // 0 challenge, 1 response, 2 drop, >2 unknown; -1 when not RRC
	Cookie  uint64
	Payload []byte
}

// DTLS 1.3: the receiver's own (read-only) parsing and opening functions
func c15Open13(rx *Conn, raw []byte) c15Plain {
	res := c15Plain{RRCType: -1, HdrCT: 23}
	if len(raw) == 0 {
		return res
	}
	if raw[0]&recordlayer.UnifiedHeaderCIDBit != 0 {
		res.HdrCT = int(protocol.ContentTypeConnectionID) // "carries a connection ID"
	}
	rec, err := rx.unmarshalCiphertextRecord(raw)
	if err != nil {
		return res
	}
	res.CID = append([]byte(nil), rec.Header.ConnectionID...)
	inner, seq, epoch, err := rx.openCiphertextRecord(rec)
	if err != nil {
		return res
	}
	res.OK, res.CT, res.Payload, res.Seq, res.Epoch = true, int(inner.RealType), inner.Content, seq, int(epoch)
	if inner.RealType == protocol.ContentTypeReturnRoutabilityCheck && len(inner.Content) >= 1 {
		res.RRCType = int(inner.Content[0])
		if len(inner.Content) == 9 {
			res.Cookie = binary.BigEndian.Uint64(inner.Content[1:])
		}
	}

	return res
}

func c15Open(rx *Conn, raw []byte, cidLen int) c15Plain {
	res := c15Plain{RRCType: -1}
	common := dtlsstate.CommonState(rx.state)
	if len(raw) > 0 && protocol.IsDTLS13Ciphertext(protocol.ContentType(raw[0])) {
		return c15Open13(rx, raw)
	}
	h := &recordlayer.Header{}
	if cidLen > 0 {
		h.ConnectionID = make([]byte, cidLen)
	}
	if err := h.Unmarshal(raw); err != nil {
		return res
	}
	res.HdrCT, res.Epoch, res.Seq = int(h.ContentType), int(h.Epoch), h.SequenceNumber
	var dh recordlayer.Header
	if h.ContentType == protocol.ContentTypeConnectionID {
		dh.ConnectionID = make([]byte, cidLen)
		res.CID = append([]byte(nil), h.ConnectionID...)
	}
	if h.Epoch == 0 || common.CipherSuite == nil {
		return res
	}
	dec, err := common.CipherSuite.Decrypt(dh, append([]byte(nil), raw...))
	if err != nil || len(dec) < h.Size() {
		return res
	}
	body := dec[h.Size():]
	ct := h.ContentType
	if ct == protocol.ContentTypeConnectionID {
		ip := &recordlayer.InnerPlaintext{}
		if err := ip.Unmarshal(body); err != nil {
			return res
		}
		ct, body = ip.RealType, ip.Content
	}
	res.OK, res.CT, res.Payload = true, int(ct), body
	if ct == protocol.ContentTypeReturnRoutabilityCheck && len(body) >= 1 {
		res.RRCType = int(body[0])
		if len(body) == 9 {
			res.Cookie = binary.BigEndian.Uint64(body[1:])
		}
	}

	return res
}

// a genuine datagram written by the peer, kept back by the harness
type c15PoolRec struct {
	Data    []byte
	Epoch   int
	Seq     uint64
	Kind    string // app | chal | resp | other
	Cookie  uint64
	CID     *string // hex of the connection ID the sender put on the record; nil = ordinary record
	Tamper  string  // "" | wrongcid | nocid (sender-side connection ID altered before writing)
	Payload string
	Uses    int
}

// one record of an emitted datagram, as the peer's parser sees it
type c15EmitRec struct {
	HdrCT int    `json:"hdr_ct"`
	Prot  bool   `json:"prot"` // protected record (epoch > 0 / DTLS 1.3 ciphertext)
	CID   string `json:"cid"`
}

type c15Emit struct {
	Type   string       `json:"type"` // chal | resp | drop | app | ack | other (by the first record)
	To     string       `json:"to"`
	Size   int          `json:"size"`
	Cookie uint64       `json:"cookie"`
	HdrCT  int          `json:"hdr_ct"`
	CID    string       `json:"cid"`
	Recs   []c15EmitRec `json:"recs"`
	Data   []byte       `json:"-"`
	Fwd    bool         `json:"-"`
}

type c15Step struct {
	Op        string    `json:"op"` // deliver | tick | send
	Now       uint64    `json:"now"`
	From      string    `json:"from,omitempty"`
	Rec       int       `json:"rec"` // pool index (deliver)
	Epoch     int       `json:"epoch"`
	Seq       uint64    `json:"seq"`
	Kind      string    `json:"rkind,omitempty"`
	Cookie    uint64    `json:"rcookie"`
	CID       *string   `json:"rcid"`
	Tamper    string    `json:"tamper,omitempty"`
	Bytes     int       `json:"bytes"`
	RAddr     string    `json:"raddr"`  // RemoteAddr() after the step
	REpoch    int       `json:"repoch"` // the EUT's remote (read) epoch after the step
	Emits     []c15Emit `json:"emits"`
	Delivered bool      `json:"delivered"`
	ReadOK    bool      `json:"read_ok"` // the payload Read returned is the delivered record's
	OpenOK    bool      `json:"open_ok"` // the EUT's keys open the record at delivery time
	OpenSeq   uint64    `json:"open_seq"`
}

type c15Case struct {
	Kind     string    `json:"kind"`
	Variant  string    `json:"variant"`
	EUT      string    `json:"eut"`
	Peer     string    `json:"peer"`
	LenEUT   int       `json:"len_eut"`  // length given to the EUT's ID generator (-1 none)
	LenPeer  int       `json:"len_peer"` // ... to the peer's
	Neg      bool      `json:"neg"`      // RRCNegotiated on the EUT
	LocalCID string    `json:"local_cid"`
	PeerCID  string    `json:"peer_cid"` // the ID the EUT must put on what it sends
	WSize    int       `json:"wsize"`
	Pre      [][2]uint64 `json:"pre"`     // protected records (epoch, seq) delivered to the EUT during the handshake
	REpoch0  int       `json:"repoch0"` // the EUT's remote epoch after the handshake
	Steps    []c15Step `json:"steps"`
	Script   string    `json:"script"`
	Err      string    `json:"err,omitempty"`
}

type c15Runner struct {
	t      *testing.T
	lab    *vLab
	eut    *vPeer
	peer   *vPeer
	cur    int // log cursor
	res    *c15Case
	pool   []*c15PoolRec
	emits  []*c15Emit // everything the EUT emitted that the peer can open
	reads  int
	nWrite int
	leEUT  int
	lePeer int
	v13    bool
	epoch  int // epoch of application traffic from the peer
}

func (r *c15Runner) now() uint64 { return uint64(r.lab.Net.now()) + uint64(time.Second) }

// collect datagrams emitted since the cursor, split by writer
func (r *c15Runner) drain() (fromEUT, fromPeer []vDatagram) {
	synctest.Wait()
	for _, d := range r.lab.Net.since(r.cur) {
		if d.From == r.eut.Name {
			fromEUT = append(fromEUT, d)
		} else {
			fromPeer = append(fromPeer, d)
		}
	}
	r.cur = r.lab.Net.count()

	return fromEUT, fromPeer
}

// the records of one datagram as the receiving connection's own splitter sees them
func c15Split(rx *Conn, data []byte) [][]byte {
	recs, err := rx.unpackDatagram(data)
	if err != nil || len(recs) == 0 {
		return [][]byte{data}
	}

	return recs
}

func (r *c15Runner) classifyEUT(ds []vDatagram) []c15Emit {
	out := []c15Emit{}
	for _, d := range ds {
		recs := c15Split(r.peer.Conn, d.Data)
		p := c15Open(r.peer.Conn, recs[0], r.lePeer)
		e := c15Emit{To: d.To, Size: len(d.Data), HdrCT: p.HdrCT, CID: vHex(p.CID), Data: d.Data, Type: "other"}
		for _, raw := range recs {
			q := c15Open(r.peer.Conn, raw, r.lePeer)
			prot := q.Epoch > 0 || (len(raw) > 0 && protocol.IsDTLS13Ciphertext(protocol.ContentType(raw[0])))
			e.Recs = append(e.Recs, c15EmitRec{HdrCT: q.HdrCT, Prot: prot, CID: vHex(q.CID)})
		}
		if p.OK {
			switch {
			case p.CT == int(protocol.ContentTypeApplicationData):
				e.Type = "app"
			case p.RRCType == 0:
				e.Type, e.Cookie = "chal", p.Cookie
			case p.RRCType == 1:
				e.Type, e.Cookie = "resp", p.Cookie
			case p.RRCType == 2:
				e.Type = "drop"
			case p.CT == int(protocol.ContentTypeACK):
				e.Type = "ack"
			}
		}
		out = append(out, e)
		ec := e
		r.emits = append(r.emits, &ec)
	}

	return out
}

func (r *c15Runner) poolFromPeer(ds []vDatagram, tamper string, sent []byte) {
	var raws [][]byte
	for _, d := range ds {
		if tamper != "" {
			raws = append(raws, d.Data) // one application record whose layout the EUT's splitter may refuse
		} else {
			raws = append(raws, c15Split(r.eut.Conn, d.Data)...)
		}
	}
	for _, raw := range raws {
		d := vDatagram{Data: raw}
		cidLen := r.leEUT
		p := c15Open(r.eut.Conn, d.Data, cidLen)
		if tamper == "nocid" || (tamper == "wrongcid" && r.leEUT == 0) {
			// what the sender put differs in layout from what the EUT expects: read it as written
			n := 0
			if tamper == "wrongcid" {
				n = 4
			}
			p = c15Open(r.eut.Conn, d.Data, n)
		}
		rec := &c15PoolRec{Data: d.Data, Epoch: p.Epoch, Seq: p.Seq, Kind: "other", Tamper: tamper}
		if p.HdrCT == int(protocol.ContentTypeConnectionID) {
			s := vHex(p.CID)
			rec.CID = &s
		}
		if r.v13 && tamper != "" && !p.OK {
			// the receiver's parser refuses the altered ID, so the record cannot be opened with its
			// functions; it is the application write just made, carrying what the sender was told to put
			if sent != nil {
				s := vHex(sent)
				rec.CID = &s
			} else {
				rec.CID = nil
			}
			rec.Kind, rec.Payload, rec.Epoch = "app", "", r.epoch
			r.pool = append(r.pool, rec)

			continue
		}
		if p.OK {
			switch {
			case p.CT == int(protocol.ContentTypeApplicationData):
				rec.Kind, rec.Payload = "app", string(p.Payload)
			case p.RRCType == 0:
				rec.Kind, rec.Cookie = "chal", p.Cookie
			case p.RRCType == 1:
				rec.Kind, rec.Cookie = "resp", p.Cookie
			case p.RRCType == 2:
				rec.Kind = "drop"
			case p.RRCType > 2:
				rec.Kind = "unk"
			case p.CT == int(protocol.ContentTypeACK):
				rec.Kind = "ack"
			case p.CT == int(protocol.ContentTypeHandshake):
				rec.Kind = "hs"
			case p.CT == int(protocol.ContentTypeAlert):
				continue // never delivered: an alert would end the connection
			}
		}
		if !p.OK || p.Epoch < 1 {
			continue // not a protected record the EUT's keys open
		}
		r.pool = append(r.pool, rec)
	}
}

// the peer writes one application payload, optionally with an altered outgoing connection ID
func (r *c15Runner) peerWrite(tamper string, rng *vRand) {
	common := dtlsstate.CommonState(r.peer.Conn.state)
	saved := common.RemoteConnectionID
	st13, _ := r.peer.Conn.state.(*dtlsstate.State13)
	var savedSend dtlsstate.CIDSendState
	if r.v13 && st13 != nil {
		savedSend = st13.CID.Send
		saved = st13.CID.Send.Active
		if !st13.CID.Send.UseCID {
			saved = nil
		}
	}
	put := saved
	switch tamper {
	case "wrongcid":
		n := len(saved)
		w := append([]byte(nil), saved...)
		if n == 0 {
			n = 4
			w = rng.bytes(n)
		}
		w[rng.intn(n)] ^= byte(1 + rng.intn(255))
		put = w
	case "nocid":
		put = nil
	}
	if r.v13 && st13 != nil {
		st13.CID.Send.UseCID, st13.CID.Send.Active = len(put) > 0, put
	} else {
		common.RemoteConnectionID = put
	}
	r.nWrite++
	if _, err := r.peer.Conn.Write([]byte(fmt.Sprintf("c15-payload-%04d", r.nWrite))); err != nil {
		r.res.Err = "peer write: " + err.Error()
	}
	_, fromPeer := r.drain()
	if r.v13 && st13 != nil {
		st13.CID.Send = savedSend
	} else {
		common.RemoteConnectionID = saved
	}
	r.poolFromPeer(fromPeer, tamper, put)
}

// the peer writes a path_drop / unknown-type / unsolicited RRC record to its active address
func (r *c15Runner) peerWriteRRC(mt protocol.ReturnRoutabilityCheckMessageType, cookie uint64) {
	if !dtlsstate.CommonState(r.peer.Conn.state).RRCNegotiated {
		return
	}
	var c [protocol.ReturnRoutabilityCheckCookieLength]byte
	binary.BigEndian.PutUint64(c[:], cookie)
	if err := (returnRoutabilityConn{conn: r.peer.Conn}).WriteRRC(
		context.Background(), r.peer.Conn.RemoteAddr(), mt, c); err != nil {
		r.res.Err = "peer rrc write: " + err.Error()
	}
	_, fromPeer := r.drain()
	r.poolFromPeer(fromPeer, "", nil)
}

func (r *c15Runner) observe(st *c15Step, fromEUT []vDatagram, expectPayload string) {
	st.Now = r.now()
	st.RAddr = r.eut.Conn.RemoteAddr().String()
	st.REpoch = int(dtlsstate.CommonState(r.eut.Conn.state).RemoteEpoch())
	st.Emits = r.classifyEUT(fromEUT)
	reads := r.eut.reads()
	if len(reads) > r.reads {
		st.Delivered = true
		st.ReadOK = len(reads) == r.reads+1 && string(reads[r.reads]) == expectPayload
		r.reads = len(reads)
	}
	r.res.Steps = append(r.res.Steps, *st)
}

func (r *c15Runner) deliver(i int, from string) {
	rec := r.pool[i]
	rec.Uses++
	pre := c15Open(r.eut.Conn, rec.Data, r.leEUT)
	r.lab.Net.deliver(r.eut.Name, from, rec.Data)
	fromEUT, fromPeer := r.drain()
	_ = fromPeer
	st := c15Step{
		Op: "deliver", From: from, Rec: i, Epoch: rec.Epoch, Seq: rec.Seq, Kind: rec.Kind, Cookie: rec.Cookie, CID: rec.CID,
		Tamper: rec.Tamper, Bytes: len(rec.Data), OpenOK: pre.OK, OpenSeq: pre.Seq,
	}
	r.observe(&st, fromEUT, rec.Payload)
}

func (r *c15Runner) tick(d time.Duration) {
	time.Sleep(d)
	fromEUT, _ := r.drain()
	st := c15Step{Op: "tick"}
	r.observe(&st, fromEUT, "")
}

// like tick, but what the peer emits meanwhile (retransmissions) joins the pool
func (r *c15Runner) tickPool(d time.Duration) {
	time.Sleep(d)
	fromEUT, fromPeer := r.drain()
	r.poolFromPeer(fromPeer, "", nil)
	st := c15Step{Op: "tick"}
	r.observe(&st, fromEUT, "")
}

func (r *c15Runner) eutSend() {
	if _, err := r.eut.Conn.Write([]byte("c15-from-eut")); err != nil {
		r.res.Err = "eut write: " + err.Error()
	}
	fromEUT, _ := r.drain()
	st := c15Step{Op: "send"}
	r.observe(&st, fromEUT, "")
}

// hand one datagram the EUT emitted to the peer, as coming from `from`; whatever the peer emits
// in reaction (path response, or a challenge of its own) joins the pool
func (r *c15Runner) forward(e *c15Emit, from string) {
	e.Fwd = true
	r.lab.Net.deliver(r.peer.Name, from, e.Data)
	_, fromPeer := r.drain()
	r.poolFromPeer(fromPeer, "", nil)
}

// reader that survives non-fatal Read errors (a datagram that does not parse is reported to the
// application as a Read error after the handshake; the connection stays usable)
func c15StartReader(p *vPeer) {
	p.rdone = make(chan struct{})
	go func() {
		defer close(p.rdone)
		buf := make([]byte, 65536)
		errs := 0
		for {
			n, err := p.Conn.Read(buf)
			if err != nil {
				p.rmu.Lock()
				p.ReadErr = err
				p.rmu.Unlock()
				errs++
				if errors.Is(err, ErrConnClosed) || errors.Is(err, io.EOF) || errs > 1000 {
					return
				}

				continue
			}
			p.rmu.Lock()
			p.Reads = append(p.Reads, append([]byte(nil), buf[:n]...))
			p.rmu.Unlock()
		}
	}()
}

// Directed scenario "the candidate keeps talking, the response is late": a genuine newest CID record
// from cand1 makes the EUT challenge cand1 at t0; the peer's matching path_response is kept back;
// further genuine newest records arrive from cand1 every 300 ms (each < 1 s after the previous one);
// the response is delivered from cand1 at t0+at. For at < 1 s the address must change (positive
// control), for at >= 1 s it must not: "in time" is measured from the challenge, not from the last
// record of the candidate.
func c15DirectedLate(r *c15Runner, rng *vRand, at time.Duration) {
	const gap = 300 * time.Millisecond
	n := int(at/gap) + 2
	for i := 0; i < n; i++ {
		r.peerWrite("", rng)
	}
	if len(r.pool) < n || r.res.Err != "" {
		r.res.Err = "directed: pool too small " + r.res.Err

		return
	}
	r.deliver(0, "cand1") // t0: challenge to cand1 (when IDs and RRC are in use)
	var chal *c15Emit
	for _, e := range r.emits {
		if e.Type == "chal" && e.To == "cand1" {
			chal = e
		}
	}
	respIdx := -1
	if chal != nil {
		r.forward(chal, r.eut.Name)
		for i, p := range r.pool {
			if p.Kind == "resp" && p.Cookie == chal.Cookie {
				respIdx = i
			}
		}
	}
	elapsed := time.Duration(0)
	next := 1
	for elapsed+gap < at {
		r.tick(gap)
		elapsed += gap
		r.deliver(next, "cand1")
		next++
	}
	if at > elapsed {
		r.tick(at - elapsed)
	}
	if respIdx >= 0 {
		r.deliver(respIdx, "cand1")
	}
	r.eutSend() // where does ordinary traffic go now
	r.deliver(next, "cand1")
}

// the peer updates its sending keys (DTLS 1.3): its KeyUpdate record is delivered to the EUT from the
// peer's own address (a logged step), the EUT's ACK is handed back, and the peer writes in the next
// epoch from then on
func (r *c15Runner) peerKeyUpdate() {
	if finish := r.peerKeyUpdateBegin(); finish != nil {
		finish()
	}
}

// first half: KeyUpdate written and delivered, the EUT's ACK still on its way (the peer keeps writing
// in the old epoch until `finish` hands it the ACK)
func (r *c15Runner) peerKeyUpdateBegin() (finish func()) {
	done := make(chan error, 1)
	go func() { done <- r.peer.Conn.UpdateKeys(context.Background(), KeyUpdateOptions{}) }()
	n0 := len(r.pool)
	_, fromPeer := r.drain()
	r.poolFromPeer(fromPeer, "", nil)
	ku := -1
	for i := n0; i < len(r.pool); i++ {
		if r.pool[i].Kind == "hs" {
			ku = i
		}
	}
	if ku < 0 {
		r.res.Err = "key update: no KeyUpdate record seen"

		return nil
	}
	e0 := len(r.emits)
	r.deliver(ku, r.peer.Name)
	acks := append([]*c15Emit(nil), r.emits[e0:]...)

	return func() {
		for _, e := range acks {
			if e.Type == "ack" {
				r.forward(e, r.eut.Name)
			}
		}
		synctest.Wait()
		select {
		case err := <-done:
			if err != nil {
				r.res.Err = "key update: " + err.Error()
			}
		default:
			r.res.Err = "key update: not acknowledged"
		}
		r.epoch++
	}
}

// Directed scenario "the first record of the epoch arrives last": during the handshake the harness
// withheld the first datagram of the peer that carried a record of the application epoch (DTLS 1.3:
// its first epoch-3 record; DTLS 1.2: the first transmission of its Finished, epoch 1 sequence 0; the
// handshake completed through the retransmission). Three newer records are delivered from the peer's
// own address, then the withheld record from cand1: it is authentic and no replay, but not the newest
// record, so nothing may be sent to cand1. Positive control: a really newest record from cand1
// afterwards starts a challenge (when IDs and RRC are in use).
func c15DirectedStale0(r *c15Runner, rng *vRand) {
	var stale []int
	for i, p := range r.pool {
		if p.Epoch == r.epoch && p.Seq == 0 {
			stale = append(stale, i)
		}
	}
	if len(stale) == 0 {
		r.res.Err = "stale0: no withheld first record of the application epoch"

		return
	}
	for i := 0; i < 3 && r.res.Err == ""; i++ {
		r.peerWrite("", rng)
		r.deliver(len(r.pool)-1, r.peer.Name)
	}
	for _, i := range stale {
		r.deliver(i, "cand1")
	}
	r.eutSend()
	r.peerWrite("", rng)
	r.deliver(len(r.pool)-1, "cand1")
}

// Directed scenario "a record of the superseded epoch arrives last" (DTLS 1.3): two records of epoch 3
// are delivered; the peer starts a key update and, while the EUT's ACK is on its way, writes once more
// in epoch 3 - that record is kept back; the ACK arrives, two epoch-4 records are delivered from the
// peer's own address; then the kept epoch-3 record (highest sequence number of its epoch, so the
// newest OF ITS EPOCH) arrives from cand1: nothing may be sent to cand1. Positive control: a newest
// epoch-4 record from cand1 afterwards starts a challenge.
func c15DirectedOldEpoch(r *c15Runner, rng *vRand) {
	for i := 0; i < 2 && r.res.Err == ""; i++ {
		r.peerWrite("", rng)
		r.deliver(len(r.pool)-1, r.peer.Name)
	}
	finish := r.peerKeyUpdateBegin()
	if finish == nil || r.res.Err != "" {
		return
	}
	n0 := len(r.pool)
	r.peerWrite("", rng)
	kept := len(r.pool) - 1
	if len(r.pool) != n0+1 || r.pool[kept].Epoch != r.epoch {
		r.res.Err = "oldepoch: no record of the old epoch after the KeyUpdate " + r.res.Err

		return
	}
	finish()
	for i := 0; i < 2 && r.res.Err == ""; i++ {
		r.peerWrite("", rng)
		r.deliver(len(r.pool)-1, r.peer.Name)
	}
	if r.res.Err != "" {
		return
	}
	r.deliver(kept, "cand1")
	r.eutSend()
	r.peerWrite("", rng)
	r.deliver(len(r.pool)-1, "cand1")
}

// Directed scenario "the peer's KeyUpdate was processed, our ACK is lost, the peer's address changes"
// (DTLS 1.3): the EUT processes the peer's KeyUpdate (its remote epoch moves on at once) but the ACK
// never reaches the peer, which therefore stays in the OLD epoch. Its next application record and,
// one retransmission interval later, its retransmitted KeyUpdate arrive from cand1. Each is the
// newest record the EUT has received (nothing of the new epoch exists yet), so each MUST start a
// path challenge - otherwise the ACK keeps going to the dead address for good. The second challenge
// is answered from cand1: the address changes, the ACK finally gets through and the peer's first
// record of the new epoch is read from cand1.
func c15DirectedAckLost(r *c15Runner, rng *vRand) {
	for i := 0; i < 2 && r.res.Err == ""; i++ {
		r.peerWrite("", rng)
		r.deliver(len(r.pool)-1, r.peer.Name)
	}
	finish := r.peerKeyUpdateBegin() // KeyUpdate delivered from the peer's own address; the ACK is withheld
	if finish == nil || r.res.Err != "" {
		return
	}
	old := r.epoch
	r.peerWrite("", rng)
	if last := r.pool[len(r.pool)-1]; last.Epoch != old || last.Kind != "app" {
		r.res.Err = "acklost: the peer did not stay in the old epoch"

		return
	}
	r.deliver(len(r.pool)-1, "cand1") // newest record received: challenge to cand1
	n0 := len(r.pool)
	r.tickPool(time.Second) // the challenge expires unanswered; the peer retransmits its KeyUpdate
	retx := -1
	for i := n0; i < len(r.pool); i++ {
		if r.pool[i].Kind == "hs" && r.pool[i].Epoch == old {
			retx = i
		}
	}
	if retx < 0 {
		r.res.Err = "acklost: no retransmitted KeyUpdate"

		return
	}
	e0 := len(r.emits)
	r.deliver(retx, "cand1") // newest again: a fresh challenge to cand1 (and the ACK, to the old address)
	var chal *c15Emit
	for _, e := range r.emits[e0:] {
		if e.Type == "chal" && e.To == "cand1" {
			chal = e
		}
	}
	if chal != nil {
		r.forward(chal, r.eut.Name)
		for i, p := range r.pool {
			if p.Kind == "resp" && p.Cookie == chal.Cookie && p.Uses == 0 {
				r.deliver(i, "cand1")
			}
		}
	}
	finish() // the ACK reaches the peer at last
	r.eutSend()
	r.peerWrite("", rng)
	r.deliver(len(r.pool)-1, "cand1")
}

func c15Gen(n int) func() []byte {
	if n < 0 {
		return nil
	}

	return RandomCIDGenerator(n)
}

// mode: "" random script | "late" (late path_response, `directed` = when) | "stale0" (the peer's first
// record of the application epoch is withheld during the handshake and shows up later from a new
// address) | "oldepoch" (DTLS 1.3: a record of the epoch superseded by a key update shows up later
// from a new address) | "acklost" (DTLS 1.3: KeyUpdate processed, ACK lost, the peer - still in the old
// epoch - continues from a new address: a challenge is REQUIRED)
func c15Run(t *testing.T, rng *vRand, suite CipherSuiteID, v13, noRRC bool, lenClient, lenServer int, eutName string, nOps int, mode string, directed time.Duration) c15Case {
	t.Helper()
	ccfg, scfg := vPSKPair(suite)
	if v13 {
		ccfg, scfg = vCertPair()
		ccfg.MinVersion, ccfg.MaxVersion = protocol.Version1_3, protocol.Version1_3
		scfg.MinVersion, scfg.MaxVersion = protocol.Version1_3, protocol.Version1_3
	}
	ccfg.ConnectionIDGenerator = c15Gen(lenClient)
	scfg.ConnectionIDGenerator = c15Gen(lenServer)
	peerName, cfgLenEUT := "client", lenServer
	if eutName == "client" {
		peerName, cfgLenEUT = "server", lenClient
	}
	if cfgLenEUT < 0 || lenClient < 0 || lenServer < 0 {
		cfgLenEUT = 0 // connection IDs are negotiated only when both sides have a generator
	}
	var policy vPolicy
	if mode == "stale0" {
		// the first datagram of the peer that carries a record of the application epoch never arrives
		withheld := false
		policy = func(d vDatagram) (vAction, int) {
			if withheld || d.From != peerName || len(d.Data) == 0 {
				return vPass, 0
			}
			hit := false
			if v13 {
				hit = protocol.IsDTLS13Ciphertext(protocol.ContentType(d.Data[0])) && d.Data[0]&0x03 == 3
			} else {
				for _, ri := range vParseDatagram(d.Data, cfgLenEUT) {
					hit = hit || (ri.CT >= 0 && ri.Epoch == 1)
				}
			}
			if hit {
				withheld = true

				return vDrop, 0
			}

			return vPass, 0
		}
	}
	lab, delivered := c15Establish(t, ccfg, scfg, policy)
	defer lab.close()
	r := &c15Runner{t: t, lab: lab, eut: lab.peer(eutName), peer: lab.other(eutName), v13: v13, epoch: 1}
	variant := fmt.Sprintf("suite%04x", uint16(suite))
	if v13 {
		variant, r.epoch = "dtls13", 3
	}
	res := c15Case{
		Kind: "e2e", Variant: variant, EUT: eutName, Peer: r.peer.Name,
		LenEUT: lenServer, LenPeer: lenClient,
	}
	if eutName == "client" {
		res.LenEUT, res.LenPeer = lenClient, lenServer
	}
	r.res = &res
	ec := dtlsstate.CommonState(r.eut.Conn.state)
	if noRRC {
		// connection IDs in use but the return-routability extension "not echoed": two pion endpoints
		// always negotiate both together, so the flag is cleared on both sides after the handshake
		ec.RRCNegotiated = false
		dtlsstate.CommonState(r.peer.Conn.state).RRCNegotiated = false
		res.Variant += "-norrc"
	}
	res.Neg = ec.RRCNegotiated
	res.LocalCID = vHex(ec.LocalConnectionIDForInboundRecords())
	res.PeerCID = vHex(ec.RemoteConnectionID)
	if st13, ok := r.eut.Conn.state.(*dtlsstate.State13); ok && v13 {
		res.PeerCID = ""
		if st13.CID.Send.UseCID {
			res.PeerCID = vHex(st13.CID.Send.Active)
		}
	}
	r.leEUT = len(ec.LocalConnectionIDForInboundRecords())
	r.lePeer = len(dtlsstate.CommonState(r.peer.Conn.state).LocalConnectionIDForInboundRecords())
	// protected records the EUT was handed during the handshake, in delivery order
	res.Pre = [][2]uint64{}
	gotIdx := map[int]bool{}
	for _, d := range delivered {
		gotIdx[d.Idx] = true
		if d.From != r.peer.Name {
			continue
		}
		for _, raw := range c15Split(r.eut.Conn, d.Data) {
			if p := c15Open(r.eut.Conn, raw, r.leEUT); p.OK && p.Epoch >= 1 {
				res.Pre = append(res.Pre, [2]uint64{uint64(p.Epoch), p.Seq})
			}
		}
	}
	res.REpoch0 = int(ec.RemoteEpoch())
	synctest.Wait()
	// what the peer emitted during the handshake and the harness did not deliver stays available
	var undelivered []vDatagram
	for _, d := range lab.Net.since(0) {
		if d.From == r.peer.Name && !gotIdx[d.Idx] {
			undelivered = append(undelivered, d)
		}
	}
	r.poolFromPeer(undelivered, "", nil)
	r.cur = lab.Net.count()
	// wire size of an RRC record of this endpoint: one path_drop to the active address
	if res.Neg {
		var zero [protocol.ReturnRoutabilityCheckCookieLength]byte
		if err := (returnRoutabilityConn{conn: r.eut.Conn}).WriteRRC(
			context.Background(), r.eut.Conn.RemoteAddr(), protocol.ReturnRoutabilityCheckPathDrop, zero); err != nil {
			res.Err = "probe: " + err.Error()
		}
		fromEUT, _ := r.drain()
		if len(fromEUT) == 1 {
			res.WSize = len(fromEUT[0].Data)
		}
	}
	c15StartReader(r.eut)
	c15StartReader(r.peer) // application data must be consumed or the peer's read loop blocks
	synctest.Wait()

	cands := []string{r.peer.Name, "cand1", "cand2", "cand1"}
	jumps := []time.Duration{
		time.Millisecond, 300 * time.Millisecond, 500 * time.Millisecond, 999 * time.Millisecond,
		time.Second - 1, time.Second, time.Second + 1, 1001 * time.Millisecond, 2 * time.Second,
	}
	script := ""
	switch mode {
	case "late":
		c15DirectedLate(r, rng, directed)
		res.Script = fmt.Sprintf("late-response@%s", directed)
		res.Variant += "-directed"

		return res
	case "stale0":
		c15DirectedStale0(r, rng)
		res.Script = "first-record-of-epoch-withheld"
		res.Variant += "-stale0"

		return res
	case "oldepoch":
		c15DirectedOldEpoch(r, rng)
		res.Script = "old-epoch-record-after-key-update"
		res.Variant += "-oldepoch"

		return res
	case "acklost":
		c15DirectedAckLost(r, rng)
		res.Script = "key-update-ack-lost-then-new-address"
		res.Variant += "-acklost"

		return res
	case "burst":
		// zz_verif_c15_burst_test.go: bursts of stale records of older epochs from a new address
		res.Script = "burst:" + c15DirectedBurst(r, rng, c15BurstCfg.nKU, c15BurstCfg.hsAcks, c15BurstCfg.keepZero, c15BurstCfg.shuffle)
		res.Variant += "-burst"

		return res
	}
	for i := 0; i < 3; i++ {
		r.peerWrite("", rng)
	}
	for op := 0; op < nOps && res.Err == ""; op++ {
		// unanswered challenges of the EUT are usually answered by the peer
		var open []*c15Emit
		for _, e := range r.emits {
			if !e.Fwd && (e.Type == "chal" || e.Type == "resp") {
				open = append(open, e)
			}
		}
		choice := rng.intn(100)
		switch {
		case v13 && choice >= 98:
			// the peer updates its sending keys; undelivered records of the old epoch stay in the pool
			r.peerKeyUpdate()
			script += "K"
		case len(open) > 0 && choice < 30:
			e := open[rng.intn(len(open))]
			r.forward(e, r.eut.Name)
			script += "F"
		case choice < 42:
			tam := ""
			switch rng.intn(8) {
			case 0:
				tam = "wrongcid"
			case 1:
				tam = "nocid"
			case 2:
				// path_drop, an unknown message type, or a response nobody asked for
				switch rng.intn(3) {
				case 0:
					r.peerWriteRRC(protocol.ReturnRoutabilityCheckPathDrop, rng.u64())
				case 1:
					r.peerWriteRRC(protocol.ReturnRoutabilityCheckMessageType(3+rng.intn(200)), 0)
				default:
					r.peerWriteRRC(protocol.ReturnRoutabilityCheckPathResponse, rng.u64())
				}
				script += "R"

				continue
			}
			r.peerWrite(tam, rng)
			script += "W"
		case choice < 80 && len(r.pool) > 0:
			// mostly a not yet delivered record; sometimes a replay; newest or stale by pool order
			idx := rng.intn(len(r.pool))
			var fresh []int
			for j, p := range r.pool {
				if p.Uses == 0 {
					fresh = append(fresh, j)
				}
			}
			if len(fresh) > 0 && rng.intn(5) != 0 {
				idx = fresh[rng.intn(len(fresh))]
				if rng.intn(3) == 0 {
					idx = fresh[len(fresh)-1]
				}
			}
			r.deliver(idx, cands[rng.intn(len(cands))])
			script += "D"
		case choice < 90:
			r.tick(jumps[rng.intn(len(jumps))])
			script += "T"
		case choice < 95:
			r.eutSend()
			script += "S"
		default:
			// let the peer see a fresh EUT record from an unknown address: the peer challenges it,
			// and that challenge becomes a record the EUT can be shown
			r.eutSend()
			if n := len(r.emits); n > 0 && r.emits[n-1].Type == "app" {
				r.forward(r.emits[n-1], "srv2")
			}
			script += "P"
		}
	}
	res.Script = script

	return res
}

func TestVerifC15E2E(t *testing.T) {
	out := newVOut(t)
	rng := newVRand(vSeed() ^ 0xc15e)
	lens := []int{0, 1, 4, 8}
	suites := []CipherSuiteID{TLS_PSK_WITH_AES_128_GCM_SHA256, TLS_PSK_WITH_AES_128_CCM_8, TLS_PSK_WITH_AES_128_CBC_SHA256}
	type job struct {
		suite    CipherSuiteID
		v13      bool
		norrc    bool
		lc, ls   int
		eut      string
		n        int
		mode     string
		directed time.Duration
	}
	var jobs []job
	reps := 2
	if vIsThorough() {
		reps = 60
	}
	names := []string{"server", "client"}
	for rep := 0; rep < reps; rep++ {
		for _, lc := range lens {
			for _, ls := range lens {
				for _, eut := range names {
					jobs = append(jobs, job{suites[rng.intn(len(suites))], rep%2 == 1, false, lc, ls, eut, 20 + rng.intn(40), "", 0})
				}
			}
		}
		// no generator on one or both sides (no IDs, no RRC), and an ID long enough that one RRC record
		// exceeds three times a small record (Reserve refuses, Cancel path)
		for _, p := range [][2]int{{-1, 4}, {4, -1}, {-1, -1}, {1, 120}, {120, 1}, {120, 120}, {0, 120}} {
			for _, eut := range names {
				jobs = append(jobs, job{suites[rng.intn(len(suites))], rep%2 == 1, false, p[0], p[1], eut, 20 + rng.intn(40), "", 0})
			}
		}
	}
	// connection IDs without the RRC extension
	for rep := 0; rep < reps; rep++ {
		for _, p := range [][2]int{{4, 4}, {1, 8}, {8, 0}, {0, 4}} {
			for _, eut := range names {
				jobs = append(jobs, job{suites[rng.intn(len(suites))], rep%2 == 1, true, p[0], p[1], eut, 20 + rng.intn(40), "", 0})
			}
		}
	}
	// directed: late path_response while the candidate keeps sending (and the timely control)
	dreps := 1
	if vIsThorough() {
		dreps = 10
	}
	for rep := 0; rep < dreps; rep++ {
		for _, v13 := range []bool{false, true} {
			for _, at := range []time.Duration{
				900 * time.Millisecond, time.Second - 1, time.Second, 1200 * time.Millisecond,
				1500 * time.Millisecond, 2500 * time.Millisecond,
			} {
				p := [][2]int{{4, 4}, {1, 8}, {8, 1}, {4, 1}, {8, 8}}[rng.intn(5)] // both sides receive an ID
				jobs = append(jobs, job{
					suite: suites[rng.intn(len(suites))], v13: v13, lc: p[0], ls: p[1],
					eut: names[rng.intn(2)], mode: "late", directed: at,
				})
			}
		}
	}
	// directed: stale records from a new address (first record of the epoch withheld during the
	// handshake, both versions and roles; record of the epoch superseded by a key update, DTLS 1.3),
	// with IDs and RRC, with IDs only, and without IDs
	for rep := 0; rep < dreps; rep++ {
		for _, eut := range names {
			for _, v13 := range []bool{false, true} {
				p := [][2]int{{4, 4}, {1, 8}, {8, 1}, {8, 8}}[rng.intn(4)] // both sides receive an ID
				jobs = append(jobs, job{suite: suites[rng.intn(len(suites))], v13: v13, lc: p[0], ls: p[1], eut: eut, mode: "stale0"})
				if v13 {
					jobs = append(jobs, job{v13: true, lc: p[1], ls: p[0], eut: eut, mode: "oldepoch"})
					jobs = append(jobs, job{v13: true, lc: p[0], ls: p[1], eut: eut, mode: "acklost"})
				}
			}
		}
		q := [][2]int{{4, 4}, {-1, -1}}[rep%2]
		jobs = append(jobs, job{suite: suites[rng.intn(len(suites))], norrc: q[0] > 0, lc: q[0], ls: q[1], eut: names[rep%2], mode: "stale0"})
		jobs = append(jobs, job{v13: true, norrc: q[0] > 0, lc: q[0], ls: q[1], eut: names[rep%2], mode: "oldepoch"})
		jobs = append(jobs, job{v13: true, norrc: q[0] > 0, lc: q[0], ls: q[1], eut: names[rep%2], mode: "acklost"})
	}
	for _, j := range jobs {
		j := j
		var res c15Case
		vBubble(t, func(t *testing.T) { res = c15Run(t, rng, j.suite, j.v13, j.norrc, j.lc, j.ls, j.eut, j.n, j.mode, j.directed) })
		out.emit(res)
	}
}
