//go:build verif

// C15 correspondence harness (d): a real listener (listenWithConfig over a loopback UDP socket,
// connection-ID routing enabled) with 2-3 live connections. Genuine protected records of
// connection X are sent to the listener from X's own socket, from ANOTHER live client's socket
// (the address the listener tracks for connection Y: NAT rebinding / port reuse collision), from a
// brand-new socket, or with an unknown connection ID. Observed: which accepted server connection
// Read the payload, and every server connection's RemoteAddr(). Real sockets mean real time (no
// synctest): waits are polls with short deadlines.
//
// How the listener LEARNS an ID is observed too: every datagram the server wrote during the
// handshake is logged at the client's socket; the harness describes the first record of each
// (ServerHello? fragment offset / fragment length / message length; the connection_id extension of
// the reassembled message) for coq/theories/Rrc/C15Router.v [learned], and runs the listener's own
// cidConnIdentifier over them. Variants with a server ID of 20 bytes (DTLS 1.3, default MTU) or an
// MTU of 64 (DTLS 1.2) make the ServerHello leave in fragments.
package dtls

import (
	"context"
	"fmt"
	"net"
	"sync"
	"testing"
	"time"

	dtlsflight "github.com/pion/dtls/v3/internal/flight"
	dtlsstate "github.com/pion/dtls/v3/internal/state"
	"github.com/pion/dtls/v3/pkg/protocol"
	"github.com/pion/dtls/v3/pkg/protocol/extension"
	"github.com/pion/dtls/v3/pkg/protocol/handshake"
	"github.com/pion/dtls/v3/pkg/protocol/recordlayer"
)

// the client's socket, logging what arrives (= what the server wrote)
type c15lSock struct {
	*net.UDPConn
	mu  sync.Mutex
	log [][]byte
}

func (s *c15lSock) ReadFrom(p []byte) (int, net.Addr, error) {
	n, a, err := s.UDPConn.ReadFrom(p)
	if err == nil {
		s.mu.Lock()
		s.log = append(s.log, append([]byte(nil), p[:n]...))
		s.mu.Unlock()
	}

	return n, a, err
}

func (s *c15lSock) snapshot() [][]byte {
	s.mu.Lock()
	defer s.mu.Unlock()

	return append([][]byte(nil), s.log...)
}

// first record of one datagram the server wrote, as Rrc/C15Router.v first_rec
type c15lWrite struct {
	SH   bool    `json:"sh"`   // unprotected handshake record whose message type is ServerHello
	Off  int     `json:"off"`  // fragment offset
	FLen int     `json:"flen"` // fragment length
	TLen int     `json:"tlen"` // message length
	CID  *string `json:"cid"`  // connection_id extension of the (reassembled) message, nil = none / not parseable
}

// describe the datagrams the server wrote; learned = what cidConnIdentifier yields over them in order
func c15lWrites(dgs [][]byte) (ws []c15lWrite, learned *string, frag bool) {
	type asm struct {
		body []byte
		have int
	}
	msgs := map[int]*asm{}
	for _, d := range dgs {
		for _, ri := range vParseDatagram(d, 0) {
			if ri.CT != int(protocol.ContentTypeHandshake) || ri.Epoch != 0 || ri.HType != int(handshake.TypeServerHello) {
				continue
			}
			m := msgs[ri.MsgSeq]
			if m == nil {
				m = &asm{body: make([]byte, ri.TLen)}
				msgs[ri.MsgSeq] = m
			}
			frag = frag || ri.FLen != ri.TLen
			body := ri.Raw[recordlayer.FixedHeaderSize+handshake.HeaderLength:]
			if ri.FOff+ri.FLen <= len(m.body) && len(body) >= ri.FLen && m.have < len(m.body) {
				copy(m.body[ri.FOff:], body[:ri.FLen])
				m.have += ri.FLen
			}
		}
	}
	cidOf := func(mseq int) *string {
		m := msgs[mseq]
		if m == nil || m.have < len(m.body) {
			return nil
		}
		var sh handshake.MessageServerHello
		if sh.Unmarshal(m.body) != nil {
			return nil
		}
		for _, e := range sh.Extensions {
			if c, ok := e.(*extension.ConnectionID); ok {
				h := vHex(c.CID)

				return &h
			}
		}

		return nil
	}
	ident := cidConnIdentifier()
	for _, d := range dgs {
		w := c15lWrite{}
		if recs := vParseDatagram(d, 0); len(recs) > 0 {
			ri := recs[0]
			if ri.CT == int(protocol.ContentTypeHandshake) && ri.Epoch == 0 && ri.HType == int(handshake.TypeServerHello) {
				w = c15lWrite{SH: true, Off: ri.FOff, FLen: ri.FLen, TLen: ri.TLen, CID: cidOf(ri.MsgSeq)}
			}
		}
		ws = append(ws, w)
		if learned == nil {
			if id, ok := ident(d); ok {
				h := vHex([]byte(id))
				learned = &h
			}
		}
	}

	return ws, learned, frag
}

type c15lReader struct {
	mu    sync.Mutex
	reads []string
	errs  int
}

func (r *c15lReader) run(c *Conn) {
	buf := make([]byte, 4096)
	for {
		n, err := c.Read(buf)
		if err != nil {
			r.mu.Lock()
			r.errs++
			stop := r.errs > 200
			r.mu.Unlock()
			if stop || c.isConnectionClosed() {
				return
			}

			continue
		}
		r.mu.Lock()
		r.reads = append(r.reads, string(buf[:n]))
		r.mu.Unlock()
	}
}

func (r *c15lReader) has(p string) bool {
	r.mu.Lock()
	defer r.mu.Unlock()
	for _, x := range r.reads {
		if x == p {
			return true
		}
	}

	return false
}

func (r *c15lReader) count(p string) int {
	r.mu.Lock()
	defer r.mu.Unlock()
	n := 0
	for _, x := range r.reads {
		if x == p {
			n++
		}
	}

	return n
}

type c15lSession struct {
	sock   *c15lSock
	client *Conn
	server *Conn
	rd     *c15lReader
	cid    []byte // the server connection's own ID = what the listener routes on
	addr   string // the client's socket address = what the listener tracks for this connection
	valid  map[string]bool
}

type c15lOp struct {
	Op      string   `json:"op"` // own | fromother | fresh | rebind | unknown
	X       int      `json:"x"`  // connection whose keys produced the record
	Y       int      `json:"y"`  // socket owner for fromother (-1 otherwise)
	Src     string   `json:"src"`
	CID     string   `json:"cid"` // connection ID on the record
	Payload string   `json:"payload"`
	Reader  int      `json:"reader"`  // index of the server connection that Read the payload, -1 none
	Readers []int    `json:"readers"` // all that did
	RAddrs  []string `json:"raddrs"`  // RemoteAddr() of every server connection afterwards
	Valid   []string `json:"valid"`   // addresses that answered a challenge of X so far (incl. the initial one)
	Rebound bool     `json:"rebound"` // rebind: the response was sent and the address moved
	Note    string   `json:"note,omitempty"`
}

type c15lCase struct {
	Kind    string   `json:"kind"`
	Variant string   `json:"variant"`
	CIDs    []string `json:"cids"`
	Addrs   []string `json:"addrs"`
	CIDLen  int      `json:"cid_len"` // length given to the server's ID generator
	MTU     int      `json:"mtu"`     // server MTU (0 = default)
	// per connection: the first records of the datagrams the server wrote during the handshake, the ID
	// cidConnIdentifier learns from them (nil = none), whether its ServerHello left in fragments
	Writes  [][]c15lWrite `json:"writes"`
	Learned []*string     `json:"learned"`
	SHFrag  []bool        `json:"sh_frag"`
	Ops     []c15lOp `json:"ops"`
	Dups    int      `json:"dups"` // payloads read more than once over all connections
	Err     string   `json:"err,omitempty"`
}

func c15lRecord(c *Conn, payload string) ([]byte, error) {
	pkt := c.newApplicationDataPacket([]byte(payload))
	pkt.Record.Header.Epoch = dtlsstate.CommonState(c.state).LocalEpoch()
	ds, _, err := c.prepareRawPacketsTracked([]*dtlsflight.Packet{pkt})
	if err != nil {
		return nil, err
	}
	if len(ds) != 1 {
		return nil, fmt.Errorf("%d datagrams", len(ds)) //nolint:err113
	}

	return ds[0].raw, nil
}

func c15lRun(t *testing.T, rng *vRand, v13 bool, cidLen, mtu, nClients, nOps int) c15lCase {
	t.Helper()
	res := c15lCase{Kind: "listener", Variant: "dtls12", CIDLen: cidLen, MTU: mtu}
	ccfgT, scfg := vCertPair()
	ver := protocol.Version1_2
	if v13 {
		ver, res.Variant = protocol.Version1_3, "dtls13"
	}
	if cidLen != 8 {
		res.Variant += fmt.Sprintf("-cid%d", cidLen)
	}
	if mtu > 0 {
		res.Variant += fmt.Sprintf("-mtu%d", mtu)
		scfg.MTU = mtu
	}
	scfg.MinVersion, scfg.MaxVersion = ver, ver
	scfg.ConnectionIDGenerator = RandomCIDGenerator(cidLen)
	ln, err := listenWithConfig("udp4", &net.UDPAddr{IP: net.IPv4(127, 0, 0, 1)}, scfg)
	if err != nil {
		t.Fatalf("listen: %v", err)
	}
	ctx, cancel := context.WithTimeout(context.Background(), 20*time.Second)
	defer cancel()
	var ss []*c15lSession
	var extra []*c15lSock
	defer func() {
		for _, s := range ss {
			_ = s.client.Close()
			if s.server != nil {
				_ = s.server.Close()
			}
		}
		_ = ln.Close()
		for _, e := range extra {
			_ = e.Close()
		}
	}()
	newSock := func() *c15lSock {
		u, err := net.ListenUDP("udp4", &net.UDPAddr{IP: net.IPv4(127, 0, 0, 1)})
		if err != nil {
			t.Fatalf("socket: %v", err)
		}

		return &c15lSock{UDPConn: u}
	}
	for i := 0; i < nClients; i++ {
		sock := newSock()
		ccfg := *ccfgT
		ccfg.MinVersion, ccfg.MaxVersion = ver, ver
		ccfg.ConnectionIDGenerator = RandomCIDGenerator(4)
		cl, err := clientWithConfig(sock, ln.Addr(), &ccfg)
		if err != nil {
			t.Fatalf("client: %v", err)
		}
		s := &c15lSession{sock: sock, client: cl, rd: &c15lReader{}, addr: sock.LocalAddr().String(), valid: map[string]bool{}}
		ss = append(ss, s)
		type sres struct {
			c   *Conn
			err error
		}
		ch := make(chan sres, 1)
		go func() {
			a, err := ln.Accept()
			if err != nil {
				ch <- sres{err: err}

				return
			}
			sc, _ := a.(*Conn)
			ch <- sres{c: sc, err: sc.HandshakeContext(ctx)}
		}()
		if err := cl.HandshakeContext(ctx); err != nil {
			res.Err = "client handshake: " + err.Error()

			return res
		}
		r := <-ch
		if r.err != nil {
			res.Err = "server handshake: " + r.err.Error()

			return res
		}
		s.server = r.c
		s.cid = append([]byte(nil), dtlsstate.CommonState(s.server.state).LocalConnectionID()...)
		s.valid[s.addr] = true
		if !dtlsstate.CommonState(s.server.state).RRCNegotiated || len(s.cid) != cidLen {
			res.Err = "connection ID / RRC not negotiated"

			return res
		}
		ws, learned, frag := c15lWrites(sock.snapshot())
		res.Writes, res.Learned, res.SHFrag = append(res.Writes, ws), append(res.Learned, learned), append(res.SHFrag, frag)
		go s.rd.run(s.server)
		go (&c15lReader{}).run(s.client) // the client must consume what reaches its socket
		res.CIDs = append(res.CIDs, vHex(s.cid))
		res.Addrs = append(res.Addrs, s.addr)
	}
	nPayload := 0
	waitRead := func(p string, limit time.Duration) []int {
		deadline := time.Now().Add(limit)
		for {
			var who []int
			for i, s := range ss {
				if s.rd.has(p) {
					who = append(who, i)
				}
			}
			if len(who) > 0 {
				time.Sleep(5 * time.Millisecond) // would anyone else read it too?
				who = who[:0]
				for i, s := range ss {
					if s.rd.has(p) {
						who = append(who, i)
					}
				}

				return who
			}
			if time.Now().After(deadline) {
				return nil
			}
			time.Sleep(time.Millisecond)
		}
	}
	finish := func(op *c15lOp, who []int) {
		op.Readers = append([]int{}, who...)
		op.Reader = -1
		if len(who) > 0 {
			op.Reader = who[0]
		}
		for _, s := range ss {
			op.RAddrs = append(op.RAddrs, s.server.RemoteAddr().String())
		}
		for a := range ss[op.X].valid {
			op.Valid = append(op.Valid, a)
		}
		res.Ops = append(res.Ops, *op)
	}
	send := func(kind string, x, y int, sock *c15lSock, tamper bool, limit time.Duration) *c15lOp {
		nPayload++
		op := &c15lOp{Op: kind, X: x, Y: y, Src: sock.LocalAddr().String(), Payload: fmt.Sprintf("c15l-%s-%03d", res.Variant, nPayload)}
		raw, err := c15lRecord(ss[x].client, op.Payload)
		if err != nil {
			res.Err = "record: " + err.Error()

			return op
		}
		off := 11
		if v13 {
			off = 1
		}
		if tamper {
			raw[off+rng.intn(cidLen)] ^= byte(1 + rng.intn(255))
		}
		op.CID = vHex(raw[off : off+cidLen])
		if _, err := sock.WriteTo(raw, ln.Addr()); err != nil {
			res.Err = "send: " + err.Error()
		}
		who := waitRead(op.Payload, limit)
		finish(op, who)

		return op
	}
	const okWait, noneWait = 600 * time.Millisecond, 150 * time.Millisecond
	for i := 0; i < nOps && res.Err == ""; i++ {
		x := rng.intn(nClients)
		y := (x + 1 + rng.intn(nClients-1)) % nClients
		c := rng.intn(10)
		if i == 0 && (cidLen != 8 || mtu > 0) {
			c = 6 // the length / MTU variants always contain a record from a brand-new address
		}
		switch {
		case c < 2:
			send("own", x, -1, ss[x].sock, false, okWait)
		case c < 6:
			send("fromother", x, y, ss[y].sock, false, okWait)
		case c < 7:
			sock := newSock()
			extra = append(extra, sock)
			send("fresh", x, -1, sock, false, okWait)
		case c < 8:
			src := ss[y].sock
			send("unknown", x, y, src, true, noneWait)
		default:
			// full rebinding: fresh socket, read the challenge there, answer it from there
			sock := newSock()
			extra = append(extra, sock)
			op := send("rebind", x, -1, sock, false, okWait)
			res.Ops = res.Ops[:len(res.Ops)-1]
			cl := ss[x].client
			buf := make([]byte, 2048)
			_ = sock.SetReadDeadline(time.Now().Add(500 * time.Millisecond))
			n, _, err := sock.ReadFrom(buf)
			if err != nil {
				op.Note = "no challenge at the new socket"
			} else {
				localLen := len(dtlsstate.CommonState(cl.state).LocalConnectionIDForInboundRecords())
				p := c15Open(cl, buf[:n], localLen)
				if !p.OK || p.RRCType != 0 {
					op.Note = "datagram at the new socket is not a path challenge"
				} else {
					var cookie [protocol.ReturnRoutabilityCheckCookieLength]byte
					copy(cookie[:], p.Payload[1:])
					resp := &dtlsflight.Packet{
						Record: &recordlayer.RecordLayer{
							Header: recordlayer.Header{Version: protocol.Version1_2, Epoch: dtlsstate.CommonState(cl.state).LocalEpoch()},
							Content: &protocol.ReturnRoutabilityCheck{
								MessageType: protocol.ReturnRoutabilityCheckPathResponse, Cookie: cookie,
							},
						},
						ShouldWrapCID: !v13 && cl.state.ShouldWrapConnectionID(),
						ShouldEncrypt: true,
					}
					ds, _, err := cl.prepareRawPacketsTracked([]*dtlsflight.Packet{resp})
					if err == nil && len(ds) == 1 {
						ss[x].valid[sock.LocalAddr().String()] = true
						_, _ = sock.WriteTo(ds[0].raw, ln.Addr())
						deadline := time.Now().Add(500 * time.Millisecond)
						for time.Now().Before(deadline) {
							if ss[x].server.RemoteAddr().String() == sock.LocalAddr().String() {
								op.Rebound = true

								break
							}
							time.Sleep(time.Millisecond)
						}
					}
				}
			}
			op.RAddrs, op.Valid = nil, nil
			finish(op, op.Readers)
		}
		// every session keeps working from its own socket
		for k := range ss {
			if res.Err == "" {
				send("own", k, -1, ss[k].sock, false, okWait)
			}
		}
	}
	time.Sleep(10 * time.Millisecond)
	for _, op := range res.Ops {
		n := 0
		for _, s := range ss {
			n += s.rd.count(op.Payload)
		}
		if n > 1 {
			res.Dups++
		}
	}

	return res
}

func TestVerifC15Listener(t *testing.T) {
	out := newVOut(t)
	rng := newVRand(vSeed() ^ 0xc151)
	n := 2
	if vIsThorough() {
		n = 20
	}
	for i := 0; i < n; i++ {
		for _, v13 := range []bool{false, true} {
			out.emit(c15lRun(t, rng, v13, 8, 0, 2+rng.intn(2), 5+rng.intn(4)))
		}
	}
	// server ID lengths around the point where the DTLS 1.3 ServerHello no longer fits the default
	// MTU, and a DTLS 1.2 server whose MTU fragments the ServerHello (plus the unfragmented controls)
	m := 1
	if vIsThorough() {
		m = 4
	}
	for i := 0; i < m; i++ {
		out.emit(c15lRun(t, rng, true, 16, 0, 2, 3+rng.intn(3)))
		out.emit(c15lRun(t, rng, true, 20, 0, 2, 3+rng.intn(3)))
		out.emit(c15lRun(t, rng, false, 8, 64, 2, 3+rng.intn(3)))
		out.emit(c15lRun(t, rng, false, 20, 0, 2, 3+rng.intn(3)))
		if vIsThorough() {
			out.emit(c15lRun(t, rng, true, 32, 0, 2, 3+rng.intn(3)))
			out.emit(c15lRun(t, rng, false, 4, 200, 2, 3+rng.intn(3)))
		}
	}
}
