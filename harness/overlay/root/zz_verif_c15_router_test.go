//go:build verif

// C15 correspondence harness (c): cidDatagramRouter (DTLS 1.2 branch) on datagrams assembled
// from a structural description (content type, version validity, connection ID per record,
// optional truncation), compared with coq/theories/Rrc/C15Router.v. The router's signature has no
// source address; the harness additionally checks that the result does not depend on anything but
// the bytes by calling it twice through differently constructed closures.
package dtls

import (
	"encoding/binary"
	"testing"
)

type c15RouterRec struct {
	CT    int    `json:"ct"`
	VerOK bool   `json:"verok"`
	CID   string `json:"cid"`
}

type c15RouterCase struct {
	Kind  string         `json:"kind"`
	Size  int            `json:"size"`
	Bad   bool           `json:"bad"` // the datagram does not split into records
	Recs  []c15RouterRec `json:"recs"`
	Found bool           `json:"found"`
	ID    string         `json:"id"`
	Same  bool           `json:"same"`
}

func TestVerifC15Router(t *testing.T) {
	out := newVOut(t)
	rng := newVRand(vSeed() ^ 0xc15d)
	n := 600
	if vIsThorough() {
		n = 30000
	}
	cts := []int{20, 21, 22, 23, 25, 25, 25, 26, 27, 24, 19}
	for i := 0; i < n; i++ {
		size := []int{0, 1, 4, 8, 20}[rng.intn(5)]
		c := c15RouterCase{Kind: "router", Size: size}
		var dg []byte
		nrec := rng.intn(5)
		for j := 0; j < nrec; j++ {
			ct := cts[rng.intn(len(cts))]
			verOK := rng.intn(5) != 0
			ver := []byte{0xfe, 0xfd}
			if !verOK {
				ver = [][]byte{{0xfe, 0xfc}, {0x03, 0x03}, {0xfe, 0xfe}}[rng.intn(3)]
			} else if rng.intn(3) == 0 {
				ver = []byte{0xfe, 0xff} // DTLS 1.0 is accepted by Header.Unmarshal too
			}
			hdr := []byte{byte(ct), ver[0], ver[1], 0, 1, 0, 0, 0, 0, 0, byte(j)}
			cid := []byte{}
			if ct == 25 {
				cid = rng.bytes(size)
				hdr = append(hdr, cid...)
			}
			body := rng.bytes(1 + rng.intn(20))
			var l [2]byte
			binary.BigEndian.PutUint16(l[:], uint16(len(body)))
			hdr = append(hdr, l[:]...)
			dg = append(dg, append(hdr, body...)...)
			c.Recs = append(c.Recs, c15RouterRec{CT: ct, VerOK: verOK, CID: vHex(cid)})
		}
		switch rng.intn(8) {
		case 0: // truncate: the last record's length no longer fits
			if len(dg) > 0 {
				dg = dg[:len(dg)-1]
				c.Bad = true
			}
		case 1: // trailing bytes shorter than a header
			dg = append(dg, 23, 0xfe, 0xfd)
			c.Bad = true
		}
		if len(dg) == 0 {
			c.Bad = true // empty datagram: ("", false)
		}
		id, ok := cidDatagramRouter(size)(dg)
		id2, ok2 := cidDatagramRouter(size)(append([]byte(nil), dg...))
		c.Found, c.ID, c.Same = ok, vHex([]byte(id)), ok == ok2 && id == id2
		out.emit(c)
	}
}
