//go:build verif

// C16 lifecycle harness: Close / fatal alert / close_notify / deadlines placed at every
// step index of a scripted handshake + data phase, on real client+server connections
// inside a synctest bubble. One JSON line per scenario on VERIF_OUT.
// Round 2: Close on a socket that does not take writes (closeblk), Close / expired deadline
// while a Read or a Write runs the implicit Handshake (iclose / idl), the state accessors at
// every log point of one endpoint (access), key possession of the receiver of a fatal alert.
package dtls

import (
	"context"
	"errors"
	"fmt"
	"io"
	"net"
	"os"
	"runtime"
	"strings"
	"sync"
	"sync/atomic"
	"testing"
	"testing/synctest"
	"time"

	dtlsstate "github.com/pion/dtls/v3/internal/state"
	"github.com/pion/dtls/v3/pkg/protocol"
	"github.com/pion/dtls/v3/pkg/protocol/alert"
	"github.com/pion/dtls/v3/pkg/protocol/recordlayer"
	"github.com/pion/logging"
	"github.com/pion/transport/v4/netctx"
)

// ---------------------------------------------------------------- gate-able PacketConn

// c16Conn wraps a lab endpoint: WriteTo can be made to block (full socket buffer) and
// honours SetWriteDeadline/Close while blocked, as a real net.PacketConn does.
type c16Conn struct {
	*vEndpoint
	gmu        sync.Mutex
	gate       chan struct{} // non-nil: WriteTo blocks until it is closed
	wdl        time.Time
	wdlChanged chan struct{}
	afterWrite func(p []byte) // called after the datagram is on the wire, before WriteTo returns
	refuse     atomic.Bool    // WriteTo fails (a connected UDP socket after an ICMP error)
}

var errC16Refused = errors.New("c16: transport refused the datagram") //nolint:gochecknoglobals

func c16Wrap(ep *vEndpoint) *c16Conn {
	return &c16Conn{vEndpoint: ep, wdlChanged: make(chan struct{})}
}

func (c *c16Conn) block() {
	c.gmu.Lock()
	if c.gate == nil {
		c.gate = make(chan struct{})
	}
	c.gmu.Unlock()
}

func (c *c16Conn) unblock() {
	c.gmu.Lock()
	if c.gate != nil {
		close(c.gate)
		c.gate = nil
	}
	c.gmu.Unlock()
}

func (c *c16Conn) setAfterWrite(f func(p []byte)) {
	c.gmu.Lock()
	c.afterWrite = f
	c.gmu.Unlock()
}

func (c *c16Conn) WriteTo(p []byte, addr net.Addr) (int, error) {
	if c.refuse.Load() {
		return 0, errC16Refused
	}
	for {
		c.gmu.Lock()
		g, dl, ch := c.gate, c.wdl, c.wdlChanged
		c.gmu.Unlock()
		if g == nil {
			break
		}
		var timer <-chan time.Time
		if !dl.IsZero() {
			d := time.Until(dl)
			if d <= 0 {
				return 0, vTimeout{}
			}
			tm := time.NewTimer(d)
			timer = tm.C
			defer tm.Stop()
		}
		select {
		case <-g:
		case <-c.closed:
			return 0, errVClosed
		case <-timer:
			return 0, vTimeout{}
		case <-ch:
		}
	}
	n, err := c.vEndpoint.WriteTo(p, addr)
	c.gmu.Lock()
	hook := c.afterWrite
	c.gmu.Unlock()
	if hook != nil && err == nil {
		hook(p)
	}

	return n, err
}

func (c *c16Conn) SetWriteDeadline(t time.Time) error {
	c.gmu.Lock()
	c.wdl = t
	close(c.wdlChanged)
	c.wdlChanged = make(chan struct{})
	c.gmu.Unlock()

	return nil
}

func (c *c16Conn) SetDeadline(t time.Time) error {
	_ = c.vEndpoint.SetReadDeadline(t)

	return c.SetWriteDeadline(t)
}

// ---------------------------------------------------------------- calls

// c16Call is one API call running on its own goroutine.
type c16Call struct {
	done chan struct{}
	mu   sync.Mutex
	err  error
}

func c16Go(f func() error) *c16Call {
	c := &c16Call{done: make(chan struct{})}
	go func() {
		defer close(c.done)
		err := f()
		c.mu.Lock()
		c.err = err
		c.mu.Unlock()
	}()

	return c
}

func (c *c16Call) returned() bool {
	if c == nil {
		return false
	}
	select {
	case <-c.done:
		return true
	default:
		return false
	}
}

// class: "none" (call not made), "stuck" (has not returned), or the error class.
func (c *c16Call) class() string {
	if c == nil {
		return "none"
	}
	if !c.returned() {
		return "stuck"
	}
	c.mu.Lock()
	defer c.mu.Unlock()

	return c16Class(c.err)
}

func (c *c16Call) text() string {
	if c == nil || !c.returned() {
		return ""
	}
	c.mu.Lock()
	defer c.mu.Unlock()
	if c.err == nil {
		return ""
	}

	return c.err.Error()
}

// c16Class projects an error to the classes the property speaks about.
func c16Class(err error) string {
	var ae *alertError
	switch {
	case err == nil:
		return "ok"
	case errors.Is(err, io.EOF):
		return "eof"
	case errors.Is(err, ErrConnClosed):
		return "closed"
	case errors.As(err, &ae):
		return "alert"
	case errors.Is(err, context.DeadlineExceeded):
		return "deadline"
	case errors.Is(err, context.Canceled):
		return "canceled"
	case errors.Is(err, net.ErrClosed), errors.Is(err, errVClosed), errors.Is(err, netctx.ErrClosing):
		return "netclosed"
	}

	return "other"
}

type c16Reader struct {
	call *c16Call
	mu   sync.Mutex
	got  []string
}

func c16StartReader(conn *Conn) *c16Reader {
	r := &c16Reader{}
	r.call = c16Go(func() error {
		buf := make([]byte, 4096)
		for {
			n, err := conn.Read(buf)
			if err != nil {
				return err
			}
			r.mu.Lock()
			r.got = append(r.got, string(buf[:n]))
			r.mu.Unlock()
		}
	})

	return r
}

func (r *c16Reader) count() int {
	if r == nil {
		return 0
	}
	r.mu.Lock()
	defer r.mu.Unlock()

	return len(r.got)
}

// ---------------------------------------------------------------- lab

func c16Configs(variant string) (*dtlsConfig, *dtlsConfig) {
	var c, s *dtlsConfig
	switch variant {
	case "v12":
		c, s = vCertPair()
	case "v12psk":
		c, s = vPSKPair(TLS_PSK_WITH_AES_128_GCM_SHA256)
	case "v13":
		c, s = vCertPair()
		c.MinVersion, c.MaxVersion = protocol.Version1_3, protocol.Version1_3
		s.MinVersion, s.MaxVersion = protocol.Version1_3, protocol.Version1_3
	case "dual":
		c, s = vCertPair()
		c.MinVersion, c.MaxVersion = protocol.Version1_2, protocol.Version1_3
		s.MinVersion, s.MaxVersion = protocol.Version1_2, protocol.Version1_3
	case "dualc": // dual-stack client, 1.2-only server
		c, s = vCertPair()
		c.MinVersion, c.MaxVersion = protocol.Version1_2, protocol.Version1_3
	case "duals": // 1.2-only client, dual-stack server
		c, s = vCertPair()
		s.MinVersion, s.MaxVersion = protocol.Version1_2, protocol.Version1_3
	case "dual13": // dual-stack client, 1.3-only server
		c, s = vCertPair()
		c.MinVersion, c.MaxVersion = protocol.Version1_2, protocol.Version1_3
		s.MinVersion, s.MaxVersion = protocol.Version1_3, protocol.Version1_3
	default:
		panic("variant " + variant)
	}

	return c, s
}

type c16Lab struct {
	lab    *vLab
	wrap   map[string]*c16Conn
	next   int // next datagram index of the log to deliver
	nDeliv int
}

// ---------------------------------------------------------------- accessors at every log point

// c16Access calls the state accessors of one connection at every point at which that
// connection logs (every FSM transition, every "-> changeCipherSpec", ...), on the goroutine
// that logs: a systematic placement of "a state accessor is called now" between the steps
// of the handshake goroutines, which quiescence points cannot reach.
type c16Access struct {
	conn    atomic.Pointer[Conn]
	mu      sync.Mutex
	calls   int
	stateOK int
	skipped int
	panics  []string
}

func (a *c16Access) at(msg string) {
	conn := a.conn.Load()
	if conn == nil {
		return
	}
	// a log call made while the logging goroutine holds conn.lock for writing: the accessor
	// would wait for its own goroutine - not a placement another goroutine could produce
	if !conn.lock.TryRLock() {
		a.mu.Lock()
		a.skipped++
		a.mu.Unlock()

		return
	}
	conn.lock.RUnlock()
	defer func() {
		if r := recover(); r != nil {
			a.mu.Lock()
			if len(a.panics) < 8 {
				a.panics = append(a.panics, fmt.Sprintf("%v (at log point %q)", r, msg))
			}
			a.mu.Unlock()
		}
	}()
	a.mu.Lock()
	a.calls++
	a.mu.Unlock()
	_, ok := conn.ConnectionState()
	_ = conn.RemoteAddr()
	_ = conn.LocalAddr()
	_, _ = conn.SelectedSRTPProtectionProfile()
	_, _ = conn.RemoteSRTPMasterKeyIdentifier()
	if ok {
		a.mu.Lock()
		a.stateOK++
		a.mu.Unlock()
	}
}

type c16HookLogger struct{ a *c16Access }

func (l c16HookLogger) Trace(m string)            { l.a.at(m) }
func (l c16HookLogger) Tracef(f string, v ...any) { l.a.at(fmt.Sprintf(f, v...)) }
func (l c16HookLogger) Debug(m string)            { l.a.at(m) }
func (l c16HookLogger) Debugf(f string, v ...any) { l.a.at(fmt.Sprintf(f, v...)) }
func (l c16HookLogger) Info(m string)             { l.a.at(m) }
func (l c16HookLogger) Infof(f string, v ...any)  { l.a.at(fmt.Sprintf(f, v...)) }
func (l c16HookLogger) Warn(m string)             { l.a.at(m) }
func (l c16HookLogger) Warnf(f string, v ...any)  { l.a.at(fmt.Sprintf(f, v...)) }
func (l c16HookLogger) Error(m string)            { l.a.at(m) }
func (l c16HookLogger) Errorf(f string, v ...any) { l.a.at(fmt.Sprintf(f, v...)) }

type c16HookFactory struct{ a *c16Access }

func (f c16HookFactory) NewLogger(string) logging.LeveledLogger { return c16HookLogger(f) }

func c16NewLab(t *testing.T, variant string) *c16Lab { return c16NewLabAccess(t, variant, "", nil) }

// c16NewLabAccess: as c16NewLab; the connection of `side` logs into acc.
func c16NewLabAccess(t *testing.T, variant, side string, acc *c16Access) *c16Lab {
	t.Helper()
	ccfg, scfg := c16Configs(variant)
	if acc != nil && side == "client" {
		ccfg.LoggerFactory = c16HookFactory{acc}
	}
	if acc != nil && side == "server" {
		scfg.LoggerFactory = c16HookFactory{acc}
	}
	n := newVNet()
	cw := c16Wrap(n.endpoint("client"))
	sw := c16Wrap(n.endpoint("server"))
	cc, err := clientWithConfig(cw, vAddr("server"), ccfg)
	if err != nil {
		t.Fatalf("client: %v", err)
	}
	sc, err := serverWithConfig(sw, vAddr("client"), scfg)
	if err != nil {
		t.Fatalf("server: %v", err)
	}
	lab := &vLab{Net: n, Pump: &vPump{net: n}}
	lab.Client = &vPeer{Name: "client", EP: cw.vEndpoint, Conn: cc, Done: make(chan struct{})}
	lab.Server = &vPeer{Name: "server", EP: sw.vEndpoint, Conn: sc, Done: make(chan struct{})}
	if acc != nil {
		acc.conn.Store(lab.peer(side).Conn)
	}

	return &c16Lab{lab: lab, wrap: map[string]*c16Conn{"client": cw, "server": sw}}
}

// deliverNext delivers the oldest undelivered datagram (one at a time, quiescence
// before and after). false when nothing is in flight.
func (l *c16Lab) deliverNext() bool {
	synctest.Wait()
	news := l.lab.Net.since(l.next)
	if len(news) == 0 {
		return false
	}
	d := news[0]
	l.next = d.Idx + 1
	l.lab.Net.deliver(d.To, d.From, d.Data)
	l.nDeliv++
	synctest.Wait()

	return true
}

func (l *c16Lab) drain(max int) int {
	n := 0
	for n < max && l.deliverNext() {
		n++
	}

	return n
}

// ---------------------------------------------------------------- wire observation

type c16Alert struct {
	From  string `json:"from"`
	Idx   int    `json:"idx"`
	Level int    `json:"level"`
	Desc  int    `json:"desc"`
	Enc   bool   `json:"enc"`
}

// c16Alerts lists the alert records `from` put on the wire (datagram index >= since),
// decrypting protected records with the receiving connection's keys (read-only use of
// the receiver after the run). und = protected records that could not be opened.
func c16Alerts(log []vDatagram, from string, recv *Conn, since int) (out []c16Alert, und int) {
	for _, d := range log {
		if d.From != from || d.Idx < since {
			continue
		}
		pkts, err := recv.unpackDatagram(d.Data)
		if err != nil {
			und++

			continue
		}
		for _, p := range pkts {
			if len(p) == 0 {
				continue
			}
			if protocol.IsDTLS13Ciphertext(protocol.ContentType(p[0])) {
				rec, err := recv.unmarshalCiphertextRecord(p)
				if err != nil {
					und++

					continue
				}
				inner, _, _, err := recv.openCiphertextRecord(rec)
				if err != nil {
					und++

					continue
				}
				if inner.RealType == protocol.ContentTypeAlert && len(inner.Content) >= 2 {
					out = append(out, c16Alert{from, d.Idx, int(inner.Content[0]), int(inner.Content[1]), true})
				}

				continue
			}
			h := &recordlayer.Header{}
			if err := h.Unmarshal(p); err != nil {
				und++

				continue
			}
			if h.ContentType != protocol.ContentTypeAlert {
				continue
			}
			if h.Epoch == 0 {
				body := p[h.Size():]
				if len(body) >= 2 {
					out = append(out, c16Alert{from, d.Idx, int(body[0]), int(body[1]), false})
				}

				continue
			}
			dec, ok := recv.decryptLegacyRecord(h, p)
			if !ok || len(dec) < h.Size()+2 {
				und++

				continue
			}
			out = append(out, c16Alert{from, d.Idx, int(dec[h.Size()]), int(dec[h.Size()+1]), true})
		}
	}

	return out, und
}

func c16CountCN(as []c16Alert) int {
	n := 0
	for _, a := range as {
		if a.Desc == int(alert.CloseNotify) {
			n++
		}
	}

	return n
}

func c16CountFatal(as []c16Alert) int {
	n := 0
	for _, a := range as {
		if a.Level == int(alert.Fatal) {
			n++
		}
	}

	return n
}

// ---------------------------------------------------------------- scenarios

type c16Scenario struct {
	Variant string `json:"variant"`
	// close | fatal | deadline | hsctx | simul | nohs | none |
	// closeblk: Close of an established connection whose socket does not take writes |
	// phpeer / phfatal / phclose: DTLS 1.3, established: the peer's KeyUpdate (early=1: requesting ours) arrives
	//   while X's socket refuses writes (wblock=1: does not take them); then the peer closes / the peer sends
	//   a fatal alert / X closes (closers) |
	// iclose / idl: Close / expired deadline while a Read (early=0) or Write (early=1) of X runs the
	//   implicit Handshake() (no explicit HandshakeContext call on X) |
	// access: the state accessors are called at every log point of X during the whole script
	Event   string `json:"event"`
	Side    string `json:"side"` // endpoint the event is applied to (X); the other one is P
	K       int    `json:"k"`    // number of datagram deliveries before the injection
	Closers int    `json:"closers"`
	WBlock  bool   `json:"wblock"` // a Write blocked in the socket is present on X at the injection
	Early   bool   `json:"early"`  // Read and Write issued during the handshake, right before the Close
}

type c16Obs struct {
	Kind string      `json:"kind"`
	Sc   c16Scenario `json:"sc"`
	// state at the injection
	Reached   bool   `json:"reached"` // the script reached step K (else injected at the end)
	Steps     int    `json:"steps"`   // deliveries performed before the injection
	EstX      bool   `json:"est_x"`
	EstP      bool   `json:"est_p"`
	ClosedX0  bool   `json:"closed_x0"` // X already closed before the injection
	HsPendX   bool   `json:"hs_pend_x"`
	NegX      bool   `json:"neg_x"`      // X's pending HandshakeContext is still in version negotiation (no FSM yet)
	EstX1     bool   `json:"est_x1"`     // X established at the end of the run
	HeldReply bool   `json:"held_reply"` // simul: the read loop was held exactly at its close_notify reply
	HeldIdx   int    `json:"held_idx"`
	HsPendP   bool   `json:"hs_pend_p"`
	RdPendX   bool   `json:"rd_pend_x"`
	RdPendP   bool   `json:"rd_pend_p"`
	WrPendX   bool   `json:"wr_pend_x"`
	Accepted  bool   `json:"accepted"` // fatal: X was closed by the delivered alert
	Delivered bool   `json:"delivered"`
	EpP       int    `json:"ep_p"`               // fatal: P's local epoch when it sent the alert
	XKeys     bool   `json:"x_keys"`             // fatal (DTLS 1.3): X held the read keys of that epoch, epoch <= X's remote epoch
	SockBlk   bool   `json:"sock_blk"`           // closeblk: X's socket was not taking writes when Close was called
	CloseMs   int    `json:"close_ms"`           // closeblk: virtual ms until every Close had returned (-1: one had not after 6 s)
	Implicit  string `json:"implicit,omitempty"` // iclose/idl: the call of X that runs the implicit Handshake
	DlHsX     string `json:"dl_hs_x,omitempty"`  // idl: class of that call 100 ms after its deadline expired
	// phpeer / phfatal / phclose
	PhReached  bool   `json:"ph_reached"`   // X's state machine failed on (wblock: is blocked in) the ACK of the peer's message
	PhFsmEnded bool   `json:"ph_fsm_ended"` // X's state machine has ended
	PhUpdate   string `json:"ph_update"`    // result class of the peer's UpdateKeys (500 ms)
	// access
	AccCalls   int      `json:"acc_calls"`
	AccStateOK int      `json:"acc_state_ok"`
	AccSkipped int      `json:"acc_skipped"`
	AccPanics  []string `json:"acc_panics,omitempty"`
	// results
	CloseRes []string `json:"close_res"`
	HsX      string   `json:"hs_x"`
	HsP      string   `json:"hs_p"`
	RdX      string   `json:"rd_x"`
	RdP      string   `json:"rd_p"`
	WrX      string   `json:"wr_x"`
	WrText   string   `json:"wr_text,omitempty"`
	ErX      string   `json:"er_x"` // early Read (issued during the handshake)
	EwX      string   `json:"ew_x"` // early Write
	ClosedX  bool     `json:"closed_x"`
	ClosedP  bool     `json:"closed_p"`
	// after-calls
	Close2X string `json:"close2_x"`
	WrAftX  string `json:"wr_aft_x"`
	RdAftX  string `json:"rd_aft_x"`
	WrAftP  string `json:"wr_aft_p"`
	ClosePP string `json:"close_p"`
	// deadline: connection still usable
	AliveAfter bool `json:"alive_after"`
	// wire
	CNX    int        `json:"cn_x"` // close_notify records before the harness's own teardown Close
	CNP    int        `json:"cn_p"`
	CNXAll int        `json:"cn_x_all"` // including the teardown
	CNPAll int        `json:"cn_p_all"`
	FatalX int        `json:"fatal_x"`
	FatalP int        `json:"fatal_p"`
	Und    int        `json:"und"`   // protected records that could not be opened after the run
	UndX   int        `json:"und_x"` // ... among those sent by X
	UndP   int        `json:"und_p"`
	Alerts []c16Alert `json:"alerts"`
	// monitors of the runtime
	Leak     int    `json:"leak"`
	LeakInfo string `json:"leak_info,omitempty"`
	Panic    string `json:"panic,omitempty"`
	Texts    string `json:"texts,omitempty"`
}

const c16DataSteps = 4

func c16BubbleGoroutines() int { return runtime.NumGoroutine() }

// c16Leaked lists the goroutines of synctest bubbles other than the harness's own three
// (the test function, synctest's root, testing's waiter). Bubbles run one after the other,
// so anything else is a goroutine left behind by the connections under test.
func c16Leaked() []string {
	buf := make([]byte, 1<<20)
	n := runtime.Stack(buf, true)
	var keep []string
	for _, g := range strings.Split(string(buf[:n]), "\n\n") {
		head, _, _ := strings.Cut(g, "\n")
		if !strings.Contains(head, "synctest bubble") {
			continue
		}
		if strings.Contains(g, "c16Bubble") || strings.Contains(g, "internal/synctest.Run(") ||
			strings.Contains(g, "testingSynctestTest") || strings.Contains(g, "TestVerifC16") {
			continue
		}
		lines := strings.Split(g, "\n")
		if len(lines) > 13 {
			lines = lines[:13]
		}
		keep = append(keep, strings.Join(lines, " | "))
	}

	return keep
}

func c16Stacks() string {
	s := strings.Join(c16Leaked(), " ## ")
	if len(s) > 4000 {
		s = s[:4000]
	}

	return s
}

// c16LeakCheck: goroutines left after both connections were closed through the API.
func c16LeakCheck(base int) (int, string) {
	if c16BubbleGoroutines()-base <= 0 {
		return 0, ""
	}
	var left []string
	for i := 0; i < 600; i++ { // goroutines between their last channel operation and their exit
		if i < 20 || i%20 == 0 || i == 599 { // a full stack dump each time is slow when something did leak
			if left = c16Leaked(); len(left) == 0 {
				return 0, ""
			}
		}
		runtime.Gosched()
	}

	return len(left), c16Stacks()
}

// c16Run executes one scenario inside the current bubble.
func c16Run(t *testing.T, sc c16Scenario) (obs c16Obs) {
	t.Helper()
	if sc.Event == "iclose" || sc.Event == "idl" {
		return c16RunImplicit(t, sc)
	}
	obs = c16Obs{Kind: "c16", Sc: sc}
	base := c16BubbleGoroutines()
	var acc *c16Access
	if sc.Event == "access" {
		acc = &c16Access{}
	}
	l := c16NewLabAccess(t, sc.Variant, sc.Side, acc)
	X, P := l.lab.peer(sc.Side), l.lab.other(sc.Side)
	xw := l.wrap[sc.Side]
	ctxX, cancelX := context.WithCancel(context.Background())
	defer cancelX()
	if acc != nil {
		defer func() {
			acc.mu.Lock()
			obs.AccCalls, obs.AccStateOK, obs.AccSkipped = acc.calls, acc.stateOK, acc.skipped
			obs.AccPanics = append([]string(nil), acc.panics...)
			acc.mu.Unlock()
		}()
	}

	var hsX, hsP, wrX *c16Call
	var rdX, rdP *c16Reader
	if sc.Event == "nohs" {
		// Close before any Handshake call
		var cl []*c16Call
		for i := 0; i < sc.Closers; i++ {
			cl = append(cl, c16Go(X.Conn.Close))
		}
		synctest.Wait()
		for _, c := range cl {
			obs.CloseRes = append(obs.CloseRes, c.class())
		}
		obs.ClosedX = X.Conn.isConnectionClosed()
		hsX = c16Go(func() error { return X.Conn.HandshakeContext(ctxX) })
		synctest.Wait()
		obs.HsPendX = true
		obs.HsX = hsX.class()
		obs.Texts = hsX.text()
		w := c16Go(func() error { _, err := X.Conn.Write([]byte("after")); return err })
		synctest.Wait()
		obs.WrAftX = w.class()
		c2 := c16Go(X.Conn.Close)
		synctest.Wait()
		obs.Close2X = c2.class()
		c16Finish(t, l, &obs, base, X, P, 0)

		return obs
	}

	hsX = c16Go(func() error { return X.Conn.HandshakeContext(ctxX) })
	hsP = c16Go(func() error { return P.Conn.HandshakeContext(context.Background()) })

	// scripted handshake + data phase up to step K
	dataStep := 0
	startedData := false
	payload := func(i int) []byte { return []byte(fmt.Sprintf("c16-data-%02d-0123456789abcdef", i)) }
	stepOnce := func() bool {
		if l.deliverNext() {
			return true
		}
		// nothing in flight: handshake finished on both sides?
		if !(hsX.returned() && hsP.returned() && X.Conn.isHandshakeCompletedSuccessfully() &&
			P.Conn.isHandshakeCompletedSuccessfully()) {
			// handshake waiting for a retransmission timer: let virtual time pass once
			time.Sleep(1100 * time.Millisecond)

			return l.deliverNext()
		}
		if !startedData {
			startedData = true
			rdX = c16StartReader(X.Conn)
			rdP = c16StartReader(P.Conn)
			synctest.Wait()
		}
		if dataStep >= c16DataSteps {
			return false
		}
		w := l.lab.Client
		if dataStep%2 == 1 {
			w = l.lab.Server
		}
		if _, err := w.Conn.Write(payload(dataStep)); err != nil {
			return false
		}
		dataStep++

		return l.deliverNext()
	}
	obs.Reached = true
	for obs.Steps < sc.K {
		if !stepOnce() {
			obs.Reached = false

			break
		}
		obs.Steps++
	}
	synctest.Wait()
	// make sure the readers exist once both sides are established (injection exactly at H)
	if !startedData && hsX.returned() && hsP.returned() && X.Conn.isHandshakeCompletedSuccessfully() &&
		P.Conn.isHandshakeCompletedSuccessfully() {
		startedData = true
		rdX = c16StartReader(X.Conn)
		rdP = c16StartReader(P.Conn)
		synctest.Wait()
	}

	obs.EstX = X.Conn.isHandshakeCompletedSuccessfully()
	obs.EstP = P.Conn.isHandshakeCompletedSuccessfully()
	obs.ClosedX0 = X.Conn.isConnectionClosed()
	obs.HsPendX = !hsX.returned()
	obs.HsPendP = !hsP.returned()
	obs.NegX = obs.HsPendX && X.Conn.fsm == nil
	obs.HeldIdx = -1
	obs.RdPendX = rdX != nil && !rdX.call.returned()
	obs.RdPendP = rdP != nil && !rdP.call.returned()
	mark := l.lab.Net.count()

	ph := sc.Event == "phpeer" || sc.Event == "phfatal" || sc.Event == "phclose"
	if sc.WBlock && obs.EstX && !ph {
		xw.block()
		wrX = c16Go(func() error { _, err := X.Conn.Write([]byte("blocked-write-0123456789abcdef")); return err })
		synctest.Wait()
		obs.WrPendX = !wrX.returned()
	}

	switch sc.Event {
	case "close":
		var cl []*c16Call
		var erX, ewX *c16Call
		if sc.Early && obs.HsPendX {
			// they queue on handshakeMutex behind the running HandshakeContext (a mutex is not a
			// durable block, so no synctest.Wait until the Close released them)
			erX = c16Go(func() error { _, err := X.Conn.Read(make([]byte, 64)); return err })
			ewX = c16Go(func() error { _, err := X.Conn.Write([]byte("early")); return err })
			for i := 0; i < 50; i++ {
				runtime.Gosched()
			}
		}
		for i := 0; i < sc.Closers; i++ {
			cl = append(cl, c16Go(X.Conn.Close))
		}
		synctest.Wait()
		if erX != nil {
			obs.ErX, obs.EwX = erX.class(), ewX.class()
			obs.Texts = erX.text() + "|" + ewX.text() + "|"
		}
		if wrX != nil {
			obs.WrX = wrX.class()
			xw.unblock()
			synctest.Wait()
		}
		for _, c := range cl {
			obs.CloseRes = append(obs.CloseRes, c.class())
		}
	case "closeblk":
		// the transport stops taking writes (net.Pipe-like transport whose peer application does
		// not read): the close_notify write of Close() blocks; Close must return all the same
		if obs.EstX && !obs.ClosedX0 {
			xw.block()
			obs.SockBlk = true
		}
		t0 := time.Now()
		var cl []*c16Call
		for i := 0; i < sc.Closers; i++ {
			cl = append(cl, c16Go(X.Conn.Close))
		}
		synctest.Wait()
		if rdX != nil {
			obs.RdX = rdX.call.class() // released at once: closed is set before the write
		}
		all := func() bool {
			for _, c := range cl {
				if !c.returned() {
					return false
				}
			}

			return true
		}
		obs.CloseMs = -1
		for i := 0; i < 12; i++ { // up to 6 s of virtual time
			if all() {
				obs.CloseMs = int(time.Since(t0) / time.Millisecond)

				break
			}
			time.Sleep(500 * time.Millisecond)
			synctest.Wait()
		}
		for _, c := range cl {
			obs.CloseRes = append(obs.CloseRes, c.class())
		}
		xw.unblock()
		synctest.Wait()
	case "access":
	case "phpeer", "phfatal", "phclose":
		// Established DTLS 1.3: a post-handshake message of the peer (KeyUpdate; for k right after the
		// handshake also the NewSessionTicket still in flight) reaches X while X's socket refuses
		// writes (wblock: does not take them), so the state machine fails to acknowledge it (wblock:
		// is still inside that write when Close comes).  Then the peer closes / sends a fatal alert /
		// X closes: the read loop must have been released by the failing state machine.
		if obs.EstX && obs.EstP && !obs.ClosedX0 &&
			dtlsstate.CommonState(X.Conn.state).LocalVersion.Equal(protocol.Version1_3) {
			if sc.WBlock {
				xw.block()
			} else {
				xw.refuse.Store(true)
			}
			uctx, ucancel := context.WithTimeout(context.Background(), 500*time.Millisecond)
			up := c16Go(func() error {
				return P.Conn.UpdateKeys(uctx, KeyUpdateOptions{RequestPeerUpdate: sc.Early})
			})
			l.drain(8)
			time.Sleep(600 * time.Millisecond)
			synctest.Wait()
			ucancel()
			obs.PhUpdate = up.class()
			select {
			case <-X.Conn.fsm.Done():
				obs.PhFsmEnded = true
			default:
			}
			obs.PhReached = obs.PhFsmEnded || sc.WBlock
			xw.refuse.Store(false)
		}
		switch sc.Event {
		case "phpeer":
			pc := c16Go(P.Conn.Close)
			synctest.Wait()
			obs.ClosePP = pc.class()
			obs.Delivered = l.drain(8) > 0
			obs.Accepted = X.Conn.isConnectionClosed()
		case "phfatal":
			if err := P.Conn.notify(context.Background(), alert.Fatal, alert.InternalError); err == nil {
				obs.Delivered = l.drain(8) > 0
			}
			obs.Accepted = X.Conn.isConnectionClosed()
		case "phclose":
			var cl []*c16Call
			for i := 0; i < sc.Closers; i++ {
				cl = append(cl, c16Go(X.Conn.Close))
			}
			synctest.Wait()
			if rdX != nil {
				obs.RdX = rdX.call.class()
			}
			for i := 0; i < 12 && sc.WBlock; i++ { // the close_notify write has its 5 s
				done := true
				for _, c := range cl {
					done = done && c.returned()
				}
				if done {
					break
				}
				time.Sleep(500 * time.Millisecond)
				synctest.Wait()
			}
			for _, c := range cl {
				obs.CloseRes = append(obs.CloseRes, c.class())
			}
			xw.unblock()
			synctest.Wait()
		}
		if rdX != nil && obs.RdX == "" {
			obs.RdX = rdX.call.class()
		}
	case "fatal":
		obs.EpP = int(dtlsstate.CommonState(P.Conn.state).LocalEpoch())
		obs.XKeys = c16CanRead13(X.Conn, uint16(obs.EpP)) //nolint:gosec
		if err := P.Conn.notify(context.Background(), alert.Fatal, alert.HandshakeFailure); err == nil {
			obs.Delivered = l.drain(64) > 0
		}
		obs.Accepted = X.Conn.isConnectionClosed()
		if wrX != nil {
			obs.WrX = wrX.class()
			xw.unblock()
			synctest.Wait()
		}
	case "deadline":
		_ = X.Conn.SetDeadline(time.Now().Add(-time.Second))
		synctest.Wait()
		if wrX != nil {
			obs.WrX = wrX.class()
			xw.unblock()
			synctest.Wait()
		}
		if rdX != nil {
			obs.RdX = rdX.call.class()
		}
		// the connection must still be usable after the deadline is cleared
		_ = X.Conn.SetDeadline(time.Time{})
		if obs.EstX && obs.EstP && !obs.ClosedX0 {
			if rdX != nil && rdX.call.returned() {
				rdX = c16StartReader(X.Conn)
			}
			before := rdX.count()
			_, err := P.Conn.Write([]byte("after-deadline-0123456789abcdef"))
			l.drain(8)
			obs.AliveAfter = err == nil && rdX.count() == before+1
		}
	case "hsctx":
		cancelX()
		synctest.Wait()
	case "simul":
		c16Simul(l, &obs, X, P, xw)
	case "none":
	}

	c16After(t, l, &obs, base, X, P, mark, hsX, hsP, rdX, rdP, wrX)

	return obs
}

// c16CanRead13: conn (DTLS 1.3) holds the read keys of epoch ep and accepts records of it
// (openCiphertextRecord: a generation is eligible when its epoch <= the remote epoch).
func c16CanRead13(conn *Conn, ep uint16) bool {
	st, ok := conn.state.(*dtlsstate.State13)
	if !ok || st.TrafficKeys == nil || ep == 0 {
		return false
	}
	for _, g := range st.TrafficKeys.ReadCandidates(uint8(ep&3), nil) { //nolint:gosec
		if g.Epoch == ep && g.Protection != nil && g.Epoch <= st.RemoteEpoch() {
			return true
		}
	}

	return false
}

// c16RunImplicit: X never calls HandshakeContext; its first Read (early=0) or Write (early=1)
// runs the implicit Handshake().  After k deliveries, while that call is blocked in the
// handshake: Close by `closers` goroutines (iclose) or SetDeadline in the past (idl).
// One call only: a second one would wait on handshakeMutex, which is not a durable block.
// The call's result class is reported as hs_x (it is the handshake caller).
func c16RunImplicit(t *testing.T, sc c16Scenario) c16Obs {
	t.Helper()
	obs := c16Obs{Kind: "c16", Sc: sc, HeldIdx: -1}
	base := c16BubbleGoroutines()
	l := c16NewLab(t, sc.Variant)
	X, P := l.lab.peer(sc.Side), l.lab.other(sc.Side)
	hsP := c16Go(func() error { return P.Conn.HandshakeContext(context.Background()) })
	var drv *c16Call
	if sc.Early {
		obs.Implicit = "Write"
		drv = c16Go(func() error { _, err := X.Conn.Write([]byte("implicit-handshake-write")); return err })
	} else {
		obs.Implicit = "Read"
		drv = c16Go(func() error { _, err := X.Conn.Read(make([]byte, 256)); return err })
	}
	obs.Reached = true
	for obs.Steps < sc.K {
		if !l.deliverNext() {
			if X.Conn.isHandshakeCompletedSuccessfully() || drv.returned() {
				obs.Reached = false

				break
			}
			time.Sleep(1100 * time.Millisecond) // waiting for a retransmission timer
			if !l.deliverNext() {
				obs.Reached = false

				break
			}
		}
		obs.Steps++
	}
	synctest.Wait()
	obs.EstX = X.Conn.isHandshakeCompletedSuccessfully()
	obs.EstP = P.Conn.isHandshakeCompletedSuccessfully()
	obs.ClosedX0 = X.Conn.isConnectionClosed()
	obs.HsPendX = !drv.returned() && !obs.EstX
	obs.HsPendP = !hsP.returned()
	obs.NegX = obs.HsPendX && X.Conn.fsm == nil
	mark := l.lab.Net.count()
	switch sc.Event {
	case "iclose":
		var cl []*c16Call
		for i := 0; i < sc.Closers; i++ {
			cl = append(cl, c16Go(X.Conn.Close))
		}
		synctest.Wait()
		for _, c := range cl {
			obs.CloseRes = append(obs.CloseRes, c.class())
		}
	case "idl":
		_ = X.Conn.SetDeadline(time.Now().Add(-time.Second))
		synctest.Wait()
		time.Sleep(100 * time.Millisecond) // less than any retransmission interval
		synctest.Wait()
		obs.DlHsX = drv.class() // "stuck": the expired deadline did not interrupt the call
		_ = X.Conn.SetDeadline(time.Time{})
	}
	c16After(t, l, &obs, base, X, P, mark, drv, hsP, nil, nil, nil)

	return obs
}

// c16Simul: deterministic placement of the application Close between the reader's
// close_notify reply and the reader's own close(false): P closes (close_notify to X),
// X's reader is held right after its reply reached the wire, X.Close() runs its first
// critical section, then the reader is released.
func c16Simul(l *c16Lab, obs *c16Obs, X, P *vPeer, xw *c16Conn) {
	release := make(chan struct{})
	held := make(chan struct{})
	var once sync.Once
	xw.setAfterWrite(func([]byte) {
		hit := false
		once.Do(func() { hit = true })
		if hit {
			obs.HeldIdx = l.lab.Net.count() - 1
			close(held)
			<-release
		}
	})
	pc := c16Go(P.Conn.Close)
	synctest.Wait()
	obs.ClosePP = pc.class()
	l.drain(1) // P's close_notify reaches X; X's reader replies and is held in the hook
	select {
	case <-held:
	default:
		xw.setAfterWrite(nil)
		close(release)

		return
	}
	obs.Delivered = true
	var cl []*c16Call
	for i := 0; i < obs.Sc.Closers; i++ {
		cl = append(cl, c16Go(X.Conn.Close))
	}
	// the closers block on writeLock (a mutex: not a durable block), so poll instead of Wait
	for i := 0; i < 1_000_000 && !X.Conn.isConnectionClosed(); i++ {
		runtime.Gosched()
	}
	xw.setAfterWrite(nil)
	close(release)
	synctest.Wait()
	for _, c := range cl {
		obs.CloseRes = append(obs.CloseRes, c.class())
	}
}

// c16After: drain the network, collect results, after-calls, wire counts, teardown.
func c16After(
	t *testing.T, l *c16Lab, obs *c16Obs, base int, X, P *vPeer, mark int,
	hsX, hsP *c16Call, rdX, rdP *c16Reader, wrX *c16Call,
) {
	t.Helper()
	l.drain(64)
	obs.HsX, obs.HsP = hsX.class(), hsP.class()
	if rdX != nil && obs.RdX == "" {
		obs.RdX = rdX.call.class()
	}
	if rdP != nil {
		obs.RdP = rdP.call.class()
	}
	if wrX != nil && obs.WrX == "" {
		obs.WrX = wrX.class()
	}
	obs.WrText = wrX.text()
	obs.ClosedX = X.Conn.isConnectionClosed()
	obs.ClosedP = P.Conn.isConnectionClosed()
	obs.Texts += strings.Join([]string{hsX.text(), hsP.text()}, ";")

	switch obs.Sc.Event {
	case "close", "fatal", "simul", "closeblk", "iclose", "phpeer", "phfatal", "phclose":
		c2 := c16Go(X.Conn.Close)
		synctest.Wait()
		obs.Close2X = c2.class()
		w := c16Go(func() error { _, err := X.Conn.Write([]byte("after")); return err })
		synctest.Wait()
		obs.WrAftX = w.class()
		if obs.EstX {
			r := c16Go(func() error { _, err := X.Conn.Read(make([]byte, 64)); return err })
			synctest.Wait()
			obs.RdAftX = r.class()
		}
		if obs.ClosedP {
			w := c16Go(func() error { _, err := P.Conn.Write([]byte("after")); return err })
			synctest.Wait()
			obs.WrAftP = w.class()
		}
		if obs.ClosePP == "" {
			pc := c16Go(P.Conn.Close)
			synctest.Wait()
			obs.ClosePP = pc.class()
		}
		l.drain(64)
	}
	c16Finish(t, l, obs, base, X, P, mark)
	// pending calls must have been released by the teardown at the latest
	if obs.HsX == "stuck" && hsX.returned() {
		obs.HsX = "late:" + hsX.class()
	}
	if obs.HsP == "stuck" && hsP.returned() {
		obs.HsP = "late:" + hsP.class()
	}
}

// c16Finish: wire counts, teardown through the public API only, goroutine accounting.
func c16Finish(t *testing.T, l *c16Lab, obs *c16Obs, base int, X, P *vPeer, mark int) {
	t.Helper()
	synctest.Wait()
	tear := l.lab.Net.count()
	cx := c16Go(X.Conn.Close)
	cp := c16Go(P.Conn.Close)
	synctest.Wait()
	if !cx.returned() || !cp.returned() {
		obs.LeakInfo = "teardown Close did not return: " + c16Stacks()
		obs.Leak = -1
	}
	l.drain(64)
	log := l.lab.Net.since(0)
	ax, ux := c16Alerts(log, X.Name, P.Conn, 0)
	ap, up := c16Alerts(log, P.Name, X.Conn, 0)
	obs.CNXAll, obs.CNPAll = c16CountCN(ax), c16CountCN(ap)
	for _, a := range ax {
		if a.Desc == int(alert.CloseNotify) && a.Idx < tear {
			obs.CNX++
		}
	}
	for _, a := range ap {
		if a.Desc == int(alert.CloseNotify) && a.Idx < tear {
			obs.CNP++
		}
	}
	obs.FatalX, obs.FatalP = c16CountFatal(ax), c16CountFatal(ap)
	obs.Und, obs.UndX, obs.UndP = ux+up, ux, up
	obs.Alerts = append(ax, ap...)
	obs.EstX1 = X.Conn.isHandshakeCompletedSuccessfully()
	for _, a := range ax {
		if a.Desc == int(alert.CloseNotify) {
			obs.HeldReply = obs.HeldIdx >= 0 && a.Idx == obs.HeldIdx

			break
		}
	}
	_ = mark
	synctest.Wait()
	if obs.Leak == 0 {
		obs.Leak, obs.LeakInfo = c16LeakCheck(base)
	}
	// release anything still parked on the endpoints so that the bubble can end
	_ = X.EP.Close()
	_ = P.EP.Close()
	for _, w := range l.wrap {
		w.unblock()
	}
	synctest.Wait()
}

// c16Bubble runs one scenario in its own bubble and converts a synctest deadlock / leak
// panic into an observation.
func c16Bubble(t *testing.T, sc c16Scenario) (obs c16Obs) {
	t.Helper()
	defer func() {
		if r := recover(); r != nil {
			obs.Kind, obs.Sc = "c16", sc
			obs.Panic = fmt.Sprint(r)
		}
	}()
	vBubble(t, func(t *testing.T) {
		defer func() {
			if r := recover(); r != nil {
				obs.Kind, obs.Sc = "c16", sc
				obs.Panic = fmt.Sprintf("%v", r)
			}
		}()
		obs = c16Run(t, sc)
	})

	return obs
}

var c16Variants = []string{"v12", "v12psk", "v13", "dualc", "duals", "dual13"} //nolint:gochecknoglobals

// c16Baseline: number of steps of the full script (handshake + data phase) of a variant.
func c16Baseline(t *testing.T, variant string) int {
	t.Helper()
	o := c16Bubble(t, c16Scenario{Variant: variant, Event: "none", Side: "client", K: 1000, Closers: 0})

	return o.Steps
}

// c16Scenarios: systematic placement - one run per (variant, side, step index k, event).
func c16Scenarios(t *testing.T, emit func(any)) []c16Scenario {
	t.Helper()
	var out []c16Scenario
	for _, v := range c16Variants {
		n := c16Baseline(t, v)
		emit(map[string]any{"kind": "baseline", "variant": v, "steps": n})
		for _, side := range []string{"client", "server"} {
			for k := 0; k <= n; k++ {
				for closers := 1; closers <= 4; closers++ {
					out = append(out, c16Scenario{Variant: v, Event: "close", Side: side, K: k, Closers: closers})
				}
				out = append(out,
					c16Scenario{Variant: v, Event: "close", Side: side, K: k, Closers: 2, WBlock: true},
					c16Scenario{Variant: v, Event: "close", Side: side, K: k, Closers: 2, Early: true},
					c16Scenario{Variant: v, Event: "fatal", Side: side, K: k},
					c16Scenario{Variant: v, Event: "fatal", Side: side, K: k, WBlock: true},
					c16Scenario{Variant: v, Event: "deadline", Side: side, K: k},
					c16Scenario{Variant: v, Event: "deadline", Side: side, K: k, WBlock: true},
					c16Scenario{Variant: v, Event: "hsctx", Side: side, K: k},
					c16Scenario{Variant: v, Event: "simul", Side: side, K: k, Closers: 1},
					c16Scenario{Variant: v, Event: "simul", Side: side, K: k, Closers: 3},
				)
			}
			for closers := 1; closers <= 4; closers++ {
				out = append(out, c16Scenario{Variant: v, Event: "nohs", Side: side, K: 0, Closers: closers})
			}
			// Close on a socket that does not take writes: the established part of the script
			for k := n - c16DataSteps - 1; k <= n; k++ {
				if k < 0 {
					continue
				}
				out = append(out,
					c16Scenario{Variant: v, Event: "closeblk", Side: side, K: k, Closers: 1},
					c16Scenario{Variant: v, Event: "closeblk", Side: side, K: k, Closers: 3})
			}
			// Close / deadline while a Read or a Write runs the implicit Handshake: the handshake part
			for k := 0; k <= n-c16DataSteps; k++ {
				for _, wr := range []bool{false, true} {
					out = append(out,
						c16Scenario{Variant: v, Event: "iclose", Side: side, K: k, Closers: 1, Early: wr},
						c16Scenario{Variant: v, Event: "idl", Side: side, K: k, Early: wr})
				}
			}
			// state accessors at every log point of the whole script
			out = append(out, c16Scenario{Variant: v, Event: "access", Side: side, K: 1000})
			// DTLS 1.3: the state machine fails on a received post-handshake message, then the connection ends
			if v == "v13" || v == "dual13" {
				for k := n - c16DataSteps - 2; k <= n; k++ {
					for _, req := range []bool{false, true} {
						out = append(out,
							c16Scenario{Variant: v, Event: "phpeer", Side: side, K: k, Early: req},
							c16Scenario{Variant: v, Event: "phfatal", Side: side, K: k, Early: req},
							c16Scenario{Variant: v, Event: "phclose", Side: side, K: k, Closers: 1, Early: req},
							c16Scenario{Variant: v, Event: "phclose", Side: side, K: k, Closers: 2, WBlock: true, Early: req})
					}
				}
			}
		}
	}

	return out
}

// TestVerifC16E2E: VERIF_C16_REPS repetitions of the whole placement (the driver uses >1 with
// -race in the thorough tier); VERIF_C16_ONLY="variant/event/side/k/closers/wblock/early[;...]"
// replays single scenarios (replay of a finding, regression corpus).
func TestVerifC16E2E(t *testing.T) {
	out := newVOut(t)
	if only := os.Getenv("VERIF_C16_ONLY"); only != "" {
		for _, one := range strings.Split(only, ";") {
			var sc c16Scenario
			var wb, early int
			parts := strings.Split(one, "/")
			if len(parts) != 7 {
				t.Fatalf("VERIF_C16_ONLY: want 7 fields in %q", one)
			}
			sc.Variant, sc.Event, sc.Side = parts[0], parts[1], parts[2]
			fmt.Sscanf(parts[3], "%d", &sc.K)
			fmt.Sscanf(parts[4], "%d", &sc.Closers)
			fmt.Sscanf(parts[5], "%d", &wb)
			fmt.Sscanf(parts[6], "%d", &early)
			sc.WBlock, sc.Early = wb != 0, early != 0
			out.emit(map[string]any{"kind": "begin", "sc": sc})
			out.emit(c16Bubble(t, sc))
		}

		return
	}
	reps := 1
	if v := os.Getenv("VERIF_C16_REPS"); v != "" {
		fmt.Sscanf(v, "%d", &reps)
	}
	scs := c16Scenarios(t, out.emit)
	for rep := 0; rep < reps; rep++ {
		for _, sc := range scs {
			out.emit(map[string]any{"kind": "begin", "sc": sc})
			out.emit(c16Bubble(t, sc))
		}
	}
}

// ---------------------------------------------------------------- concurrent stress

type c16StressObs struct {
	Kind     string   `json:"kind"`
	Variant  string   `json:"variant"`
	Iter     int      `json:"iter"`
	Both     bool     `json:"both"` // the peer closes concurrently as well
	Workers  int      `json:"workers"`
	Stuck    int      `json:"stuck"`    // calls that have not returned at quiescence
	ReadEnd  []string `json:"read_end"` // class of the error that ended each reader (X then P)
	WriteEnd []string `json:"write_end"`
	CloseRes []string `json:"close_res"`
	Writes   int      `json:"writes"`
	Reads    int      `json:"reads"`
	CNX      int      `json:"cn_x"`
	CNP      int      `json:"cn_p"`
	Leak     int      `json:"leak"`
	LeakInfo string   `json:"leak_info,omitempty"`
	Panic    string   `json:"panic,omitempty"`
	Setup    string   `json:"setup,omitempty"` // the plain handshake failed: nothing was exercised
}

// c16Stress: established connection, then Read, Write, Close, deadline setters and state
// accessors run concurrently (really in parallel: the bubble does not serialise goroutines)
// on both endpoints while the network delivers every datagram at once.
func c16Stress(t *testing.T, variant string, iter int, seed uint64) c16StressObs {
	t.Helper()
	rng := newVRand(seed)
	obs := c16StressObs{Kind: "stress", Variant: variant, Iter: iter}
	base := c16BubbleGoroutines()
	l := c16NewLab(t, variant)
	X, P := l.lab.Client, l.lab.Server
	if rng.chance(50) {
		X, P = P, X
	}
	stop := make(chan struct{})
	pumpDone := make(chan struct{})
	go func() { // eager network
		defer close(pumpDone)
		next := 0
		for {
			for _, d := range l.lab.Net.since(next) {
				next = d.Idx + 1
				l.lab.Net.deliver(d.To, d.From, d.Data)
			}
			select {
			case <-l.lab.Net.notify:
			case <-stop:
				return
			}
		}
	}()
	hx := c16Go(func() error { return X.Conn.HandshakeContext(context.Background()) })
	hp := c16Go(func() error { return P.Conn.HandshakeContext(context.Background()) })
	synctest.Wait()
	if hx.class() != "ok" || hp.class() != "ok" {
		// duals needs one retransmission
		time.Sleep(1100 * time.Millisecond)
		synctest.Wait()
	}
	if hx.class() != "ok" || hp.class() != "ok" {
		// not a lifecycle observation: the plain handshake of this variant fails on this tree
		obs.Setup = "handshake did not complete: " + hx.class() + "/" + hp.class() + " " + hx.text() + " / " + hp.text()
		_ = X.Conn.Close()
		_ = P.Conn.Close()
		close(stop)
		<-pumpDone
		_ = X.EP.Close()
		_ = P.EP.Close()
		synctest.Wait()

		return obs
	}
	var calls []*c16Call
	var mu sync.Mutex
	add := func(c *c16Call) { calls = append(calls, c) }
	yield := func(n int) {
		for i := 0; i < n; i++ {
			runtime.Gosched()
		}
	}
	var readEnd, writeEnd []string
	reader := func(p *vPeer) {
		add(c16Go(func() error {
			buf := make([]byte, 4096)
			for tries := 0; tries < 400; tries++ {
				_, err := p.Conn.Read(buf)
				if err == nil {
					mu.Lock()
					obs.Reads++
					mu.Unlock()

					continue
				}
				if c16Class(err) == "deadline" {
					yield(3)

					continue
				}
				mu.Lock()
				readEnd = append(readEnd, c16Class(err))
				mu.Unlock()

				return err
			}
			mu.Lock()
			readEnd = append(readEnd, "gaveup")
			mu.Unlock()

			return nil
		}))
	}
	writer := func(p *vPeer, n int, y int) {
		add(c16Go(func() error {
			for i := 0; i < n; i++ {
				_, err := p.Conn.Write([]byte("stress-payload-0123456789abcdef"))
				if err == nil {
					mu.Lock()
					obs.Writes++
					mu.Unlock()
					yield(y)

					continue
				}
				if c16Class(err) == "deadline" {
					continue
				}
				mu.Lock()
				writeEnd = append(writeEnd, c16Class(err))
				mu.Unlock()

				return err
			}
			mu.Lock()
			writeEnd = append(writeEnd, "finished")
			mu.Unlock()

			return nil
		}))
	}
	setter := func(p *vPeer, plan []int) {
		add(c16Go(func() error {
			for _, k := range plan {
				var tm time.Time
				switch k % 3 {
				case 0:
					tm = time.Now().Add(-time.Second)
				case 1:
					tm = time.Now().Add(time.Hour)
				}
				switch (k / 3) % 3 {
				case 0:
					_ = p.Conn.SetDeadline(tm)
				case 1:
					_ = p.Conn.SetReadDeadline(tm)
				default:
					_ = p.Conn.SetWriteDeadline(tm)
				}
				yield(2)
			}
			// leave the deadlines cleared so that blocked calls are ended by Close only
			_ = p.Conn.SetDeadline(time.Time{})

			return nil
		}))
	}
	accessor := func(p *vPeer, n int) {
		add(c16Go(func() error {
			for i := 0; i < n; i++ {
				_, _ = p.Conn.ConnectionState()
				_ = p.Conn.RemoteAddr()
				_ = p.Conn.LocalAddr()
				_, _ = p.Conn.SelectedSRTPProtectionProfile()
				_, _ = p.Conn.RemoteSRTPMasterKeyIdentifier()
				yield(1)
			}

			return nil
		}))
	}
	var closeCalls []*c16Call
	closer := func(p *vPeer, delay int) {
		c := c16Go(func() error {
			yield(delay)

			return p.Conn.Close()
		})
		closeCalls = append(closeCalls, c)
		add(c)
	}
	obs.Both = rng.chance(35)
	for _, p := range []*vPeer{X, P} {
		for i := 0; i < 1+rng.intn(2); i++ {
			reader(p)
		}
		for i := 0; i < 1+rng.intn(3); i++ {
			writer(p, 5+rng.intn(20), rng.intn(4))
		}
		for i := 0; i < 1+rng.intn(2); i++ {
			plan := make([]int, 4+rng.intn(8))
			for j := range plan {
				plan[j] = rng.intn(9)
			}
			setter(p, plan)
		}
		accessor(p, 10+rng.intn(30))
	}
	for i := 0; i < 1+rng.intn(4); i++ {
		closer(X, rng.intn(400))
	}
	if obs.Both {
		for i := 0; i < 1+rng.intn(2); i++ {
			closer(P, rng.intn(400))
		}
	}
	obs.Workers = len(calls)
	synctest.Wait()
	for _, c := range calls {
		if !c.returned() {
			obs.Stuck++
		}
	}
	if obs.Stuck > 0 {
		obs.LeakInfo = "stuck calls: " + c16Stacks()
	}
	for _, c := range closeCalls {
		obs.CloseRes = append(obs.CloseRes, c.class())
	}
	mu.Lock()
	obs.ReadEnd, obs.WriteEnd = readEnd, writeEnd
	mu.Unlock()
	// teardown through the API
	cx := c16Go(X.Conn.Close)
	cp := c16Go(P.Conn.Close)
	synctest.Wait()
	if !cx.returned() || !cp.returned() {
		obs.Stuck++
	}
	close(stop)
	<-pumpDone
	synctest.Wait()
	log := l.lab.Net.since(0)
	ax, _ := c16Alerts(log, X.Name, P.Conn, 0)
	ap, _ := c16Alerts(log, P.Name, X.Conn, 0)
	obs.CNX, obs.CNP = c16CountCN(ax), c16CountCN(ap)
	if n, info := c16LeakCheck(base); n > 0 {
		obs.Leak = n
		obs.LeakInfo += info
	}
	_ = X.EP.Close()
	_ = P.EP.Close()
	synctest.Wait()

	return obs
}

func TestVerifC16Stress(t *testing.T) {
	out := newVOut(t)
	n := 40
	if vIsThorough() {
		n = 400
	}
	if v := os.Getenv("VERIF_C16_ITERS"); v != "" {
		fmt.Sscanf(v, "%d", &n)
	}
	rng := newVRand(vSeed() ^ 0xc16)
	for i := 0; i < n; i++ {
		variant := []string{"v12", "v13", "v12psk", "dual13"}[i%4]
		seed := rng.u64()
		out.emit(map[string]any{"kind": "begin", "stress": i, "variant": variant})
		var obs c16StressObs
		func() {
			defer func() {
				if r := recover(); r != nil {
					obs = c16StressObs{Kind: "stress", Variant: variant, Iter: i, Panic: fmt.Sprint(r)}
				}
			}()
			vBubble(t, func(t *testing.T) { obs = c16Stress(t, variant, i, seed) })
		}()
		out.emit(obs)
	}
}

// ---------------------------------------------------------------- accessors on another goroutine

// c16AccessPoll polls the state accessors of conn from its own goroutine (a named function: the
// driver recognises the race reports that involve it by this frame).
func c16AccessPoll(conn *Conn, stop <-chan struct{}, n *atomic.Int64) {
	for {
		select {
		case <-stop:
			return
		default:
		}
		_, _ = conn.ConnectionState()
		_, _ = conn.SelectedSRTPProtectionProfile()
		_ = conn.RemoteAddr()
		n.Add(1)
		runtime.Gosched()
	}
}

type c16AccessRaceObs struct {
	Kind    string `json:"kind"`
	Variant string `json:"variant"`
	Round   int    `json:"round"`
	HsX     string `json:"hs_c"`
	HsP     string `json:"hs_s"`
	Polls   int64  `json:"polls"`
}

// c16AccessRaceRun: one real-time handshake (no bubble: the pollers never block) over the lab
// network with an eager pump, while one goroutine per endpoint polls the accessors.  Only the
// race detector judges this run (thorough tier, -race).
func c16AccessRaceRun(t *testing.T, variant string, round int) c16AccessRaceObs {
	t.Helper()
	obs := c16AccessRaceObs{Kind: "accrace", Variant: variant, Round: round}
	l := c16NewLab(t, variant)
	C, S := l.lab.Client, l.lab.Server
	stop := make(chan struct{})
	pumpDone := make(chan struct{})
	go func() {
		defer close(pumpDone)
		next := 0
		for {
			for _, d := range l.lab.Net.since(next) {
				next = d.Idx + 1
				l.lab.Net.deliver(d.To, d.From, d.Data)
			}
			select {
			case <-l.lab.Net.notify:
			case <-stop:
				return
			}
		}
	}()
	var polls atomic.Int64
	var wg sync.WaitGroup
	pstop := make(chan struct{})
	for _, c := range []*Conn{C.Conn, S.Conn} {
		wg.Add(1)
		go func() {
			defer wg.Done()
			c16AccessPoll(c, pstop, &polls)
		}()
	}
	ctx, cancel := context.WithTimeout(context.Background(), 15*time.Second)
	hc := c16Go(func() error { return C.Conn.HandshakeContext(ctx) })
	hs := c16Go(func() error { return S.Conn.HandshakeContext(ctx) })
	<-hc.done
	<-hs.done
	cancel()
	obs.HsX, obs.HsP = hc.class(), hs.class()
	close(pstop)
	wg.Wait()
	obs.Polls = polls.Load()
	_ = C.Conn.Close()
	_ = S.Conn.Close()
	close(stop)
	<-pumpDone
	_ = C.EP.Close()
	_ = S.EP.Close()

	return obs
}

// TestVerifC16AccessRace is meant for -race (thorough tier): VERIF_C16_ROUNDS handshakes per variant.
func TestVerifC16AccessRace(t *testing.T) {
	out := newVOut(t)
	rounds := 3
	if v := os.Getenv("VERIF_C16_ROUNDS"); v != "" {
		fmt.Sscanf(v, "%d", &rounds)
	}
	for _, v := range c16Variants {
		for r := 0; r < rounds; r++ {
			out.emit(map[string]any{"kind": "begin", "accrace": r, "variant": v})
			out.emit(c16AccessRaceRun(t, v, r))
		}
	}
}
