//go:build verif

package dtls

// C16 leg "wfault": TRANSPORT WRITE FAULTS placed at the lifecycle's own emissions.
// On an established connection the transport of X starts failing writes (ECONNREFUSED-like
// *net.OpError, for the next write only or persistently) exactly when X is about to send
//   reply: its close_notify reply to the peer's close_notify (peer application Close),
//   own:   its own close_notify in Close,
//   ack:   (DTLS 1.3) the ACK of the peer's KeyUpdate, after which the peer closes
// with a Read pending on X or issued afterwards, and a Write / Read / Close issued afterwards.
// The harness only records result classes; the monitor (checks/c16.py monitors_wf) is the
// property's own predicate: once the peer's close_notify was received (or X was closed) every
// pending and later Read returns EOF / a closed error, Write a closed error, Close returns,
// no goroutine stays.

import (
	"context"
	"fmt"
	"net"
	"os"
	"strings"
	"sync/atomic"
	"syscall"
	"testing"
	"testing/synctest"
	"time"

	"github.com/pion/dtls/v3/pkg/protocol"
	dtlsstate "github.com/pion/dtls/v3/internal/state"
)

// c16wfConn: a c16Conn whose WriteTo fails for the next `fail` writes (<0: for ever).
type c16wfConn struct {
	*c16Conn
	fail   atomic.Int32
	failed atomic.Int32 // writes that were refused
}

func (c *c16wfConn) WriteTo(p []byte, addr net.Addr) (int, error) {
	for {
		f := c.fail.Load()
		if f == 0 {
			break
		}
		if f < 0 || c.fail.CompareAndSwap(f, f-1) {
			c.failed.Add(1)

			return 0, &net.OpError{Op: "write", Net: "udp", Err: syscall.ECONNREFUSED}
		}
	}

	return c.c16Conn.WriteTo(p, addr)
}

type c16wfScenario struct {
	Variant string `json:"variant"`
	Kind    string `json:"fault"` // reply | own | ack
	Side    string `json:"side"`  // X
	Mode    int    `json:"mode"`  // number of writes that fail (-1: all from now on)
	Data    int    `json:"data"`  // application datagrams exchanged before the injection
	RdPend  bool   `json:"rd_pend"`
}

type c16wfObs struct {
	Kind      string        `json:"kind"`
	Sc        c16wfScenario `json:"sc"`
	Est       bool          `json:"est"`
	V13       bool          `json:"v13"`
	Failed    int           `json:"failed"`    // writes of X refused by the transport
	Delivered bool          `json:"delivered"` // the peer's close_notify was delivered to X
	RecvCN    bool          `json:"recv_cn"`   // ... and X could open it (X replied / tried to)
	PhUpdate  string        `json:"ph_update,omitempty"`
	RdX       string        `json:"rd_x"`     // pending Read (none: no Read was pending)
	RdText    string        `json:"rd_text"`  //
	ClosedX   bool          `json:"closed_x"` // Conn.closed signalled after the event
	RdAft1    string        `json:"rd_aft1"`  // Read issued after the event
	RdAft2    string        `json:"rd_aft2"`  // a second one
	WrAft     string        `json:"wr_aft"`
	WrText    string        `json:"wr_text"`
	HsAft     string        `json:"hs_aft"` // Handshake() issued after the event
	CloseX    string        `json:"close_x"`
	Close2X   string        `json:"close2_x"` // the Close issued after the event (own: a second Close)
	CloseP    string        `json:"close_p"`
	RdAft3    string        `json:"rd_aft3"` // Read after X's own Close
	WrAft3    string        `json:"wr_aft3"`
	CNX       int           `json:"cn_x"`
	Leak      int           `json:"leak"`
	LeakInfo  string        `json:"leak_info,omitempty"`
	Panic     string        `json:"panic,omitempty"`
}

func c16wfNewLab(t *testing.T, variant string) (*c16Lab, map[string]*c16wfConn) {
	t.Helper()
	ccfg, scfg := c16Configs(variant)
	n := newVNet()
	cw := &c16wfConn{c16Conn: c16Wrap(n.endpoint("client"))}
	sw := &c16wfConn{c16Conn: c16Wrap(n.endpoint("server"))}
	cc, err := clientWithConfig(cw, vAddr("server"), ccfg)
	if err != nil {
		t.Fatalf("client: %v", err)
	}
	sc, err := serverWithConfig(sw, vAddr("client"), scfg)
	if err != nil {
		t.Fatalf("server: %v", err)
	}
	lab := &vLab{Net: n, Pump: &vPump{net: n}}
	lab.Client = &vPeer{Name: "client", EP: cw.vEndpoint, Conn: cc, Done: make(chan struct{})}
	lab.Server = &vPeer{Name: "server", EP: sw.vEndpoint, Conn: sc, Done: make(chan struct{})}

	return &c16Lab{lab: lab, wrap: map[string]*c16Conn{"client": cw.c16Conn, "server": sw.c16Conn}},
		map[string]*c16wfConn{"client": cw, "server": sw}
}

func c16wfRun(t *testing.T, sc c16wfScenario) (obs c16wfObs) {
	t.Helper()
	obs = c16wfObs{Kind: "c16wf", Sc: sc}
	base := c16BubbleGoroutines()
	l, wf := c16wfNewLab(t, sc.Variant)
	X, P := l.lab.peer(sc.Side), l.lab.other(sc.Side)
	xw := wf[sc.Side]

	hsX := c16Go(func() error { return X.Conn.HandshakeContext(context.Background()) })
	hsP := c16Go(func() error { return P.Conn.HandshakeContext(context.Background()) })
	for i := 0; i < 400 && !(hsX.returned() && hsP.returned()); i++ {
		if !l.deliverNext() {
			time.Sleep(1100 * time.Millisecond)
		}
	}
	l.drain(64)
	obs.Est = hsX.class() == "ok" && hsP.class() == "ok" && X.Conn.isHandshakeCompletedSuccessfully() &&
		P.Conn.isHandshakeCompletedSuccessfully()
	var legacy c16Obs
	if !obs.Est {
		c16Finish(t, l, &legacy, base, X, P, 0)

		return obs
	}
	obs.V13 = dtlsstate.CommonState(X.Conn.state).LocalVersion.Equal(protocol.Version1_3)

	rdP := c16StartReader(P.Conn)
	var rdX *c16Reader
	if sc.RdPend {
		rdX = c16StartReader(X.Conn)
	}
	synctest.Wait()
	for i := 0; i < sc.Data; i++ {
		w := X
		if i%2 == 1 && sc.RdPend {
			w = P
		}
		_, _ = w.Conn.Write([]byte(fmt.Sprintf("c16wf-data-%02d-0123456789abcdef", i)))
		l.drain(8)
	}
	synctest.Wait()

	// ---- the fault, exactly at the next emission of X
	xw.fail.Store(int32(sc.Mode)) //nolint:gosec
	switch sc.Kind {
	case "reply", "ack":
		if sc.Kind == "ack" {
			uctx, ucancel := context.WithTimeout(context.Background(), 500*time.Millisecond)
			up := c16Go(func() error { return P.Conn.UpdateKeys(uctx, KeyUpdateOptions{}) })
			l.drain(8)
			time.Sleep(600 * time.Millisecond)
			synctest.Wait()
			ucancel()
			obs.PhUpdate = up.class()
			l.drain(8)
		}
		pc := c16Go(P.Conn.Close)
		synctest.Wait()
		obs.CloseP = pc.class()
		obs.Delivered = l.drain(8) > 0
	case "own":
		xc := c16Go(X.Conn.Close)
		synctest.Wait()
		obs.CloseX = xc.class()
		l.drain(8)
	}
	synctest.Wait()
	obs.Failed = int(xw.failed.Load())
	obs.RecvCN = obs.Delivered && (obs.Failed > 0 || X.Conn.isConnectionClosed())
	obs.RdX = "none"
	if rdX != nil {
		obs.RdX, obs.RdText = rdX.call.class(), rdX.call.text()
	}
	obs.ClosedX = X.Conn.isConnectionClosed()

	// ---- calls issued afterwards (the fault may persist)
	after := func(f func() error) (string, string) {
		c := c16Go(f)
		synctest.Wait()

		return c.class(), c.text()
	}
	rd := func() error { _, err := X.Conn.Read(make([]byte, 64)); return err }
	wr := func() error { _, err := X.Conn.Write([]byte("c16wf-after")); return err }
	obs.RdAft1, _ = after(rd)
	if obs.RdAft1 != "stuck" {
		obs.RdAft2, _ = after(rd)
	}
	obs.WrAft, obs.WrText = after(wr)
	obs.HsAft, _ = after(X.Conn.Handshake)
	obs.Close2X, _ = after(X.Conn.Close)
	if sc.Kind != "own" {
		obs.CloseX = obs.Close2X
	}
	xw.fail.Store(0)
	obs.RdAft3, _ = after(rd)
	obs.WrAft3, _ = after(wr)
	l.drain(16)
	_ = rdP

	c16Finish(t, l, &legacy, base, X, P, 0)
	obs.CNX, obs.Leak, obs.LeakInfo = legacy.CNXAll, legacy.Leak, legacy.LeakInfo

	return obs
}

func c16wfBubble(t *testing.T, sc c16wfScenario) (obs c16wfObs) {
	t.Helper()
	defer func() {
		if r := recover(); r != nil {
			keep := obs
			obs = c16wfObs{Kind: "c16wf", Sc: sc, Panic: fmt.Sprint(r)}
			if keep.Kind != "" { // the scenario itself ran to its end (leak panic at the bubble's exit)
				keep.Panic = obs.Panic
				obs = keep
			}
		}
	}()
	vBubble(t, func(t *testing.T) {
		defer func() {
			if r := recover(); r != nil {
				obs = c16wfObs{Kind: "c16wf", Sc: sc, Panic: fmt.Sprintf("%v", r)}
			}
		}()
		obs = c16wfRun(t, sc)
	})

	return obs
}

func c16wfScenarios() []c16wfScenario {
	var out []c16wfScenario
	modes := []int{1, -1}
	datas := []int{0, 1, 2}
	if vIsThorough() {
		modes = []int{1, 2, 3, -1}
		datas = []int{0, 1, 2, 3, 4, 5, 6, 7}
	}
	for _, v := range []string{"v12", "v12psk", "v13", "dualc", "duals", "dual13"} {
		kinds := []string{"reply", "own"}
		if v == "v13" || v == "dual13" {
			kinds = append(kinds, "ack")
		}
		for _, side := range []string{"client", "server"} {
			for _, kind := range kinds {
				for _, m := range modes {
					for _, d := range datas {
						for _, rp := range []bool{true, false} {
							out = append(out, c16wfScenario{Variant: v, Kind: kind, Side: side, Mode: m, Data: d, RdPend: rp})
						}
					}
				}
			}
		}
	}

	return out
}

func c16wfKey(sc c16wfScenario) string {
	rp := 0
	if sc.RdPend {
		rp = 1
	}

	return fmt.Sprintf("%s/%s/%s/%d/%d/%d", sc.Variant, sc.Kind, sc.Side, sc.Mode, sc.Data, rp)
}

// TestVerifC16WFault: VERIF_C16_ONLY="variant/fault/side/mode/data/rdpend[;...]" replays single scenarios.
func TestVerifC16WFault(t *testing.T) {
	out := newVOut(t)
	scs := c16wfScenarios()
	if only := os.Getenv("VERIF_C16_ONLY"); only != "" {
		scs = nil
		for _, one := range strings.Split(only, ";") {
			var sc c16wfScenario
			parts := strings.Split(one, "/")
			if len(parts) != 6 {
				t.Fatalf("VERIF_C16_ONLY: want 6 fields in %q", one)
			}
			var rp int
			sc.Variant, sc.Kind, sc.Side = parts[0], parts[1], parts[2]
			fmt.Sscanf(parts[3], "%d", &sc.Mode)
			fmt.Sscanf(parts[4], "%d", &sc.Data)
			fmt.Sscanf(parts[5], "%d", &rp)
			sc.RdPend = rp != 0
			scs = append(scs, sc)
		}
	}
	for _, sc := range scs {
		out.emit(map[string]any{"kind": "begin", "sc": sc})
		out.emit(c16wfBubble(t, sc))
	}
}
