//go:build verif

// C17, leg "post": the timer law of DTLS 1.3 POST-handshake flights (NewSessionTicket, KeyUpdate).
// Real client+server (DTLS 1.3 only) in a synctest bubble (virtual time: exact intervals). One
// connection carries a SEQUENCE of 2..4 reliable post-handshake flights (optionally preceded by
// a lost NewSessionTicket): the earlier ones lose 0..4 transmissions (or ACKs) before they are
// acknowledged, the last one is sent into silence. Every datagram is opened with the write keys of
// its sender (in-package access), so each transmission is attributed to its flight (sender,
// message_seq); the driver checks that every flight is retransmitted on its own schedule that
// starts at the configured interval.
package dtls

import (
	"context"
	"fmt"
	"sync/atomic"
	"testing"
	"testing/synctest"
	"time"

	dtlsstate "github.com/pion/dtls/v3/internal/state"
	"github.com/pion/dtls/v3/pkg/protocol"
	"github.com/pion/dtls/v3/pkg/protocol/handshake"
	"github.com/pion/dtls/v3/pkg/protocol/recordlayer"
)

type c17pRec struct {
	Kind  string // app | ku | ack | nst | alert | other
	Epoch int
	Seq   uint64
	Msg   int
	Acks  [][2]uint64
}

// c17pOpen opens a single-record DTLS 1.3 datagram with the write generations of its sender.
func c17pOpen(sender *Conn, raw []byte) (c17pRec, bool) {
	out := c17pRec{Msg: -1, Kind: "unopenable"}
	if len(raw) == 0 || !protocol.IsDTLS13Ciphertext(protocol.ContentType(raw[0])) {
		out.Kind = "plaintext"

		return out, false
	}
	rec := recordlayer.CiphertextRecord13{}
	if err := rec.Unmarshal(raw); err != nil {
		return out, false
	}
	st, ok := sender.state.(*dtlsstate.State13)
	if !ok || st.TrafficKeys == nil {
		return out, false
	}
	for e := int(st.LocalEpoch()) + 1; e >= 2; e-- {
		if e&3 != int(rec.Header.EpochLow) {
			continue
		}
		gen, ok := st.TrafficKeys.Write(uint16(e))
		if !ok || gen.Protection == nil {
			continue
		}
		clear, err := gen.Protection.UnmaskSequenceNumber(rec.Header, rec.EncryptedRecord)
		if err != nil {
			continue
		}
		seq := uint64(clear.SequenceNumber)
		if ls := dtlsstate.CommonState(sender.state).LocalSequenceNumber; e < len(ls) {
			if cnt := atomic.LoadUint64(&ls[e]); cnt > 0 {
				last := cnt - 1
				seq = last - ((last - seq) & 0xffff)
			}
		}
		inner, err := gen.Protection.Open(rec.Header, seq, rec.EncryptedRecord)
		if err != nil {
			continue
		}
		out.Epoch, out.Seq = e, seq
		switch inner.RealType {
		case protocol.ContentTypeApplicationData:
			out.Kind = "app"
		case protocol.ContentTypeACK:
			out.Kind = "ack"
			ack := protocol.ACK{}
			if err := ack.Unmarshal(inner.Content); err != nil {
				out.Kind = "other"
			}
			for _, r := range ack.Records {
				out.Acks = append(out.Acks, [2]uint64{r.Epoch, r.SequenceNumber})
			}
		case protocol.ContentTypeHandshake:
			hh := handshake.Header{}
			if err := hh.Unmarshal(inner.Content); err != nil {
				out.Kind = "other"

				break
			}
			out.Msg = int(hh.MessageSequence)
			switch hh.Type {
			case handshake.TypeKeyUpdate:
				out.Kind = "ku"
			case handshake.TypeNewSessionTicket:
				out.Kind = "nst"
			default:
				out.Kind = fmt.Sprintf("hs%d", hh.Type)
			}
		case protocol.ContentTypeAlert:
			out.Kind = "alert"
		default:
			out.Kind = "other"
		}

		return out, true
	}

	return out, false
}

// one reliable flight asked for by the script
type c17pFlight struct {
	Side      string `json:"side"`       // who calls Conn.UpdateKeys
	Req       bool   `json:"req"`        // RequestPeerUpdate: the peer answers with a KeyUpdate flight of its own
	Drops     int    `json:"drops"`      // transmissions of this KeyUpdate lost before one is delivered
	AckDrops  int    `json:"ack_drops"`  // ACKs naming this KeyUpdate lost (the flight times out although it arrived)
	RespDrops int    `json:"resp_drops"` // transmissions of the peer's response KeyUpdate lost
}

// one observed transmission of a reliable post-handshake flight
type c17pTx struct {
	Side    string `json:"side"`
	Msg     int    `json:"msg"`
	Kind    string `json:"kind"` // ku | nst
	TUs     int64  `json:"t_us"`
	Epoch   int    `json:"epoch"`
	Seq     uint64 `json:"seq"`
	Dropped bool   `json:"dropped"`
}

// an ACK that reached the sender of the flight it names
type c17pAck struct {
	To  string `json:"to"` // sender of the acknowledged flight
	Msg int    `json:"msg"`
	TUs int64  `json:"t_us"`
}

type c17pCase struct {
	Kind       string       `json:"kind"`
	ID         int          `json:"id"`
	IntervalUs int64        `json:"interval_us"`
	NoBackoff  bool         `json:"no_backoff"`
	NstDrops   int          `json:"nst_drops"`
	Flights    []c17pFlight `json:"flights"`
	SilenceN   int          `json:"silence_n"` // retransmissions of the last flight to wait for
	Tx         []c17pTx     `json:"tx"`
	Acks       []c17pAck    `json:"acks"`
	Returned   []string     `json:"returned"` // result of each UpdateKeys call but the last
	Errs       []string     `json:"errs"`
	EndUs      int64        `json:"end_us"`
}

func c17pBump(iv time.Duration, noBackoff bool) time.Duration {
	if noBackoff || iv >= 60*time.Second {
		return iv
	}
	if iv > 30*time.Second {
		return 60 * time.Second
	}

	return 2 * iv
}

// virtual time that lets a flight lose n transmissions and still be delivered, with slack
func c17pSettle(iv time.Duration, noBackoff bool, n int) time.Duration {
	total := iv
	cur := iv
	for i := 0; i < n+2; i++ {
		total += cur
		cur = c17pBump(cur, noBackoff)
	}

	return total
}

func c17pRun(t *testing.T, cs *c17pCase) {
	t.Helper()
	iv := time.Duration(cs.IntervalUs) * time.Microsecond
	ccfg, scfg := vCertPair()
	for _, c := range []*dtlsConfig{ccfg, scfg} {
		c.MinVersion = protocol.Version1_3
		c.MaxVersion = protocol.Version1_3
		c.FlightInterval = iv
		c.DisableRetransmitBackoff = cs.NoBackoff
	}
	lab := newLab(t, ccfg, scfg)
	defer lab.close()

	type fkey struct {
		side string
		msg  int
	}
	sent := map[fkey]int{}         // transmissions seen per flight
	dropTx := map[fkey]int{}       // transmissions of that flight still to lose
	dropAck := map[fkey]int{}      // ACKs naming that flight still to lose
	recOf := map[[3]uint64]fkey{}  // (side idx, epoch, seq) -> flight
	silent := ""                   // side whose datagrams are all lost (last flight)
	var planTx, planAck, planResp int
	planSide := ""
	sideIdx := func(s string) uint64 {
		if s == "client" {
			return 0
		}

		return 1
	}
	lab.Pump.Policy = func(d vDatagram) (vAction, int) {
		r, ok := c17pOpen(lab.peer(d.From).Conn, d.Data)
		if !ok {
			if silent == d.From {
				return vDrop, 0
			}

			return vPass, 0
		}
		switch r.Kind {
		case "ku", "nst":
			k := fkey{d.From, r.Msg}
			if sent[k] == 0 {
				// a new flight: take the drops the script planned for it
				switch {
				case r.Kind == "nst":
					dropTx[k] = cs.NstDrops
				case d.From == planSide:
					dropTx[k], dropAck[k] = planTx, planAck
					planTx, planAck = 0, 0
				default:
					dropTx[k] = planResp
					planResp = 0
				}
			}
			sent[k]++
			recOf[[3]uint64{sideIdx(d.From), uint64(r.Epoch), r.Seq}] = k
			drop := silent == d.From
			if dropTx[k] > 0 {
				dropTx[k]--
				drop = true
			}
			cs.Tx = append(cs.Tx, c17pTx{d.From, r.Msg, r.Kind, int64(d.T / time.Microsecond), r.Epoch, r.Seq, drop})
			if drop {
				return vDrop, 0
			}
		case "ack":
			if silent == d.From {
				return vDrop, 0
			}
			other := lab.other(d.From).Name
			named := map[fkey]bool{}
			for _, a := range r.Acks {
				if k, ok := recOf[[3]uint64{sideIdx(other), a[0], a[1]}]; ok {
					named[k] = true
				}
			}
			for k := range named {
				if dropAck[k] > 0 {
					dropAck[k]--

					return vDrop, 0
				}
			}
			for k := range named {
				cs.Acks = append(cs.Acks, c17pAck{other, k.msg, int64(d.T / time.Microsecond)})
			}
		default:
			if silent == d.From {
				return vDrop, 0
			}
		}

		return vPass, 0
	}
	if !lab.Pump.run(lab.bothDone, 300*time.Second) || !lab.established() {
		cs.Errs = append(cs.Errs, fmt.Sprintf("handshake: client %s server %s", vErrString(lab.Client.Err), vErrString(lab.Server.Err)))

		return
	}
	lab.Client.startReader()
	lab.Server.startReader()
	// the NewSessionTicket (with its losses) is acknowledged before the scripted flights start
	lab.Pump.run(func() bool { return false }, c17pSettle(iv, cs.NoBackoff, cs.NstDrops))

	for i, f := range cs.Flights {
		last := i == len(cs.Flights)-1
		conn := lab.peer(f.Side).Conn
		ctx, cancel := context.WithCancel(context.Background())
		done := make(chan error, 1)
		planSide, planTx, planAck, planResp = f.Side, f.Drops, f.AckDrops, f.RespDrops
		if last {
			silent = f.Side
			planTx, planAck, planResp = 0, 0, 0
		}
		before := len(cs.Tx)
		go func() { done <- conn.UpdateKeys(ctx, KeyUpdateOptions{RequestPeerUpdate: f.Req}) }()
		if last {
			limit := c17pSettle(iv, cs.NoBackoff, cs.SilenceN)
			lab.Pump.run(func() bool {
				n := 0
				for _, x := range cs.Tx[before:] {
					if x.Side == f.Side {
						n++
					}
				}

				return n >= cs.SilenceN+1
			}, limit)
			cancel()
			synctest.Wait()

			break
		}
		limit := c17pSettle(iv, cs.NoBackoff, f.Drops+f.AckDrops+2) + 10*time.Second
		if !lab.Pump.run(func() bool { return len(done) == 1 }, limit) {
			cs.Errs = append(cs.Errs, fmt.Sprintf("flight %d: UpdateKeys did not return within %v", i, limit))
			cancel()

			return
		}
		cs.Returned = append(cs.Returned, vErrString(<-done))
		cancel()
		// the peer's response flight (with its losses) and every late ACK settle
		lab.Pump.run(func() bool { return false }, c17pSettle(iv, cs.NoBackoff, f.RespDrops+1))
	}
	cs.EndUs = int64(lab.Net.now() / time.Microsecond)
}

func c17pCases() []*c17pCase {
	rng := newVRand(vSeed() ^ 0xc17f)
	var out []*c17pCase
	add := func(c *c17pCase) {
		c.Kind = "c17post"
		c.ID = len(out)
		if c.SilenceN == 0 {
			c.SilenceN = 3
		}
		out = append(out, c)
	}
	ms := func(n int) int64 { return int64(n) * 1000 }
	sides := []string{"client", "server"}
	// systematic: one flight times out k times (lost transmissions or lost ACKs), a second one is
	// sent into silence, by the same side or by the other one
	for k := 1; k <= 4; k++ {
		for _, a := range sides {
			for _, b := range sides {
				for _, ack := range []bool{false, true} {
					f := c17pFlight{Side: a, Drops: k}
					if ack {
						f = c17pFlight{Side: a, AckDrops: k}
					}
					add(&c17pCase{IntervalUs: ms(100), Flights: []c17pFlight{f, {Side: b}}})
				}
			}
		}
		// the NewSessionTicket times out k times, then a KeyUpdate of either side into silence
		for _, b := range sides {
			add(&c17pCase{IntervalUs: ms(100), NstDrops: k, Flights: []c17pFlight{{Side: b}, {Side: b}}})
			add(&c17pCase{IntervalUs: ms(1000), NstDrops: k, Flights: []c17pFlight{{Side: b}}})
		}
		// the response to a requested update times out k times, then the responder updates into silence
		for _, a := range sides {
			b := sides[0]
			if a == b {
				b = sides[1]
			}
			add(&c17pCase{IntervalUs: ms(250), Flights: []c17pFlight{{Side: a, Req: true, RespDrops: k}, {Side: b}}})
			add(&c17pCase{IntervalUs: ms(250), NoBackoff: true, Flights: []c17pFlight{{Side: a, Drops: k}, {Side: a}}})
		}
	}
	// seeded: 2..4 flights, any interval, losses anywhere
	n := 300
	if vIsThorough() {
		n = 4000
	}
	ivs := []int64{ms(20), ms(100), ms(1000), ms(8000), ms(20000), ms(40000), ms(90000)}
	for i := 0; i < n; i++ {
		c := &c17pCase{IntervalUs: ivs[rng.intn(len(ivs))], NoBackoff: rng.chance(15), SilenceN: 2 + rng.intn(3)}
		if rng.chance(30) {
			c.NstDrops = 1 + rng.intn(4)
		}
		nf := 2 + rng.intn(3)
		for j := 0; j < nf; j++ {
			f := c17pFlight{Side: sides[rng.intn(2)], Req: rng.chance(35)}
			if j < nf-1 {
				switch rng.intn(4) {
				case 0:
				case 1:
					f.AckDrops = 1 + rng.intn(4)
				default:
					f.Drops = 1 + rng.intn(4)
				}
				if f.Req && rng.chance(60) {
					f.RespDrops = 1 + rng.intn(3)
				}
			}
			c.Flights = append(c.Flights, f)
		}
		add(c)
	}

	return out
}

// TestVerifC17Post runs every scripted sequence of post-handshake flights and emits the
// transmissions of each flight with their virtual timestamps.
func TestVerifC17Post(t *testing.T) {
	out := newVOut(t)
	for _, cs := range c17pCases() {
		vBubble(t, func(t *testing.T) {
			c17pRun(t, cs)
		})
		if cs.Tx == nil {
			cs.Tx = []c17pTx{}
		}
		if cs.Acks == nil {
			cs.Acks = []c17pAck{}
		}
		if cs.Errs == nil {
			cs.Errs = []string{}
		}
		if cs.Returned == nil {
			cs.Returned = []string{}
		}
		out.emit(cs)
	}
}
