//go:build verif

package dtls

import (
	"testing"
	"time"
)

// TestVerifC17: timing configurations and long silences on top of the C02 runner
// (this file needs zz_verif_c02_test.go: run with tags c02 + c17).
func TestVerifC17(t *testing.T) {
	out := newVOut(t)
	rng := newVRand(vSeed() ^ 0xc17)
	variants := c02Variants()
	byName := map[string]c02Variant{}
	for _, v := range variants {
		byName[v.Name] = v
	}
	type job struct {
		v    c02Variant
		mask []string
		opt  c02Opt
	}
	var jobs []job
	intervals := []time.Duration{10 * time.Millisecond, time.Second, 40 * time.Second}
	// total silence towards one side or both for a long time, then a reliable network:
	// retransmissions must follow the timer law up to and beyond the 60 s cap
	for _, vn := range []string{"psk", "cert", "psk-resumed", "psk-skiphv", "cert-mtu200"} {
		for _, iv := range intervals {
			for _, nb := range []bool{false, true} {
				for _, to := range []string{"both", "client", "server"} {
					sil := 200 * iv
					if sil > 400*time.Second {
						sil = 400 * time.Second
					}
					if iv == 10*time.Millisecond {
						sil = 300 * time.Second // long enough to reach the 60 s cap from 10 ms
						if nb {
							sil = 2 * time.Second // constant 10 ms interval: 200 retransmissions
						}
					}
					jobs = append(jobs, job{byName[vn], nil, c02Opt{
						Interval: iv, NoBackoff: nb, SilenceUntil: sil, SilenceTo: to, Limit: sil + 500*time.Second,
					}})
				}
			}
		}
	}
	// one direction loses everything but the hellos while the other side's (re)transmitted flights
	// arrive with their datagrams in reverse order: stale records behind newer ones are still
	// retransmissions, so the waiting side keeps backing off
	for _, vn := range []string{"cert", "cert-clientauth", "cert-mtu200", "psk-cid-mtu40", "cert-clientauth-mtu150", "psk-resumed"} {
		v, ok := byName[vn]
		if !ok {
			continue
		}
		for _, iv := range []time.Duration{100 * time.Millisecond, time.Second} {
			for _, dir := range [][2]string{{"server", "client"}, {"client", "server"}} {
				for _, nb := range []bool{false, true} {
					jobs = append(jobs, job{v, nil, c02Opt{
						Interval: iv, NoBackoff: nb, SilenceUntil: 40 * iv, SilenceTo: dir[0], KeepHellos: true,
						ReverseTo: dir[1], Limit: 40*iv + 500*time.Second,
					}})
				}
			}
		}
	}
	// every pair of dropped datagrams among the first ones, on the variants whose flights span several
	// datagrams: a timeout followed by the partial arrival of the peer's next flight (new data that does
	// not complete the flight restores the initial interval), a partial flight followed by a timeout, ...
	npair := 12
	if vIsThorough() {
		npair = 20
	}
	for _, vn := range []string{"cert", "cert-clientauth", "cert-mtu200", "cert-clientauth-mtu150", "psk-cid-mtu40", "cert-resumed"} {
		v, ok := byName[vn]
		if !ok {
			continue
		}
		for i := 0; i < npair; i++ {
			for j := i + 1; j < npair; j++ {
				m := make([]string, j+1)
				for k := range m {
					m[k] = "pass"
				}
				m[i], m[j] = "drop", "drop"
				jobs = append(jobs, job{v, m, c02Opt{}})
			}
		}
	}
	// the client times out k times on its cookie ClientHello (copies dropped), then receives only the
	// FIRST datagram of the server's multi-datagram flight and nothing more for a long time: new data
	// that does not complete the awaited flight restores the initial interval all the same
	for _, vn := range []string{"cert", "cert-clientauth", "cert-mtu200", "cert-clientauth-mtu150", "psk-cid-mtu40"} {
		v, ok := byName[vn]
		if !ok {
			continue
		}
		for k := 1; k <= 3; k++ {
			for _, iv := range []time.Duration{100 * time.Millisecond, time.Second} {
				m := []string{"pass", "pass"} // ClientHello, HelloVerifyRequest
				for c := 0; c < k; c++ {
					m = append(m, "drop") // copies 1..k of the ClientHello with the cookie
				}
				// copy k+1 has index 2+k and is delivered; the server flight starts at index 3+k
				jobs = append(jobs, job{v, m, c02Opt{
					Interval: iv, SilenceUntil: 60 * iv, SilenceTo: "client", SilenceFrom: 4 + k, Limit: 60*iv + 500*time.Second,
				}})
			}
		}
	}
	// after completion: forged unprotected fragments with message numbers the peer never used, handed to
	// the side that sent the last flight (server after a full handshake, client after a resumed one):
	// they repeat nothing, so the final flight must not be sent again (F65)
	for _, vn := range []string{"psk", "cert", "cert-clientauth", "psk-resumed", "cert-resumed"} {
		v, ok := byName[vn]
		if !ok {
			continue
		}
		to := "server"
		if v.Resumed {
			to = "client"
		}
		var inj []c02Inject
		for k := 0; k < 3; k++ {
			inj = append(inj, c02Inject{At: time.Duration(500+100*k) * time.Millisecond, To: to, HT: 4, MSeq: 100 + k,
				FOff: 0, FLen: 10, TLen: 30, RecSeq: uint64(5000 + k)})
		}
		jobs = append(jobs, job{v, nil, c02Opt{Inject: inj, Settle: 2 * time.Second}})
	}
	// while the client waits for the first answer: somebody repeats ONE identical fragment of a later message
	// twice per interval. Only the first copy is new data; the retransmission interval must keep doubling
	for _, vn := range []string{"psk", "cert"} {
		for _, iv := range []time.Duration{40 * time.Millisecond, time.Second} {
			var inj []c02Inject
			for k := 0; k < 40; k++ {
				inj = append(inj, c02Inject{At: iv/4 + time.Duration(k)*iv/2, To: "client", HT: 2, MSeq: 7,
					FOff: 0, FLen: 1, TLen: 100, RecSeq: uint64(7000 + k)})
			}
			jobs = append(jobs, job{byName[vn], nil, c02Opt{
				Interval: iv, SilenceUntil: 24 * iv, SilenceTo: "both", Inject: inj, Limit: 24*iv + 500*time.Second,
			}})
		}
	}
	// silence starting after the handshake made some progress: random masks + later silence window
	n := 40
	if vIsThorough() {
		n = 1500
	}
	acts := []string{"pass", "drop", "dup", "hold:1", "hold:3"}
	for i := 0; i < n; i++ {
		v := variants[rng.intn(len(variants))]
		l := rng.intn(10)
		m := make([]string, l)
		for j := range m {
			if rng.chance(60) {
				m[j] = "pass"
			} else {
				m[j] = acts[1+rng.intn(len(acts)-1)]
			}
		}
		iv := intervals[rng.intn(len(intervals))]
		sil := time.Duration(rng.intn(150)) * iv
		if sil > 300*time.Second {
			sil = 300 * time.Second
		}
		jobs = append(jobs, job{v, m, c02Opt{
			Interval: iv, NoBackoff: rng.chance(30), SilenceUntil: sil,
			SilenceTo: []string{"both", "client", "server"}[rng.intn(3)], Limit: sil + 500*time.Second,
		}})
	}
	for _, j := range jobs {
		j := j
		var res c02Case
		vBubble(t, func(t *testing.T) { res = runC02(t, j.v, j.mask, j.opt) })
		res.Kind = "c17"
		out.emit(res)
	}
}
