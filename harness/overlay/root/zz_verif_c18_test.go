//go:build verif

// C18 - the encoders as a live connection drives them (edge values, see
// internal/verifc18.Edge): what Conn.Write puts on the wire for payloads up to and beyond what a
// record can carry, and the CertificateRequest a server builds from a ClientCAs pool whose names
// do or do not fit the 16-bit certificate_authorities vector. Each case is reported in the shape
// of the codec harness (kind "edge"): res "refused" = the encoder returned an error, "err" = what
// was written cannot be decoded, "ok" + dump_same/reenc_same = it decodes (to the value / to
// records that partition the datagram).
package dtls

import (
	"bytes"
	"crypto/ecdsa"
	"crypto/elliptic"
	"crypto/rand"
	"crypto/tls"
	"crypto/x509"
	"crypto/x509/pkix"
	"fmt"
	"math/big"
	"strings"
	"testing"
	"testing/synctest"
	"time"

	"github.com/pion/dtls/v3/pkg/protocol"
	"github.com/pion/dtls/v3/pkg/protocol/handshake"
	"github.com/pion/dtls/v3/pkg/protocol/recordlayer"
)

type c18LiveCase struct {
	Codec     string `json:"codec"`
	ID        int    `json:"id"`
	Ctx       []int  `json:"ctx"`
	Kind      string `json:"kind"`
	Edge      string `json:"edge"`
	InRange   bool   `json:"in_range,omitempty"`
	In        string `json:"in"`
	Res       string `json:"res"`
	Err       string `json:"err,omitempty"`
	Len       int    `json:"len,omitempty"`
	DumpSame  *bool  `json:"dump_same,omitempty"`
	ReencSame *bool  `json:"reenc_same,omitempty"`
	FixBytes  *bool  `json:"fix_bytes,omitempty"`
	Reenc     *string `json:"reenc"`
	Detail    string `json:"detail,omitempty"`
	Panic     string `json:"panic,omitempty"`
}

func c18Bool(b bool) *bool { return &b }

type c18WriteVariant struct {
	Name   string
	Ctx    []int // [version, connection-id length of the receiver]
	V13    bool
	CIDLen int
	Sizes  []int
	Max    int // largest payload the record format of this variant can carry
}

func c18WriteVariants() []c18WriteVariant {
	// TLS_PSK_WITH_AES_128_GCM_SHA256: 8 bytes of explicit nonce + 16 bytes of tag per record
	// (RFC 9146 tls12_cid: one more byte for the inner content type)
	return []c18WriteVariant{
		{Name: "dtls12", Ctx: []int{12, 0}, Sizes: []int{1000, 16384, 65511, 65512, 65535, 65536, 70000}, Max: 65511},
		{Name: "dtls12-cid", Ctx: []int{12, 4}, CIDLen: 4, Sizes: []int{1000, 65510, 65511, 65536, 70000}, Max: 65510},
		{Name: "dtls13", Ctx: []int{13, 0}, V13: true, Sizes: []int{1000, 16384, 16385, 65536, 70000}, Max: 16384},
	}
}

func (v c18WriteVariant) configs() (*dtlsConfig, *dtlsConfig) {
	var c, s *dtlsConfig
	if v.V13 {
		c, s = vCertPair()
		c.MinVersion, c.MaxVersion = protocol.Version1_3, protocol.Version1_3
		s.MinVersion, s.MaxVersion = protocol.Version1_3, protocol.Version1_3
	} else {
		c, s = vPSKPair(TLS_PSK_WITH_AES_128_GCM_SHA256)
	}
	if v.CIDLen > 0 {
		c.ConnectionIDGenerator = OnlySendCIDGenerator()
		s.ConnectionIDGenerator = RandomCIDGenerator(v.CIDLen)
	}

	return c, s
}

// c18WireCheck: the datagram must split into records that exactly partition it, and every
// DTLS 1.2 record must declare the number of bytes that follow its header.
func c18WireCheck(v c18WriteVariant, d []byte) (ok bool, detail string) {
	var recs [][]byte
	var err error
	switch {
	case v.V13:
		recs, err = recordlayer.UnpackDatagram13(d, 0, false, true)
	case v.CIDLen > 0:
		recs, err = recordlayer.ContentAwareUnpackDatagram(d, v.CIDLen)
	default:
		recs, err = recordlayer.UnpackDatagram(d)
	}
	if err != nil {
		declared := -1
		if !v.V13 && len(d) >= recordlayer.FixedHeaderSize+v.CIDLen {
			declared = int(d[11+v.CIDLen])<<8 | int(d[12+v.CIDLen])
		}

		return false, fmt.Sprintf("a datagram of %d bytes (declared record length %d) does not split into records: %v",
			len(d), declared, err)
	}
	if !bytes.Equal(bytes.Join(recs, nil), d) {
		return false, fmt.Sprintf("the %d records do not partition the datagram of %d bytes", len(recs), len(d))
	}
	if !v.V13 {
		for _, r := range recs {
			h := recordlayer.Header{}
			if r[0] == byte(protocol.ContentTypeConnectionID) {
				h.ConnectionID = make([]byte, v.CIDLen)
			}
			if err := h.Unmarshal(r); err != nil {
				return false, "record header: " + err.Error()
			}
			if int(h.ContentLen) != len(r)-h.Size() {
				return false, fmt.Sprintf("record declares %d bytes, %d follow", h.ContentLen, len(r)-h.Size())
			}
		}
	}

	return true, ""
}

func c18ConnWrite(t *testing.T, out *vOut, v c18WriteVariant) {
	t.Helper()
	ccfg, scfg := v.configs()
	lab := newLab(t, ccfg, scfg)
	lab.Pump.run(lab.bothDone, 200*time.Second)
	if !lab.established() {
		t.Fatalf("%s: handshake failed: client=%v server=%v", v.Name, lab.Client.Err, lab.Server.Err)
	}
	defer lab.close()
	lab.Server.startReader()
	lab.Pump.run(func() bool { return true }, time.Second)
	for _, n := range v.Sizes {
		cs := c18LiveCase{
			Codec: "conn_write", ID: 201, Ctx: v.Ctx, Kind: "edge", Edge: fmt.Sprintf("payload-%d", n),
			InRange: n <= 1000, // what the receiving side's datagram buffer takes; larger ones: wire format only
		}
		payload := bytes.Repeat([]byte{byte(n)}, n)
		synctest.Wait()
		start := lab.Net.count()
		before := len(lab.Server.reads())
		var err error
		pan := ""
		func() {
			defer func() {
				if r := recover(); r != nil {
					pan = fmt.Sprint(r)
				}
			}()
			_, err = lab.Client.Conn.Write(payload)
		}()
		synctest.Wait()
		var wrote [][]byte
		for _, d := range lab.Net.since(start) {
			if d.From == "client" {
				wrote = append(wrote, d.Data)
			}
		}
		switch {
		case pan != "":
			cs.Res, cs.Panic = "panic", "Conn.Write: "+pan
		case err != nil:
			cs.Res, cs.Err = "refused", err.Error()
			if len(wrote) > 0 {
				cs.Res, cs.Detail = "err", fmt.Sprintf("Write failed (%v) but %d datagrams were written", err, len(wrote))
			}
		case len(wrote) == 0:
			cs.Res, cs.Detail = "err", "Write returned nil and wrote nothing"
		default:
			cs.Res = "ok"
			wire := true
			for _, d := range wrote {
				cs.Len += len(d)
				if ok, detail := c18WireCheck(v, d); !ok {
					wire, cs.Detail = false, detail
				}
			}
			if len(wrote[0]) > 48 {
				cs.In = vHex(wrote[0][:48])
			} else {
				cs.In = vHex(wrote[0])
			}
			cs.ReencSame, cs.FixBytes = c18Bool(wire), c18Bool(wire)
			if !wire {
				cs.Res = "err" // nobody can split what was written
			}
			same := true
			if cs.InRange {
				// decode(encode v) == v at connection level: the peer reads the payload
				lab.Pump.run(func() bool { return len(lab.Server.reads()) > before }, 2*time.Second)
				rd := lab.Server.reads()
				same = len(rd) == before+1 && bytes.Equal(rd[before], payload)
				if !same {
					cs.Detail = fmt.Sprintf("the peer read %d payloads, not the one written", len(rd)-before)
				}
			}
			cs.DumpSame = c18Bool(same)
			if wire {
				r := cs.In
				cs.Reenc = &r
			}
		}
		lab.Pump.next = lab.Net.count() // oversized datagrams are not delivered
		out.emit(cs)
	}
}

// ---------------------------------------------------------------- CertificateRequest from a ClientCAs pool

// c18CAPool builds n self-signed CA certificates whose subjects take about `each` bytes.
func c18CAPool(t *testing.T, n, each int) (*x509.CertPool, [][]byte) {
	t.Helper()
	key, err := ecdsa.GenerateKey(elliptic.P256(), rand.Reader)
	if err != nil {
		t.Fatal(err)
	}
	pool := x509.NewCertPool()
	// the lab CA first: the client's certificate is issued by it
	pool.AddCert(vGetCreds().CA)
	names := [][]byte{vGetCreds().CA.RawSubject}
	for i := 0; i < n; i++ {
		ous := []string{}
		for k := 0; 80*len(ous) < each; k++ {
			ous = append(ous, fmt.Sprintf("%03d-%03d-%s", i, k, strings.Repeat("u", 56)))
		}
		tmpl := &x509.Certificate{
			SerialNumber: big.NewInt(int64(i + 1)),
			Subject:      pkix.Name{CommonName: fmt.Sprintf("verif-c18-ca-%03d", i), OrganizationalUnit: ous},
			NotBefore:    time.Unix(1700000000, 0), NotAfter: time.Unix(4000000000, 0),
			IsCA: true, BasicConstraintsValid: true, KeyUsage: x509.KeyUsageCertSign,
		}
		der, err := x509.CreateCertificate(rand.Reader, tmpl, tmpl, &key.PublicKey, key)
		if err != nil {
			t.Fatal(err)
		}
		cert, err := x509.ParseCertificate(der)
		if err != nil {
			t.Fatal(err)
		}
		pool.AddCert(cert)
		names = append(names, cert.RawSubject)
	}

	return pool, names
}

// c18Reassemble collects the epoch-0 handshake message of the given type from the datagrams one
// endpoint wrote (nil: not on the wire, or not completely).
func c18Reassemble(dgrams []vDatagram, from string, typ handshake.Type) []byte {
	var buf []byte
	var have []bool
	for _, d := range dgrams {
		if d.From != from {
			continue
		}
		for _, ri := range vParseDatagram(d.Data, 0) {
			if ri.CT != int(protocol.ContentTypeHandshake) || ri.Epoch != 0 || ri.HType != int(typ) {
				continue
			}
			if buf == nil {
				buf, have = make([]byte, ri.TLen), make([]bool, ri.TLen)
			}
			body := ri.Raw[recordlayer.FixedHeaderSize+handshake.HeaderLength:]
			if ri.TLen != len(buf) || ri.FOff+ri.FLen > len(buf) || ri.FLen != len(body) {
				return nil
			}
			copy(buf[ri.FOff:], body)
			for i := ri.FOff; i < ri.FOff+ri.FLen; i++ {
				have[i] = true
			}
		}
	}
	for _, h := range have {
		if !h {
			return nil
		}
	}

	return buf
}

func c18LiveCertificateRequest(t *testing.T, out *vOut, name string, inRange bool, n, each int) {
	t.Helper()
	pool, names := c18CAPool(t, n, each)
	total := 0
	for _, nm := range names {
		total += 2 + len(nm)
	}
	cr := vGetCreds()
	c, s := vCertPair()
	c.MaxVersion, s.MaxVersion = protocol.Version1_2, protocol.Version1_2
	c.Certificates = []tls.Certificate{cr.Client}
	s.ClientAuth = RequireAnyClientCert
	s.ClientCAs = pool
	lab := newLab(t, c, s)
	lab.Pump.run(lab.bothDone, 120*time.Second)
	defer lab.close()
	cs := c18LiveCase{
		Codec: "live_certificate_request", ID: 202, Ctx: []int{12}, Kind: "edge", Edge: name, InRange: inRange,
		Len: total,
	}
	raw := c18Reassemble(lab.Net.since(0), "server", handshake.TypeCertificateRequest)
	switch {
	case raw == nil && lab.established():
		cs.Res, cs.Detail = "err", "established without a CertificateRequest on the wire"
	case raw == nil:
		cs.Res = "refused"
		cs.Err = fmt.Sprintf("no CertificateRequest sent; server: %v; client: %v", lab.Server.Err, lab.Client.Err)
	default:
		msg := &handshake.MessageCertificateRequest{}
		if err := msg.Unmarshal(raw); err != nil {
			cs.Res = "err"
			cs.Detail = fmt.Sprintf("the CertificateRequest on the wire (%d bytes, for %d bytes of names) does not decode: %v; client: %v",
				len(raw), total, err, lab.Client.Err)
		} else {
			cs.Res = "ok"
			same := len(msg.CertificateAuthoritiesNames) == len(names)
			for i := 0; same && i < len(names); i++ {
				same = bytes.Equal(msg.CertificateAuthoritiesNames[i], names[i])
			}
			if !lab.established() {
				same = false
				cs.Detail = fmt.Sprintf("handshake failed: server: %v; client: %v", lab.Server.Err, lab.Client.Err)
			} else if !same {
				cs.Detail = fmt.Sprintf("decoded %d names, the pool has %d", len(msg.CertificateAuthoritiesNames), len(names))
			}
			cs.DumpSame, cs.ReencSame, cs.FixBytes = c18Bool(same), c18Bool(true), c18Bool(true)
			r := ""
			cs.Reenc = &r
		}
	}
	out.emit(cs)
}

// TestVerifC18Conn: codec ids 201 (Conn.Write -> records on the wire) and 202 (ClientCAs pool ->
// CertificateRequest on the wire).
func TestVerifC18Conn(t *testing.T) {
	out := newVOut(t)
	for _, v := range c18WriteVariants() {
		v := v
		vBubble(t, func(t *testing.T) { c18ConnWrite(t, out, v) })
	}
	vBubble(t, func(t *testing.T) { c18LiveCertificateRequest(t, out, "client-cas-pool-fits", true, 16, 4000) })
	vBubble(t, func(t *testing.T) { c18LiveCertificateRequest(t, out, "client-cas-pool-too-long", false, 20, 4000) })
}
