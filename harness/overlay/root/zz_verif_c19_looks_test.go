//go:build verif

// C19 "looks" leg: export histories in which ConnectionState() is called MORE THAN ONCE on the
// same connection. A history is a string per generation over {L, S, P}: L = a look
// (ConnectionState() whose result is only inspected), S = `side` writes a record, P = its peer
// writes a record; at the end of every generation ConnectionState() is called once more and THAT
// State is serialised, decoded and resumed on a fresh endpoint; the next generation runs on the
// resumed connection (look/export/look/export chains). After the last resume both sides write.
// Every call is recorded next to the internal state of the connection at that moment.
package dtls

import (
	"fmt"
	"testing"
	"testing/synctest"

	dtlsstate "github.com/pion/dtls/v3/internal/state"
)

type c19LookObs struct {
	Gen    int       `json:"gen"`
	At     int       `json:"at"`     // position in the generation's history (len(history) = the export)
	Export bool      `json:"export"` // this call's State is the one that is serialised and resumed
	OK     bool      `json:"ok"`
	State  c19IState `json:"state"` // internal state of the connection at the call
	Got    c19PState `json:"got"`   // what ConnectionState() returned
	Exp    []c19Exp  `json:"exp"`
	// records `side` had put on the wire (all generations) when the call was made
	SentBefore int `json:"sent_before"`
}

type c19LookGen struct {
	History    string    `json:"history"`
	MarshalErr string    `json:"marshal_err"`
	DecodeErr  string    `json:"decode_err"`
	ResumeErr  string    `json:"resume_err"`
	StartErr   string    `json:"start_err"`
	Decoded    c19PState `json:"decoded"`
	After      c19IState `json:"after"` // the resumed connection before it writes
	Wire       []c19Wire `json:"wire"`  // records `side` put on the wire during this generation's history
}

type c19LooksCase struct {
	Kind      string       `json:"kind"`
	Variant   c19Variant   `json:"variant"`
	Side      string       `json:"side"`
	Histories []string     `json:"histories"`
	K         int          `json:"k"`
	M         int          `json:"m"`
	Complete  bool         `json:"complete"` // every generation was exported and resumed
	Looks     []c19LookObs `json:"looks"`
	Gens      []c19LookGen `json:"gens"`
	HsWire    []c19Wire    `json:"hs_wire"`   // records of `side` during the handshake
	PostWire  []c19Wire    `json:"post_wire"` // records of the last resumed connection after its resume
	AllWire   []c19Wire    `json:"all_wire"`  // everything `side` (all its incarnations) put on the wire, in order
	SentSelf  []string     `json:"sent_self"`
	GotPeer   []string     `json:"got_peer"`
	SentPeer  []string     `json:"sent_peer"`
	GotSelf   []string     `json:"got_self"`
	WriteErrs []string     `json:"write_errs"`
	ExpPeer   []c19Exp     `json:"exp_peer"`
	ExpFinal  []c19Exp     `json:"exp_final"`
	Final     c19PState    `json:"final"` // ConnectionState() of the last incarnation after the traffic
	FinalOK   bool         `json:"final_ok"`
}

func c19RunLooks(t *testing.T, v c19Variant, side string, hists []string, k, m int) c19LooksCase {
	t.Helper()
	res := c19LooksCase{Kind: "looks", Variant: v, Side: side, Histories: hists, K: k, M: m,
		Looks: []c19LookObs{}, Gens: []c19LookGen{}, WriteErrs: []string{}, SentSelf: []string{}, SentPeer: []string{},
		GotPeer: []string{}, GotSelf: []string{}}
	stores := [2]*c19Store{{m: map[string]Session{}}, {m: map[string]Session{}}}
	ccfg, scfg := c19Configs(v, stores)
	lab := c19Establish(t, ccfg, scfg)
	self, peer := lab.peer(side), lab.other(side)
	selfCfg := ccfg
	if side == "server" {
		selfCfg = scfg
	}
	self.startReader()
	peer.startReader()
	lab.Pump.step()
	selfCIDLen := len(dtlsstate.CommonState(self.Conn.state).LocalConnectionID())
	peerCIDLen := len(dtlsstate.CommonState(peer.Conn.state).LocalConnectionID())
	_ = selfCIDLen
	res.HsWire = c19WireOf(lab.Net.since(0), self.Name, peerCIDLen)
	incarnations := []*vPeer{self}
	cur := self
	gotSelf := func() []string {
		out := []string{}
		for _, p := range incarnations {
			out = append(out, c19Strs(p.reads())...)
		}

		return out
	}
	look := func(gen, at int, export bool) (State, bool) {
		ob := c19LookObs{Gen: gen, At: at, Export: export, State: c19Internal(cur.Conn),
			SentBefore: len(c19WireOf(lab.Net.since(0), self.Name, peerCIDLen))}
		st, ok := cur.Conn.ConnectionState()
		ob.OK = ok
		if ok {
			ob.Got = c19Public(&st)
			ob.Exp = c19Exporters(&st)
		}
		res.Looks = append(res.Looks, ob)

		return st, ok
	}
	nS, nP := 0, 0
	write := func(fromSelf bool, tag string) {
		if fromSelf {
			pl := fmt.Sprintf("%s-%s-%d", tag, self.Name, nS)
			nS++
			res.SentSelf = append(res.SentSelf, pl)
			if e := c19Write(cur.Conn, []byte(pl)); e != "ok" {
				res.WriteErrs = append(res.WriteErrs, tag+"-self:"+e)
			}
		} else {
			pl := fmt.Sprintf("%s-%s-%d", tag, peer.Name, nP)
			nP++
			res.SentPeer = append(res.SentPeer, pl)
			if e := c19Write(peer.Conn, []byte(pl)); e != "ok" {
				res.WriteErrs = append(res.WriteErrs, tag+"-peer:"+e)
			}
		}
		lab.Pump.step()
	}
	teardown := func() {
		for i := len(incarnations) - 1; i >= 0; i-- {
			c19Quiet(incarnations[i])
		}
		c19Quiet(peer)
	}

	res.Complete = true
	for g, h := range hists {
		gen := c19LookGen{History: h}
		genStart := lab.Net.count()
		for at, op := range h {
			switch op {
			case 'L':
				look(g, at, false)
			case 'S':
				write(true, fmt.Sprintf("g%d", g))
			case 'P':
				write(false, fmt.Sprintf("g%d", g))
			}
		}
		lab.Pump.step()
		gen.Wire = c19WireOf(lab.Net.since(genStart), self.Name, peerCIDLen)
		st, ok := look(g, len(h), true)
		if !ok {
			res.Complete = false
			res.Gens = append(res.Gens, gen)

			break
		}
		raw, err := st.MarshalBinary()
		gen.MarshalErr = vErrString(err)
		dec := &State{}
		if err == nil {
			err = dec.UnmarshalBinary(raw)
			gen.DecodeErr = vErrString(err)
		}
		if err != nil {
			res.Complete = false
			res.Gens = append(res.Gens, gen)

			break
		}
		gen.Decoded = c19Public(dec)
		// the exporting connection disappears without a trace on the wire
		_ = cur.EP.Close()
		synctest.Wait()
		newEP := lab.Net.endpoint(self.Name)
		resumed, err := resumeWithConfig(dec, newEP, vAddr(peer.Name), selfCfg)
		gen.ResumeErr = vErrString(err)
		if err != nil {
			_ = newEP.Close()
			res.Complete = false
			res.Gens = append(res.Gens, gen)

			break
		}
		rp := &vPeer{Name: self.Name, EP: newEP, Conn: resumed, Done: make(chan struct{})}
		incarnations = append(incarnations, rp)
		gen.StartErr = vErrString(c19Start(rp))
		gen.After = c19Internal(resumed)
		res.Gens = append(res.Gens, gen)
		if gen.StartErr != "ok" {
			res.Complete = false

			break
		}
		rp.startReader()
		synctest.Wait()
		cur = rp
	}
	if res.Complete {
		postStart := lab.Net.count()
		rng := newVRand(uint64(len(hists))*977 + uint64(k)*31 + uint64(m))
		wk, wm := 0, 0
		for wk < k || wm < m {
			fromSelf := wm >= m || (wk < k && rng.intn(2) == 0)
			write(fromSelf, "post")
			if fromSelf {
				wk++
			} else {
				wm++
			}
		}
		lab.Pump.step()
		res.PostWire = c19WireOf(lab.Net.since(postStart), self.Name, peerCIDLen)
		if fs, ok := cur.Conn.ConnectionState(); ok {
			res.FinalOK = true
			res.Final = c19Public(&fs)
			res.ExpFinal = c19Exporters(&fs)
		}
	}
	res.AllWire = c19WireOf(lab.Net.since(0), self.Name, peerCIDLen)
	res.GotPeer = c19Strs(peer.reads())
	res.GotSelf = gotSelf()
	if pst, ok := peer.Conn.ConnectionState(); ok {
		res.ExpPeer = c19Exporters(&pst)
	}
	teardown()

	return res
}

// c19LookHistory draws a history with n ops; `first` forces a look as the very first op (the call an
// application makes right after the handshake).
func c19LookHistory(rng *vRand, n int, first bool) string {
	h := []byte{}
	if first {
		h = append(h, 'L')
	}
	for len(h) < n {
		h = append(h, "LSSP"[rng.intn(4)])
	}

	return string(h)
}

func TestVerifC19Looks(t *testing.T) {
	out := newVOut(t)
	rng := newVRand(vSeed() ^ 0xc19100c5)
	suites := c19Suites()
	sides := []string{"client", "server"}
	type job struct {
		v     c19Variant
		side  string
		hists []string
		k, m  int
	}
	var jobs []job
	plain := func(i int) c19Variant { return c19WithFeatures(suites[i], 0, false, false, false, false, 0) }
	full := func(i int) c19Variant { return c19WithFeatures(suites[i], 1, true, true, true, true, 1) }
	// (a) fixed shapes on both sides: look, traffic, export; no look (control); look only; two
	// generations with a look in each; look after the peer's traffic only
	shapes := [][]string{
		{"LSSP"}, {"SSP"}, {"L"}, {"LL"}, {"LPP"}, {"SLS"}, {"LSLSL"},
		{"LS", "LS"}, {"S", "LSP"}, {"L", "L", "SL"}, {"LSP", "SPL", "LSS"},
	}
	for _, sh := range shapes {
		for _, side := range sides {
			jobs = append(jobs, job{v: plain(0), side: side, hists: sh, k: 2, m: 2})
		}
	}
	for _, idx := range []int{4, 7, 13} {
		for _, side := range sides {
			jobs = append(jobs, job{v: full(idx), side: side, hists: []string{"LSPS", "LPS"}, k: 2, m: 1})
		}
	}
	// (b) generated histories: 1..3 generations of 0..6 ops
	n := 240
	if vIsThorough() {
		n = 2400
	}
	for x := 0; x < n; x++ {
		sv := suites[rng.intn(len(suites))]
		v := c19WithFeatures(sv, rng.intn(3), rng.chance(40), rng.chance(50), rng.chance(40), rng.chance(40), rng.intn(3)%2)
		gens := 1 + rng.intn(3)
		var hs []string
		for g := 0; g < gens; g++ {
			hs = append(hs, c19LookHistory(rng, rng.intn(7), rng.chance(50)))
		}
		jobs = append(jobs, job{v: v, side: sides[rng.intn(2)], hists: hs, k: 1 + rng.intn(3), m: 1 + rng.intn(3)})
	}
	c19RSA()
	vGetCreds()
	for _, jb := range jobs {
		jb := jb
		var res c19LooksCase
		vBubble(t, func(t *testing.T) { res = c19RunLooks(t, jb.v, jb.side, jb.hists, jb.k, jb.m) })
		out.emit(res)
	}
}
