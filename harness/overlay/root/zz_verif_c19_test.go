//go:build verif

// C19 correspondence harness: export the state of an established DTLS 1.2 connection at a
// chosen point, resume from the serialised bytes on a fresh transport endpoint and keep talking
// to the untouched peer; corrupt the serialised bytes and classify what the code does.
package dtls

import (
	"bytes"
	"context"
	"crypto/rand"
	"crypto/rsa"
	"crypto/sha256"
	"crypto/tls"
	"encoding/gob"
	"errors"
	"fmt"
	"sync"
	"sync/atomic"
	"testing"
	"testing/synctest"
	"time"

	"github.com/pion/dtls/v3/internal/ciphersuite"
	dtlsstate "github.com/pion/dtls/v3/internal/state"
	"github.com/pion/dtls/v3/pkg/crypto/selfsign"
	"github.com/pion/dtls/v3/pkg/protocol"
	"github.com/pion/logging"
)

// ---------------------------------------------------------------- variants

type c19Variant struct {
	Name   string        `json:"name"`
	Kind   string        `json:"kind"` // psk | cert | rsa
	Suite  CipherSuiteID `json:"suite"`
	CID    int           `json:"cid"`    // 0 none, 1 both sides generate, 2 only the server has a CID
	SRTP   bool          `json:"srtp"`   // use_srtp negotiated
	MKI    bool          `json:"mki"`    // with a master key identifier
	ALPN   bool          `json:"alpn"`   // SupportedProtocols on both sides
	Mutual bool          `json:"mutual"` // client certificate requested (cert kinds)
	Sess   int           `json:"sess"`   // 0 none, 1 session stores (full handshake), 2 abbreviated handshake
	// versions the options of the exported side allow: 0 = DTLS 1.2 only; 1 = dual stack (the session is
	// negotiated as 1.2 against a 1.2-only peer and resumed with the same options); 2 = the session is
	// negotiated with 1.2-only options and resumed with options that allow DTLS 1.3 only
	Vers int `json:"vers"`
}

type c19Store struct {
	mu sync.Mutex
	m  map[string]Session
}

func (s *c19Store) Set(key []byte, v Session) error {
	s.mu.Lock()
	defer s.mu.Unlock()
	s.m[string(key)] = v

	return nil
}

func (s *c19Store) Get(key []byte) (Session, error) {
	s.mu.Lock()
	defer s.mu.Unlock()

	return s.m[string(key)], nil
}

func (s *c19Store) Del(key []byte) error {
	s.mu.Lock()
	defer s.mu.Unlock()
	delete(s.m, string(key))

	return nil
}

var (
	c19RSAOnce sync.Once       //nolint:gochecknoglobals
	c19RSACert tls.Certificate //nolint:gochecknoglobals
)

func c19RSA() tls.Certificate {
	c19RSAOnce.Do(func() {
		key, err := rsa.GenerateKey(rand.Reader, 2048)
		if err != nil {
			panic(err)
		}
		c19RSACert, err = selfsign.WithDNS(key, "server.verif")
		if err != nil {
			panic(err)
		}
	})

	return c19RSACert
}

// c19Configs builds a fresh (client, server) config pair for the variant. Stores (when used)
// are shared by the pairs built from the same `stores` argument.
func c19Configs(v c19Variant, stores [2]*c19Store) (*dtlsConfig, *dtlsConfig) {
	var c, s *dtlsConfig
	switch v.Kind {
	case "psk":
		c, s = vPSKPair(v.Suite)
	case "cert":
		c, s = vCertPair()
		c.CipherSuites = []CipherSuiteID{v.Suite}
		s.CipherSuites = []CipherSuiteID{v.Suite}
		if v.Mutual {
			cr := vGetCreds()
			c.Certificates = []tls.Certificate{cr.Client}
			s.ClientAuth = RequireAndVerifyClientCert
			s.ClientCAs = cr.Pool
		}
	case "rsa":
		c, s = vBaseConfig(), vBaseConfig()
		c.InsecureSkipVerify = true
		c.CipherSuites = []CipherSuiteID{v.Suite}
		s.CipherSuites = []CipherSuiteID{v.Suite}
		s.Certificates = []tls.Certificate{c19RSA()}
	default:
		panic("kind " + v.Kind)
	}
	switch v.CID {
	case 1:
		c.ConnectionIDGenerator = RandomCIDGenerator(4)
		s.ConnectionIDGenerator = RandomCIDGenerator(6)
	case 2:
		c.ConnectionIDGenerator = OnlySendCIDGenerator()
		s.ConnectionIDGenerator = RandomCIDGenerator(5)
	}
	if v.SRTP {
		c.SRTPProtectionProfiles = []SRTPProtectionProfile{SRTP_AEAD_AES_128_GCM, SRTP_AES128_CM_HMAC_SHA1_80}
		s.SRTPProtectionProfiles = []SRTPProtectionProfile{SRTP_AES128_CM_HMAC_SHA1_80}
		if v.MKI {
			c.SRTPMasterKeyIdentifier = []byte{0x4d, 0x4b, 0x49}
			s.SRTPMasterKeyIdentifier = []byte{0x4d, 0x4b, 0x49}
		}
	}
	if v.ALPN {
		c.SupportedProtocols = []string{"verif/2", "verif/1"}
		s.SupportedProtocols = []string{"verif/1"}
	}
	if v.Sess > 0 {
		c.sessionStore = stores[0]
		s.sessionStore = stores[1]
		c.ServerName = "server.verif"
	}

	return c, s
}

func c19Suites() []c19Variant {
	return []c19Variant{
		{Name: "psk-gcm", Kind: "psk", Suite: TLS_PSK_WITH_AES_128_GCM_SHA256},
		{Name: "psk-ccm", Kind: "psk", Suite: TLS_PSK_WITH_AES_128_CCM},
		{Name: "psk-ccm8", Kind: "psk", Suite: TLS_PSK_WITH_AES_128_CCM_8},
		{Name: "psk-ccm8-256", Kind: "psk", Suite: TLS_PSK_WITH_AES_256_CCM_8},
		{Name: "psk-cbc", Kind: "psk", Suite: TLS_PSK_WITH_AES_128_CBC_SHA256},
		{Name: "psk-chacha", Kind: "psk", Suite: TLS_PSK_WITH_CHACHA20_POLY1305_SHA256},
		{Name: "ecdhe-psk-cbc", Kind: "psk", Suite: TLS_ECDHE_PSK_WITH_AES_128_CBC_SHA256},
		{Name: "ecdsa-gcm128", Kind: "cert", Suite: TLS_ECDHE_ECDSA_WITH_AES_128_GCM_SHA256},
		{Name: "ecdsa-gcm256", Kind: "cert", Suite: TLS_ECDHE_ECDSA_WITH_AES_256_GCM_SHA384},
		{Name: "ecdsa-ccm", Kind: "cert", Suite: TLS_ECDHE_ECDSA_WITH_AES_128_CCM},
		{Name: "ecdsa-ccm8", Kind: "cert", Suite: TLS_ECDHE_ECDSA_WITH_AES_128_CCM_8},
		{Name: "ecdsa-cbc", Kind: "cert", Suite: TLS_ECDHE_ECDSA_WITH_AES_256_CBC_SHA},
		{Name: "ecdsa-chacha", Kind: "cert", Suite: TLS_ECDHE_ECDSA_WITH_CHACHA20_POLY1305_SHA256},
		{Name: "rsa-gcm128", Kind: "rsa", Suite: TLS_ECDHE_RSA_WITH_AES_128_GCM_SHA256},
		{Name: "rsa-gcm256", Kind: "rsa", Suite: TLS_ECDHE_RSA_WITH_AES_256_GCM_SHA384},
		{Name: "rsa-cbc", Kind: "rsa", Suite: TLS_ECDHE_RSA_WITH_AES_256_CBC_SHA},
		{Name: "rsa-chacha", Kind: "rsa", Suite: TLS_ECDHE_RSA_WITH_CHACHA20_POLY1305_SHA256},
	}
}

// c19WithFeatures decorates a suite variant with a feature mask.
func c19WithFeatures(v c19Variant, cid int, srtp, mki, alpn, mutual bool, sess int) c19Variant {
	v.CID, v.SRTP, v.MKI, v.ALPN, v.Sess = cid, srtp, mki && srtp, alpn, sess
	v.Mutual = mutual && v.Kind == "cert"
	v.Name = fmt.Sprintf("%s/cid%d/srtp%v/mki%v/alpn%v/mut%v/sess%d", v.Name, v.CID, c19b(v.SRTP), c19b(v.MKI),
		c19b(v.ALPN), c19b(v.Mutual), v.Sess)

	return v
}

// c19WithVers sets the version dimension (certificate kinds only: a PSK-only configuration
// never offers DTLS 1.3).
func c19WithVers(v c19Variant, vers int) c19Variant {
	if v.Kind == "psk" {
		vers = 0
	}
	v.Vers = vers
	v.Name = fmt.Sprintf("%s/vers%d", v.Name, vers)

	return v
}

// c19AllowDTLS13 widens a configuration to the given version range; the suite list gets a DTLS 1.3
// suite, otherwise the effective range is cut back to the versions of the listed suites.
func c19AllowDTLS13(cfg *dtlsConfig, minV, maxV protocol.Version) *dtlsConfig {
	cp := *cfg
	cp.MinVersion, cp.MaxVersion = minV, maxV
	cp.CipherSuites = append(append([]CipherSuiteID{}, cfg.CipherSuites...), TLS_AES_128_GCM_SHA256)

	return &cp
}

func c19VersionN(v protocol.Version) int { return int(v.Major)<<8 | int(v.Minor) }

func c19b(b bool) int {
	if b {
		return 1
	}

	return 0
}

// ---------------------------------------------------------------- lab helpers (own copies: only
// zz_verif_lab* and zz_verif_c19_* files are mapped into the package for this check)

func c19Establish(t *testing.T, ccfg, scfg *dtlsConfig) *vLab {
	t.Helper()
	lab := newLab(t, ccfg, scfg)
	lab.Pump.run(lab.bothDone, 200*time.Second)
	if !lab.established() {
		t.Fatalf("handshake failed: client=%v server=%v", lab.Client.Err, lab.Server.Err)
	}

	return lab
}

// c19Quiet tears a peer down without letting anything reach the wire: the transport endpoint
// is closed first, so the close_notify of Conn.Close is refused by the endpoint.
func c19Quiet(p *vPeer) {
	_ = p.EP.Close()
	synctest.Wait()
	_ = p.Conn.Close()
	synctest.Wait()
}

type c19Wire struct {
	Epoch int    `json:"e"`
	Seq   uint64 `json:"s"`
	CT    int    `json:"ct"`
}

func c19WireOf(ds []vDatagram, from string, cidLen int) []c19Wire {
	var out []c19Wire
	for _, d := range ds {
		if d.From != from {
			continue
		}
		for _, r := range vParseDatagram(d.Data, cidLen) {
			out = append(out, c19Wire{Epoch: r.Epoch, Seq: r.Seq, CT: r.CT})
		}
	}

	return out
}

// c19IState is the projection of the internal connection state that Coq's `istate` models.
type c19IState struct {
	LocalEpoch   int      `json:"local_epoch"`
	RemoteEpoch  int      `json:"remote_epoch"`
	LocalRandom  string   `json:"local_random"`
	RemoteRandom string   `json:"remote_random"`
	Master       string   `json:"master"`
	LocalSeq     []uint64 `json:"local_seq"`
	RemoteSeq    []uint64 `json:"remote_seq"`
	Detectors    int      `json:"detectors"`
	Suite        int      `json:"suite"` // 0 when no suite is set
	Profile      int      `json:"profile"`
	MKI          string   `json:"mki"`
	LocalCID     string   `json:"local_cid"`
	RemoteCID    string   `json:"remote_cid"`
	RRC          bool     `json:"rrc"`
	IsClient     bool     `json:"is_client"`
	Version      int      `json:"version"`
	Certs        []string `json:"certs"` // sha256 prefixes (8 bytes) of each peer certificate
	CertLens     []int    `json:"cert_lens"`
	Hint         string   `json:"hint"`
	SessionID    string   `json:"session_id"`
	ALPN         string   `json:"alpn"` // hex of the protocol string
	EMS          bool     `json:"ems"`
	LocalCIDOff  bool     `json:"local_cid_offered"`
	RemoteCIDOff bool     `json:"remote_cid_offered"`
	CertsVerif   bool     `json:"certs_verified"`
	HsSend       int      `json:"hs_send"`
	HsRecv       int      `json:"hs_recv"`
}

func c19CertDigests(certs [][]byte) ([]string, []int) {
	ds := []string{}
	ls := []int{}
	for _, c := range certs {
		h := sha256.Sum256(c)
		ds = append(ds, vHex(h[:8]))
		ls = append(ls, len(c))
	}

	return ds, ls
}

func c19Internal(c *Conn) c19IState {
	c.lock.RLock()
	defer c.lock.RUnlock()
	common := dtlsstate.CommonState(c.state)
	out := c19IState{
		LocalEpoch: int(common.LocalEpoch()), RemoteEpoch: int(common.RemoteEpoch()),
		Detectors: len(common.ReplayDetector), Profile: int(common.SRTPProtectionProfile()),
		MKI: vHex(common.RemoteSRTPMasterKeyIdentifier), LocalCID: vHex(common.LocalConnectionID()),
		RemoteCID: vHex(common.RemoteConnectionID), RRC: common.RRCNegotiated, IsClient: common.IsClient,
		Version: int(common.LocalVersion.Major)<<8 | int(common.LocalVersion.Minor),
		Hint:    vHex(common.IdentityHint), SessionID: vHex(common.SessionID),
		ALPN: vHex([]byte(common.NegotiatedProtocol)),
		LocalSeq: []uint64{}, RemoteSeq: []uint64{},
	}
	lr := common.LocalRandom.MarshalFixed()
	rr := common.RemoteRandom.MarshalFixed()
	out.LocalRandom, out.RemoteRandom = vHex(lr[:]), vHex(rr[:])
	for i := range common.LocalSequenceNumber {
		out.LocalSeq = append(out.LocalSeq, atomic.LoadUint64(&common.LocalSequenceNumber[i]))
	}
	for i := range common.RemoteSequenceNumber {
		out.RemoteSeq = append(out.RemoteSeq, atomic.LoadUint64(&common.RemoteSequenceNumber[i]))
	}
	if common.CipherSuite != nil {
		out.Suite = int(common.CipherSuite.ID())
	}
	if st12, err := dtlsstate.As12(c.state); err == nil {
		out.Master = vHex(st12.MasterSecret)
		out.EMS, out.CertsVerif = st12.ExtendedMasterSecret, st12.PeerCertificatesVerified
		out.HsSend, out.HsRecv = st12.HandshakeSendSequence, st12.HandshakeRecvSequence
	}
	out.LocalCIDOff, out.RemoteCIDOff = common.LocalCIDOffered, common.RemoteCIDOffered
	out.Certs, out.CertLens = c19CertDigests(common.PeerCertificates)

	return out
}

// c19PState is the projection of the public State (Coq's `pstate`).
type c19PState struct {
	LocalEpoch   int      `json:"local_epoch"`
	RemoteEpoch  int      `json:"remote_epoch"`
	LocalRandom  string   `json:"local_random"`
	RemoteRandom string   `json:"remote_random"`
	Master       string   `json:"master"`
	Seq          uint64   `json:"seq"`
	Suite        int      `json:"suite"`
	Profile      int      `json:"profile"`
	MKI          string   `json:"mki"`
	LocalCID     string   `json:"local_cid"`
	RemoteCID    string   `json:"remote_cid"`
	RRC          bool     `json:"rrc"`
	IsClient     bool     `json:"is_client"`
	Version      int      `json:"version"`
	Certs        []string `json:"certs"`
	CertLens     []int    `json:"cert_lens"`
	Hint         string   `json:"hint"`
	SessionID    string   `json:"session_id"`
	ALPN         string   `json:"alpn"`
}

func c19Public(s *State) c19PState {
	lr := s.localRandom.MarshalFixed()
	rr := s.remoteRandom.MarshalFixed()
	out := c19PState{
		LocalEpoch: int(s.localEpoch), RemoteEpoch: int(s.remoteEpoch), LocalRandom: vHex(lr[:]),
		RemoteRandom: vHex(rr[:]), Master: vHex(s.masterSecret), Seq: s.sequenceNumber,
		Suite: int(s.CipherSuiteID), Profile: int(s.srtpProtectionProfile), MKI: vHex(s.peerSRTPMKI),
		LocalCID: vHex(s.localConnectionID), RemoteCID: vHex(s.remoteConnectionID), RRC: s.rrcNegotiated,
		IsClient: s.isClient, Version: int(s.version.Major)<<8 | int(s.version.Minor),
		Hint: vHex(s.IdentityHint), SessionID: vHex(s.SessionID), ALPN: vHex([]byte(s.NegotiatedProtocol)),
	}
	out.Certs, out.CertLens = c19CertDigests(s.PeerCertificates)

	return out
}

// names of the pstate fields in which two public states differ
func c19Diff(a, b c19PState) []string {
	d := []string{}
	add := func(name string, eq bool) {
		if !eq {
			d = append(d, name)
		}
	}
	add("local_epoch", a.LocalEpoch == b.LocalEpoch)
	add("remote_epoch", a.RemoteEpoch == b.RemoteEpoch)
	add("local_random", a.LocalRandom == b.LocalRandom)
	add("remote_random", a.RemoteRandom == b.RemoteRandom)
	add("master", a.Master == b.Master)
	add("seq", a.Seq == b.Seq)
	add("suite", a.Suite == b.Suite)
	add("profile", a.Profile == b.Profile)
	add("mki", a.MKI == b.MKI)
	add("local_cid", a.LocalCID == b.LocalCID)
	add("remote_cid", a.RemoteCID == b.RemoteCID)
	add("rrc", a.RRC == b.RRC)
	add("is_client", a.IsClient == b.IsClient)
	add("version", a.Version == b.Version)
	add("certs", fmt.Sprint(a.Certs, a.CertLens) == fmt.Sprint(b.Certs, b.CertLens))
	add("hint", a.Hint == b.Hint)
	add("session_id", a.SessionID == b.SessionID)
	add("alpn", a.ALPN == b.ALPN)

	return d
}

type c19Exp struct {
	Label string `json:"label"`
	Len   int    `json:"len"`
	Out   string `json:"out"` // hex, or "err:<text>"
}

var c19Labels = []struct { //nolint:gochecknoglobals
	l string
	n int
}{{"EXTRACTOR-dtls_srtp", 60}, {"EXPERIMENTAL-verif-c19", 32}, {"c19", 17}}

func c19Exporters(s *State) []c19Exp {
	var out []c19Exp
	for _, l := range c19Labels {
		b, err := s.ExportKeyingMaterial(l.l, nil, l.n)
		e := c19Exp{Label: l.l, Len: l.n, Out: vHex(b)}
		if err != nil {
			e.Out = "err:" + err.Error()
		}
		out = append(out, e)
	}

	return out
}

type c19SRTP struct {
	Profile   int    `json:"profile"`
	ProfileOK bool   `json:"profile_ok"`
	MKI       string `json:"mki"`
	MKIOK     bool   `json:"mki_ok"`
}

func c19SRTPOf(c *Conn) c19SRTP {
	p, ok := c.SelectedSRTPProtectionProfile()
	m, mok := c.RemoteSRTPMasterKeyIdentifier()

	return c19SRTP{Profile: int(p), ProfileOK: ok, MKI: vHex(m), MKIOK: mok}
}

func c19Strs(bs [][]byte) []string {
	out := []string{}
	for _, b := range bs {
		out = append(out, string(b))
	}

	return out
}

// c19Start drives HandshakeContext of a resumed connection to completion (it starts in the
// finished state, so this returns at once) and reports its error.
func c19Start(p *vPeer) error {
	go func() {
		p.Err = p.Conn.HandshakeContext(context.Background())
		close(p.Done)
	}()
	synctest.Wait()
	if !p.handshakeDone() {
		return errors.New("resumed handshake did not return") //nolint:err113
	}

	return p.Err
}

// c19Write writes from a separate goroutine so that a blocked Write cannot wedge the bubble.
func c19Write(c *Conn, payload []byte) string {
	done := make(chan error, 1)
	go func() {
		_, err := c.Write(payload)
		done <- err
	}()
	synctest.Wait()
	select {
	case err := <-done:
		return vErrString(err)
	default:
		return "blocked"
	}
}

// ---------------------------------------------------------------- main leg

type c19Case struct {
	Kind    string     `json:"kind"`
	Variant c19Variant `json:"variant"`
	I       int        `json:"i"` // records written by `side` before the export
	J       int        `json:"j"` // records written by the peer before the export
	K       int        `json:"k"` // records written by the resumed connection
	M       int        `json:"m"` // records written by the peer after the resume
	Side    string     `json:"side"`
	Fresh   bool       `json:"fresh_state_object"` // resumed from the decoded copy (true) or from the State itself
	// a record of the peer is still in flight at the export point: the original connection never
	// sees it, it reaches the resumed one
	Inflight bool `json:"inflight"`

	ExportOK   bool   `json:"export_ok"`
	MarshalErr string `json:"marshal_err"`
	DecodeErr  string `json:"decode_err"`
	ResumeErr  string `json:"resume_err"`
	StartErr   string `json:"start_err"`
	BytesLen   int    `json:"bytes_len"`

	Before    c19IState `json:"before"`     // internal state of the original connection at the export point
	Exported  c19PState `json:"exported"`   // ConnectionState()
	Decoded   c19PState `json:"decoded"`    // after MarshalBinary / UnmarshalBinary
	After     c19IState `json:"after"`      // internal state of the resumed connection before it writes
	AfterEnd  c19IState `json:"after_end"`  // ... and after the post-resume traffic
	PeerState c19IState `json:"peer_state"` // untouched peer at the export point

	PreSelf  []c19Wire `json:"pre_self"`  // every record `side` emitted before the export (handshake included)
	PostSelf []c19Wire `json:"post_self"` // every record the resumed connection emitted
	PrePeer  []c19Wire `json:"pre_peer"`
	PostPeer []c19Wire `json:"post_peer"`

	PreSentSelf  []string `json:"pre_sent_self"`
	PreGotPeer   []string `json:"pre_got_peer"`
	PreSentPeer  []string `json:"pre_sent_peer"`
	PreGotSelf   []string `json:"pre_got_self"`
	PostSentSelf []string `json:"post_sent_self"`
	PostGotPeer  []string `json:"post_got_peer"`
	PostSentPeer []string `json:"post_sent_peer"`
	PostGotSelf  []string `json:"post_got_self"`
	WriteErrs    []string `json:"write_errs"`

	ExpBefore  []c19Exp `json:"exp_before"`
	ExpDecoded []c19Exp `json:"exp_decoded"`
	ExpAfter   []c19Exp `json:"exp_after"`
	ExpPeer    []c19Exp `json:"exp_peer"`

	// the Conn between resumeWithConfig and its first Handshake/Read/Write
	CfgMin       int       `json:"cfg_min"` // version range of its handshake configuration
	CfgMax       int       `json:"cfg_max"`
	EarlyStateOK bool      `json:"early_state_ok"` // ConnectionState() available
	EarlySRTP    c19SRTP   `json:"early_srtp"`
	StartWire    []c19Wire `json:"start_wire"` // what HandshakeContext of the resumed Conn put on the wire

	ParamsAfter c19PState `json:"params_after"` // ConnectionState() of the resumed connection (after traffic)
	SRTPBefore  c19SRTP   `json:"srtp_before"`
	SRTPAfter   c19SRTP   `json:"srtp_after"`

	// observation outside the letter of C19: a record of the untouched peer that the original
	// connection had already consumed is delivered again to the resumed connection
	ReplayTried    bool     `json:"replay_tried"`
	ReplayWire     c19Wire  `json:"replay_wire"`
	ReplayPayload  string   `json:"replay_payload"`
	ReplayAccepted bool     `json:"replay_accepted"`
	ReplayHex      string   `json:"replay_hex,omitempty"`
	PeerAlerts     int      `json:"peer_alert_records"` // alert records seen on the wire after the export
	PeerReadErr    string   `json:"peer_read_err"`
	Notes          []string `json:"notes"`
}

type c19Job struct {
	v          c19Variant
	i, j, k, m int
	side       string
	fresh      bool
	inflight   bool
	order      uint64
}

func c19RunMain(t *testing.T, jb c19Job) c19Case {
	t.Helper()
	res := c19Case{Kind: "main", Variant: jb.v, I: jb.i, J: jb.j, K: jb.k, M: jb.m, Side: jb.side, Fresh: jb.fresh,
		Inflight: jb.inflight,
		Notes: []string{}, WriteErrs: []string{}}
	stores := [2]*c19Store{{m: map[string]Session{}}, {m: map[string]Session{}}}
	if jb.v.Sess == 2 {
		// a first full handshake fills the stores; the connection under test then comes from
		// an abbreviated handshake (master secret taken from the session store)
		c0, s0 := c19Configs(jb.v, stores)
		l0 := c19Establish(t, c0, s0)
		c19Quiet(l0.Client)
		c19Quiet(l0.Server)
	}
	ccfg, scfg := c19Configs(jb.v, stores)
	if jb.v.Vers == 1 {
		// the exported side is a dual-stack endpoint, its peer speaks DTLS 1.2 only
		if jb.side == "client" {
			ccfg = c19AllowDTLS13(ccfg, protocol.Version1_2, protocol.Version1_3)
		} else {
			scfg = c19AllowDTLS13(scfg, protocol.Version1_2, protocol.Version1_3)
		}
	}
	lab := c19Establish(t, ccfg, scfg)
	self, peer := lab.peer(jb.side), lab.other(jb.side)
	selfCfg := ccfg
	if jb.side == "server" {
		selfCfg = scfg
	}
	if jb.v.Vers == 2 {
		selfCfg = c19AllowDTLS13(selfCfg, protocol.Version1_3, protocol.Version1_3)
	}
	self.startReader()
	peer.startReader()
	rng := newVRand(jb.order)

	// traffic before the export, in a generated interleaving
	wi, wj := 0, 0
	for wi < jb.i || wj < jb.j {
		fromSelf := wj >= jb.j || (wi < jb.i && rng.intn(2) == 0)
		if fromSelf {
			pl := fmt.Sprintf("pre-%s-%d", self.Name, wi)
			res.PreSentSelf = append(res.PreSentSelf, pl)
			if e := c19Write(self.Conn, []byte(pl)); e != "ok" {
				res.WriteErrs = append(res.WriteErrs, "pre-self:"+e)
			}
			wi++
		} else {
			pl := fmt.Sprintf("pre-%s-%d", peer.Name, wj)
			res.PreSentPeer = append(res.PreSentPeer, pl)
			if e := c19Write(peer.Conn, []byte(pl)); e != "ok" {
				res.WriteErrs = append(res.WriteErrs, "pre-peer:"+e)
			}
			wj++
		}
		lab.Pump.step()
	}
	lab.Pump.step()
	res.PreGotPeer = c19Strs(peer.reads())
	res.PreGotSelf = c19Strs(self.reads())

	// ---- export point (network quiescent: between records)
	selfCIDLen := len(dtlsstate.CommonState(self.Conn.state).LocalConnectionID())
	peerCIDLen := len(dtlsstate.CommonState(peer.Conn.state).LocalConnectionID())
	exportIdx := lab.Net.count()
	all := lab.Net.since(0)
	res.PreSelf = c19WireOf(all, self.Name, peerCIDLen)
	res.PrePeer = c19WireOf(all, peer.Name, selfCIDLen)
	res.Before = c19Internal(self.Conn)
	res.PeerState = c19Internal(peer.Conn)
	res.SRTPBefore = c19SRTPOf(self.Conn)
	if jb.inflight {
		// written by the peer, held by the network until the resumed connection is up
		pl := "inflight-" + peer.Name
		res.PostSentPeer = append(res.PostSentPeer, pl)
		if e := c19Write(peer.Conn, []byte(pl)); e != "ok" {
			res.WriteErrs = append(res.WriteErrs, "inflight-peer:"+e)
		}
	}
	st, ok := self.Conn.ConnectionState()
	res.ExportOK = ok
	if !ok {
		c19Quiet(self)
		c19Quiet(peer)

		return res
	}
	res.Exported = c19Public(&st)
	res.ExpBefore = c19Exporters(&st)
	raw, err := st.MarshalBinary()
	res.MarshalErr = vErrString(err)
	res.BytesLen = len(raw)
	dec := &State{}
	err = dec.UnmarshalBinary(raw)
	res.DecodeErr = vErrString(err)
	if err != nil {
		c19Quiet(self)
		c19Quiet(peer)

		return res
	}
	res.Decoded = c19Public(dec)
	res.ExpDecoded = c19Exporters(dec)

	// ---- the original connection disappears without a trace on the wire: its endpoint is
	// closed (writes are refused by the endpoint) and a fresh endpoint takes over the address
	_ = self.EP.Close()
	synctest.Wait()
	newEP := lab.Net.endpoint(self.Name)
	from := dec
	if !jb.fresh {
		from = &st
	}
	resumed, err := resumeWithConfig(from, newEP, vAddr(peer.Name), selfCfg)
	res.ResumeErr = vErrString(err)
	if err != nil {
		_ = newEP.Close()
		c19Quiet(self)
		c19Quiet(peer)

		return res
	}
	rp := &vPeer{Name: self.Name, EP: newEP, Conn: resumed, Done: make(chan struct{})}
	res.CfgMin, res.CfgMax = c19VersionN(resumed.handshakeConfig.MinVersion), c19VersionN(resumed.handshakeConfig.MaxVersion)
	_, res.EarlyStateOK = resumed.ConnectionState()
	res.EarlySRTP = c19SRTPOf(resumed)
	startIdx := lab.Net.count()
	res.StartErr = vErrString(c19Start(rp))
	res.StartWire = c19WireOf(lab.Net.since(startIdx), self.Name, 0)
	res.After = c19Internal(resumed)
	if res.StartErr != "ok" {
		// not in the finished state: nothing below applies
		c19Quiet(rp)
		c19Quiet(self)
		c19Quiet(peer)

		return res
	}
	rp.startReader()
	synctest.Wait()

	// ---- traffic after the resume
	lab.Pump.next = exportIdx
	lab.Pump.step()
	basePeerReads := len(peer.reads())
	wk, wm := 0, 0
	for wk < jb.k || wm < jb.m {
		fromSelf := wm >= jb.m || (wk < jb.k && rng.intn(2) == 0)
		if fromSelf {
			pl := fmt.Sprintf("post-%s-%d", self.Name, wk)
			res.PostSentSelf = append(res.PostSentSelf, pl)
			if e := c19Write(resumed, []byte(pl)); e != "ok" {
				res.WriteErrs = append(res.WriteErrs, "post-self:"+e)
			}
			wk++
		} else {
			pl := fmt.Sprintf("post-%s-%d", peer.Name, wm)
			res.PostSentPeer = append(res.PostSentPeer, pl)
			if e := c19Write(peer.Conn, []byte(pl)); e != "ok" {
				res.WriteErrs = append(res.WriteErrs, "post-peer:"+e)
			}
			wm++
		}
		lab.Pump.step()
	}
	lab.Pump.step()
	res.PostGotPeer = c19Strs(peer.reads()[basePeerReads:])
	res.PostGotSelf = c19Strs(rp.reads())
	post := lab.Net.since(exportIdx)
	res.PostSelf = c19WireOf(post, self.Name, peerCIDLen)
	res.PostPeer = c19WireOf(post, peer.Name, selfCIDLen)
	for _, w := range append(append([]c19Wire{}, res.PostSelf...), res.PostPeer...) {
		if w.CT == int(protocol.ContentTypeAlert) {
			res.PeerAlerts++
		}
	}
	res.AfterEnd = c19Internal(resumed)
	if st2, ok2 := resumed.ConnectionState(); ok2 {
		res.ParamsAfter = c19Public(&st2)
		res.ExpAfter = c19Exporters(&st2)
	} else {
		res.Notes = append(res.Notes, "resumed ConnectionState() not ok")
	}
	if pst, ok3 := peer.Conn.ConnectionState(); ok3 {
		res.ExpPeer = c19Exporters(&pst)
	}
	res.SRTPAfter = c19SRTPOf(resumed)

	// ---- observation: a record the original connection had already consumed arrives again
	var old *vDatagram
	for idx := range all {
		d := all[idx]
		if d.From != peer.Name {
			continue
		}
		rs := vParseDatagram(d.Data, selfCIDLen)
		if len(rs) == 1 && rs[0].Epoch > 0 && rs[0].CT != int(protocol.ContentTypeHandshake) &&
			rs[0].CT != int(protocol.ContentTypeChangeCipherSpec) && len(res.PreSentPeer) > 0 {
			old = &all[idx]
			res.ReplayWire = c19Wire{Epoch: rs[0].Epoch, Seq: rs[0].Seq, CT: rs[0].CT}

			break
		}
	}
	if old != nil {
		res.ReplayTried = true
		res.ReplayPayload = res.PreSentPeer[0]
		n0 := len(rp.reads())
		lab.Net.deliver(self.Name, peer.Name, old.Data)
		synctest.Wait()
		for _, r := range rp.reads()[n0:] {
			if string(r) == res.ReplayPayload {
				res.ReplayAccepted = true
				res.ReplayHex = vHex(old.Data)
			}
		}
	}
	res.PeerReadErr = vErrString(peer.readErr())

	// ---- teardown (nothing below is observed)
	c19Quiet(rp)
	c19Quiet(self)
	c19Quiet(peer)

	return res
}

func TestVerifC19Main(t *testing.T) {
	out := newVOut(t)
	rng := newVRand(vSeed() ^ 0xc19)
	suites := c19Suites()
	var jobs []c19Job
	sides := []string{"client", "server"}
	// (a) every suite, both sides, plain and fully decorated
	for _, sv := range suites {
		for _, side := range sides {
			jobs = append(jobs, c19Job{v: c19WithFeatures(sv, 0, false, false, false, false, 0), i: 1 + rng.intn(3),
				j: rng.intn(3), k: 2, m: 2, side: side, fresh: true})
			jobs = append(jobs, c19Job{v: c19WithFeatures(sv, 1, true, true, true, true, 1), i: rng.intn(4),
				j: 1 + rng.intn(3), k: 2, m: 2, side: side, fresh: true})
		}
	}
	// (b) every (i, j) <= 3 on both sides, for one AEAD, one CBC and one CID variant
	grid := []c19Variant{
		c19WithFeatures(suites[0], 0, false, false, false, false, 0),
		c19WithFeatures(suites[4], 0, true, false, true, false, 0),
		c19WithFeatures(suites[7], 1, true, true, true, true, 1),
	}
	if vIsThorough() {
		grid = nil
		for _, sv := range suites {
			grid = append(grid, c19WithFeatures(sv, 0, false, false, false, false, 0),
				c19WithFeatures(sv, 1, true, true, true, true, 1))
		}
	}
	for _, gv := range grid {
		for i := 0; i <= 3; i++ {
			for j := 0; j <= 3; j++ {
				for _, side := range sides {
					jobs = append(jobs, c19Job{v: gv, i: i, j: j, k: 1 + (i+j)%3, m: 1 + (i*j)%3, side: side, fresh: true})
				}
			}
		}
	}
	// (c) generated feature combinations and export points
	n := 120
	if vIsThorough() {
		n = 6000
	}
	for x := 0; x < n; x++ {
		sv := suites[rng.intn(len(suites))]
		v := c19WithFeatures(sv, rng.intn(3), rng.chance(50), rng.chance(50), rng.chance(50), rng.chance(50), rng.intn(3))
		if rng.chance(25) {
			v = c19WithVers(v, 1+rng.intn(2))
		}
		i, j := rng.intn(6), rng.intn(6)
		if rng.chance(10) {
			i += 20 + rng.intn(70) // beyond the 64-record replay window
		}
		if rng.chance(10) {
			j += 20 + rng.intn(70)
		}
		jobs = append(jobs, c19Job{v: v, i: i, j: j, k: rng.intn(4), m: rng.intn(4), side: sides[rng.intn(2)],
			fresh: !rng.chance(15), inflight: rng.chance(30)})
	}
	// (d) the options of the exported side allow DTLS 1.3: dual stack (the session was negotiated as
	// 1.2 against a 1.2-only peer) or 1.3 only; certificate kinds, both sides, plain and decorated
	for _, idx := range []int{7, 10, 12, 13, 15} {
		for _, side := range sides {
			for vers := 1; vers <= 2; vers++ {
				jobs = append(jobs, c19Job{v: c19WithVers(c19WithFeatures(suites[idx], 0, false, false, false, false, 0), vers),
					i: rng.intn(3), j: rng.intn(3), k: 2, m: 2, side: side, fresh: true})
				jobs = append(jobs, c19Job{v: c19WithVers(c19WithFeatures(suites[idx], 1, true, true, true, idx%2 == 0, 1), vers),
					i: 1 + rng.intn(3), j: 1 + rng.intn(3), k: 1 + rng.intn(3), m: 1 + rng.intn(3), side: side, fresh: rng.chance(70),
					inflight: rng.chance(40)})
			}
		}
	}
	c19RSA()
	vGetCreds()
	for idx, jb := range jobs {
		jb := jb
		jb.order = vSeed()*1000003 + uint64(idx)
		var res c19Case
		vBubble(t, func(t *testing.T) { res = c19RunMain(t, jb) })
		out.emit(res)
	}
}

// ---------------------------------------------------------------- corruption leg

type c19Base struct {
	v        c19Variant
	side     string
	raw      []byte
	orig     State
	origP    c19PState
	peer     State
	selfCfg  *dtlsConfig
	peerCfg  *dtlsConfig
	peerName string
}

func c19MakeBase(t *testing.T, v c19Variant, side string) *c19Base {
	t.Helper()
	b := &c19Base{v: v, side: side}
	vBubble(t, func(t *testing.T) {
		stores := [2]*c19Store{{m: map[string]Session{}}, {m: map[string]Session{}}}
		ccfg, scfg := c19Configs(v, stores)
		lab := c19Establish(t, ccfg, scfg)
		self, peer := lab.peer(side), lab.other(side)
		self.startReader()
		peer.startReader()
		for x := 0; x < 2; x++ {
			c19Write(self.Conn, []byte("warm-self"))
			lab.Pump.step()
			c19Write(peer.Conn, []byte("warm-peer"))
			lab.Pump.step()
		}
		st, ok := self.Conn.ConnectionState()
		pst, ok2 := peer.Conn.ConnectionState()
		if !ok || !ok2 {
			t.Fatalf("ConnectionState not available")
		}
		raw, err := st.MarshalBinary()
		if err != nil {
			t.Fatalf("MarshalBinary: %v", err)
		}
		b.raw, b.orig, b.peer = raw, st, pst
		b.origP = c19Public(&st)
		b.selfCfg, b.peerCfg = ccfg, scfg
		if side == "server" {
			b.selfCfg, b.peerCfg = scfg, ccfg
		}
		b.peerName = peer.Name
		c19Quiet(self)
		c19Quiet(peer)
	})

	return b
}

type c19Corrupt struct {
	Kind    string     `json:"kind"`
	Base    string     `json:"base"`
	Side    string     `json:"side"`
	Mut     string     `json:"mut"`
	Result  string     `json:"result"` // err | err-resume | err-start | ok-same | ok-diff | panic
	Err     string     `json:"err"`
	Diff    []string   `json:"diff"`
	Orig    *c19PState `json:"orig,omitempty"`
	Decoded *c19PState `json:"decoded,omitempty"`
	Input   *c19PState `json:"input,omitempty"` // the serializedState value that was gob-encoded (struct: mutations)
	Peer    *c19PState `json:"peer,omitempty"`  // good state of the untouched peer
	X2P     bool       `json:"x2p"` // a record written by the resumed (corrupted) side was delivered to the peer
	P2X     bool       `json:"p2x"` // a record written by the peer was delivered by the resumed side
	WErrX   string     `json:"werr_x"`
	WErrP   string     `json:"werr_p"`
	K       int        `json:"k"`         // writes attempted by the resumed (corrupted) side
	Post    []c19Wire  `json:"post_wire"` // every record it put on the wire
	WErrs   []string   `json:"werrs"`     // result of each of those writes
	Hex     string     `json:"hex,omitempty"`
	Panic   string     `json:"panic,omitempty"`
}

// c19Trial decodes `mut` and, when that succeeds, resumes from it against a peer resumed from
// the untouched peer's own (good) exported state, then tries one record in each direction.
// Must run inside a bubble.
func c19Trial(b *c19Base, name string, mut []byte, input *c19PState) (res c19Corrupt) {
	res = c19Corrupt{Kind: "corrupt", Base: b.v.Name, Side: b.side, Mut: name, Diff: []string{}, Input: input,
		Post: []c19Wire{}, WErrs: []string{}}
	var cleanup []func()
	defer func() {
		if r := recover(); r != nil {
			res.Result = "panic"
			res.Panic = fmt.Sprint(r)
			res.Hex = vHex(mut)
		}
		for i := len(cleanup) - 1; i >= 0; i-- {
			cleanup[i]()
		}
	}()
	dec := &State{}
	if err := dec.UnmarshalBinary(mut); err != nil {
		res.Result, res.Err = "err", err.Error()

		return res
	}
	dp := c19Public(dec)
	res.Diff = c19Diff(b.origP, dp)
	res.Decoded = &dp
	res.Orig = &b.origP
	pp0 := c19Public(&b.peer)
	res.Peer = &pp0
	net := newVNet()
	epS, epP := net.endpoint(b.side), net.endpoint(b.peerName)
	cleanup = append(cleanup, func() { _ = epS.Close(); _ = epP.Close(); synctest.Wait() })
	good := b.peer
	pc, err := resumeWithConfig(&good, epP, vAddr(b.side), b.peerCfg)
	if err != nil {
		panic("good peer state does not resume: " + err.Error())
	}
	pp := &vPeer{Name: b.peerName, EP: epP, Conn: pc, Done: make(chan struct{})}
	cleanup = append(cleanup, func() { c19Quiet(pp) })
	if err = c19Start(pp); err != nil {
		panic("good peer state does not start: " + err.Error())
	}
	xc, err := resumeWithConfig(dec, epS, vAddr(b.peerName), b.selfCfg)
	if err != nil {
		res.Result, res.Err = "err-resume", err.Error()

		return res
	}
	xp := &vPeer{Name: b.side, EP: epS, Conn: xc, Done: make(chan struct{})}
	cleanup = append(cleanup, func() { c19Quiet(xp) })
	if err = c19Start(xp); err != nil {
		res.Result, res.Err = "err-start", err.Error()

		return res
	}
	xp.startReader()
	pp.startReader()
	pump := &vPump{net: net}
	res.WErrX = c19Write(xc, []byte("x2p"))
	pump.step()
	res.WErrP = c19Write(pc, []byte("p2x"))
	pump.step()
	// two more records from the resumed side: which numbers does it use?
	res.K = 3
	res.WErrs = append(res.WErrs, res.WErrX)
	for x := 1; x < res.K; x++ {
		res.WErrs = append(res.WErrs, c19Write(xc, []byte(fmt.Sprintf("x2p-%d", x))))
		pump.step()
	}
	// (parsed with the CID length the resumed side itself writes with)
	res.Post = append(res.Post, c19WireOf(net.since(0), b.side, len(dec.remoteConnectionID))...)
	for _, r := range pp.reads() {
		if string(r) == "x2p" {
			res.X2P = true
		}
	}
	for _, r := range xp.reads() {
		if string(r) == "p2x" {
			res.P2X = true
		}
	}
	if len(res.Diff) == 0 {
		res.Result = "ok-same"
		res.Orig = nil
	} else {
		res.Result = "ok-diff"
		res.Hex = vHex(mut)
	}

	return res
}

// structured mutations: re-encode a chosen serializedState with gob
func c19SerializedProj(z serializedState) *c19PState {
	out := c19PState{
		LocalEpoch: int(z.LocalEpoch), RemoteEpoch: int(z.RemoteEpoch), LocalRandom: vHex(z.LocalRandom[:]),
		RemoteRandom: vHex(z.RemoteRandom[:]), Master: vHex(z.MasterSecret), Seq: z.SequenceNumber,
		Suite: int(z.CipherSuiteID), Profile: int(z.SRTPProtectionProfile), MKI: vHex(z.PeerSRTPMKI),
		LocalCID: vHex(z.LocalConnectionID), RemoteCID: vHex(z.RemoteConnectionID), RRC: z.RRCNegotiated,
		IsClient: z.IsClient, Version: int(z.Version.Major)<<8 | int(z.Version.Minor),
		Hint: vHex(z.IdentityHint), SessionID: vHex(z.SessionID), ALPN: vHex([]byte(z.NegotiatedProtocol)),
	}
	out.Certs, out.CertLens = c19CertDigests(z.PeerCertificates)

	return &out
}

func c19Structured(b *c19Base) (map[string][]byte, map[string]*c19PState) {
	base, err := b.orig.serialize()
	if err != nil {
		panic(err)
	}
	enc := func(s serializedState) []byte {
		var buf bytes.Buffer
		if e := gob.NewEncoder(&buf).Encode(s); e != nil {
			panic(e)
		}

		return buf.Bytes()
	}
	out := map[string][]byte{}
	inputs := map[string]*c19PState{}
	mod := func(name string, f func(s *serializedState)) {
		s := *base
		f(&s)
		out["struct:"+name] = enc(s)
		inputs["struct:"+name] = c19SerializedProj(s)
	}
	mod("identity", func(*serializedState) {})
	mod("version=1.3", func(s *serializedState) { s.Version = protocol.Version1_3 })
	mod("version=zero", func(s *serializedState) { s.Version = protocol.Version{} })
	mod("version=1.0", func(s *serializedState) { s.Version = protocol.Version1_0 })
	mod("version=ff.ff", func(s *serializedState) { s.Version = protocol.Version{Major: 0xff, Minor: 0xff} })
	mod("suite=0", func(s *serializedState) { s.CipherSuiteID = 0 })
	mod("suite=0x1301", func(s *serializedState) { s.CipherSuiteID = 0x1301 })
	mod("suite=0x1302", func(s *serializedState) { s.CipherSuiteID = 0x1302 })
	mod("suite=0x1303", func(s *serializedState) { s.CipherSuiteID = 0x1303 })
	mod("suite=0xffff", func(s *serializedState) { s.CipherSuiteID = 0xffff })
	for _, sv := range c19Suites() {
		sv := sv
		if uint16(sv.Suite) != base.CipherSuiteID {
			mod(fmt.Sprintf("suite=0x%04x", uint16(sv.Suite)), func(s *serializedState) { s.CipherSuiteID = uint16(sv.Suite) })
		}
	}
	for _, e := range []uint16{0, 2, 3, 255, 256, 65535} {
		e := e
		mod(fmt.Sprintf("local_epoch=%d", e), func(s *serializedState) { s.LocalEpoch = e })
		mod(fmt.Sprintf("remote_epoch=%d", e), func(s *serializedState) { s.RemoteEpoch = e })
	}
	mod("epochs=0,0", func(s *serializedState) { s.LocalEpoch, s.RemoteEpoch = 0, 0 })
	for _, q := range []uint64{0, 1, 1 << 20, 1<<48 - 2, 1<<48 - 1, 1 << 48, 1<<63 + 5, 1<<64 - 1} {
		q := q
		mod(fmt.Sprintf("seq=%d", q), func(s *serializedState) { s.SequenceNumber = q })
	}
	mod("master=empty", func(s *serializedState) { s.MasterSecret = nil })
	mod("master=short", func(s *serializedState) { s.MasterSecret = s.MasterSecret[:7] })
	mod("master=long", func(s *serializedState) { s.MasterSecret = append(bytes.Clone(s.MasterSecret), 1, 2, 3) })
	mod("master=flip", func(s *serializedState) { s.MasterSecret = bytes.Clone(s.MasterSecret); s.MasterSecret[9] ^= 4 })
	mod("local_random=flip", func(s *serializedState) { s.LocalRandom[17] ^= 1 })
	mod("remote_random=flip", func(s *serializedState) { s.RemoteRandom[2] ^= 0x80 })
	mod("randoms=swapped", func(s *serializedState) { s.LocalRandom, s.RemoteRandom = s.RemoteRandom, s.LocalRandom })
	mod("is_client=flip", func(s *serializedState) { s.IsClient = !s.IsClient })
	mod("is_client=flip+randoms=swapped", func(s *serializedState) {
		s.IsClient = !s.IsClient
		s.LocalRandom, s.RemoteRandom = s.RemoteRandom, s.LocalRandom
	})
	mod("rrc=flip", func(s *serializedState) { s.RRCNegotiated = !s.RRCNegotiated })
	mod("local_cid=nil", func(s *serializedState) { s.LocalConnectionID = nil })
	mod("local_cid=other", func(s *serializedState) { s.LocalConnectionID = []byte{1, 2, 3, 4, 5, 6, 7} })
	mod("local_cid=flip", func(s *serializedState) {
		if len(s.LocalConnectionID) > 0 {
			s.LocalConnectionID = bytes.Clone(s.LocalConnectionID)
			s.LocalConnectionID[0] ^= 1
		} else {
			s.LocalConnectionID = []byte{9}
		}
	})
	mod("remote_cid=nil", func(s *serializedState) { s.RemoteConnectionID = nil })
	mod("remote_cid=other", func(s *serializedState) { s.RemoteConnectionID = []byte{1, 2, 3} })
	mod("remote_cid=flip", func(s *serializedState) {
		if len(s.RemoteConnectionID) > 0 {
			s.RemoteConnectionID = bytes.Clone(s.RemoteConnectionID)
			s.RemoteConnectionID[0] ^= 1
		} else {
			s.RemoteConnectionID = []byte{9}
		}
	})
	mod("cids=huge", func(s *serializedState) {
		s.LocalConnectionID = bytes.Repeat([]byte{7}, 300)
		s.RemoteConnectionID = bytes.Repeat([]byte{8}, 300)
	})
	mod("profile=0+mki", func(s *serializedState) { s.SRTPProtectionProfile = 0; s.PeerSRTPMKI = []byte{1} })
	mod("profile=7", func(s *serializedState) { s.SRTPProtectionProfile = 7 })
	mod("profile=0xffff", func(s *serializedState) { s.SRTPProtectionProfile = 0xffff })
	mod("mki=other", func(s *serializedState) { s.PeerSRTPMKI = []byte{0xde, 0xad} })
	mod("alpn=other", func(s *serializedState) { s.NegotiatedProtocol = "evil/9" })
	mod("alpn=empty", func(s *serializedState) { s.NegotiatedProtocol = "" })
	mod("session_id=other", func(s *serializedState) { s.SessionID = []byte{1, 2, 3} })
	mod("hint=other", func(s *serializedState) { s.IdentityHint = []byte("someone-else") })
	mod("certs=none", func(s *serializedState) { s.PeerCertificates = nil })
	mod("certs=garbage", func(s *serializedState) { s.PeerCertificates = [][]byte{{0x30, 0x00}, {}} })

	return out, inputs
}

func TestVerifC19Corrupt(t *testing.T) {
	out := newVOut(t)
	rng := newVRand(vSeed() ^ 0xc19c)
	suites := c19Suites()
	c19RSA()
	vGetCreds()
	type baseSpec struct {
		v    c19Variant
		side string
	}
	specs := []baseSpec{
		{c19WithFeatures(suites[0], 0, false, false, false, false, 0), "client"},
		{c19WithFeatures(suites[7], 1, true, true, true, true, 1), "server"},
		{c19WithFeatures(suites[4], 2, true, false, true, false, 0), "client"},
	}
	nFlips := 260
	if vIsThorough() {
		specs = append(specs,
			baseSpec{c19WithFeatures(suites[5], 1, true, true, true, false, 1), "server"},
			baseSpec{c19WithFeatures(suites[11], 0, false, false, true, true, 0), "client"},
			baseSpec{c19WithFeatures(suites[13], 1, false, false, false, false, 0), "client"})
	}
	for _, sp := range specs {
		b := c19MakeBase(t, sp.v, sp.side)
		peerRaw, perr := b.peer.MarshalBinary()
		if perr != nil {
			t.Fatalf("peer MarshalBinary: %v", perr)
		}
		out.emit(map[string]any{"kind": "base", "base": b.v.Name, "side": b.side, "orig_hex": vHex(b.raw),
			"peer_hex": vHex(peerRaw)})
		type mutn struct {
			name  string
			data  []byte
			input *c19PState
		}
		var muts []mutn
		for l := 0; l < len(b.raw); l++ {
			muts = append(muts, mutn{fmt.Sprintf("trunc:%d", l), append([]byte(nil), b.raw[:l]...), nil})
		}
		muts = append(muts, mutn{"extend:1", append(append([]byte(nil), b.raw...), 0), nil})
		muts = append(muts, mutn{"extend:64", append(append([]byte(nil), b.raw...), rng.bytes(64)...), nil})
		flip := func(pos, bit int) {
			m := append([]byte(nil), b.raw...)
			m[pos] ^= 1 << bit
			muts = append(muts, mutn{fmt.Sprintf("flip:%d:%d", pos, bit), m, nil})
		}
		if vIsThorough() {
			for pos := 0; pos < len(b.raw); pos++ {
				for bit := 0; bit < 8; bit++ {
					flip(pos, bit)
				}
			}
		} else {
			for x := 0; x < nFlips; x++ {
				flip(rng.intn(len(b.raw)), rng.intn(8))
			}
		}
		nBytes := 120
		if vIsThorough() {
			nBytes = 1500
		}
		for x := 0; x < nBytes; x++ {
			m := append([]byte(nil), b.raw...)
			pos := rng.intn(len(m))
			var val byte
			switch rng.intn(4) {
			case 0:
				val = 0
			case 1:
				val = 0xff
			case 2:
				val = m[pos] + 1
			default:
				val = byte(rng.u64())
			}
			if val == m[pos] {
				val ^= 0x10
			}
			m[pos] = val
			muts = append(muts, mutn{fmt.Sprintf("byte:%d:%d", pos, val), m, nil})
		}
		// the byte that encodes the sequence number, set to each smaller value (numbers the exporting
		// connection has used): found by encoding the same state with the next number
		next := b.orig
		next.sequenceNumber++
		if rawNext, err := next.MarshalBinary(); err == nil && len(rawNext) == len(b.raw) {
			pos := -1
			for x := range b.raw {
				if b.raw[x] != rawNext[x] {
					if pos >= 0 {
						pos = -2

						break
					}
					pos = x
				}
			}
			if pos >= 0 && uint64(b.raw[pos]) == b.orig.sequenceNumber {
				for val := 0; val < int(b.raw[pos]); val++ {
					m := append([]byte(nil), b.raw...)
					m[pos] = byte(val)
					muts = append(muts, mutn{fmt.Sprintf("seqbyte:%d:%d", pos, val), m, nil})
				}
			}
		}
		st, stIn := c19Structured(b)
		names := make([]string, 0, len(st))
		for k := range st {
			names = append(names, k)
		}
		// deterministic order
		for i := 1; i < len(names); i++ {
			for j := i; j > 0 && names[j] < names[j-1]; j-- {
				names[j], names[j-1] = names[j-1], names[j]
			}
		}
		for _, k := range names {
			muts = append(muts, mutn{k, st[k], stIn[k]})
		}
		const perBubble = 40
		for lo := 0; lo < len(muts); lo += perBubble {
			hi := lo + perBubble
			if hi > len(muts) {
				hi = len(muts)
			}
			chunk := muts[lo:hi]
			var results []c19Corrupt
			vBubble(t, func(t *testing.T) {
				for _, m := range chunk {
					results = append(results, c19Trial(b, m.name, m.data, m.input))
				}
			})
			for _, r := range results {
				out.emit(r)
			}
		}
	}
}

// ---------------------------------------------------------------- suite table leg

type c19SuiteRow struct {
	Kind   string `json:"kind"`
	ID     int    `json:"id"`
	Known  bool   `json:"known"`   // ciphersuite.ForID(id, nil) != nil
	V13    bool   `json:"v13"`     // the suite is a DTLS 1.3 suite
	InitOK bool   `json:"init_ok"` // UnmarshalBinary of a state carrying this id succeeds
	Resume bool   `json:"resume"`  // generateInternalState succeeds
	Hash   int    `json:"hash"`    // output size of HashFunc() when known (32 / 48)
}

// TestVerifC19Suites dumps, for every 16-bit id, what state.go makes of it.
func TestVerifC19Suites(t *testing.T) {
	out := newVOut(t)
	base := serializedState{
		Version: protocol.Version1_2, LocalEpoch: 1, RemoteEpoch: 1, MasterSecret: bytes.Repeat([]byte{3}, 48),
		SequenceNumber: 5, IsClient: true,
	}
	for id := 0; id <= 0xffff; id++ {
		cs := ciphersuite.ForID(ciphersuite.ID(id), nil) //nolint:gosec
		row := c19SuiteRow{Kind: "suite", ID: id, Known: cs != nil}
		if cs == nil && id != 0 && id%257 != 0 {
			continue // unknown ids are sampled (every 257th) plus 0
		}
		if cs != nil {
			row.V13 = ciphersuite.IDSupportsVersion(ciphersuite.ID(id), protocol.Version1_3) //nolint:gosec
			row.Hash = cs.HashFunc()().Size()
		}
		s := base
		s.CipherSuiteID = uint16(id) //nolint:gosec
		var buf bytes.Buffer
		if err := gob.NewEncoder(&buf).Encode(s); err != nil {
			t.Fatal(err)
		}
		func() {
			defer func() {
				if r := recover(); r != nil {
					t.Fatalf("PANIC on suite id %d: %v", id, r)
				}
			}()
			st := &State{}
			row.InitOK = st.UnmarshalBinary(buf.Bytes()) == nil
			_, err := st.generateInternalState()
			row.Resume = err == nil
		}()
		out.emit(row)
	}
}

// ---------------------------------------------------------------- custom suite / mid-handshake legs

// c19CustomSuite is TLS_PSK_WITH_AES_128_GCM_SHA256 under a private id, configured through
// WithCustomCipherSuites on both sides (a fresh instance per connection).
type c19CustomSuite struct {
	ciphersuite.TLSPskWithAes128GcmSha256
}

func (c *c19CustomSuite) ID() CipherSuiteID { return 0xff19 }
func (c *c19CustomSuite) String() string    { return "VERIF_CUSTOM_PSK_AES128_GCM" }

type c19Extra struct {
	Kind       string `json:"kind"`
	Name       string `json:"name"`
	Side       string `json:"side"`
	Suite      int    `json:"suite"`
	ExportOK   bool   `json:"export_ok"`
	MarshalErr string `json:"marshal_err"`
	DecodeErr  string `json:"decode_err"`
	ResumeErr  string `json:"resume_err"` // resuming from the State object itself (no bytes involved)
	ResumeCfg  string `json:"resume_cfg_err"` // resumeWithConfig(State object, configuration that lists the custom suite)
	EKMErr     string `json:"ekm_err"`        // ExportKeyingMaterial on the live connection's State
	Panic      string `json:"panic"`
	At         string `json:"at"`
	LocalEpoch int    `json:"local_epoch"`
	LocalSeqs  int    `json:"local_seq_len"`
}

// TestVerifC19Custom: a connection negotiated on a suite that only the configuration's custom
// list knows - state.go looks suites up with ForID(id, nil).
func TestVerifC19Custom(t *testing.T) {
	out := newVOut(t)
	for _, side := range []string{"client", "server"} {
		side := side
		res := c19Extra{Kind: "custom", Name: "custom-psk-gcm", Side: side}
		vBubble(t, func(t *testing.T) {
			mk := func() *dtlsConfig {
				c := vBaseConfig()
				c.psk = func([]byte) ([]byte, error) { return []byte{0xAB, 0xC1, 0x23}, nil }
				c.PSKIdentityHint = []byte("verif")
				c.customCipherSuites = func() []CipherSuite { return []CipherSuite{&c19CustomSuite{}} }
				c.CipherSuites = []CipherSuiteID{}

				return c
			}
			ccfg, scfg := mk(), mk()
			lab := c19Establish(t, ccfg, scfg)
			self, peer := lab.peer(side), lab.other(side)
			func() {
				defer func() {
					if r := recover(); r != nil {
						res.Panic = fmt.Sprint(r)
					}
				}()
				st, ok := self.Conn.ConnectionState()
				res.ExportOK = ok
				if !ok {
					return
				}
				res.Suite = int(st.CipherSuiteID)
				raw, err := st.MarshalBinary()
				res.MarshalErr = vErrString(err)
				dec := &State{}
				res.DecodeErr = vErrString(dec.UnmarshalBinary(raw))
				_, err = st.generateInternalState()
				res.ResumeErr = vErrString(err)
				_, err = st.ExportKeyingMaterial("EXTRACTOR-dtls_srtp", nil, 60)
				res.EKMErr = vErrString(err)
				selfCfg := ccfg
				if side == "server" {
					selfCfg = scfg
				}
				_ = self.EP.Close()
				synctest.Wait()
				newEP := lab.Net.endpoint(self.Name)
				rc, err := resumeWithConfig(&st, newEP, vAddr(peer.Name), selfCfg)
				res.ResumeCfg = vErrString(err)
				if err == nil {
					c19Quiet(&vPeer{Name: self.Name, EP: newEP, Conn: rc, Done: make(chan struct{})})
				} else {
					_ = newEP.Close()
				}
			}()
			c19Quiet(self)
			c19Quiet(peer)
		})
		out.emit(res)
	}
}

// c19ProbeLogger calls ConnectionState() from every trace line of the handshake, i.e. at every
// point where the state machine is between two steps (a deterministic stand-in for a concurrent
// caller of the public API), and records what it returned next to the internal state.
type c19ProbeLogger struct {
	conn   func() *Conn
	mu     sync.Mutex
	probes []c19Probe
}

type c19Probe struct {
	Kind    string     `json:"kind"`
	Variant string     `json:"variant"`
	Side    string     `json:"side"`
	At      string     `json:"at"`
	State   c19IState  `json:"state"`   // internal state at the probe
	Outcome int        `json:"outcome"` // 0 = a State was returned, 1 = not available, 2 = panic
	Got     *c19PState `json:"got,omitempty"`
	Panic   string     `json:"panic,omitempty"`
	Done    bool       `json:"established"` // (summary line) both handshakes completed
	Probes  int        `json:"probes"`      // (summary line) probes taken
}

func (l *c19ProbeLogger) probe(at string) {
	c := l.conn()
	if c == nil {
		return
	}
	// some trace lines are emitted with the connection lock held; a caller on another goroutine
	// would simply wait there, so those points are skipped
	if !c.lock.TryRLock() {
		return
	}
	c.lock.RUnlock()
	pr := c19Probe{Kind: "midhandshake", At: at, State: c19Internal(c)}
	func() {
		defer func() {
			if r := recover(); r != nil {
				pr.Outcome, pr.Panic = 2, fmt.Sprint(r)
			}
		}()
		st, ok := c.ConnectionState()
		if ok {
			got := c19Public(&st)
			pr.Got = &got
		} else {
			pr.Outcome = 1
		}
	}()
	// (another goroutine of the connection may have moved on in between: keep stable probes only)
	if fmt.Sprint(c19Internal(c)) != fmt.Sprint(pr.State) {
		return
	}
	l.mu.Lock()
	l.probes = append(l.probes, pr)
	l.mu.Unlock()
}

func (l *c19ProbeLogger) Trace(msg string)                  { l.probe(msg) }
func (l *c19ProbeLogger) Tracef(f string, a ...interface{}) { l.probe(fmt.Sprintf(f, a...)) }
func (l *c19ProbeLogger) Debug(string)                      {}
func (l *c19ProbeLogger) Debugf(string, ...interface{})     {}
func (l *c19ProbeLogger) Info(string)                       {}
func (l *c19ProbeLogger) Infof(string, ...interface{})      {}
func (l *c19ProbeLogger) Warn(string)                       {}
func (l *c19ProbeLogger) Warnf(string, ...interface{})      {}
func (l *c19ProbeLogger) Error(string)                      {}
func (l *c19ProbeLogger) Errorf(string, ...interface{})     {}

type c19ProbeFactory struct{ l *c19ProbeLogger }

func (f *c19ProbeFactory) NewLogger(string) logging.LeveledLogger { return f.l }

// TestVerifC19MidHandshake: ConnectionState() while the handshake is still running - in
// particular between fsm12.prepare's SetLocalEpoch(1) and the first record of that epoch, where
// LocalSequenceNumber[LocalEpoch] does not exist yet. It must return a State or "not available",
// never panic; what it returns is compared with the model's generateState.
func TestVerifC19MidHandshake(t *testing.T) {
	out := newVOut(t)
	suites := c19Suites()
	c19RSA()
	vGetCreds()
	variants := []c19Variant{
		c19WithFeatures(suites[0], 0, false, false, false, false, 0),
		c19WithFeatures(suites[7], 1, true, true, true, true, 1),
		c19WithFeatures(suites[5], 0, false, false, true, false, 2), // abbreviated: the client owns the final flight
		c19WithFeatures(suites[15], 2, true, false, false, false, 0),
	}
	if vIsThorough() {
		variants = nil
		for _, sv := range suites {
			variants = append(variants, c19WithFeatures(sv, 0, false, false, false, false, 0),
				c19WithFeatures(sv, 1, true, true, true, true, 1), c19WithFeatures(sv, 0, false, false, true, false, 2))
		}
	}
	for _, v := range variants {
		for _, side := range []string{"client", "server"} {
			v, side := v, side
			var found []c19Probe
			established := false
			vBubble(t, func(t *testing.T) {
				stores := [2]*c19Store{{m: map[string]Session{}}, {m: map[string]Session{}}}
				if v.Sess == 2 {
					c0, s0 := c19Configs(v, stores)
					l0 := c19Establish(t, c0, s0)
					c19Quiet(l0.Client)
					c19Quiet(l0.Server)
				}
				ccfg, scfg := c19Configs(v, stores)
				var lab *vLab
				pl := &c19ProbeLogger{}
				pl.conn = func() *Conn {
					if lab == nil {
						return nil
					}

					return lab.peer(side).Conn
				}
				if side == "client" {
					ccfg.LoggerFactory = &c19ProbeFactory{pl}
				} else {
					scfg.LoggerFactory = &c19ProbeFactory{pl}
				}
				n := newVNet()
				l := &vLab{Net: n}
				cep, sep := n.endpoint("client"), n.endpoint("server")
				cc, err := clientWithConfig(cep, vAddr("server"), ccfg)
				if err != nil {
					t.Fatal(err)
				}
				sc, err := serverWithConfig(sep, vAddr("client"), scfg)
				if err != nil {
					t.Fatal(err)
				}
				l.Client = &vPeer{Name: "client", EP: cep, Conn: cc, Done: make(chan struct{})}
				l.Server = &vPeer{Name: "server", EP: sep, Conn: sc, Done: make(chan struct{})}
				l.Pump = &vPump{net: n}
				lab = l
				for _, p := range []*vPeer{lab.Client, lab.Server} {
					go func(p *vPeer) {
						p.Err = p.Conn.HandshakeContext(context.Background())
						close(p.Done)
					}(p)
				}
				lab.Pump.run(lab.bothDone, 10*time.Second)
				established = lab.established()
				pl.mu.Lock()
				found = append(found, pl.probes...)
				pl.mu.Unlock()
				c19Quiet(lab.Client)
				c19Quiet(lab.Server)
			})
			out.emit(c19Probe{Kind: "midsummary", Variant: v.Name, Side: side, Done: established, Probes: len(found)})
			for _, f := range found {
				f.Side, f.Variant = side, v.Name
				out.emit(f)
			}
		}
	}
}

// ---------------------------------------------------------------- export at VerifyConnection time

type c19VC struct {
	Kind       string     `json:"kind"`
	Variant    c19Variant `json:"variant"`
	Side       string     `json:"side"`
	Called     int        `json:"called"` // how often the callback ran
	Captured   *c19PState `json:"captured,omitempty"`
	MarshalErr string     `json:"marshal_err"`
	DecodeErr  string     `json:"decode_err"`
	ResumeErr  string     `json:"resume_err"`     // resumeWithConfig from the decoded copy
	ResumeObj  string     `json:"resume_obj_err"` // resumeWithConfig from the captured State itself
	StartErr   string     `json:"start_err"`
	Wire       []c19Wire  `json:"wire"` // records a (wrongly) resumed connection put on the wire
	Panic      string     `json:"panic"`
	Hex        string     `json:"hex,omitempty"`
}

// TestVerifC19VerifyConn: the *State handed to a VerifyConnection callback is captured before the
// handshake switched to its keys (local epoch 0). It serialises and decodes, but it must not
// resume: a connection resumed from it would count as established and write in epoch 0.
func TestVerifC19VerifyConn(t *testing.T) {
	out := newVOut(t)
	suites := c19Suites()
	c19RSA()
	vGetCreds()
	variants := []c19Variant{
		c19WithFeatures(suites[0], 0, false, false, false, false, 0),
		c19WithFeatures(suites[4], 2, true, false, true, false, 0),
		c19WithFeatures(suites[7], 1, true, true, true, true, 1),
		c19WithFeatures(suites[11], 0, false, false, false, true, 0),
		c19WithFeatures(suites[13], 1, true, true, true, false, 1),
		c19WithFeatures(suites[5], 0, false, false, true, false, 2),
	}
	if vIsThorough() {
		variants = nil
		for _, sv := range suites {
			variants = append(variants, c19WithFeatures(sv, 0, false, false, false, false, 0),
				c19WithFeatures(sv, 1, true, true, true, true, 1))
		}
	}
	for _, v := range variants {
		for _, side := range []string{"client", "server"} {
			v, side := v, side
			res := c19VC{Kind: "verifyconn", Variant: v, Side: side, Wire: []c19Wire{}}
			vBubble(t, func(t *testing.T) {
				stores := [2]*c19Store{{m: map[string]Session{}}, {m: map[string]Session{}}}
				if v.Sess == 2 {
					c0, s0 := c19Configs(v, stores)
					l0 := c19Establish(t, c0, s0)
					c19Quiet(l0.Client)
					c19Quiet(l0.Server)
				}
				ccfg, scfg := c19Configs(v, stores)
				selfCfg := ccfg
				if side == "server" {
					selfCfg = scfg
				}
				var captured *State
				selfCfg.verifyConnection = func(s *State) error {
					res.Called++
					cp := *s
					captured = &cp

					return nil
				}
				lab := c19Establish(t, ccfg, scfg)
				self, peer := lab.peer(side), lab.other(side)
				peerCIDLen := len(dtlsstate.CommonState(peer.Conn.state).LocalConnectionID())
				defer func() {
					c19Quiet(self)
					c19Quiet(peer)
				}()
				if captured == nil {
					return
				}
				cp := c19Public(captured)
				res.Captured = &cp
				func() {
					defer func() {
						if r := recover(); r != nil {
							res.Panic = fmt.Sprint(r)
						}
					}()
					raw, err := captured.MarshalBinary()
					res.MarshalErr = vErrString(err)
					if err != nil {
						return
					}
					res.Hex = vHex(raw)
					dec := &State{}
					err = dec.UnmarshalBinary(raw)
					res.DecodeErr = vErrString(err)
					_, errObj := captured.generateInternalState()
					res.ResumeObj = vErrString(errObj)
					if err != nil {
						return
					}
					_ = self.EP.Close()
					synctest.Wait()
					newEP := lab.Net.endpoint(self.Name)
					mark := lab.Net.count()
					resumed, err := resumeWithConfig(dec, newEP, vAddr(peer.Name), selfCfg)
					res.ResumeErr = vErrString(err)
					if err != nil {
						_ = newEP.Close()

						return
					}
					// not refused: show what such a connection does
					rp := &vPeer{Name: self.Name, EP: newEP, Conn: resumed, Done: make(chan struct{})}
					res.StartErr = vErrString(c19Start(rp))
					c19Write(resumed, []byte("from-a-pre-key-state"))
					synctest.Wait()
					res.Wire = c19WireOf(lab.Net.since(mark), self.Name, peerCIDLen)
					c19Quiet(rp)
				}()
			})
			out.emit(res)
		}
	}
}

// ---------------------------------------------------------------- export near the sequence number limit

type c19Limit struct {
	Kind       string    `json:"kind"`
	Variant    string    `json:"variant"`
	Side       string    `json:"side"`
	A          int       `json:"a"` // the counter is moved to 2^48 - a
	I          int       `json:"i"` // writes attempted before the export
	K          int       `json:"k"` // writes attempted by the resumed connection
	St0        []uint64  `json:"st0"`
	Before     c19IState `json:"before"`
	Peer       c19IState `json:"peer"`
	Pre        []c19Wire `json:"pre"`
	Post       []c19Wire `json:"post"`
	PreErrs    []string  `json:"pre_errs"`
	PostErrs   []string  `json:"post_errs"`
	ExportOK   bool      `json:"export_ok"`
	MarshalErr string    `json:"marshal_err"`
	DecodeErr  string    `json:"decode_err"`
	ResumeErr  string    `json:"resume_err"`
	StartErr   string    `json:"start_err"`
	Resumed    bool      `json:"resumed"`
	PeerGot    []string  `json:"peer_got"` // payloads the peer read after the counter was moved
	P2XSent    bool      `json:"p2x_sent"`
	P2X        bool      `json:"p2x"`
}

// TestVerifC19Limit: a connection whose record counter is close to 2^48 (moved there by the test:
// reaching it takes 2^48 writes) is written to, exported and resumed. Writes beyond 2^48 - 1 fail and
// still advance the counter; a counter above 2^48 is not resumable; no record number is used twice.
func TestVerifC19Limit(t *testing.T) {
	out := newVOut(t)
	suites := c19Suites()
	vGetCreds()
	variants := []c19Variant{
		c19WithFeatures(suites[0], 0, false, false, false, false, 0),
		c19WithFeatures(suites[5], 0, false, false, false, false, 0),
		c19WithFeatures(suites[11], 1, false, false, false, false, 0),
	}
	if vIsThorough() {
		variants = nil
		for _, sv := range suites {
			if sv.Kind != "rsa" {
				variants = append(variants, c19WithFeatures(sv, 0, false, false, false, false, 0),
					c19WithFeatures(sv, 1, false, false, false, false, 0))
			}
		}
	}
	for _, v := range variants {
		for _, side := range []string{"client", "server"} {
			for a := 0; a <= 4; a++ {
				for i := 0; i <= 3; i++ {
					v, side, a, i := v, side, a, i
					res := c19Limit{Kind: "limit", Variant: v.Name, Side: side, A: a, I: i, K: 3,
						Pre: []c19Wire{}, Post: []c19Wire{}, PreErrs: []string{}, PostErrs: []string{}, PeerGot: []string{}}
					vBubble(t, func(t *testing.T) { c19RunLimit(t, v, side, &res) })
					out.emit(res)
				}
			}
		}
	}
}

func c19RunLimit(t *testing.T, v c19Variant, side string, res *c19Limit) {
	t.Helper()
	stores := [2]*c19Store{{m: map[string]Session{}}, {m: map[string]Session{}}}
	ccfg, scfg := c19Configs(v, stores)
	lab := c19Establish(t, ccfg, scfg)
	self, peer := lab.peer(side), lab.other(side)
	selfCfg := ccfg
	if side == "server" {
		selfCfg = scfg
	}
	self.startReader()
	peer.startReader()
	synctest.Wait()
	common := dtlsstate.CommonState(self.Conn.state)
	epoch := common.LocalEpoch()
	atomic.StoreUint64(&common.LocalSequenceNumber[epoch], 1<<48-uint64(res.A)) //nolint:gosec
	res.St0 = c19Internal(self.Conn).LocalSeq
	peerCIDLen := len(dtlsstate.CommonState(peer.Conn.state).LocalConnectionID())
	mark := lab.Net.count()
	for x := 0; x < res.I; x++ {
		res.PreErrs = append(res.PreErrs, c19Write(self.Conn, []byte(fmt.Sprintf("pre-%d", x))))
		lab.Pump.step()
	}
	res.Pre = append(res.Pre, c19WireOf(lab.Net.since(mark), self.Name, peerCIDLen)...)
	res.Before = c19Internal(self.Conn)
	res.Peer = c19Internal(peer.Conn)
	exportIdx := lab.Net.count()
	teardown := func(rp *vPeer) {
		res.PeerGot = append(res.PeerGot, c19Strs(peer.reads())...)
		if rp != nil {
			c19Quiet(rp)
		}
		c19Quiet(self)
		c19Quiet(peer)
	}
	st, ok := self.Conn.ConnectionState()
	res.ExportOK = ok
	if !ok {
		teardown(nil)

		return
	}
	raw, err := st.MarshalBinary()
	res.MarshalErr = vErrString(err)
	dec := &State{}
	err = dec.UnmarshalBinary(raw)
	res.DecodeErr = vErrString(err)
	if err != nil {
		teardown(nil)

		return
	}
	_ = self.EP.Close()
	synctest.Wait()
	newEP := lab.Net.endpoint(self.Name)
	resumed, err := resumeWithConfig(dec, newEP, vAddr(peer.Name), selfCfg)
	res.ResumeErr = vErrString(err)
	if err != nil {
		_ = newEP.Close()
		teardown(nil)

		return
	}
	rp := &vPeer{Name: self.Name, EP: newEP, Conn: resumed, Done: make(chan struct{})}
	res.StartErr = vErrString(c19Start(rp))
	if res.StartErr != "ok" {
		teardown(rp)

		return
	}
	res.Resumed = true
	rp.startReader()
	synctest.Wait()
	lab.Pump.next = exportIdx
	for x := 0; x < res.K; x++ {
		res.PostErrs = append(res.PostErrs, c19Write(resumed, []byte(fmt.Sprintf("post-%d", x))))
		lab.Pump.step()
	}
	res.P2XSent = c19Write(peer.Conn, []byte("p2x")) == "ok"
	lab.Pump.step()
	for _, r := range rp.reads() {
		if string(r) == "p2x" {
			res.P2X = true
		}
	}
	res.Post = append(res.Post, c19WireOf(lab.Net.since(exportIdx), self.Name, peerCIDLen)...)
	teardown(rp)
}

// ---------------------------------------------------------------- the final flight is lost, its owner is exported

type c19Final struct {
	Kind      string `json:"kind"`
	Variant   string `json:"variant"`
	Owner     string `json:"owner"`  // the side that owns the final flight (and is exported)
	Export    bool   `json:"export"` // false: control run, the original connection stays
	Dropped   int    `json:"dropped"`
	OwnerDone bool   `json:"owner_done"` // the owner's handshake completed (it had sent the flight)
	ResumeErr string `json:"resume_err"`
	StartErr  string `json:"start_err"`
	PeerDone  bool   `json:"peer_done"` // the untouched peer's handshake completed within the time given
	PeerErr   string `json:"peer_err"`
	O2P       bool   `json:"o2p"` // a record of the owner reached the peer
	P2O       bool   `json:"p2o"`
	// records the owner side put on the wire after the drop (epoch, seq, content type)
	OwnerWire []c19Wire `json:"owner_wire"`
	PeerRetx  int       `json:"peer_retransmissions"` // datagrams of the peer after the drop
}

// TestVerifC19FinalFlight: the side that sends the last flight of the handshake (the server; the
// client after an abbreviated handshake) is established as soon as it has sent it. That datagram
// is lost; the peer retransmits its own flight and needs the final flight again. The control run
// keeps the original connection, the other run exports and resumes the owner in between.
func TestVerifC19FinalFlight(t *testing.T) {
	out := newVOut(t)
	suites := c19Suites()
	vGetCreds()
	type spec struct {
		v     c19Variant
		owner string
	}
	specs := []spec{
		{c19WithFeatures(suites[0], 0, false, false, false, false, 0), "server"},
		{c19WithFeatures(suites[7], 1, true, false, true, false, 0), "server"},
		{c19WithFeatures(suites[5], 0, false, false, false, false, 2), "client"},
	}
	for _, sp := range specs {
		for _, export := range []bool{false, true} {
			sp, export := sp, export
			res := c19Final{Kind: "finalflight", Variant: sp.v.Name, Owner: sp.owner, Export: export, OwnerWire: []c19Wire{}}
			vBubble(t, func(t *testing.T) { c19RunFinal(t, sp.v, sp.owner, export, &res) })
			out.emit(res)
		}
	}
}

func c19RunFinal(t *testing.T, v c19Variant, ownerName string, export bool, res *c19Final) {
	t.Helper()
	stores := [2]*c19Store{{m: map[string]Session{}}, {m: map[string]Session{}}}
	if v.Sess == 2 {
		c0, s0 := c19Configs(v, stores)
		l0 := c19Establish(t, c0, s0)
		c19Quiet(l0.Client)
		c19Quiet(l0.Server)
	}
	ccfg, scfg := c19Configs(v, stores)
	lab := newLab(t, ccfg, scfg)
	owner, peer := lab.peer(ownerName), lab.other(ownerName)
	ownerCfg := ccfg
	if ownerName == "server" {
		ownerCfg = scfg
	}
	dropIdx := -1
	// lose the owner's first datagram that starts with ChangeCipherSpec: the final flight
	lab.Pump.Policy = func(d vDatagram) (vAction, int) {
		if d.From == ownerName && dropIdx < 0 && len(d.Data) > 0 && d.Data[0] == byte(protocol.ContentTypeChangeCipherSpec) {
			dropIdx = d.Idx
			res.Dropped++

			return vDrop, 0
		}

		return vPass, 0
	}
	lab.Pump.run(func() bool { return owner.handshakeDone() && dropIdx >= 0 }, 20*time.Second)
	res.OwnerDone = owner.handshakeDone() && owner.Err == nil
	active := owner
	if res.OwnerDone && export {
		st, ok := owner.Conn.ConnectionState()
		if !ok {
			t.Fatalf("ConnectionState not available on the established owner")
		}
		raw, err := st.MarshalBinary()
		if err != nil {
			t.Fatalf("MarshalBinary: %v", err)
		}
		dec := &State{}
		if err = dec.UnmarshalBinary(raw); err != nil {
			t.Fatalf("UnmarshalBinary: %v", err)
		}
		_ = owner.EP.Close()
		synctest.Wait()
		newEP := lab.Net.endpoint(ownerName)
		resumed, err := resumeWithConfig(dec, newEP, vAddr(peer.Name), ownerCfg)
		res.ResumeErr = vErrString(err)
		if err == nil {
			active = &vPeer{Name: ownerName, EP: newEP, Conn: resumed, Done: make(chan struct{})}
			res.StartErr = vErrString(c19Start(active))
		} else {
			_ = newEP.Close()
		}
	}
	if res.OwnerDone {
		active.startReader()
		// the peer retransmits on its timer (1 s, doubling): give it several rounds
		lab.Pump.run(peer.handshakeDone, 40*time.Second)
		res.PeerDone = peer.handshakeDone() && peer.Err == nil
		if peer.handshakeDone() {
			res.PeerErr = vErrString(peer.Err)
		} else {
			res.PeerErr = "handshake still waiting for the final flight"
		}
		if res.PeerDone {
			peer.startReader()
			c19Write(active.Conn, []byte("o2p"))
			lab.Pump.step()
			c19Write(peer.Conn, []byte("p2o"))
			lab.Pump.step()
			for _, r := range peer.reads() {
				if string(r) == "o2p" {
					res.O2P = true
				}
			}
			for _, r := range active.reads() {
				if string(r) == "p2o" {
					res.P2O = true
				}
			}
		}
		if dropIdx >= 0 {
			after := lab.Net.since(dropIdx + 1)
			res.OwnerWire = append(res.OwnerWire, c19WireOf(after, ownerName, len(dtlsstate.CommonState(peer.Conn.state).LocalConnectionID()))...)
			for _, d := range after {
				if d.From == peer.Name {
					res.PeerRetx++
				}
			}
		}
	}
	if active != owner {
		c19Quiet(active)
	}
	c19Quiet(owner)
	c19Quiet(peer)
}
