//go:build verif

// C20 - leg "pend": a KeyUpdate is requested while ANOTHER reliable post-handshake flight of the same
// endpoint (the DTLS 1.3 server's NewSessionTicket) is still unacknowledged. The ticket (or the
// client's ACK of it) is lost K = 1..4 times; right after the K-th loss (before the ticket's next
// retransmission timer) the server calls UpdateKeys (+/- RequestPeerUpdate), or the client requests the
// server's update, or the server calls UpdateKeys twice back to back. Every emitted record is opened
// with the sender's write generations; the ordered event log goes to the driver, which evaluates C20's
// own predicates on it (emission epoch per endpoint never decreases, UpdateKeys success => the peer
// has processed the update, exactly-once delivery).
package dtls

import (
	"context"
	"fmt"
	"testing"
	"testing/synctest"
	"time"

	dtlsstate "github.com/pion/dtls/v3/internal/state"
)

type c20PendEv struct {
	Ev     string `json:"ev"` // emit | drop | deliver | uk | ukdone | ukerr | w | werr | read | t
	Side   string `json:"side"`
	Rec    int    `json:"rec"`
	ID     int    `json:"id"`
	Req    bool   `json:"req"`
	After  int    `json:"after"` // w: written right after UpdateKeys call `after` returned nil (-1: not)
	Err    string `json:"err"`
	T      int64  `json:"t_ms"`
	Epochs [4]int `json:"epochs"` // client write, client read, server write, server read
}

type c20PendCase struct {
	Kind    string      `json:"kind"`
	Case    int         `json:"case"`
	Lose    string      `json:"lose"` // nst | ack
	K       int         `json:"k"`
	Trigger string      `json:"trigger"` // server | client-req | double
	Req     bool        `json:"req"`
	Early   bool        `json:"early_write"` // the updating side also writes before UpdateKeys returns
	Suite   string      `json:"suite"`
	Recs    []c20Rec    `json:"recs"`
	Evs     []c20PendEv `json:"evs"`
	Dropped int         `json:"dropped"`
	Pending int         `json:"pending_calls"`
	Written [2][]int    `json:"written"`
	Note    string      `json:"note"`
}

type c20Pend struct {
	t       *testing.T
	lab     *vLab
	cs      *c20PendCase
	next    int
	nread   [2]int
	calls   []*c20Call
	wcalls  []*c20Call
	nstSeqs map[[2]uint64]bool
	start   time.Time
	nextPay int
	live    bool // established: epochs can be read, UpdateKeys completions trigger an immediate write
}

func (s *c20Pend) epochs() [4]int {
	a, ok1 := s.lab.Client.Conn.state.(*dtlsstate.State13)
	b, ok2 := s.lab.Server.Conn.state.(*dtlsstate.State13)
	if !s.live || !ok1 || !ok2 {
		return [4]int{}
	}

	return [4]int{int(a.LocalEpoch()), int(a.RemoteEpoch()), int(b.LocalEpoch()), int(b.RemoteEpoch())}
}

func (s *c20Pend) ev(e c20PendEv) {
	e.T = time.Since(s.start).Milliseconds()
	e.Epochs = s.epochs()
	s.cs.Evs = append(s.cs.Evs, e)
}

func (s *c20Pend) open(d vDatagram) c20Rec {
	r := c20Rec{Dg: d.Idx, Msg: -1, Kind: "handshake"}
	if _, ok := s.lab.peer(d.From).Conn.state.(*dtlsstate.State13); ok {
		r, _ = c20Open(s.lab.peer(d.From).Conn, d.Data)
	}
	r.From = d.From
	r.Dg = d.Idx

	return r
}

func (s *c20Pend) shouldDrop(r c20Rec) bool {
	if s.cs.Dropped >= s.cs.K {
		return false
	}
	switch s.cs.Lose {
	case "nst":
		return r.From == "server" && r.Kind == "nst"
	case "ack":
		if r.From != "client" || r.Kind != "ack" {
			return false
		}
		for _, a := range r.Acks {
			if s.nstSeqs[a] {
				return true
			}
		}
	}

	return false
}

func (s *c20Pend) write(side string, after int) {
	n := s.nextPay
	s.nextPay++
	c := &c20Call{side: side, id: n, done: make(chan error, 1)}
	s.wcalls = append(s.wcalls, c)
	conn := s.lab.peer(side).Conn
	i := c20SideIdx(side)
	s.cs.Written[i] = append(s.cs.Written[i], n)
	go func() {
		_, err := conn.Write(c20Payload(n))
		c.done <- err
	}()
	synctest.Wait()
	s.ev(c20PendEv{Ev: "w", Side: side, Rec: -1, ID: n, After: after})
}

func (s *c20Pend) update(side string, req bool) {
	c := &c20Call{side: side, id: len(s.calls), done: make(chan error, 1)}
	s.calls = append(s.calls, c)
	conn := s.lab.peer(side).Conn
	go func() { c.done <- conn.UpdateKeys(context.Background(), KeyUpdateOptions{RequestPeerUpdate: req}) }()
	synctest.Wait()
	s.ev(c20PendEv{Ev: "uk", Side: side, Rec: -1, ID: c.id, Req: req, After: -1})
}

// observe: reads, returned calls. An UpdateKeys call that returned nil is followed at once by a write.
func (s *c20Pend) observe() {
	for i, name := range c20Sides {
		reads := s.lab.peer(name).reads()
		for ; s.nread[i] < len(reads); s.nread[i]++ {
			s.ev(c20PendEv{Ev: "read", Side: name, Rec: -1, ID: c20PayloadNum(reads[s.nread[i]]), After: -1})
		}
	}
	for _, c := range s.wcalls {
		if c.seen {
			continue
		}
		select {
		case err := <-c.done:
			c.seen = true
			if err != nil {
				s.ev(c20PendEv{Ev: "werr", Side: c.side, Rec: -1, ID: c.id, After: -1, Err: err.Error()})
			}
		default:
		}
	}
	for _, c := range s.calls {
		if c.seen {
			continue
		}
		select {
		case err := <-c.done:
			c.seen = true
			if err != nil {
				s.ev(c20PendEv{Ev: "ukerr", Side: c.side, Rec: -1, ID: c.id, After: -1, Err: err.Error()})

				continue
			}
			s.ev(c20PendEv{Ev: "ukdone", Side: c.side, Rec: -1, ID: c.id, After: -1})
			s.write(c.side, c.id)
		default:
		}
	}
}

// drain hands every emitted datagram to its destination, one at a time, without letting time pass.
func (s *c20Pend) drain() {
	for {
		synctest.Wait()
		s.observe()
		news := s.lab.Net.since(s.next)
		if len(news) == 0 {
			return
		}
		for _, d := range news {
			s.next = d.Idx + 1
			r := s.open(d)
			s.cs.Recs = append(s.cs.Recs, r)
			idx := len(s.cs.Recs) - 1
			if r.From == "server" && r.Kind == "nst" {
				s.nstSeqs[[2]uint64{uint64(r.Epoch), r.Seq}] = true
			}
			s.ev(c20PendEv{Ev: "emit", Side: r.From, Rec: idx, ID: -1, After: -1})
			if s.shouldDrop(r) {
				s.cs.Dropped++
				s.ev(c20PendEv{Ev: "drop", Side: r.From, Rec: idx, ID: -1, After: -1})

				continue
			}
			s.lab.Net.deliver(d.To, d.From, d.Data)
			synctest.Wait()
			s.ev(c20PendEv{Ev: "deliver", Side: d.To, Rec: idx, ID: -1, After: -1})
			s.observe()
		}
	}
}

// runUntil drains; when nothing is in flight virtual time advances to the next emission.
func (s *c20Pend) runUntil(done func() bool, limit time.Duration) bool {
	deadline := time.Now().Add(limit)
	for {
		s.drain()
		if done() {
			return true
		}
		if !time.Now().Before(deadline) {
			return false
		}
		tm := time.NewTimer(time.Until(deadline))
		select {
		case <-s.lab.Net.notify:
		case <-tm.C:
		}
		tm.Stop()
		synctest.Wait()
		if s.lab.Net.count() > s.next || !time.Now().Before(deadline) {
			s.ev(c20PendEv{Ev: "t", Rec: -1, ID: -1, After: -1})
		}
	}
}

func (s *c20Pend) pending() int {
	n := 0
	for _, c := range s.calls {
		if !c.seen {
			n++
		}
	}

	return n
}

func c20PendRun(t *testing.T, out *vOut, cs *c20PendCase, suite CipherSuiteID, rng *vRand) {
	ccfg, scfg := c20Configs(suite, 0)
	lab := newLab(t, ccfg, scfg)
	s := &c20Pend{t: t, lab: lab, cs: cs, nstSeqs: map[[2]uint64]bool{}, start: time.Now(), nextPay: 1}
	if !s.runUntil(lab.bothDone, 200*time.Second) || !lab.established() {
		t.Fatalf("DTLS 1.3 handshake failed: client=%v server=%v", lab.Client.Err, lab.Server.Err)
	}
	s.live = true
	lab.Client.startReader()
	lab.Server.startReader()
	synctest.Wait()
	// the ticket (or its ACK) is lost K times; the K-th loss has just happened when this returns
	if !s.runUntil(func() bool { return cs.Dropped >= cs.K }, 120*time.Second) {
		cs.Note = fmt.Sprintf("only %d of %d losses happened", cs.Dropped, cs.K)
	}
	if cs.Dropped == 0 {
		t.Fatalf("harness: no NewSessionTicket flight to lose (lose=%s)", cs.Lose)
	}
	switch cs.Trigger {
	case "server":
		s.update("server", cs.Req)
	case "client-req":
		s.update("client", true)
	case "double":
		s.update("server", cs.Req)
		s.update("server", false)
	}
	if cs.Early {
		s.write("server", -1)
		if rng.chance(50) {
			s.write("client", -1)
		}
	}
	s.runUntil(func() bool { return s.pending() == 0 }, 200*time.Second)
	// traffic under whatever generations are current now, then
	s.write("server", -1)
	s.write("client", -1)
	s.drain()
	// the ticket's remaining retransmissions and whatever else is scheduled
	s.runUntil(func() bool { return false }, 40*time.Second)
	for k := 0; k < 2; k++ {
		s.write("server", -1)
		s.write("client", -1)
	}
	s.runUntil(func() bool { return false }, 5*time.Second)
	cs.Pending = s.pending()
	out.emit(cs)
	lab.close()
}

func TestVerifC20Pend(t *testing.T) {
	out := newVOut(t)
	n := 48
	if vIsThorough() {
		n = 480
	}
	for i := 0; i < n; i++ {
		i := i
		vBubble(t, func(t *testing.T) {
			rng := newVRand(vSeed()*7000003 + uint64(i))
			suite, sname := c20Suite(i / 48)
			if i >= 48 {
				suite, sname = c20Suite(rng.intn(3))
			}
			cs := &c20PendCase{
				Kind: "pend", Case: i, Suite: sname,
				Lose:    []string{"nst", "ack"}[i%2],
				K:       1 + (i/2)%4,
				Trigger: []string{"server", "client-req", "double"}[(i/8)%3],
				Req:     (i/24)%2 == 1,
				Early:   i >= 48 && rng.chance(50),
				Recs:    []c20Rec{}, Evs: []c20PendEv{},
			}
			cs.Written = [2][]int{{}, {}}
			c20PendRun(t, out, cs, suite, rng)
		})
	}
}
