//go:build verif

package dtls

import (
	"context"
	"fmt"
	"testing"
	"testing/synctest"
	"time"

	"github.com/pion/dtls/v3/pkg/protocol"
)

func TestVerifC20Probe(t *testing.T) {
	vBubble(t, func(t *testing.T) {
		ccfg, scfg := vCertPair()
		for _, c := range []*dtlsConfig{ccfg, scfg} {
			c.MinVersion = protocol.Version1_3
			c.MaxVersion = protocol.Version1_3
		}
		lab := newLab(t, ccfg, scfg)
		lab.Pump.run(lab.bothDone, 200*time.Second)
		if !lab.established() {
			t.Fatalf("hs: %v %v", lab.Client.Err, lab.Server.Err)
		}
		lab.Pump.run(func() bool { return false }, 5*time.Second)
		dump := func(from int) {
			for _, d := range lab.Net.since(from) {
				snd := lab.peer(d.From)
				r, ok := c20Open(snd.Conn, d.Data)
				fmt.Printf("  #%d t=%v %s->%s len=%d ok=%v %+v\n", d.Idx, d.T, d.From, d.To, len(d.Data), ok, r)
			}
		}
		dump(0)
		n0 := lab.Net.count()
		fmt.Println("--- update keys client req")
		done := make(chan error, 1)
		go func() { done <- lab.Client.Conn.UpdateKeys(context.Background(), KeyUpdateOptions{RequestPeerUpdate: true}) }()
		lab.Pump.run(func() bool { return len(done) > 0 }, 20*time.Second)
		lab.Pump.run(func() bool { return false }, 5*time.Second)
		synctest.Wait()
		fmt.Println("result", len(done))
		dump(n0)
		lab.close()
	})
}
