//go:build verif

// C20 - DTLS 1.3 key updates: correspondence harness.
// Real client+server (DTLS 1.3 only) in a synctest bubble; the test goroutine is the network:
// every datagram is captured, opened with the SENDER's write generations (in-package access) to
// learn (epoch, seq, inner kind), and delivered / dropped / duplicated / re-delivered later by script.
package dtls

import (
	"bytes"
	"context"
	"crypto/hmac"
	"encoding/binary"
	"encoding/json"
	"fmt"
	"hash"
	"os"
	"sync"
	"sync/atomic"
	"testing"
	"testing/synctest"
	"time"

	"github.com/pion/dtls/v3/internal/ciphersuite"
	dtlsstate "github.com/pion/dtls/v3/internal/state"
	"github.com/pion/dtls/v3/pkg/protocol"
	"github.com/pion/dtls/v3/pkg/protocol/handshake"
	"github.com/pion/dtls/v3/pkg/protocol/recordlayer"
	"github.com/pion/transport/v4/replaydetector"
)

// ---------------------------------------------------------------- opened records

type c20Rec struct {
	From    string      `json:"from"`
	Dg      int         `json:"dg"`    // datagram index in the lab log (-1: crafted by the harness)
	ELow    int         `json:"elow"`  // epoch bits on the wire
	Epoch   int         `json:"epoch"` // full epoch of the generation that opens it
	Seq     uint64      `json:"seq"`
	Kind    string      `json:"kind"` // app | ku | ack | nst | alert | other
	Msg     int         `json:"msg"`  // handshake message_seq (ku/nst)
	Req     bool        `json:"req"`  // KeyUpdate request_update
	Acks    [][2]uint64 `json:"acks"` // ACK record numbers
	Payload string      `json:"payload"`
}

func c20State13(c *Conn) *dtlsstate.State13 {
	st, ok := c.state.(*dtlsstate.State13)
	if !ok {
		panic("c20: not a DTLS 1.3 state")
	}

	return st
}

// c20Open opens one single-record datagram with the write generations of its sender.
func c20Open(sender *Conn, raw []byte) (c20Rec, bool) {
	out := c20Rec{Dg: -1, Msg: -1}
	if len(raw) == 0 || !protocol.IsDTLS13Ciphertext(protocol.ContentType(raw[0])) {
		out.Kind = "plaintext"

		return out, false
	}
	rec := recordlayer.CiphertextRecord13{}
	if err := rec.Unmarshal(raw); err != nil {
		out.Kind = "unparsable"

		return out, false
	}
	out.ELow = int(rec.Header.EpochLow)
	st := c20State13(sender)
	top := int(st.LocalEpoch()) + 1
	for e := top; e >= 2; e-- {
		if e&3 != out.ELow {
			continue
		}
		gen, ok := st.TrafficKeys.Write(uint16(e))
		if !ok || gen.Protection == nil {
			continue
		}
		clear, err := gen.Protection.UnmaskSequenceNumber(rec.Header, rec.EncryptedRecord)
		if err != nil {
			continue
		}
		// the sender's own counter disambiguates the 16 bits on the wire: the newest number
		// already allocated for this epoch with these low bits (records are opened right after
		// emission, far fewer than 2^16 records later)
		seq := uint64(clear.SequenceNumber)
		if ls := dtlsstate.CommonState(sender.state).LocalSequenceNumber; e < len(ls) {
			if cnt := atomic.LoadUint64(&ls[e]); cnt > 0 {
				last := cnt - 1
				seq = last - ((last - seq) & 0xffff)
			}
		}
		inner, err := gen.Protection.Open(rec.Header, seq, rec.EncryptedRecord)
		if err != nil {
			continue
		}
		out.Epoch = e
		out.Seq = seq
		switch inner.RealType {
		case protocol.ContentTypeApplicationData:
			out.Kind = "app"
			out.Payload = string(inner.Content)
		case protocol.ContentTypeACK:
			out.Kind = "ack"
			ack := protocol.ACK{}
			if err := ack.Unmarshal(inner.Content); err != nil {
				out.Kind = "other"
			}
			for _, r := range ack.Records {
				out.Acks = append(out.Acks, [2]uint64{r.Epoch, r.SequenceNumber})
			}
		case protocol.ContentTypeHandshake:
			hh := handshake.Header{}
			if err := hh.Unmarshal(inner.Content); err != nil {
				out.Kind = "other"

				break
			}
			out.Msg = int(hh.MessageSequence)
			switch hh.Type {
			case handshake.TypeKeyUpdate:
				out.Kind = "ku"
				body := inner.Content[handshake.HeaderLength:]
				out.Req = len(body) == 1 && body[0] == byte(handshake.KeyUpdateRequested)
			case handshake.TypeNewSessionTicket:
				out.Kind = "nst"
			default:
				out.Kind = fmt.Sprintf("hs%d", hh.Type)
			}
		case protocol.ContentTypeAlert:
			out.Kind = "alert"
		default:
			out.Kind = "other"
		}

		return out, true
	}
	out.Kind = "unopenable"

	return out, false
}

// ---------------------------------------------------------------- independent HKDF-Expand-Label

// c20ExpandLabel recomputes HKDF-Expand-Label(secret, label, "", Hash.length) (RFC 8446 7.1 with
// the DTLS 1.3 label prefix of RFC 9147 5.9) from crypto/hmac only.
func c20ExpandLabel(h func() hash.Hash, secret []byte, label string) []byte {
	n := h().Size()
	full := "dtls13" + label
	info := []byte{}
	info = binary.BigEndian.AppendUint16(info, uint16(n))
	info = append(info, byte(len(full)))
	info = append(info, full...)
	info = append(info, 0) // empty context
	m := hmac.New(h, secret)
	m.Write(info)
	m.Write([]byte{1})

	return m.Sum(nil)[:n]
}

func c20Hash(c *Conn) func() hash.Hash {
	cs, ok := c20State13(c).CipherSuite.(ciphersuite.CipherSuiteTLS13)
	if !ok {
		panic("c20: no TLS 1.3 cipher suite")
	}

	return cs.HashFunc()
}

// c20ChainOK checks the w -> r direction: for every write generation of `w` and read generation of
// `r` that is still installed, secret(e+1) == Expand-Label(secret(e), "traffic upd") whenever both
// neighbours are installed (chain), the reader's generation of every committed epoch it still holds
// equals the writer's (agree); gens = generations looked at, missing = epochs 3..current whose
// generation is no longer installed (writer side, reader side).
func c20ChainOK(w, r *Conn) (chain bool, agree bool, gens int, missing [2]int) {
	chain, agree = true, true
	ws, rs := c20State13(w), c20State13(r)
	h := c20Hash(w)
	for e := 3; e <= int(ws.LocalEpoch()); e++ {
		g, ok := ws.TrafficKeys.Write(uint16(e))
		if !ok {
			missing[0]++

			continue
		}
		gens++
		if g.Epoch != uint16(e) || g.Generation != uint64(e-3) {
			chain = false
		}
		if p, okp := ws.TrafficKeys.Write(uint16(e - 1)); okp && e > 3 {
			if !bytes.Equal(c20ExpandLabel(h, p.Secret, "traffic upd"), g.Secret) {
				chain = false
			}
		}
		if e <= int(rs.RemoteEpoch()) {
			if rg, okr := rs.TrafficKeys.Read(uint16(e)); okr {
				if !bytes.Equal(rg.Secret, g.Secret) || rg.Generation != g.Generation {
					agree = false
				}
			}
		} else {
			agree = false
		}
	}
	for e := 3; e <= int(rs.RemoteEpoch()); e++ {
		g, ok := rs.TrafficKeys.Read(uint16(e))
		if !ok {
			missing[1]++

			continue
		}
		gens++
		if p, okp := rs.TrafficKeys.Read(uint16(e - 1)); okp && e > 3 {
			if !bytes.Equal(c20ExpandLabel(h, p.Secret, "traffic upd"), g.Secret) {
				chain = false
			}
		}
	}
	if cur, ok := rs.TrafficKeys.CurrentRead(); !ok || cur.Epoch != rs.RemoteEpoch() {
		agree = false
	}
	if cur, ok := ws.TrafficKeys.CurrentWrite(); !ok || cur.Epoch != ws.LocalEpoch() {
		agree = false
	}

	return chain, agree, gens, missing
}

// c20Retained: does `c` still hold a read generation for `epoch`, authorised by its receive epoch?
func c20Retained(c *Conn, epoch int) bool {
	st := c20State13(c)
	if epoch > int(st.RemoteEpoch()) || epoch < 0 || epoch > 65535 {
		return false
	}
	_, ok := st.TrafficKeys.Read(uint16(epoch))

	return ok
}

// ---------------------------------------------------------------- crafted records

// c20SealFuture seals an application record under the generation `ahead` steps after the sender's
// current write generation (secrets derived with the harness's own Expand-Label), as a peer that
// switched keys too early would.
func c20SealFuture(sender *Conn, ahead int, seq uint64, payload []byte) ([]byte, int) {
	st := c20State13(sender)
	cur, ok := st.TrafficKeys.CurrentWrite()
	if !ok {
		panic("c20: no write generation")
	}
	cs, ok := st.CipherSuite.(ciphersuite.CipherSuiteTLS13)
	if !ok {
		panic("c20: no TLS 1.3 cipher suite")
	}
	secret := cur.Secret
	for i := 0; i < ahead; i++ {
		secret = c20ExpandLabel(cs.HashFunc(), secret, "traffic upd")
	}
	prot, err := cs.NewRecordProtection(secret)
	if err != nil {
		panic(err)
	}
	epoch := int(cur.Epoch) + ahead
	ct, err := prot.Seal(recordlayer.UnifiedHeader{
		EpochLow: uint8(epoch & 3), SequenceNumber: uint16(seq & 0xffff), SeqBit: true, LengthBit: true,
	}, seq, protocol.ContentTypeApplicationData, payload)
	if err != nil {
		panic(err)
	}
	raw, err := ct.Marshal()
	if err != nil {
		panic(err)
	}

	return raw, epoch
}

// ---------------------------------------------------------------- the scripted run

type c20Call struct {
	side string
	id   int
	done chan error
	seen bool
}

type c20Step struct {
	Op     string   `json:"op"`   // uk | w | d | t | x
	Side   string   `json:"side"` // caller (uk, w), destination (d, x), retransmitting side (t)
	Req    bool     `json:"req"`
	ID     int      `json:"id"`   // call id (uk) / payload number (w)
	Rec    int      `json:"rec"`  // index into recs (d, x)
	Sent   []int    `json:"sent"` // indices into recs emitted during the step
	Read   [][2]int `json:"read"` // (0 client / 1 server, payload number)
	Done   [][2]int `json:"done"` // (side, call id) UpdateKeys returned nil
	Errs   []string `json:"errs"` // UpdateKeys / Write calls that returned an error
	Epochs [4]int   `json:"epochs"`
	T      int64    `json:"t_ms"`
	Held   bool     `json:"retained"` // d, x: on arrival the receiver holds an authorised generation for the record's epoch
	Ahead  int      `json:"ahead"`    // x: generations ahead of the sender's current write generation
}

type c20Cfg struct {
	W      int       `json:"w"`
	Base   [2]int    `json:"base"`
	WSeq   [2]int    `json:"wseq"`
	Pre    [2][]int  `json:"pre"`
	Suite  string    `json:"suite"`
	Preset [2]uint64 `json:"preset"` // epoch-3 records each side is made to have sent before the script starts (0: untouched)
	Shadow [2][]int  `json:"shadow"` // per side: message numbers for which an unauthenticated fragment sits in ITS reassembly buffer
	Plant  *c20Plant `json:"plant"`  // how that fragment got there (nil: nothing planted)
}

// c20Plant: one unprotected (epoch 0) handshake fragment sent to Victim by an off-path sender while
// the handshake is still running, right after the After-th genuine datagram reached the victim. It
// claims message number Base(peer)+J = the peer's (J+1)-th post-handshake message.
type c20Plant struct {
	Victim string `json:"victim"`
	J      int    `json:"j"`
	Msg    int    `json:"msg"`
	After  int    `json:"after"`
	Form   int    `json:"form"` // 0: complete one-byte message; 1: first byte of a two-byte message (never completes)
	RecSeq uint64 `json:"rec_seq"`
}

// c20ForgedFragment: plaintext record (content type 22, epoch 0) with one handshake fragment
// {type key_update, length, message_seq, offset 0, fragment_length 1, body 00}.
func c20ForgedFragment(recSeq uint64, msg int, form int) []byte {
	length := byte(1)
	if form == 1 {
		length = 2
	}
	hs := []byte{24, 0, 0, length, byte(msg >> 8), byte(msg), 0, 0, 0, 0, 0, 1, 0}
	rec := []byte{22, 0xfe, 0xfd, 0, 0, 0, 0, 0, 0, 0, 0, 0, 0}
	var seq [8]byte
	binary.BigEndian.PutUint64(seq[:], recSeq)
	copy(rec[5:11], seq[2:])
	binary.BigEndian.PutUint16(rec[11:], uint16(len(hs)))

	return append(rec, hs...)
}

// message numbers each side uses for its first post-handshake message in this configuration
// (protocol constants; learnt from the first plain establishment of the process)
var c20BaseSeen *[2]int //nolint:gochecknoglobals

type c20Trace struct {
	Kind    string    `json:"kind"`
	Variant string    `json:"variant"`
	Case    int       `json:"case"`
	Cfg     c20Cfg    `json:"cfg"`
	Recs    []c20Rec  `json:"recs"`
	Steps   []c20Step `json:"steps"`
	Chain   [2]bool   `json:"chain"` // successor relation holds for every generation (client->server, server->client)
	Agree   [2]bool   `json:"agree"` // the receiver's read generation equals the sender's write generation for every committed epoch
	Gens    [2]int    `json:"gens"`
	Missing [2][2]int `json:"missing"`       // generations no longer installed: per direction (writer side, reader side)
	Pending int       `json:"pending_calls"` // UpdateKeys calls that had not returned when the run ended
	Note    string    `json:"note"`
}

type c20Sim struct {
	t      *testing.T
	lab    *vLab
	nextDg int
	tr     *c20Trace
	raws   [][]byte
	calls  []*c20Call
	wcalls []*c20Call
	nread  [2]int
	start  time.Time
}

func c20SideIdx(name string) int {
	if name == "client" {
		return 0
	}

	return 1
}

var c20Sides = [2]string{"client", "server"} //nolint:gochecknoglobals

func c20Configs(suite CipherSuiteID, w int) (*dtlsConfig, *dtlsConfig) {
	ccfg, scfg := vCertPair()
	for _, c := range []*dtlsConfig{ccfg, scfg} {
		c.MinVersion = protocol.Version1_3
		c.MaxVersion = protocol.Version1_3
		if suite != 0 {
			c.CipherSuites = []CipherSuiteID{suite}
		}
		if w > 0 {
			c.ReplayProtectionWindow = w
		}
	}

	return ccfg, scfg
}

func c20PayloadNum(b []byte) int {
	n := -1
	if len(b) >= 5 && b[0] == 'p' {
		fmt.Sscanf(string(b[1:]), "%d", &n)
	}

	return n
}

const c20BulkBase = 1000000

func c20Payload(n int) []byte { return []byte(fmt.Sprintf("p%04d-payload", n)) }

// c20Start establishes a DTLS 1.3 connection over a perfect network, lets the server's
// NewSessionTicket flight finish, and hands the network over to the script.
// c20PresetEpoch3 makes `from` look as if it had already sent n epoch-3 records that `to` received in
// order: the sender's LocalSequenceNumber[3] = n, the receiver's high-water mark and a fresh replay
// window with n-1 as the only (newest) accepted number. A long-lived epoch without 2^16 real writes.
func c20PresetEpoch3(from, to *Conn, n uint64) {
	fs, ts := dtlsstate.CommonState(from.state), dtlsstate.CommonState(to.state)
	for len(fs.LocalSequenceNumber) <= 3 {
		fs.LocalSequenceNumber = append(fs.LocalSequenceNumber, 0)
	}
	atomic.StoreUint64(&fs.LocalSequenceNumber[3], n)
	for len(ts.RemoteSequenceNumber) <= 3 {
		ts.RemoteSequenceNumber = append(ts.RemoteSequenceNumber, 0)
	}
	atomic.StoreUint64(&ts.RemoteSequenceNumber[3], n-1)
	for len(ts.ReplayDetector) <= 3 {
		ts.ReplayDetector = append(ts.ReplayDetector, replaydetector.New(to.replayProtectionWindow, ^uint64(0)))
	}
	det := replaydetector.New(to.replayProtectionWindow, ^uint64(0))
	if accept, ok := det.Check(n - 1); ok {
		accept()
	}
	ts.ReplayDetector[3] = det
}

var c20LongEpochs = []uint64{ //nolint:gochecknoglobals
	65536, 65536 + 300, 1 << 17, 1 << 24, 65530, 65536 + 32768, 1<<32 + 7, 3 * 65536,
}

func c20Start(t *testing.T, variant string, suite CipherSuiteID, w int, preset [2]uint64, plant *c20Plant) *c20Sim {
	t.Helper()
	if plant != nil && c20BaseSeen == nil {
		dry := c20Start(t, "dry", suite, w, [2]uint64{}, nil)
		dry.lab.close()
	}
	ccfg, scfg := c20Configs(suite, w)
	lab := newLab(t, ccfg, scfg)
	if plant != nil {
		p := *plant
		plant = &p
		peer := lab.other(plant.Victim).Name
		plant.Msg = c20BaseSeen[c20SideIdx(peer)] + plant.J
		forged := c20ForgedFragment(plant.RecSeq, plant.Msg, plant.Form)
		n := 0
		lab.Pump.OnDeliver = func(d vDatagram) {
			if d.To != plant.Victim {
				return
			}
			if n++; n == plant.After {
				lab.Net.deliver(plant.Victim, peer, forged)
			}
		}
	}
	lab.Pump.run(lab.bothDone, 200*time.Second)
	lab.Pump.OnDeliver = nil
	if !lab.established() {
		t.Fatalf("DTLS 1.3 handshake failed: client=%v server=%v", lab.Client.Err, lab.Server.Err)
	}
	lab.Pump.run(func() bool { return false }, 3*time.Second)
	synctest.Wait()
	sim := &c20Sim{t: t, lab: lab, tr: &c20Trace{Kind: "trace", Variant: variant}, start: time.Now()}
	sim.nextDg = lab.Net.count()
	eff := w
	if eff <= 0 {
		eff = defaultReplayProtectionWindow
	}
	sim.tr.Cfg.W = effectiveReplayProtectionWindow(eff)
	for i, name := range c20Sides {
		c := lab.peer(name).Conn
		st := c20State13(c)
		if st.LocalEpoch() != 3 || st.RemoteEpoch() != 3 {
			t.Fatalf("%s: epochs %d/%d after establishment", name, st.LocalEpoch(), st.RemoteEpoch())
		}
		sim.tr.Cfg.Base[i] = st.HandshakeSendSequence
		sim.tr.Cfg.Pre[i] = []int{}
		sim.tr.Cfg.Shadow[i] = []int{}
	}
	if c20BaseSeen == nil {
		c20BaseSeen = &[2]int{sim.tr.Cfg.Base[0], sim.tr.Cfg.Base[1]}
	}
	if plant != nil {
		if *c20BaseSeen != sim.tr.Cfg.Base {
			t.Fatalf("post-handshake message numbers %v differ from the first establishment %v", sim.tr.Cfg.Base, *c20BaseSeen)
		}
		sim.tr.Cfg.Plant = plant
		sim.tr.Cfg.Shadow[c20SideIdx(plant.Victim)] = []int{plant.Msg}
	}
	if c20State13(lab.Client.Conn).HandshakeRecvSequence != sim.tr.Cfg.Base[1] ||
		c20State13(lab.Server.Conn).HandshakeRecvSequence != sim.tr.Cfg.Base[0] {
		t.Fatalf("handshake sequence numbers out of step after establishment")
	}
	for _, d := range lab.Net.since(0) {
		r, ok := c20Open(lab.peer(d.From).Conn, d.Data)
		if !ok || r.Epoch != 3 {
			continue
		}
		i := c20SideIdx(d.From)
		sim.tr.Cfg.WSeq[i]++
		sim.tr.Cfg.Pre[1-i] = append(sim.tr.Cfg.Pre[1-i], int(r.Seq))
	}
	for i, name := range c20Sides {
		if preset[i] == 0 {
			continue
		}
		c20PresetEpoch3(lab.peer(name).Conn, lab.other(name).Conn, preset[i])
		sim.tr.Cfg.Preset[i] = preset[i]
		sim.tr.Cfg.WSeq[i] = int(preset[i])
		sim.tr.Cfg.Pre[1-i] = []int{int(preset[i] - 1)}
	}
	lab.Client.startReader()
	lab.Server.startReader()
	synctest.Wait()

	return sim
}

func (s *c20Sim) epochs() [4]int {
	a, b := c20State13(s.lab.Client.Conn), c20State13(s.lab.Server.Conn)

	return [4]int{int(a.LocalEpoch()), int(a.RemoteEpoch()), int(b.LocalEpoch()), int(b.RemoteEpoch())}
}

// collect catalogues what happened since the previous step.
func (s *c20Sim) collect(st *c20Step) {
	synctest.Wait()
	for _, d := range s.lab.Net.since(s.nextDg) {
		s.nextDg = d.Idx + 1
		r, ok := c20Open(s.lab.peer(d.From).Conn, d.Data)
		r.From = d.From
		r.Dg = d.Idx
		if !ok {
			st.Errs = append(st.Errs, fmt.Sprintf("datagram %d from %s cannot be opened with the sender's keys (%s)", d.Idx, d.From, r.Kind))
		}
		if r.Kind == "ku" || r.Kind == "nst" {
			r.Msg -= s.tr.Cfg.Base[c20SideIdx(d.From)] - s.tr.Cfg.Base[c20SideIdx(d.From)] // absolute message_seq kept
		}
		s.tr.Recs = append(s.tr.Recs, r)
		s.raws = append(s.raws, d.Data)
		st.Sent = append(st.Sent, len(s.tr.Recs)-1)
	}
	for i, name := range c20Sides {
		reads := s.lab.peer(name).reads()
		for ; s.nread[i] < len(reads); s.nread[i]++ {
			st.Read = append(st.Read, [2]int{i, c20PayloadNum(reads[s.nread[i]])})
		}
	}
	for _, c := range s.calls {
		if c.seen {
			continue
		}
		select {
		case err := <-c.done:
			c.seen = true
			if err == nil {
				st.Done = append(st.Done, [2]int{c20SideIdx(c.side), c.id})
			} else {
				st.Errs = append(st.Errs, fmt.Sprintf("UpdateKeys %d at %s: %v", c.id, c.side, err))
			}
		default:
		}
	}
	for _, c := range s.wcalls {
		if c.seen {
			continue
		}
		select {
		case err := <-c.done:
			c.seen = true
			if err != nil {
				st.Errs = append(st.Errs, fmt.Sprintf("Write %d at %s: %v", c.id, c.side, err))
			}
		default:
		}
	}
	st.Epochs = s.epochs()
	st.T = time.Since(s.start).Milliseconds()
}

func (s *c20Sim) push(st c20Step) *c20Step {
	if st.Sent == nil {
		st.Sent = []int{}
	}
	if st.Read == nil {
		st.Read = [][2]int{}
	}
	if st.Done == nil {
		st.Done = [][2]int{}
	}
	if st.Errs == nil {
		st.Errs = []string{}
	}
	s.tr.Steps = append(s.tr.Steps, st)

	return &s.tr.Steps[len(s.tr.Steps)-1]
}

func (s *c20Sim) opUpdate(side string, req bool) {
	c := &c20Call{side: side, id: len(s.calls), done: make(chan error, 1)}
	s.calls = append(s.calls, c)
	conn := s.lab.peer(side).Conn
	go func() { c.done <- conn.UpdateKeys(context.Background(), KeyUpdateOptions{RequestPeerUpdate: req}) }()
	st := c20Step{Op: "uk", Side: side, Req: req, ID: c.id, Rec: -1}
	s.collect(&st)
	s.push(st)
}

func (s *c20Sim) opWrite(side string, n int) {
	c := &c20Call{side: side, id: n, done: make(chan error, 1)}
	s.wcalls = append(s.wcalls, c)
	conn := s.lab.peer(side).Conn
	go func() {
		_, err := conn.Write(c20Payload(n))
		c.done <- err
	}()
	st := c20Step{Op: "w", Side: side, ID: n, Rec: -1}
	s.collect(&st)
	s.push(st)
}

func (s *c20Sim) opDeliver(rec int) {
	r := s.tr.Recs[rec]
	to := s.lab.other(r.From).Name
	held := c20Retained(s.lab.peer(to).Conn, r.Epoch)
	s.lab.Net.deliver(to, r.From, s.raws[rec])
	st := c20Step{Op: "d", Side: to, Rec: rec, ID: -1, Held: held}
	s.collect(&st)
	s.push(st)
}

// opCraft delivers to `to` an application record sealed by the harness under the generation
// `ahead` steps after the peer's current write generation.
func (s *c20Sim) opCraft(to string, ahead int, seq uint64, n int) {
	from := s.lab.other(to)
	raw, epoch := c20SealFuture(from.Conn, ahead, seq, c20Payload(n))
	s.tr.Recs = append(s.tr.Recs, c20Rec{
		From: from.Name, Dg: -1, ELow: epoch & 3, Epoch: epoch, Seq: seq, Kind: "app",
		Msg: -1, Payload: string(c20Payload(n)),
	})
	s.raws = append(s.raws, raw)
	rec := len(s.tr.Recs) - 1
	held := c20Retained(s.lab.peer(to).Conn, epoch)
	s.lab.Net.deliver(to, from.Name, raw)
	st := c20Step{Op: "x", Side: to, Rec: rec, ID: n, Held: held, Ahead: ahead}
	s.collect(&st)
	s.push(st)
}

// opTime lets `d` of virtual time pass; every retransmission becomes its own timer step.
func (s *c20Sim) opTime(d time.Duration) int {
	time.Sleep(d)
	st := c20Step{Op: "t", Rec: -1, ID: -1}
	s.collect(&st)
	n := len(st.Sent)
	if n == 0 && len(st.Read) == 0 && len(st.Done) == 0 && len(st.Errs) == 0 {
		return 0
	}
	if n <= 1 {
		if n == 1 {
			st.Side = s.tr.Recs[st.Sent[0]].From
		}
		s.push(st)

		return n
	}
	for i, idx := range st.Sent {
		one := c20Step{Op: "t", Side: s.tr.Recs[idx].From, Rec: -1, ID: -1, Sent: []int{idx}, Epochs: st.Epochs, T: st.T}
		if i == n-1 {
			one.Read, one.Done, one.Errs = st.Read, st.Done, st.Errs
		}
		s.push(one)
	}

	return n
}

func (s *c20Sim) pendingCalls() int {
	n := 0
	for _, c := range s.calls {
		if !c.seen {
			n++
		}
	}

	return n
}

func (s *c20Sim) finish(out *vOut) {
	cl, sv := s.lab.Client.Conn, s.lab.Server.Conn
	s.tr.Chain[0], s.tr.Agree[0], s.tr.Gens[0], s.tr.Missing[0] = c20ChainOK(cl, sv)
	s.tr.Chain[1], s.tr.Agree[1], s.tr.Gens[1], s.tr.Missing[1] = c20ChainOK(sv, cl)
	s.tr.Pending = s.pendingCalls()
	out.emit(s.tr)
	s.lab.close()
}

// ---------------------------------------------------------------- generated scripts

type c20Gen struct {
	sim      *c20Sim
	rng      *vRand
	inflight []int // catalogued, not yet delivered (in emission order)
	seenRecs int
	old      []int // delivered or dropped earlier: candidates for duplication / late arrival
	held     []int // kept back for the end of the run
	nextPay  int
	updates  int
}

func (g *c20Gen) sync() {
	for ; g.seenRecs < len(g.sim.tr.Recs); g.seenRecs++ {
		if g.sim.tr.Recs[g.seenRecs].Dg >= 0 {
			g.inflight = append(g.inflight, g.seenRecs)
		}
	}
}

func (g *c20Gen) take(i int) int {
	r := g.inflight[i]
	g.inflight = append(g.inflight[:i], g.inflight[i+1:]...)

	return r
}

// one random network/application move; pDrop etc. are percentages for control records.
func (g *c20Gen) move(maxUpdates, lossPct int) {
	s, rng := g.sim, g.rng
	g.sync()
	roll := rng.intn(100)
	switch {
	case roll < 12 && g.updates < maxUpdates:
		g.updates++
		s.opUpdate(c20Sides[rng.intn(2)], rng.chance(40))
	case roll < 30:
		g.nextPay++
		s.opWrite(c20Sides[rng.intn(2)], g.nextPay)
	case roll < 38:
		s.opTime([]time.Duration{time.Second, 2 * time.Second, 5 * time.Second}[rng.intn(3)])
	case roll < 46 && len(g.old) > 0:
		s.opDeliver(g.old[rng.intn(len(g.old))]) // duplicate / late copy
	case len(g.inflight) > 0:
		i := 0
		if rng.chance(30) {
			i = rng.intn(len(g.inflight)) // reorder
		}
		r := g.take(i)
		kind := s.tr.Recs[r].Kind
		switch {
		case rng.chance(lossPct) && (kind == "ku" || kind == "ack" || rng.chance(30)):
			g.old = append(g.old, r) // lost for now (may still arrive late)
		case kind == "app" && rng.chance(15):
			g.held = append(g.held, r)
		default:
			s.opDeliver(r)
			g.old = append(g.old, r)
		}
	default:
		g.nextPay++
		s.opWrite(c20Sides[rng.intn(2)], g.nextPay)
	}
	g.sync()
}

// settle: perfect network and enough time until every UpdateKeys call returned.
func (g *c20Gen) settle() {
	s := g.sim
	for round := 0; round < 40; round++ {
		g.sync()
		for len(g.inflight) > 0 {
			s.opDeliver(g.take(0))
			g.sync()
		}
		if s.pendingCalls() == 0 && s.opTime(61*time.Second) == 0 {
			g.sync()
			if len(g.inflight) == 0 {
				break
			}
		} else if s.pendingCalls() != 0 {
			s.opTime(61 * time.Second)
		}
	}
}

func c20Suite(i int) (CipherSuiteID, string) {
	switch i % 3 {
	case 0:
		return TLS_AES_128_GCM_SHA256, "aes128gcm"
	case 1:
		return TLS_AES_256_GCM_SHA384, "aes256gcm"
	default:
		return TLS_CHACHA20_POLY1305_SHA256, "chacha20"
	}
}

// perfect delivery of everything in flight (no timers)
func (g *c20Gen) flush() {
	g.sync()
	for len(g.inflight) > 0 {
		r := g.take(0)
		g.sim.opDeliver(r)
		g.old = append(g.old, r)
		g.sync()
	}
}

// write one payload and return the index of the record that carries it (kept off the network)
func (g *c20Gen) writeHeld(side string) int {
	g.flush()
	g.nextPay++
	g.sim.opWrite(side, g.nextPay)
	g.sync()
	if len(g.inflight) == 0 {
		return -1
	}

	return g.take(len(g.inflight) - 1)
}

// scenarioRetained: records of every epoch are kept back and arrive after 1..k further updates of
// their sender; a record that fell out of the replay window of its epoch arrives as well.
func (g *c20Gen) scenarioRetained() {
	s, rng := g.sim, g.rng
	var held []int
	rounds := 2 + rng.intn(5)
	for k := 0; k < rounds; k++ {
		side := c20Sides[rng.intn(2)]
		for j := 0; j < 1+rng.intn(2); j++ {
			if r := g.writeHeld(c20Sides[rng.intn(2)]); r >= 0 {
				held = append(held, r)
			}
		}
		if rng.chance(30) {
			// 64+ newer records of the same epoch make the kept one too old for the window
			if r := g.writeHeld(side); r >= 0 {
				held = append(held, r)
			}
			for j := 0; j < s.tr.Cfg.W+rng.intn(4); j++ {
				g.nextPay++
				s.opWrite(side, g.nextPay)
			}
			g.flush()
		}
		s.opUpdate(side, rng.chance(50))
		g.flush()
		if rng.chance(40) && len(held) > 0 {
			i := rng.intn(len(held))
			s.opDeliver(held[i])
			g.old = append(g.old, held[i])
			held = append(held[:i], held[i+1:]...)
		}
	}
	g.settle()
	for _, r := range held {
		s.opDeliver(r)
		if rng.chance(30) {
			s.opDeliver(r)
		}
	}
}

// scenarioEarly: application records sealed under generations the receiver has not authorised yet
// (ahead = 1, 2, 3), before and after the epoch bits start to alias retained generations, more
// than the parking capacity, then the KeyUpdate that authorises the next epoch.
func (g *c20Gen) scenarioEarly() {
	s, rng := g.sim, g.rng
	rounds := 2 + rng.intn(5)
	for k := 0; k < rounds; k++ {
		from := c20Sides[rng.intn(2)]
		to := s.lab.other(from).Name
		n := 1 + rng.intn(4)
		if rng.chance(12) {
			n = 100 + rng.intn(6)
		}
		for j := 0; j < n; j++ {
			g.nextPay++
			ahead := 1
			if rng.chance(25) {
				ahead = 2 + rng.intn(2)
			}
			s.opCraft(to, ahead, uint64(rng.intn(8)), 5000+g.nextPay)
		}
		if rng.chance(30) {
			g.nextPay++
			s.opWrite(from, g.nextPay)
		}
		s.opUpdate(from, rng.chance(30))
		if rng.chance(50) {
			g.nextPay++
			s.opCraft(to, 1, uint64(rng.intn(8)), 5000+g.nextPay)
		}
		g.flush()
		if rng.chance(50) {
			g.nextPay++
			s.opWrite(from, g.nextPay)
			g.flush()
		}
	}
	g.settle()
}

// scenarioLongEpoch: the epoch being replaced has carried 2^16 or more records (preset). The
// KeyUpdate reaches the peer, its ACK is lost k times (so the KeyUpdate is retransmitted under the
// OLD epoch to a peer that already moved on), payloads are written while the ACK is outstanding
// (old epoch) and after the commit (new epoch), and old-epoch records arrive after new-epoch ones.
func (g *c20Gen) scenarioLongEpoch() {
	s, rng := g.sim, g.rng
	rounds := 2 + rng.intn(3)
	for k := 0; k < rounds; k++ {
		side := c20Sides[k%2]
		if rng.chance(30) {
			side = c20Sides[rng.intn(2)]
		}
		peer := s.lab.other(side).Name
		var late []int
		for j := rng.intn(3); j > 0; j-- {
			if r := g.writeHeld(side); r >= 0 {
				late = append(late, r)
			}
		}
		g.flush()
		s.opUpdate(side, rng.chance(30))
		g.sync()
		// the KeyUpdate reaches the peer, every ACK of it is lost for a while
		drops := rng.intn(4)
		for d := 0; ; d++ {
			var acks []int
			for len(g.inflight) > 0 {
				r := g.take(0)
				rec := s.tr.Recs[r]
				switch {
				case rec.From == peer && rec.Kind == "ack" && d < drops:
					acks = append(acks, r)
				case rec.From == side && rec.Kind == "app" && rng.chance(60):
					late = append(late, r)
				default:
					s.opDeliver(r)
					g.old = append(g.old, r)
				}
				g.sync()
			}
			g.old = append(g.old, acks...)
			if d >= drops {
				break
			}
			// written while the ACK is outstanding: still the old epoch
			for j := rng.intn(3); j > 0; j-- {
				g.nextPay++
				s.opWrite(side, g.nextPay)
			}
			if rng.chance(40) {
				g.nextPay++
				s.opWrite(peer, g.nextPay)
			}
			s.opTime(time.Duration(1<<uint(d)) * time.Second) // retransmission under the old epoch
			g.sync()
		}
		// committed: new-epoch records first, then the old-epoch ones that were kept back
		for j := 1 + rng.intn(3); j > 0; j-- {
			g.nextPay++
			s.opWrite(side, g.nextPay)
		}
		g.flush()
		for _, r := range late {
			s.opDeliver(r)
			g.old = append(g.old, r)
		}
		if rng.chance(30) && len(g.old) > 0 {
			s.opDeliver(g.old[rng.intn(len(g.old))])
		}
	}
	g.settle()
}

// scenarioShadow: the victim's reassembly buffer holds an unauthenticated fragment numbered like the
// peer's (J+1)-th post-handshake message (planted during the handshake, see c20Plant). The peer
// updates its keys J+1 times over a network that loses at most a first transmission or a first ACK,
// both sides write before, between and after the updates, the victim updates its own keys too (its
// direction is not affected); everything the peer writes after its last update is handed over.
func (g *c20Gen) scenarioShadow(pl *c20Plant) {
	s, rng := g.sim, g.rng
	victim := pl.Victim
	sender := s.lab.other(victim).Name
	writes := func(max int) {
		for n := rng.intn(max + 1); n > 0; n-- {
			g.nextPay++
			s.opWrite(c20Sides[rng.intn(2)], g.nextPay)
		}
	}
	for k := 0; k <= pl.J; k++ {
		writes(2)
		g.flush()
		if rng.chance(25) {
			s.opUpdate(victim, false)
			g.flush()
		}
		s.opUpdate(sender, rng.chance(30))
		g.sync()
		switch rng.intn(4) {
		case 0: // the first transmission of the KeyUpdate is lost
			if len(g.inflight) > 0 {
				g.old = append(g.old, g.take(0))
			}
			writes(1)
			s.opTime(time.Second)
		case 1: // the first ACK is lost
			if len(g.inflight) > 0 {
				r := g.take(0)
				s.opDeliver(r)
				g.old = append(g.old, r)
				g.sync()
				for i := 0; i < len(g.inflight); i++ {
					if rec := s.tr.Recs[g.inflight[i]]; rec.From == victim && rec.Kind == "ack" {
						g.old = append(g.old, g.take(i))

						break
					}
				}
				s.opTime(time.Second)
			}
		default:
		}
		g.flush()
		if rng.chance(30) && len(g.old) > 0 {
			s.opDeliver(g.old[rng.intn(len(g.old))]) // late copy
			g.flush()
		}
	}
	// written after the last UpdateKeys returned, over a perfect network
	for n := 1 + rng.intn(3); n > 0; n-- {
		g.nextPay++
		s.opWrite(sender, g.nextPay)
	}
	writes(2)
	g.flush()
	g.settle()
}

// TestVerifC20Trace: datagram-level deterministic runs (one operation at a time, synctest.Wait in
// between); every step's observable output is compared with the model by checks/c20.py.
func TestVerifC20Trace(t *testing.T) {
	out := newVOut(t)
	n := 240
	if vIsThorough() {
		n = 4000
	}
	for i := 0; i < n; i++ {
		i := i
		vBubble(t, func(t *testing.T) {
			rng := newVRand(vSeed()*1000003 + uint64(i))
			suite, sname := c20Suite(i)
			variant := []string{"random", "longepoch", "retained", "early", "random", "longepoch"}[i%6]
			var preset [2]uint64
			for k := range preset {
				if variant == "longepoch" || rng.chance(40) {
					preset[k] = c20LongEpochs[rng.intn(len(c20LongEpochs))]
				}
			}
			var plant *c20Plant
			if i%8 == 5 {
				// an off-path sender planted one unprotected fragment during the handshake
				variant = "shadow"
				plant = &c20Plant{
					Victim: c20Sides[rng.intn(2)], J: 1 + rng.intn(3), After: 1 + rng.intn(2),
					// record number inside the epoch-0 replay window of the genuine flights: trees in which
					// unprotected records still moved that window (before 5206069) complete the handshake too
					Form: rng.intn(2), RecSeq: uint64(10 + rng.intn(50)),
				}
			}
			sim := c20Start(t, variant, suite, 0, preset, plant)
			sim.tr.Case = i
			sim.tr.Cfg.Suite = sname
			g := &c20Gen{sim: sim, rng: rng}
			switch variant {
			case "shadow":
				g.scenarioShadow(sim.tr.Cfg.Plant)
			case "retained":
				g.scenarioRetained()
			case "early":
				g.scenarioEarly()
			case "longepoch":
				g.scenarioLongEpoch()
			default:
				steps := 25 + rng.intn(60)
				loss := []int{0, 15, 35, 60}[rng.intn(4)]
				maxU := 1 + rng.intn(6)
				for k := 0; k < steps; k++ {
					g.move(maxU, loss)
				}
				g.settle()
				// late arrivals: records kept back since before the later updates
				for _, r := range g.held {
					sim.opDeliver(r)
				}
				for k := 0; k < 3 && len(g.old) > 0; k++ {
					sim.opDeliver(g.old[rng.intn(len(g.old))])
				}
			}
			sim.finish(out)
		})
	}
}

// ---------------------------------------------------------------- concurrent leg (monitors only)

type c20ConcCall struct {
	Side int    `json:"side"`
	Req  bool   `json:"req"`
	Err  string `json:"err"`
	T    int64  `json:"t_ms"` // virtual time of the return
	Seq  int    `json:"order"`
}

type c20ConcDelivery struct {
	T    int64 `json:"t_ms"`
	Rec  int   `json:"rec"`
	Held bool  `json:"retained"` // the receiver holds an authorised generation for the record's epoch (sampled after the hand-over was processed)
}

type c20Conc struct {
	Kind       string            `json:"kind"`
	Case       int               `json:"case"`
	Writers    int               `json:"writers"`
	Loss       int               `json:"loss"`
	Recs       []c20Rec          `json:"recs"`      // every post-establishment record in emission order
	Delivered  []c20ConcDelivery `json:"delivered"` // every hand-over to the destination, in order
	Written    [][2]int          `json:"written"`   // (side, payload) for every Write that returned nil
	WriteErrs  []string          `json:"write_errs"`
	Reads      [][2]int          `json:"reads"`
	Calls      []c20ConcCall     `json:"calls"`
	Unreturned int               `json:"unreturned"`
	Epochs     [4]int            `json:"epochs"`
	Chain      [2]bool           `json:"chain"`
	Agree      [2]bool           `json:"agree"`
	Missing    [2][2]int         `json:"missing"`
	Unopened   int               `json:"unopened"`
	Preset     [2]uint64         `json:"preset"`
	Bulk       int               `json:"bulk"`      // records really written (client -> server, perfect network) before the run proper
	BulkRead   int               `json:"bulk_read"` // of which the server's Read returned
}

// TestVerifC20Conc: UpdateKeys on both sides racing with 1-3 writer goroutines per side under a
// lossy, duplicating, reordering network; then the network heals. Only the property's own
// statements are evaluated on these runs (goroutine scheduling is not replayed in the model).
func TestVerifC20Conc(t *testing.T) {
	out := newVOut(t)
	n := 48
	if vIsThorough() {
		n = 800
	}
	for i := 0; i < n; i++ {
		i := i
		vBubble(t, func(t *testing.T) {
			rng := newVRand(vSeed()*7919 + uint64(i) + 17)
			suite, _ := c20Suite(i)
			var preset [2]uint64
			for k := range preset {
				if rng.chance(50) {
					preset[k] = c20LongEpochs[rng.intn(len(c20LongEpochs))]
				}
			}
			bulk := 0
			if i%16 == 7 && (!vIsThorough() || i%64 == 7) {
				// a really long epoch: 2^16 and some records written and read before anything else
				preset = [2]uint64{}
				bulk = 65536 + 100 + rng.intn(200)
			}
			sim := c20Start(t, "conc", suite, 0, preset, nil)
			lab := sim.lab
			res := &c20Conc{
				Kind: "conc", Case: i, Writers: 1 + rng.intn(3), Loss: []int{0, 10, 30, 50}[rng.intn(4)],
				Recs: []c20Rec{}, Delivered: []c20ConcDelivery{}, Written: [][2]int{}, WriteErrs: []string{},
				Reads: [][2]int{}, Calls: []c20ConcCall{},
			}
			res.Preset = preset
			if bulk > 0 {
				res.Bulk = bulk
				next := lab.Net.count()
				for k := 0; k < bulk; k++ {
					if _, err := lab.Client.Conn.Write(c20Payload(c20BulkBase + k)); err != nil {
						t.Fatalf("bulk write %d: %v", k, err)
					}
					if k%1024 == 1023 || k == bulk-1 {
						for _, d := range lab.Net.since(next) {
							next = d.Idx + 1
							lab.Net.deliver(d.To, d.From, d.Data)
						}
						synctest.Wait()
					}
				}
			}
			start := time.Now()
			var mu sync.Mutex
			healed := false
			dgRec := map[int]int{}
			pump := &vPump{net: lab.Net, next: lab.Net.count()}
			pump.Policy = func(d vDatagram) (vAction, int) {
				r, ok := c20Open(lab.peer(d.From).Conn, d.Data)
				r.From, r.Dg = d.From, d.Idx
				if !ok {
					res.Unopened++
				}
				res.Recs = append(res.Recs, r)
				dgRec[d.Idx] = len(res.Recs) - 1
				if healed {
					return vPass, 0
				}
				ctl := r.Kind == "ku" || r.Kind == "ack"
				roll := rng.intn(100)
				switch {
				case ctl && roll < res.Loss, !ctl && roll < res.Loss/3:
					return vDrop, 0
				case roll < res.Loss+12:
					return vDup, 0
				case roll < res.Loss+30:
					return vHold, 1 + rng.intn(12)
				default:
					return vPass, 0
				}
			}
			pump.OnDeliver = func(d vDatagram) {
				to, _ := pump.route(d)
				res.Delivered = append(res.Delivered, c20ConcDelivery{
					T: time.Since(start).Milliseconds(), Rec: dgRec[d.Idx],
					Held: c20Retained(lab.peer(to).Conn, res.Recs[dgRec[d.Idx]].Epoch),
				})
			}
			var wg sync.WaitGroup
			order := 0
			for si, name := range c20Sides {
				conn := lab.peer(name).Conn
				for w := 0; w < res.Writers; w++ {
					wg.Add(1)
					seed := rng.u64()
					go func(si, w int) {
						defer wg.Done()
						r := newVRand(seed)
						for k := 0; k < 12; k++ {
							time.Sleep(time.Duration(r.intn(400)) * time.Millisecond)
							n := si*4000 + w*1000 + k
							_, err := conn.Write(c20Payload(n))
							mu.Lock()
							if err == nil {
								res.Written = append(res.Written, [2]int{si, n})
							} else {
								res.WriteErrs = append(res.WriteErrs, err.Error())
							}
							mu.Unlock()
						}
					}(si, w)
				}
				wg.Add(1)
				seed := rng.u64()
				calls := 1 + rng.intn(4)
				go func(si int) {
					defer wg.Done()
					r := newVRand(seed)
					for k := 0; k < calls; k++ {
						time.Sleep(time.Duration(r.intn(1500)) * time.Millisecond)
						req := r.chance(40)
						err := conn.UpdateKeys(context.Background(), KeyUpdateOptions{RequestPeerUpdate: req})
						mu.Lock()
						res.Calls = append(res.Calls, c20ConcCall{
							Side: si, Req: req, Err: vErrString(err), T: time.Since(start).Milliseconds(), Seq: order,
						})
						order++
						mu.Unlock()
					}
				}(si)
				res.Unreturned += calls
			}
			finished := make(chan struct{})
			go func() { wg.Wait(); close(finished) }()
			isDone := func() bool {
				select {
				case <-finished:
					return true
				default:
					return false
				}
			}
			// lossy phase (bounded), then the network heals and everything left is delivered
			pump.run(isDone, 40*time.Second)
			healed = true
			pump.run(isDone, 3000*time.Second)
			pump.run(func() bool { return false }, 130*time.Second)
			synctest.Wait()
			mu.Lock()
			res.Unreturned -= len(res.Calls)
			mu.Unlock()
			for si, name := range c20Sides {
				for _, b := range lab.peer(name).reads() {
					if n := c20PayloadNum(b); n >= c20BulkBase {
						res.BulkRead++
					} else {
						res.Reads = append(res.Reads, [2]int{si, n})
					}
				}
			}
			res.Epochs = sim.epochs()
			res.Chain[0], res.Agree[0], _, res.Missing[0] = c20ChainOK(lab.Client.Conn, lab.Server.Conn)
			res.Chain[1], res.Agree[1], _, res.Missing[1] = c20ChainOK(lab.Server.Conn, lab.Client.Conn)
			mu.Lock()
			out.emit(res)
			mu.Unlock()
			lab.close()
			<-finished // stranded callers return once the connections are closed
		})
	}
}

// TestVerifC20Replay re-executes the step list of a recorded trace (VERIF_C20_REPLAY = path of a JSON
// object with variant, cfg.suite and steps as written by TestVerifC20Trace / the replay files of
// checks/c20.py) against the implementation and emits the resulting trace.
func TestVerifC20Replay(t *testing.T) {
	path := os.Getenv("VERIF_C20_REPLAY")
	if path == "" {
		t.Skip("VERIF_C20_REPLAY not set")
	}
	raw, err := os.ReadFile(path)
	if err != nil {
		t.Fatal(err)
	}
	var in struct {
		Variant string    `json:"variant"`
		Case    int       `json:"case"`
		Cfg     c20Cfg    `json:"cfg"`
		Recs    []c20Rec  `json:"recs"`
		Steps   []c20Step `json:"steps"`
	}
	if err := json.Unmarshal(raw, &in); err != nil {
		t.Fatal(err)
	}
	out := newVOut(t)
	vBubble(t, func(t *testing.T) {
		var suite CipherSuiteID
		for i := 0; i < 3; i++ {
			if id, name := c20Suite(i); name == in.Cfg.Suite {
				suite = id
			}
		}
		sim := c20Start(t, in.Variant, suite, 0, in.Cfg.Preset, in.Cfg.Plant)
		sim.tr.Case = in.Case
		sim.tr.Cfg.Suite = in.Cfg.Suite
		sim.tr.Note = "replay"
		for k, st := range in.Steps {
			if wait := time.Duration(st.T)*time.Millisecond - time.Since(sim.start); wait > 0 {
				sim.opTime(wait)
			}
			switch st.Op {
			case "uk":
				sim.opUpdate(st.Side, st.Req)
			case "w":
				sim.opWrite(st.Side, st.ID)
			case "d":
				if st.Rec >= len(sim.tr.Recs) {
					t.Fatalf("step %d delivers record %d but only %d have been emitted in the replay", k, st.Rec, len(sim.tr.Recs))
				}
				sim.opDeliver(st.Rec)
			case "x":
				seq := uint64(0)
				if st.Rec >= 0 && st.Rec < len(in.Recs) {
					seq = in.Recs[st.Rec].Seq
				}
				sim.opCraft(st.Side, st.Ahead, seq, st.ID)
			case "t":
			}
		}
		sim.finish(out)
	})
}

// ---------------------------------------------------------------- establishment precondition (informational)

type c20FinalAck struct {
	Kind        string   `json:"kind"`
	Dropped     string   `json:"dropped"`
	ClientErr   string   `json:"client_handshake"`
	ServerErr   string   `json:"server_handshake"`
	ServerCalls int      `json:"server_calls_returned"` // of 2: UpdateKeys and Write issued by the server afterwards
	ClientCalls []string `json:"client_calls"`
	VirtualS    int64    `json:"virtual_s"`
	Wire        []string `json:"wire"`
}

// TestVerifC20FinalAck: C20 presupposes an established DTLS 1.3 connection. This run records what
// happens to that precondition when exactly one datagram is lost: the server's ACK of the client's
// Finished, while the NewSessionTicket that follows it arrives. Informational (no C20 clause is about
// establishment); reported in the evidence and to the lead.
func TestVerifC20FinalAck(t *testing.T) {
	out := newVOut(t)
	vBubble(t, func(t *testing.T) {
		ccfg, scfg := c20Configs(TLS_AES_128_GCM_SHA256, 0)
		lab := newLab(t, ccfg, scfg)
		res := &c20FinalAck{Kind: "finalack", Dropped: "first epoch-3 ACK from the server (ACK of the client Finished)", ClientCalls: []string{}, Wire: []string{}}
		dropped := false
		lab.Pump.Policy = func(d vDatagram) (vAction, int) {
			r, ok := c20Open(lab.peer(d.From).Conn, d.Data)
			if ok && !dropped && d.From == "server" && r.Kind == "ack" && r.Epoch == 3 {
				dropped = true

				return vDrop, 0
			}

			return vPass, 0
		}
		lab.Pump.run(lab.bothDone, 300*time.Second)
		res.ClientErr, res.ServerErr = vErrString(lab.Client.Err), vErrString(lab.Server.Err)
		lab.Client.startReader()
		lab.Server.startReader()
		cdone := make(chan error, 2)
		sdone := make(chan error, 2)
		go func() {
			cdone <- lab.Client.Conn.UpdateKeys(context.Background(), KeyUpdateOptions{RequestPeerUpdate: true})
		}()
		go func() { sdone <- lab.Server.Conn.UpdateKeys(context.Background(), KeyUpdateOptions{}) }()
		synctest.Wait()
		go func() { _, err := lab.Server.Conn.Write(c20Payload(1)); sdone <- err }()
		lab.Pump.run(func() bool { return len(sdone) == 2 && len(cdone) == 1 }, 400*time.Second)
		synctest.Wait()
		res.ServerCalls = len(sdone)
		for len(cdone) > 0 {
			res.ClientCalls = append(res.ClientCalls, vErrString(<-cdone))
		}
		res.VirtualS = int64(lab.Net.now() / time.Second)
		for _, d := range lab.Net.since(0) {
			r, ok := c20Open(lab.peer(d.From).Conn, d.Data)
			if ok {
				res.Wire = append(res.Wire, fmt.Sprintf("#%d t=%v %s epoch=%d seq=%d %s msg=%d acks=%v", d.Idx, d.T, d.From, r.Epoch, r.Seq, r.Kind, r.Msg, r.Acks))
			} else {
				res.Wire = append(res.Wire, fmt.Sprintf("#%d t=%v %s len=%d first=0x%02x", d.Idx, d.T, d.From, len(d.Data), d.Data[0]))
			}
		}
		out.emit(res)
		lab.close()
		synctest.Wait()
	})
}
