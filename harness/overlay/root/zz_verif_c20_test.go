//go:build verif

// C20 - DTLS 1.3 key updates: correspondence harness.
// Real client+server (DTLS 1.3 only) in a synctest bubble; the test goroutine is the network:
// every datagram is captured, opened with the SENDER's write generations (in-package access) to
// learn (epoch, seq, inner kind), and delivered / dropped / duplicated / re-delivered later by script.
package dtls

import (
	"bytes"
	"context"
	"crypto/hmac"
	"encoding/binary"
	"fmt"
	"hash"
	"sort"
	"sync"
	"testing"
	"testing/synctest"
	"time"

	"github.com/pion/dtls/v3/internal/ciphersuite"
	dtlsstate "github.com/pion/dtls/v3/internal/state"
	"github.com/pion/dtls/v3/pkg/protocol"
	"github.com/pion/dtls/v3/pkg/protocol/handshake"
	"github.com/pion/dtls/v3/pkg/protocol/recordlayer"
)

// ---------------------------------------------------------------- opened records

type c20Rec struct {
	From    string      `json:"from"`
	Dg      int         `json:"dg"`    // datagram index in the lab log (-1: crafted by the harness)
	ELow    int         `json:"elow"`  // epoch bits on the wire
	Epoch   int         `json:"epoch"` // full epoch of the generation that opens it
	Seq     uint64      `json:"seq"`
	Kind    string      `json:"kind"` // app | ku | ack | nst | alert | other
	Msg     int         `json:"msg"`  // handshake message_seq (ku/nst)
	Req     bool        `json:"req"`  // KeyUpdate request_update
	Acks    [][2]uint64 `json:"acks"` // ACK record numbers
	Payload string      `json:"payload"`
}

func c20State13(c *Conn) *dtlsstate.State13 {
	st, ok := c.state.(*dtlsstate.State13)
	if !ok {
		panic("c20: not a DTLS 1.3 state")
	}

	return st
}

// c20Open opens one single-record datagram with the write generations of its sender.
func c20Open(sender *Conn, raw []byte) (c20Rec, bool) {
	out := c20Rec{Dg: -1, Msg: -1}
	if len(raw) == 0 || !protocol.IsDTLS13Ciphertext(protocol.ContentType(raw[0])) {
		out.Kind = "plaintext"

		return out, false
	}
	rec := recordlayer.CiphertextRecord13{}
	if err := rec.Unmarshal(raw); err != nil {
		out.Kind = "unparsable"

		return out, false
	}
	out.ELow = int(rec.Header.EpochLow)
	st := c20State13(sender)
	top := int(st.LocalEpoch()) + 1
	for e := top; e >= 2; e-- {
		if e&3 != out.ELow {
			continue
		}
		gen, ok := st.TrafficKeys.Write(uint16(e))
		if !ok || gen.Protection == nil {
			continue
		}
		clear, err := gen.Protection.UnmaskSequenceNumber(rec.Header, rec.EncryptedRecord)
		if err != nil {
			continue
		}
		seq := uint64(clear.SequenceNumber) // fewer than 2^16 records per epoch in these runs
		inner, err := gen.Protection.Open(rec.Header, seq, rec.EncryptedRecord)
		if err != nil {
			continue
		}
		out.Epoch = e
		out.Seq = seq
		switch inner.RealType {
		case protocol.ContentTypeApplicationData:
			out.Kind = "app"
			out.Payload = string(inner.Content)
		case protocol.ContentTypeACK:
			out.Kind = "ack"
			ack := protocol.ACK{}
			if err := ack.Unmarshal(inner.Content); err != nil {
				out.Kind = "other"
			}
			for _, r := range ack.Records {
				out.Acks = append(out.Acks, [2]uint64{r.Epoch, r.SequenceNumber})
			}
		case protocol.ContentTypeHandshake:
			hh := handshake.Header{}
			if err := hh.Unmarshal(inner.Content); err != nil {
				out.Kind = "other"

				break
			}
			out.Msg = int(hh.MessageSequence)
			switch hh.Type {
			case handshake.TypeKeyUpdate:
				out.Kind = "ku"
				body := inner.Content[handshake.HeaderLength:]
				out.Req = len(body) == 1 && body[0] == byte(handshake.KeyUpdateRequested)
			case handshake.TypeNewSessionTicket:
				out.Kind = "nst"
			default:
				out.Kind = fmt.Sprintf("hs%d", hh.Type)
			}
		case protocol.ContentTypeAlert:
			out.Kind = "alert"
		default:
			out.Kind = "other"
		}

		return out, true
	}
	out.Kind = "unopenable"

	return out, false
}

// ---------------------------------------------------------------- independent HKDF-Expand-Label

// c20ExpandLabel recomputes HKDF-Expand-Label(secret, label, "", Hash.length) (RFC 8446 7.1 with
// the DTLS 1.3 label prefix of RFC 9147 5.9) from crypto/hmac only.
func c20ExpandLabel(h func() hash.Hash, secret []byte, label string) []byte {
	n := h().Size()
	full := "dtls13" + label
	info := []byte{}
	info = binary.BigEndian.AppendUint16(info, uint16(n))
	info = append(info, byte(len(full)))
	info = append(info, full...)
	info = append(info, 0) // empty context
	m := hmac.New(h, secret)
	m.Write(info)
	m.Write([]byte{1})

	return m.Sum(nil)[:n]
}

func c20Hash(c *Conn) func() hash.Hash {
	cs, ok := c20State13(c).CipherSuite.(ciphersuite.CipherSuiteTLS13)
	if !ok {
		panic("c20: no TLS 1.3 cipher suite")
	}

	return cs.HashFunc()
}

// c20ChainOK checks, for every installed write generation of `w` and read generation of `r`
// (w -> r direction), secret(e+1) == Expand-Label(secret(e), "traffic upd") and write == read.
func c20ChainOK(w, r *Conn) (chain bool, agree bool, gens int) {
	chain, agree = true, true
	ws, rs := c20State13(w), c20State13(r)
	h := c20Hash(w)
	for e := 3; e <= int(ws.LocalEpoch()); e++ {
		g, ok := ws.TrafficKeys.Write(uint16(e))
		if !ok {
			chain = false

			continue
		}
		gens++
		if g.Epoch != uint16(e) || g.Generation != uint64(e-3) {
			chain = false
		}
		if e > 3 {
			p, okp := ws.TrafficKeys.Write(uint16(e - 1))
			if !okp || !bytes.Equal(c20ExpandLabel(h, p.Secret, "traffic upd"), g.Secret) {
				chain = false
			}
		}
		if e <= int(rs.RemoteEpoch()) {
			rg, okr := rs.TrafficKeys.Read(uint16(e))
			if !okr || !bytes.Equal(rg.Secret, g.Secret) || rg.Generation != g.Generation {
				agree = false
			}
		} else {
			agree = false
		}
	}
	for e := 4; e <= int(rs.RemoteEpoch()); e++ {
		g, ok := rs.TrafficKeys.Read(uint16(e))
		p, okp := rs.TrafficKeys.Read(uint16(e - 1))
		if !ok || !okp || !bytes.Equal(c20ExpandLabel(h, p.Secret, "traffic upd"), g.Secret) {
			chain = false
		}
	}

	return chain, agree, gens
}

var (
	_ = context.Background
	_ = sort.Ints
	_ sync.Mutex
	_ = synctest.Wait
	_ = time.Second
	_ testing.T
)
