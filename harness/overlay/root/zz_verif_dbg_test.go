//go:build verif

package dtls

import (
	"fmt"
	"os"
	"strings"
	"testing"
	"time"

	"github.com/pion/logging"
)

type dbgLogger struct {
	scope string
	net   func() time.Duration
}

func (l *dbgLogger) p(lv, f string, a ...any) {
	fmt.Printf("      [%s %s] %s\n", l.scope, lv, fmt.Sprintf(f, a...))
}
func (l *dbgLogger) Trace(m string)          { l.p("T", "%s", m) }
func (l *dbgLogger) Tracef(f string, a ...any) { l.p("T", f, a...) }
func (l *dbgLogger) Debug(m string)          { l.p("D", "%s", m) }
func (l *dbgLogger) Debugf(f string, a ...any) { l.p("D", f, a...) }
func (l *dbgLogger) Info(m string)           { l.p("I", "%s", m) }
func (l *dbgLogger) Infof(f string, a ...any)  { l.p("I", f, a...) }
func (l *dbgLogger) Warn(m string)           { l.p("W", "%s", m) }
func (l *dbgLogger) Warnf(f string, a ...any)  { l.p("W", f, a...) }
func (l *dbgLogger) Error(m string)          { l.p("E", "%s", m) }
func (l *dbgLogger) Errorf(f string, a ...any) { l.p("E", f, a...) }

type dbgFactory struct{ side string }

func (f dbgFactory) NewLogger(scope string) logging.LeveledLogger {
	return &dbgLogger{scope: f.side + "/" + scope}
}


// TestVerifDbg: VERIF_DBG="variant|mask,mask,..." prints the event list of one C02 run.
func TestVerifDbg(t *testing.T) {
	spec := os.Getenv("VERIF_DBG")
	parts := strings.SplitN(spec, "|", 2)
	var mask []string
	if len(parts) > 1 && parts[1] != "" {
		mask = strings.Split(parts[1], ",")
	}
	if os.Getenv("VERIF_DBG_LOG") != "" {
		c02ConfigHook = func(c, s *dtlsConfig) {
			c.LoggerFactory = dbgFactory{"C"}
			s.LoggerFactory = dbgFactory{"S"}
		}
		defer func() { c02ConfigHook = nil }()
	}
	for _, v := range append(c02Variants(), c02Variants13()...) {
		if v.Name != parts[0] {
			continue
		}
		if m := os.Getenv("VERIF_DBG_MTU"); m != "" {
			fmt.Sscanf(m, "%d", &v.MTU)
		}
		var res c02Case
		vBubble(t, func(t *testing.T) { res = runC02(t, v, mask, c02Opt{Limit: 100 * time.Second}) })
		for _, e := range res.Events {
			fmt.Printf("%6d %-8s #%d %s %s", e.T, e.Ev, e.Idx, e.Side, e.Cause)
			for _, r := range e.Recs {
				fmt.Printf(" %+v", r)
			}
			fmt.Println()
		}
		fmt.Printf("cdone=%v cerr=%q sdone=%v serr=%q t=%d data=%v\n", res.CDone, res.CErr, res.SDone, res.SErr, res.TDone, res.DataOK)
	}
}
