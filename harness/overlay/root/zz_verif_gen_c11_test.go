//go:build verif

package dtls

import (
	"crypto"
	"crypto/ecdsa"
	"crypto/ed25519"
	"crypto/rsa"
	"crypto/tls"
	"fmt"
	"io"
	"os"
	"strings"
	"testing"

	"github.com/pion/dtls/v3/internal/ciphersuite"
	dtlsconfig "github.com/pion/dtls/v3/internal/config"
	"github.com/pion/dtls/v3/pkg/crypto/clientcertificate"
	"github.com/pion/dtls/v3/pkg/crypto/elliptic"
	"github.com/pion/dtls/v3/pkg/crypto/signaturehash"
	"github.com/pion/dtls/v3/pkg/protocol"
	"github.com/pion/dtls/v3/pkg/protocol/alert"
	"github.com/pion/dtls/v3/pkg/protocol/extension"
	"github.com/pion/dtls/v3/pkg/protocol/handshake"
)

// genC11Signer only answers Public(): signaturehash.SelectSignatureScheme looks at the key type alone.
type genC11Signer struct{ pub crypto.PublicKey }

func (s genC11Signer) Public() crypto.PublicKey { return s.pub }

func (genC11Signer) Sign(io.Reader, []byte, crypto.SignerOpts) ([]byte, error) { return nil, nil }

func genC11List(xs []int) string {
	parts := make([]string, 0, len(xs))
	for _, x := range xs {
		parts = append(parts, fmt.Sprint(x))
	}

	return "[" + strings.Join(parts, "; ") + "]"
}

// TestVerifGenC11 dumps the declarative tables the negotiation model (Neg/C11Negotiate.v) is
// parameterised with: cipher-suite attributes, default lists, signature-scheme compatibility,
// alert and extension numbers, policy enums (file Gen/GeneratedC11.v).
func TestVerifGenC11(t *testing.T) {
	var b strings.Builder
	b.WriteString("(*@@ GeneratedC11 *)\n")
	def := func(name string, v any) { fmt.Fprintf(&b, "Definition %s : N := %v.\n", name, v) }

	// (id, (authentication, key exchange, certificate type, ECC, supports 1.2, supports 1.3))
	b.WriteString("Definition g11_suites : list (N * (N * N * N * bool * bool * bool)) :=\n  [")
	first := true
	for id := 0; id <= 0xffff; id++ {
		s := ciphersuite.ForID(ciphersuite.ID(id), nil)
		if s == nil {
			continue
		}
		if !first {
			b.WriteString("; ")
		}
		first = false
		fmt.Fprintf(&b, "(%d, (%d, %d, %d, %v, %v, %v))", id, int(s.AuthenticationType()), int(s.KeyExchangeAlgorithm()),
			int(s.CertificateType()), s.ECC(),
			ciphersuite.IDSupportsVersion(ciphersuite.ID(id), protocol.Version1_2),
			ciphersuite.IDSupportsVersion(ciphersuite.ID(id), protocol.Version1_3))
	}
	b.WriteString("].\n")
	ids := func(l []CipherSuite) []int {
		var out []int
		for _, s := range l {
			out = append(out, int(s.ID()))
		}

		return out
	}
	fmt.Fprintf(&b, "Definition g11_default_suites12 : list N := %s.\n", genC11List(ids(defaultCipherSuites())))
	fmt.Fprintf(&b, "Definition g11_default_suites13 : list N := %s.\n", genC11List(ids(defaultCipherSuites13())))
	var curves []int
	for _, c := range defaultCurves {
		curves = append(curves, int(c))
	}
	fmt.Fprintf(&b, "Definition g11_default_curves : list N := %s.\n", genC11List(curves))
	def("g11_curve_mlkem", int(elliptic.X25519MLKEM768))
	var sigs []int
	for _, a := range signaturehash.Algorithms() {
		m := a.Marshal()
		sigs = append(sigs, int(m[0])<<8|int(m[1]))
	}
	fmt.Fprintf(&b, "Definition g11_default_sigs : list N := %s.\n", genC11List(sigs))

	// every scheme id Algorithm.Unmarshal accepts: (id, (insecure hash, key types a DTLS 1.2 selection accepts,
	// key types a DTLS 1.3 selection accepts, CertificateVerify can encode it)); key types 1 Ed25519, 2 ECDSA, 3 RSA
	keys := []crypto.Signer{
		genC11Signer{ed25519.PublicKey{}}, genC11Signer{&ecdsa.PublicKey{}}, genC11Signer{&rsa.PublicKey{}},
	}
	b.WriteString("Definition g11_sigs : list (N * (bool * list N * list N * bool)) :=\n  [")
	first = true
	for id := 0; id <= 0xffff; id++ {
		var a signaturehash.Algorithm
		if a.Unmarshal(tls.SignatureScheme(id)) != nil {
			continue
		}
		var k12, k13 []int
		for i, k := range keys {
			if _, err := signaturehash.SelectSignatureScheme([]signaturehash.Algorithm{a}, k); err == nil {
				k12 = append(k12, i+1)
			}
			if _, err := signaturehash.SelectSignatureScheme13([]signaturehash.Algorithm{a}, k); err == nil {
				k13 = append(k13, i+1)
			}
		}
		cv := &handshake.MessageCertificateVerify{HashAlgorithm: a.Hash, SignatureAlgorithm: a.Signature, Signature: []byte{1}}
		_, cvErr := cv.Marshal()
		if !first {
			b.WriteString("; ")
		}
		first = false
		fmt.Fprintf(&b, "(%d, (%v, %s, %s, %v))", id, a.Hash.Insecure(), genC11List(k12), genC11List(k13), cvErr == nil)
	}
	b.WriteString("].\n")

	def("g11_auth_certificate", int(ciphersuite.AuthenticationTypeCertificate))
	def("g11_auth_psk", int(ciphersuite.AuthenticationTypePreSharedKey))
	def("g11_auth_anonymous", int(ciphersuite.AuthenticationTypeAnonymous))
	def("g11_kx_psk", int(ciphersuite.KeyExchangeAlgorithmPsk))
	def("g11_kx_ecdhe", int(ciphersuite.KeyExchangeAlgorithmEcdhe))
	def("g11_cert_ecdsa", int(clientcertificate.ECDSASign))
	def("g11_cert_rsa", int(clientcertificate.RSASign))
	def("g11_ems_request", int(dtlsconfig.RequestExtendedMasterSecret))
	def("g11_ems_require", int(dtlsconfig.RequireExtendedMasterSecret))
	def("g11_ems_disable", int(dtlsconfig.DisableExtendedMasterSecret))
	def("g11_auth_no_client_cert", int(dtlsconfig.NoClientCert))
	def("g11_auth_request_client_cert", int(dtlsconfig.RequestClientCert))
	def("g11_auth_require_any", int(dtlsconfig.RequireAnyClientCert))
	def("g11_auth_verify_if_given", int(dtlsconfig.VerifyClientCertIfGiven))
	def("g11_auth_require_and_verify", int(dtlsconfig.RequireAndVerifyClientCert))
	for _, a := range []struct {
		n string
		v alert.Description
	}{
		{"handshake_failure", alert.HandshakeFailure}, {"no_certificate", alert.NoCertificate},
		{"bad_certificate", alert.BadCertificate}, {"illegal_parameter", alert.IllegalParameter},
		{"protocol_version", alert.ProtocolVersion}, {"insufficient_security", alert.InsufficientSecurity},
		{"internal_error", alert.InternalError}, {"missing_extension", alert.MissingExtension},
		{"unsupported_extension", alert.UnsupportedExtension}, {"certificate_required", alert.CertificateRequired},
		{"no_application_protocol", alert.NoApplicationProtocol},
	} {
		def("g11_alert_"+a.n, int(a.v))
	}
	for _, e := range []struct {
		n string
		v extension.Type
	}{
		{"server_name", extension.TypeServerName}, {"supported_groups", extension.TypeSupportedGroups},
		{"point_formats", extension.TypeSupportedPointFormats}, {"signature_algorithms", extension.TypeSignatureAlgorithms},
		{"use_srtp", extension.TypeUseSRTP}, {"alpn", extension.TypeALPN}, {"ems", extension.TypeExtendedMasterSecret},
		{"supported_versions", extension.TypeSupportedVersions}, {"cookie", extension.TypeCookie},
		{"signature_algorithms_cert", extension.TypeSignatureAlgorithmsCert}, {"key_share", extension.TypeKeyShare},
		{"connection_id", extension.TypeConnectionID}, {"rrc", extension.TypeReturnRoutabilityCheck},
		{"renegotiation_info", extension.TypeRenegotiationInfo},
	} {
		def("g11_ext_"+e.n, int(e.v))
	}
	// version preference list of internal/config SupportedVersionsRange over the whole range (3 = DTLS 1.3, 2 = DTLS 1.2)
	var vs []int
	for _, v := range dtlsconfig.SupportedVersionsRange(protocol.Version1_2, protocol.Version1_3) {
		if v.Equal(protocol.Version1_3) {
			vs = append(vs, 3)
		} else if v.Equal(protocol.Version1_2) {
			vs = append(vs, 2)
		}
	}
	fmt.Fprintf(&b, "Definition g11_version_order : list N := %s.\n", genC11List(vs))

	if p := os.Getenv("VERIF_OUT"); p != "" {
		f, err := os.OpenFile(p, os.O_CREATE|os.O_WRONLY|os.O_APPEND, 0o600)
		if err != nil {
			t.Fatal(err)
		}
		defer f.Close() //nolint:errcheck
		if _, err := f.WriteString(b.String()); err != nil {
			t.Fatal(err)
		}
	}
}
