//go:build verif

package dtls

import (
	"fmt"
	"os"
	"strings"
	"testing"
)

// TestVerifGenFlights runs one fault-free handshake per variant on the scripted network and
// dumps, as Coq definitions (file Gen/GeneratedFlights.v), what each flight puts on the wire:
// the `cfg` instances over which the liveness theorems of Properties/C02.v are re-checked.
func TestVerifGenFlights(t *testing.T) {
	var b strings.Builder
	b.WriteString("(*@@ GeneratedFlights *)\n")
	flightNo := map[string]int{"F0": 1, "F1": 2, "F2": 3, "F3": 4, "F4": 5, "F4b": 6, "F5": 7, "F5b": 8, "F6": 9}
	var names []string
	for _, v := range c02Variants() {
		v := v
		var res c02Case
		vBubble(t, func(t *testing.T) { res = runC02(t, v, nil, c02Opt{}) })
		if !(res.CDone && res.SDone && res.CErr == "ok" && res.SErr == "ok") {
			fmt.Fprintf(&b, "(* variant %s: fault-free handshake did not complete: client=%q server=%q *)\n", v.Name, res.CErr, res.SErr)

			continue
		}
		// group consecutive emissions of one side (no delivery in between) into flights
		type group struct {
			side string
			dgs  [][]c02Rec
			open bool
		}
		var groups []*group
		for _, e := range res.Events {
			switch e.Ev {
			case "emit":
				if n := len(groups); n > 0 && groups[n-1].side == e.Side && groups[n-1].open {
					groups[n-1].dgs = append(groups[n-1].dgs, e.Recs)
				} else {
					groups = append(groups, &group{side: e.Side, dgs: [][]c02Rec{e.Recs}, open: true})
				}
			case "deliver", "drop":
				if n := len(groups); n > 0 {
					groups[n-1].open = false
				}
			}
		}
		maxms := map[string]int{"client": -1, "server": -1}
		flights := map[string][][]c02Rec{}
		finseq := map[string]int{}
		var order []string
		resumed := false
		for _, g := range groups {
			has := map[int]bool{}
			hasFin := false
			minCH := 1 << 30
			for _, d := range g.dgs {
				for _, r := range d {
					if (r.CT == 22 || r.CT == 25) && r.Epoch == 0 {
						has[r.HT] = true
						if r.HT == 1 && r.MSeq < minCH {
							minCH = r.MSeq
						}
						if r.MSeq > maxms[g.side] {
							maxms[g.side] = r.MSeq
						}
					}
					if r.Epoch >= 1 {
						hasFin = true
					}
				}
			}
			name := ""
			if g.side == "client" {
				switch {
				case has[1] && minCH == 0:
					name = "F1"
				case has[1]:
					name = "F3"
				case has[16]:
					name = "F5"
				default:
					name = "F5b"
				}
			} else {
				switch {
				case has[3]:
					name = "F2"
				case has[2] && hasFin:
					name, resumed = "F4b", true
				case has[2]:
					name = "F4"
				default:
					name = "F6"
				}
			}
			if hasFin {
				finseq[name] = maxms[g.side] + 1
			}
			if _, ok := flights[name]; !ok {
				flights[name] = g.dgs
				order = append(order, name)
			}
		}
		ident := "g_cfg_" + strings.ReplaceAll(v.Name, "-", "_")
		names = append(names, ident)
		fmt.Fprintf(&b, "Definition %s : cfg :=\n  {| c_hv := %v; c_psk := %v; c_resume := %v; c_initial := 1000%%N; c_backoff := true;\n     c_fl := [", ident, flights["F2"] != nil, v.PSK, resumed)
		for i, name := range order {
			if i > 0 {
				b.WriteString(";\n              ")
			}
			fmt.Fprintf(&b, "(%d, [", flightNo[name])
			for j, d := range flights[name] {
				if j > 0 {
					b.WriteString("; ")
				}
				b.WriteString("[")
				for k, r := range d {
					if k > 0 {
						b.WriteString("; ")
					}
					switch {
					case r.CT == 20:
						b.WriteString("CCS")
					case r.Epoch >= 1:
						fmt.Fprintf(&b, "Fin %d", finseq[name])
					default:
						fmt.Fprintf(&b, "Hs %d %d %d %d %d", r.HT, r.MSeq, r.FOff, r.FLen, r.TLen)
					}
				}
				b.WriteString("]")
			}
			b.WriteString("])")
		}
		b.WriteString("] |}.\n")
	}
	fmt.Fprintf(&b, "Definition g_cfg_names : list cfg := [%s].\n", strings.Join(names, "; "))
	if p := os.Getenv("VERIF_OUT"); p != "" {
		// several dumpers of one package share the output file: append
		f, err := os.OpenFile(p, os.O_CREATE|os.O_WRONLY|os.O_APPEND, 0o600)
		if err != nil {
			t.Fatal(err)
		}
		defer f.Close() //nolint:errcheck
		if _, err := f.WriteString(b.String()); err != nil {
			t.Fatal(err)
		}
	}
}
