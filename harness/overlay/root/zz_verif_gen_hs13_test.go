//go:build verif

// hs13 - DTLS 1.3 handshake machinery (properties C02 / C17 / C13, DTLS 1.3 part).
//
// This file holds (a) the scripted-network runner that produces fully classified event traces of
// real DTLS 1.3 client+server handshakes (every record of every datagram is opened with its
// sender's write keys, in-package) and (b) the dumper TestVerifGenHs13 that regenerates
// coq/theories/Gen/GeneratedHs13.v (flight structures, record sizes, per-flight flags of the
// current tree) on every run.  It only depends on the lab and on zz_verif_c02_test.go (variants).
package dtls

import (
	"bytes"
	"context"
	"fmt"
	"net"
	"os"
	"strings"
	"testing"
	"testing/synctest"
	"time"

	dtlsflight13 "github.com/pion/dtls/v3/internal/flight/flight13"
	"github.com/pion/dtls/v3/internal/negotiation"
	dtlsstate "github.com/pion/dtls/v3/internal/state"
	"github.com/pion/dtls/v3/pkg/crypto/elliptic"
	"github.com/pion/dtls/v3/pkg/protocol"
	"github.com/pion/dtls/v3/pkg/protocol/extension"
	extension13 "github.com/pion/dtls/v3/pkg/protocol/extension/dtls13"
	"github.com/pion/dtls/v3/pkg/protocol/handshake"
	"github.com/pion/dtls/v3/pkg/protocol/recordlayer"
)

// ---------------------------------------------------------------- variants

func hs13Variants() []c02Variant {
	return []c02Variant{
		{Name: "v13", V13: true},
		{Name: "v13-hrr", V13: true, HRR: true},
		{Name: "v13-direct", V13: true, SkipHV: true}, // no HelloRetryRequest at all
		{Name: "v13-clientauth", V13: true, ClientAuth: true},
		{Name: "v13-hrr-clientauth", V13: true, HRR: true, ClientAuth: true},
		{Name: "v13-hrr-mtu300", V13: true, HRR: true, MTU: 300}, // small hellos, fragmented server flight
		{Name: "v13-mtu300", V13: true, MTU: 300},
		// both final flights span several datagrams with WHOLE messages per datagram:
		// server [ServerHello, EncryptedExtensions, CertificateRequest] [Certificate] [CertificateVerify, Finished],
		// client [Certificate] [CertificateVerify, Finished]
		{Name: "v13-hrr-clientauth-mtu450", V13: true, HRR: true, ClientAuth: true, MTU: 450},
		{Name: "v13-mtu120", V13: true, MTU: 120},
		// key-share mismatch: the client offers X25519 and P-256 but sends a share for X25519 only, the server prefers
		// P-256: the HelloRetryRequest asks for another group AS WELL AS for the cookie
		{Name: "v13-ksm", V13: true, HRR: true},
		{Name: "v13-ksm-clientauth", V13: true, HRR: true, ClientAuth: true},
		// dual-stack client (MinVersion 1.2, MaxVersion 1.3): the version is negotiated before the state machine starts
		{Name: "v13-dualc", V13: true},                      // x dual-stack server
		{Name: "v13-dualc-direct", V13: true, SkipHV: true}, // x DTLS 1.3 only server that skips the cookie exchange
	}
}

// hs13Dual adjusts the version ranges of the dual-stack variants.
func hs13Dual(name string, c, s *dtlsConfig) {
	switch name {
	case "v13-ksm", "v13-ksm-clientauth":
		c.EllipticCurves = []elliptic.Curve{elliptic.X25519, elliptic.P256}
		s.EllipticCurves = []elliptic.Curve{elliptic.P256, elliptic.X25519}
		c.ClientHelloMessageHook = func(ch handshake.MessageClientHello) handshake.Message {
			for i, e := range ch.Extensions {
				if ks, ok := e.(*extension13.ClientKeyShare); ok && len(ks.Shares) > 1 {
					exts := append([]extension.Value(nil), ch.Extensions...)
					exts[i] = &extension13.ClientKeyShare{Shares: ks.Shares[:1]}
					ch.Extensions = exts
				}
			}

			return &ch
		}
	case "v13-dualc":
		c.MinVersion, s.MinVersion = protocol.Version1_2, protocol.Version1_2
	case "v13-dualc-direct":
		c.MinVersion = protocol.Version1_2
	}
}

func hs13Variant(name string) (c02Variant, bool) {
	for _, v := range hs13Variants() {
		if v.Name == name {
			return v, true
		}
	}

	return c02Variant{}, false
}

// ---------------------------------------------------------------- trace format

// One record of a datagram, opened.
type hs13Rec struct {
	K     string      `json:"k"` // hs | ack | alert | app | other
	E     int         `json:"e"` // epoch
	Seq   uint64      `json:"seq"`
	HT    int         `json:"ht"` // handshake type; a HelloRetryRequest is reported as 6
	MS    int         `json:"ms"`
	FO    int         `json:"fo"`
	FL    int         `json:"fl"`
	TL    int         `json:"tl"`
	Acks  [][2]uint64 `json:"acks,omitempty"`  // ACK: the acknowledged record numbers
	AckFr [][3]int    `json:"ackfr,omitempty"` // ACK: what those records carried (mseq, foff, flen); -1 = unknown record
	Size  int         `json:"sz"`              // bytes on the wire
	// cookie extension of the message this record belongs to (HelloRetryRequest: issued; ClientHello: echoed):
	// hex, "-" = no cookie extension, "" = not applicable / message not reassembled
	CK  string `json:"ck,omitempty"`
	GRP bool   `json:"grp,omitempty"` // HelloRetryRequest: asks for another key-share group
}

type hs13Event struct {
	Ev    string    `json:"ev"` // emit | deliver | drop | inject (a forged record handed to Side; Recs describes it)
	Idx   int       `json:"idx"`
	Side  string    `json:"side"` // emit: sender; deliver/drop: addressee
	T     int64     `json:"t"`
	Recs  []hs13Rec `json:"recs,omitempty"`
	Cause string    `json:"cause,omitempty"` // emit: "deliver" | "timer"
}

type hs13Case struct {
	Kind         string       `json:"kind"`
	Variant      string       `json:"variant"`
	Mask         []string     `json:"mask"`
	Events       []hs13Event  `json:"events"`
	CDone        bool         `json:"cdone"`
	SDone        bool         `json:"sdone"`
	CErr         string       `json:"cerr"`
	SErr         string       `json:"serr"`
	TDone        int64        `json:"tdone"`
	LastFault    int64        `json:"tfault"`
	DataOK       bool         `json:"data_ok"`
	Interval     int64        `json:"interval_ms"`
	NoBackoff    bool         `json:"no_backoff"`
	SilenceFrom  int          `json:"silence_from"`
	SilenceUntil int64        `json:"silence_until"`
	SilenceTo    string       `json:"silence_to"`
	ReverseTo    string       `json:"reverse_to"`
	Inject       []hs13Inject `json:"inject,omitempty"`
	ServerWrites int          `json:"server_writes,omitempty"`
	Forge        string       `json:"forge,omitempty"`
	ForgeAtMs    int64        `json:"forge_at,omitempty"`
	MTU          int          `json:"mtu"`
	Notes        []string     `json:"notes,omitempty"`
}

// hs13Inject: one epoch-0 handshake record that no endpoint sent (an off-path sender needs no key for
// it), delivered at a virtual time; times must be increasing.
type hs13Inject struct {
	AtMs int64  `json:"at"`
	To   string `json:"to"`
	HT   int    `json:"ht"`
	MS   int    `json:"ms"`
	FO   int    `json:"fo"`
	FL   int    `json:"fl"`
	TL   int    `json:"tl"`
	Seq  uint64 `json:"seq"`
}

func (i hs13Inject) raw() []byte {
	hh, err := (&handshake.Header{
		Type: handshake.Type(i.HT), Length: uint32(i.TL), MessageSequence: uint16(i.MS), //nolint:gosec
		FragmentOffset: uint32(i.FO), FragmentLength: uint32(i.FL), //nolint:gosec
	}).Marshal()
	if err != nil {
		panic(err)
	}
	body := append(hh, bytes.Repeat([]byte{0xAA}, i.FL)...)
	rh, err := (&recordlayer.Header{
		ContentType: protocol.ContentTypeHandshake, Version: protocol.Version1_2,
		SequenceNumber: i.Seq, ContentLen: uint16(len(body)), //nolint:gosec
	}).Marshal()
	if err != nil {
		panic(err)
	}

	return append(rh, body...)
}

type hs13Opt struct {
	Interval     time.Duration
	NoBackoff    bool
	SilenceFrom  int           // datagrams with global index >= SilenceFrom ...
	SilenceUntil time.Duration // ... emitted before this virtual time ...
	SilenceTo    string        // ... and addressed to this side ("client", "server", "both") are dropped
	ReverseTo    string        // every burst of datagrams towards this side ("client", "server", "both") arrives in reverse order
	Inject       []hs13Inject  // forged unprotected handshake fragments handed to one side at given virtual times
	ServerWrites int           // the server application writes this many records as soon as its handshake has returned
	Forge        string        // a second ClientHello nobody's client sent, built from the first one and the HelloRetryRequest on the wire:
	//                            cookie "absent" | "wrong" | "trunc" | "long" | "right" (same hello) | "altered" (right cookie, other random)
	ForgeAtMs int64
	Limit     time.Duration
}

// ---------------------------------------------------------------- opening records

type hs13Key struct {
	side  string
	epoch int
	seq   uint64
}

type hs13Classifier struct {
	lab     *vLab
	sent    map[hs13Key][3]int        // handshake record -> the fragment it carried
	isHRR   map[string]bool           // "side/mseq" -> the ServerHello with this message_seq is a HelloRetryRequest
	hello   map[string]map[int][]byte // ClientHello fragments: "side/mseq/length" -> offset -> bytes
	lastHRR *handshake.MessageServerHello
	notes   *[]string
}

func (c *hs13Classifier) note(f string, a ...any) {
	if len(*c.notes) < 20 {
		*c.notes = append(*c.notes, fmt.Sprintf(f, a...))
	}
}

func (c *hs13Classifier) hsRec(side string, epoch int, seq uint64, content []byte, size int) hs13Rec {
	out := hs13Rec{K: "hs", E: epoch, Seq: seq, Size: size}
	hh := handshake.Header{}
	if err := hh.Unmarshal(content); err != nil {
		out.K = "other"

		return out
	}
	out.HT, out.MS = int(hh.Type), int(hh.MessageSequence)
	out.FO, out.FL, out.TL = int(hh.FragmentOffset), int(hh.FragmentLength), int(hh.Length)
	if hh.Type == handshake.TypeServerHello {
		key := fmt.Sprintf("%s/%d", side, out.MS)
		body := content[handshake.HeaderLength:]
		if out.FO == 0 && len(body) >= 34 {
			c.isHRR[key] = bytes.Equal(body[2:34], handshake.HelloRetryRequestRandom())
		}
		if c.isHRR[key] {
			out.HT = 6
			if out.FO == 0 && out.FL == out.TL {
				sh := &handshake.MessageServerHello{}
				if err := sh.Unmarshal(body); err == nil {
					out.CK = "-"
					for _, e := range sh.Extensions {
						if ck, ok := e.(*extension13.Cookie); ok {
							out.CK = vHex(ck.Cookie)
						}
						if _, ok := e.(*extension13.RetryKeyShare); ok {
							out.GRP = true
						}
					}
					if side == "server" {
						c.lastHRR = sh
					}
				}
			}
		}
	}
	if hh.Type == handshake.TypeClientHello && epoch == 0 {
		key := fmt.Sprintf("%s/%d/%d", side, out.MS, out.TL)
		if c.hello[key] == nil {
			c.hello[key] = map[int][]byte{}
		}
		c.hello[key][out.FO] = bytes.Clone(content[handshake.HeaderLength : handshake.HeaderLength+out.FL])
	}
	c.sent[hs13Key{side, epoch, seq}] = [3]int{out.MS, out.FO, out.FL}

	return out
}

// helloCookie: the cookie extension of a reassembled ClientHello ("-" none, "" not complete / unreadable).
func (c *hs13Classifier) helloCookie(side string, ms, tl int) string {
	frs := c.hello[fmt.Sprintf("%s/%d/%d", side, ms, tl)]
	var full []byte
	for len(full) < tl {
		f, ok := frs[len(full)]
		if !ok || len(f) == 0 {
			return ""
		}
		full = append(full, f...)
	}
	ch := &handshake.MessageClientHello{}
	if err := ch.Unmarshal(full); err != nil {
		return ""
	}
	for _, e := range ch.Extensions {
		if ck, ok := e.(*extension13.Cookie); ok {
			return vHex(ck.Cookie)
		}
	}

	return "-"
}

// fillCookies labels every ClientHello record of the trace with the cookie its message carries.
func (c *hs13Classifier) fillCookies(res *hs13Case) {
	for i := range res.Events {
		e := &res.Events[i]
		if e.Ev != "emit" && e.Ev != "inject" {
			continue
		}
		side := e.Side
		if e.Ev == "inject" {
			side = "forged"
		}
		for j := range e.Recs {
			r := &e.Recs[j]
			if r.K == "hs" && r.HT == 1 && r.E == 0 && r.CK == "" {
				r.CK = c.helloCookie(side, r.MS, r.TL)
			}
		}
	}
}

func (c *hs13Classifier) open(side string, raw []byte) hs13Rec {
	out := hs13Rec{K: "other", Size: len(raw), HT: -1}
	rec := recordlayer.CiphertextRecord13{}
	if err := rec.Unmarshal(raw); err != nil {
		return out
	}
	st, ok := c.lab.peer(side).Conn.state.(*dtlsstate.State13)
	if !ok || st.TrafficKeys == nil {
		return out
	}
	for e := int(st.LocalEpoch()) + 1; e >= 2; e-- {
		if e&3 != int(rec.Header.EpochLow) {
			continue
		}
		gen, ok := st.TrafficKeys.Write(uint16(e))
		if !ok || gen.Protection == nil {
			continue
		}
		clear, err := gen.Protection.UnmaskSequenceNumber(rec.Header, rec.EncryptedRecord)
		if err != nil {
			continue
		}
		seq := uint64(clear.SequenceNumber) // fewer than 2^16 records per epoch in these runs
		inner, err := gen.Protection.Open(rec.Header, seq, rec.EncryptedRecord)
		if err != nil {
			continue
		}
		switch inner.RealType {
		case protocol.ContentTypeHandshake:
			return c.hsRec(side, e, seq, inner.Content, len(raw))
		case protocol.ContentTypeACK:
			out.K, out.E, out.Seq = "ack", e, seq
			ack := protocol.ACK{}
			if err := ack.Unmarshal(inner.Content); err != nil {
				out.K = "other"

				return out
			}
			other := "server"
			if side == "server" {
				other = "client"
			}
			out.Acks, out.AckFr = [][2]uint64{}, [][3]int{}
			for _, r := range ack.Records {
				out.Acks = append(out.Acks, [2]uint64{r.Epoch, r.SequenceNumber})
				fr, ok := c.sent[hs13Key{other, int(r.Epoch), r.SequenceNumber}]
				if !ok {
					fr = [3]int{-1, int(r.Epoch), int(r.SequenceNumber)}
					c.note("%s acknowledges (%d,%d), which is not a handshake record of its peer", side, r.Epoch, r.SequenceNumber)
				}
				out.AckFr = append(out.AckFr, fr)
			}

			return out
		case protocol.ContentTypeAlert:
			out.K, out.E, out.Seq = "alert", e, seq

			return out
		case protocol.ContentTypeApplicationData:
			out.K, out.E, out.Seq = "app", e, seq

			return out
		default:
			return out
		}
	}
	c.note("record from %s cannot be opened with its sender's keys", side)

	return out
}

func (c *hs13Classifier) classify(d vDatagram) []hs13Rec {
	pkts, err := recordlayer.UnpackDatagram13(d.Data, 0, false, true)
	if err != nil {
		c.note("datagram #%d from %s does not split into records: %v", d.Idx, d.From, err)

		return []hs13Rec{{K: "other", HT: -1, Size: len(d.Data)}}
	}
	var out []hs13Rec
	for _, p := range pkts {
		if len(p) == 0 {
			continue
		}
		if protocol.IsDTLS13Ciphertext(protocol.ContentType(p[0])) {
			out = append(out, c.open(d.From, p))

			continue
		}
		h := recordlayer.Header{}
		if err := h.Unmarshal(p); err != nil || len(p) < h.Size() {
			out = append(out, hs13Rec{K: "other", HT: -1, Size: len(p)})

			continue
		}
		switch h.ContentType {
		case protocol.ContentTypeHandshake:
			out = append(out, c.hsRec(d.From, int(h.Epoch), h.SequenceNumber, p[h.Size():], len(p)))
		case protocol.ContentTypeAlert:
			out = append(out, hs13Rec{K: "alert", E: int(h.Epoch), Seq: h.SequenceNumber, HT: -1, Size: len(p)})
		default:
			out = append(out, hs13Rec{K: "other", E: int(h.Epoch), Seq: h.SequenceNumber, HT: -1, Size: len(p)})
		}
	}

	return out
}

// ---------------------------------------------------------------- the scripted run

// hs13CappedEP: an endpoint of the scripted network that refuses to write more than hs13WriteCap datagrams: a
// transmission loop that never lets virtual time advance (a retransmission interval that overflowed to zero)
// then ends with a failed handshake instead of hanging the bubble.
type hs13CappedEP struct {
	*vEndpoint
	n int
}

const hs13WriteCap = 12000

func (e *hs13CappedEP) WriteTo(p []byte, addr net.Addr) (int, error) {
	e.n++
	if e.n > hs13WriteCap {
		_ = e.vEndpoint.Close()

		return 0, errVClosed
	}

	return e.vEndpoint.WriteTo(p, addr)
}

// hs13NewLab: newLab with capped endpoints.
func hs13NewLab(t *testing.T, ccfg, scfg *dtlsConfig) *vLab {
	t.Helper()
	n := newVNet()
	lab := &vLab{Net: n}
	cep := n.endpoint("client")
	sep := n.endpoint("server")
	cc, err := clientWithConfig(&hs13CappedEP{vEndpoint: cep}, vAddr("server"), ccfg)
	if err != nil {
		t.Fatalf("client: %v", err)
	}
	sc, err := serverWithConfig(&hs13CappedEP{vEndpoint: sep}, vAddr("client"), scfg)
	if err != nil {
		t.Fatalf("server: %v", err)
	}
	lab.Client = &vPeer{Name: "client", EP: cep, Conn: cc, Done: make(chan struct{})}
	lab.Server = &vPeer{Name: "server", EP: sep, Conn: sc, Done: make(chan struct{})}
	lab.Pump = &vPump{net: n}
	for _, p := range []*vPeer{lab.Client, lab.Server} {
		go func(p *vPeer) {
			p.Err = p.Conn.HandshakeContext(context.Background())
			close(p.Done)
		}(p)
	}

	return lab
}

// hs13ForgeCH2 builds, as a sender that has seen the wire would, the second ClientHello that answers the last
// HelloRetryRequest - with the cookie left out, replaced, cut, extended, or right (then optionally with another
// client random) - from the real client's first ClientHello, and frames it as unprotected records.
func hs13ForgeCH2(lab *vLab, cl *hs13Classifier, family string, mtu int) ([][]byte, error) {
	st, ok := lab.Client.Conn.state.(*dtlsstate.State13)
	if !ok {
		return nil, fmt.Errorf("client state is not DTLS 1.3")
	}
	if cl.lastHRR == nil {
		return nil, fmt.Errorf("no HelloRetryRequest seen yet")
	}
	initial := st.LocalClientHelloSnapshots.Initial()
	hrr := *cl.lastHRR
	var exts []extension.Value
	var issued []byte
	for _, e := range hrr.Extensions {
		if ck, ok := e.(*extension13.Cookie); ok {
			issued = bytes.Clone(ck.Cookie)

			continue
		}
		exts = append(exts, e)
	}
	var cookie []byte
	switch family {
	case "absent":
	case "wrong":
		cookie = bytes.Repeat([]byte{0x5a}, 20)
	case "trunc":
		if len(issued) < 2 {
			cookie = []byte{0x01}
		} else {
			cookie = bytes.Clone(issued[:len(issued)/2])
		}
	case "long":
		cookie = append(bytes.Clone(issued), 0x00)
	default: // right, altered
		cookie = bytes.Clone(issued)
	}
	if len(cookie) > 0 {
		exts = append(exts, &extension13.Cookie{Cookie: cookie})
	}
	hrr.Extensions = exts
	var ch *handshake.MessageClientHello
	req, err := negotiation.ValidateHelloRetryRequest(initial, &hrr)
	if err == nil {
		var fresh *extension13.KeyShareEntry
		if req.HasSelectedGroup {
			kp, kerr := elliptic.GenerateKeypair(req.SelectedGroup)
			if kerr != nil {
				return nil, kerr
			}
			fresh = &extension13.KeyShareEntry{Group: kp.Curve, KeyExchange: kp.PublicKey}
		}
		ch, err = negotiation.BuildClientHelloRetry(initial, req, fresh)
	} else {
		// a HelloRetryRequest that asks for nothing: the second hello repeats the first
		ch, err = negotiation.ClientHelloFromSnapshot(initial)
	}
	if err != nil {
		return nil, err
	}
	if family == "altered" {
		ch.Random.RandomBytes[0] ^= 0xff
	}
	body, err := ch.Marshal()
	if err != nil {
		return nil, err
	}
	var out [][]byte
	for off, n := 0, 0; off < len(body) || n == 0; n++ {
		end := off + mtu
		if end > len(body) {
			end = len(body)
		}
		hh, _ := (&handshake.Header{
			Type: handshake.TypeClientHello, Length: uint32(len(body)), MessageSequence: 1, //nolint:gosec
			FragmentOffset: uint32(off), FragmentLength: uint32(end - off), //nolint:gosec
		}).Marshal()
		payload := append(hh, body[off:end]...)
		rh, _ := (&recordlayer.Header{
			ContentType: protocol.ContentTypeHandshake, Version: protocol.Version1_2,
			SequenceNumber: uint64(900 + n), ContentLen: uint16(len(payload)), //nolint:gosec
		}).Marshal()
		out = append(out, append(rh, payload...))
		off = end
	}

	return out, nil
}

// runHs13: like runC02 (mask = action per emitted datagram index: pass | drop | dup | hold:k | late:ms, then
// reliable), with every record opened and blanket-silence options.
func runHs13(t *testing.T, v c02Variant, mask []string, opt hs13Opt) hs13Case {
	t.Helper()
	res := hs13Case{
		Kind: "hs13", Variant: v.Name, Mask: mask, Interval: opt.Interval.Milliseconds(), NoBackoff: opt.NoBackoff,
		SilenceFrom: opt.SilenceFrom, SilenceUntil: opt.SilenceUntil.Milliseconds(), SilenceTo: opt.SilenceTo, ReverseTo: opt.ReverseTo,
		Inject: opt.Inject, ServerWrites: opt.ServerWrites, Forge: opt.Forge, ForgeAtMs: opt.ForgeAtMs,
	}
	if res.Interval == 0 {
		res.Interval = 1000
	}
	ccfg, scfg := v.configs(nil, nil)
	hs13Dual(v.Name, ccfg, scfg)
	if opt.Interval > 0 {
		ccfg.FlightInterval, scfg.FlightInterval = opt.Interval, opt.Interval
	}
	ccfg.DisableRetransmitBackoff, scfg.DisableRetransmitBackoff = opt.NoBackoff, opt.NoBackoff
	lab := hs13NewLab(t, ccfg, scfg)
	defer lab.close()
	res.MTU = lab.Client.Conn.maximumTransmissionUnit
	cl := &hs13Classifier{lab: lab, sent: map[hs13Key][3]int{}, isHRR: map[string]bool{}, hello: map[string]map[int][]byte{}, notes: &res.Notes}
	emitted := 0
	logEmissions := func(cause string) {
		for _, d := range lab.Net.since(emitted) {
			res.Events = append(res.Events, hs13Event{
				Ev: "emit", Idx: d.Idx, Side: d.From, T: d.T.Milliseconds(), Recs: cl.classify(d), Cause: cause,
			})
			emitted = d.Idx + 1
		}
	}
	type held struct {
		d     vDatagram
		after int
	}
	var helds []held
	type late struct {
		d  vDatagram
		at time.Duration
	}
	var lates []late // kept sorted by release time
	injects := append([]hs13Inject(nil), opt.Inject...)
	forged := false
	delivered := 0
	wrote := false
	serverWrites := func() {
		if wrote || opt.ServerWrites == 0 || !lab.Server.handshakeDone() || lab.Server.Err != nil {
			return
		}
		wrote = true
		for i := 0; i < opt.ServerWrites; i++ {
			if _, err := lab.Server.Conn.Write([]byte(fmt.Sprintf("early-%d", i))); err != nil {
				cl.note("server write %d: %v", i, err)
			}
		}
		synctest.Wait()
		logEmissions("deliver")
	}
	deliver := func(d vDatagram) {
		res.Events = append(res.Events, hs13Event{Ev: "deliver", Idx: d.Idx, Side: d.To, T: lab.Net.now().Milliseconds()})
		lab.Net.deliver(d.To, d.From, d.Data)
		delivered++
		synctest.Wait()
		logEmissions("deliver")
		serverWrites()
	}
	next := 0
	limit := opt.Limit
	if limit == 0 {
		limit = 400 * time.Second
	}
	deadline := time.Now().Add(limit)
	for {
		synctest.Wait()
		logEmissions("timer")
		progressed := false
		burst := lab.Net.since(next)
		if opt.ReverseTo != "" {
			// reverse, in place, the sub-sequence of the burst addressed to the chosen side(s)
			var pos []int
			for i, d := range burst {
				if opt.ReverseTo == "both" || opt.ReverseTo == d.To {
					pos = append(pos, i)
				}
			}
			for i, j := 0, len(pos)-1; i < j; i, j = i+1, j-1 {
				burst[pos[i]], burst[pos[j]] = burst[pos[j]], burst[pos[i]]
			}
		}
		for _, d := range burst {
			if d.Idx+1 > next {
				next = d.Idx + 1
			}
			act := "pass"
			if d.Idx < len(mask) {
				act = mask[d.Idx]
			}
			if d.Idx >= opt.SilenceFrom && lab.Net.now() < opt.SilenceUntil && (opt.SilenceTo == "both" || opt.SilenceTo == d.To) {
				act = "drop"
			}
			switch {
			case act == "pass":
				deliver(d)
			case act == "drop":
				res.Events = append(res.Events, hs13Event{Ev: "drop", Idx: d.Idx, Side: d.To, T: lab.Net.now().Milliseconds()})
				res.LastFault = lab.Net.now().Milliseconds()
			case act == "dup":
				deliver(d)
				deliver(d)
				res.LastFault = lab.Net.now().Milliseconds()
			case strings.HasPrefix(act, "late:"): // delivered that many virtual milliseconds later
				ms := 0
				fmt.Sscanf(act, "late:%d", &ms)
				l := late{d: d, at: lab.Net.now() + time.Duration(ms)*time.Millisecond}
				i := len(lates)
				for i > 0 && lates[i-1].at > l.at {
					i--
				}
				lates = append(lates, late{})
				copy(lates[i+1:], lates[i:])
				lates[i] = l
			default: // hold:k
				k := 1
				fmt.Sscanf(act, "hold:%d", &k)
				helds = append(helds, held{d: d, after: delivered + k})
			}
			progressed = true
			for i := 0; i < len(helds); {
				if helds[i].after <= delivered {
					h := helds[i]
					helds = append(helds[:i], helds[i+1:]...)
					deliver(h.d)
					res.LastFault = lab.Net.now().Milliseconds()
				} else {
					i++
				}
			}
		}
		for len(lates) > 0 && lates[0].at <= lab.Net.now() {
			l := lates[0]
			lates = lates[1:]
			deliver(l.d)
			res.LastFault = lab.Net.now().Milliseconds()
			progressed = true
		}
		if opt.Forge != "" && !forged && time.Duration(opt.ForgeAtMs)*time.Millisecond <= lab.Net.now() {
			forged = true
			if raws, err := hs13ForgeCH2(lab, cl, opt.Forge, res.MTU); err != nil {
				cl.note("forge %s: %v", opt.Forge, err)
			} else {
				for _, data := range raws {
					d := vDatagram{Idx: -1, From: "forged", To: "server", Data: data}
					res.Events = append(res.Events, hs13Event{Ev: "inject", Idx: -1, Side: "server", T: lab.Net.now().Milliseconds(), Recs: cl.classify(d)})
					lab.Net.deliver("server", "client", data)
					synctest.Wait()
					logEmissions("deliver")
				}
				res.LastFault = lab.Net.now().Milliseconds()
				progressed = true
			}
		}
		for len(injects) > 0 && time.Duration(injects[0].AtMs)*time.Millisecond <= lab.Net.now() {
			in := injects[0]
			injects = injects[1:]
			data := in.raw()
			res.Events = append(res.Events, hs13Event{
				Ev: "inject", Idx: -1, Side: in.To, T: lab.Net.now().Milliseconds(),
				Recs: []hs13Rec{{K: "hs", E: 0, Seq: in.Seq, HT: in.HT, MS: in.MS, FO: in.FO, FL: in.FL, TL: in.TL, Size: len(data)}},
			})
			from := "client"
			if in.To == "client" {
				from = "server"
			}
			lab.Net.deliver(in.To, from, data)
			synctest.Wait()
			logEmissions("deliver")
			res.LastFault = lab.Net.now().Milliseconds()
			progressed = true
		}
		if lab.bothDone() && len(helds) == 0 && len(lates) == 0 && len(injects) == 0 && (opt.Forge == "" || forged) {
			break
		}
		if progressed {
			continue
		}
		if len(helds) > 0 {
			h := helds[0]
			helds = helds[1:]
			deliver(h.d)
			res.LastFault = lab.Net.now().Milliseconds()

			continue
		}
		if !time.Now().Before(deadline) {
			break
		}
		wait := time.Until(deadline)
		if len(lates) > 0 && lates[0].at-lab.Net.now() < wait {
			wait = lates[0].at - lab.Net.now()
		}
		if opt.Forge != "" && !forged && time.Duration(opt.ForgeAtMs)*time.Millisecond-lab.Net.now() < wait {
			wait = time.Duration(opt.ForgeAtMs)*time.Millisecond - lab.Net.now()
		}
		if len(injects) > 0 && time.Duration(injects[0].AtMs)*time.Millisecond-lab.Net.now() < wait {
			wait = time.Duration(injects[0].AtMs)*time.Millisecond - lab.Net.now()
		}
		tm := time.NewTimer(wait)
		select {
		case <-lab.Net.notify:
		case <-tm.C:
		}
		tm.Stop()
	}
	cl.fillCookies(&res)
	res.CDone, res.SDone = lab.Client.handshakeDone(), lab.Server.handshakeDone()
	if res.CDone {
		res.CErr = vErrString(lab.Client.Err)
	}
	if res.SDone {
		res.SErr = vErrString(lab.Server.Err)
	}
	res.TDone = lab.Net.now().Milliseconds()
	if lab.established() {
		lab.Client.startReader()
		lab.Server.startReader()
		_, e1 := lab.Client.Conn.Write([]byte("c2s"))
		_, e2 := lab.Server.Conn.Write([]byte("s2c"))
		p := &vPump{net: lab.Net, next: next}
		p.run(func() bool { return len(lab.Client.reads()) > 0 && len(lab.Server.reads()) > 0 }, 5*time.Second)
		res.DataOK = e1 == nil && e2 == nil && len(lab.Client.reads()) > 0 && len(lab.Server.reads()) > 0
	}

	return res
}

// ---------------------------------------------------------------- dumper

// hs13FlightOf: which flight of internal/flight/flight13 a handshake record belongs to
// (numbered as flight13.Flight; 7 = the server's post-handshake NewSessionTicket).
func hs13FlightOf(side string, r hs13Rec) int {
	if side == "client" {
		switch {
		case r.HT == 1 && r.MS == 0:
			return int(dtlsflight13.Flight1)
		case r.HT == 1:
			return int(dtlsflight13.Flight3)
		default:
			return int(dtlsflight13.Flight5)
		}
	}
	switch {
	case r.HT == 6:
		return int(dtlsflight13.Flight2)
	case r.HT == 4:
		return 7
	default:
		return int(dtlsflight13.Flight4)
	}
}

// TestVerifGenHs13 dumps, as plain Coq data (file Gen/GeneratedHs13.v): the per-flight flags of
// internal/flight/flight13 and, per variant, the MTU and every handshake record of each flight of a
// fault-free run (epoch, type, message_seq, fragment range, total length, bytes on the wire).
func TestVerifGenHs13(t *testing.T) {
	var b strings.Builder
	b.WriteString("(*@@ GeneratedHs13 *)\n")
	b.WriteString("(* (flight, retransmitted on a timer, last flight sent, last flight received) *)\n")
	b.WriteString("Definition g13_flags : list (N * bool * bool * bool) := [")
	for f := dtlsflight13.Flight0; f <= dtlsflight13.Flight5; f++ {
		_, retransmit, ok := dtlsflight13.GetGenerator(f)
		if f > dtlsflight13.Flight0 {
			b.WriteString("; ")
		}
		fmt.Fprintf(&b, "(%d, %v, %v, %v)", int(f), retransmit && ok, f.IsLastSendFlight(), f.IsLastRecvFlight())
	}
	b.WriteString("].\n")
	var names []string
	for _, v := range hs13Variants() {
		v := v
		var res hs13Case
		vBubble(t, func(t *testing.T) { res = runHs13(t, v, nil, hs13Opt{Limit: 50 * time.Second}) })
		ident := "g13_" + strings.ReplaceAll(v.Name, "-", "_")
		if !(res.CDone && res.SDone && res.CErr == "ok" && res.SErr == "ok") {
			fmt.Fprintf(&b, "(* variant %s: fault-free handshake did not complete: client=%q server=%q *)\n", v.Name, res.CErr, res.SErr)

			continue
		}
		type key struct {
			side       string
			ms, fo, fl int
		}
		seen := map[key]bool{}
		flights := map[int][]hs13Rec{}
		var order []int
		for _, e := range res.Events {
			if e.Ev != "emit" {
				continue
			}
			for _, r := range e.Recs {
				if r.K != "hs" {
					continue
				}
				k := key{e.Side, r.MS, r.FO, r.FL}
				if seen[k] {
					continue
				}
				seen[k] = true
				f := hs13FlightOf(e.Side, r)
				if _, ok := flights[f]; !ok {
					order = append(order, f)
				}
				flights[f] = append(flights[f], r)
			}
		}
		_, hrr := flights[int(dtlsflight13.Flight2)]
		fmt.Fprintf(&b, "(* variant %s: (MTU, server answers the first ClientHello with a HelloRetryRequest,\n   [(flight, [(epoch, type, message_seq, fragment_offset, fragment_length, length, bytes on the wire)])]) *)\n", v.Name)
		fmt.Fprintf(&b, "Definition %s : N * bool * list (N * list (N * N * N * N * N * N * N)) :=\n  (%d, %v,\n   [", ident, res.MTU, hrr)
		for i, f := range order {
			if i > 0 {
				b.WriteString(";\n    ")
			}
			fmt.Fprintf(&b, "(%d, [", f)
			for j, r := range flights[f] {
				if j > 0 {
					b.WriteString("; ")
				}
				fmt.Fprintf(&b, "(%d, %d, %d, %d, %d, %d, %d)", r.E, r.HT, r.MS, r.FO, r.FL, r.TL, r.Size)
			}
			b.WriteString("])")
		}
		b.WriteString("]).\n")
		names = append(names, ident)
	}
	fmt.Fprintf(&b, "Definition g13_all := [%s].\n", strings.Join(names, "; "))
	if p := os.Getenv("VERIF_OUT"); p != "" {
		f, err := os.OpenFile(p, os.O_CREATE|os.O_WRONLY|os.O_APPEND, 0o600)
		if err != nil {
			t.Fatal(err)
		}
		defer f.Close() //nolint:errcheck
		if _, err := f.WriteString(b.String()); err != nil {
			t.Fatal(err)
		}
	} else {
		fmt.Print(b.String())
	}
}
