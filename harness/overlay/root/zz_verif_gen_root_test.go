//go:build verif

package dtls

import (
	"fmt"
	"os"
	"strings"
	"testing"

	"github.com/pion/dtls/v3/internal/ciphersuite"
	dtlsflight12 "github.com/pion/dtls/v3/internal/flight/flight12"
	dtlsflight13 "github.com/pion/dtls/v3/internal/flight/flight13"
	"github.com/pion/dtls/v3/pkg/protocol"
	"github.com/pion/dtls/v3/pkg/protocol/alert"
	"github.com/pion/dtls/v3/pkg/protocol/handshake"
	"github.com/pion/dtls/v3/pkg/protocol/recordlayer"
)

// TestVerifGenRoot dumps declarative facts of the current tree as Coq definitions
// (tie 1 of DESIGN.md: theorems are proved against these regenerated definitions).
func TestVerifGenRoot(t *testing.T) {
	var b strings.Builder
	b.WriteString("(*@@ Generated *)\n")
	def := func(name string, v any) { fmt.Fprintf(&b, "Definition %s : N := %v.\n", name, v) }
	def("g_default_replay_window", defaultReplayProtectionWindow)
	def("g_max_queue", maxAppDataPacketQueueSize)
	def("g_inbound_buffer", inboundBufferSize)
	def("g_default_mtu", defaultMTU)
	def("g_max_sequence_number", uint64(recordlayer.MaxSequenceNumber))
	def("g_fixed_header_size", recordlayer.FixedHeaderSize)
	def("g_handshake_header_length", handshake.HeaderLength)
	def("g_eff_window_63", effectiveReplayProtectionWindow(63))
	def("g_eff_window_64", effectiveReplayProtectionWindow(64))
	def("g_eff_window_1", effectiveReplayProtectionWindow(1))
	def("g_eff_window_0", effectiveReplayProtectionWindow(0))
	def("g_eff_window_100", effectiveReplayProtectionWindow(100))
	def("g_ct_change_cipher_spec", int(protocol.ContentTypeChangeCipherSpec))
	def("g_ct_alert", int(protocol.ContentTypeAlert))
	def("g_ct_handshake", int(protocol.ContentTypeHandshake))
	def("g_ct_application_data", int(protocol.ContentTypeApplicationData))
	def("g_ct_connection_id", int(protocol.ContentTypeConnectionID))
	def("g_ct_ack", int(protocol.ContentTypeACK))
	def("g_ct_rrc", int(protocol.ContentTypeReturnRoutabilityCheck))
	def("g_alert_warning", int(alert.Warning))
	def("g_alert_fatal", int(alert.Fatal))
	def("g_alert_close_notify", int(alert.CloseNotify))
	def("g_epoch13_handshake", int(dtlsflight13.EpochHandshake))
	def("g_epoch13_application", int(dtlsflight13.EpochApplication))
	def("g_version12", int(protocol.Version1_2.Major)<<8|int(protocol.Version1_2.Minor))
	def("g_version13", int(protocol.Version1_3.Major)<<8|int(protocol.Version1_3.Minor))
	def("g_version10", int(protocol.Version1_0.Major)<<8|int(protocol.Version1_0.Minor))

	// handshake types
	hts := []struct {
		n string
		v handshake.Type
	}{
		{"hello_request", handshake.TypeHelloRequest}, {"client_hello", handshake.TypeClientHello},
		{"server_hello", handshake.TypeServerHello}, {"hello_verify_request", handshake.TypeHelloVerifyRequest},
		{"certificate", handshake.TypeCertificate}, {"server_key_exchange", handshake.TypeServerKeyExchange},
		{"certificate_request", handshake.TypeCertificateRequest}, {"server_hello_done", handshake.TypeServerHelloDone},
		{"certificate_verify", handshake.TypeCertificateVerify}, {"client_key_exchange", handshake.TypeClientKeyExchange},
		{"finished", handshake.TypeFinished},
	}
	for _, h := range hts {
		def("g_ht_"+h.n, int(h.v))
	}

	// DTLS 1.2 flight table: (flight number, generator present, retransmit flag, last send, last recv)
	fmt.Fprintf(&b, "Definition g_flights12 : list (N * bool * bool * bool * bool) :=\n  [")
	for f := dtlsflight12.Flight(0); f <= 12; f++ {
		_, retransmit, ok := dtlsflight12.GetGenerator(f)
		if f > 0 {
			b.WriteString("; ")
		}
		fmt.Fprintf(&b, "(%d, %v, %v, %v, %v)", int(f), ok, retransmit, f.IsLastSendFlight(), f.IsLastRecvFlight())
	}
	b.WriteString("].\n")
	for _, f := range []struct {
		n string
		v dtlsflight12.Flight
	}{
		{"0", dtlsflight12.Flight0}, {"1", dtlsflight12.Flight1}, {"2", dtlsflight12.Flight2},
		{"3", dtlsflight12.Flight3}, {"4", dtlsflight12.Flight4}, {"4b", dtlsflight12.Flight4b},
		{"5", dtlsflight12.Flight5}, {"5b", dtlsflight12.Flight5b}, {"6", dtlsflight12.Flight6},
	} {
		def("g_flight12_"+f.n, int(f.v))
	}

	// cipher suites: (id, authentication type, key exchange algorithm, is 1.3 suite)
	fmt.Fprintf(&b, "Definition g_suites : list (N * N * N * bool) :=\n  [")
	first := true
	for id := 0; id <= 0xffff; id++ {
		s := ciphersuite.ForID(ciphersuite.ID(id), nil)
		if s == nil {
			continue
		}
		if !first {
			b.WriteString("; ")
		}
		first = false
		fmt.Fprintf(&b, "(%d, %d, %d, %v)", id, int(s.AuthenticationType()), int(s.KeyExchangeAlgorithm()),
			ciphersuite.IDSupportsVersion(ciphersuite.ID(id), protocol.Version1_3))
	}
	b.WriteString("].\n")
	def("g_auth_certificate", int(ciphersuite.AuthenticationTypeCertificate))
	def("g_auth_psk", int(ciphersuite.AuthenticationTypePreSharedKey))
	def("g_kx_psk", int(ciphersuite.KeyExchangeAlgorithmPsk))
	def("g_kx_ecdhe", int(ciphersuite.KeyExchangeAlgorithmEcdhe))

	if p := os.Getenv("VERIF_OUT"); p != "" {
		// several dumpers of one package share the output file: append
		f, err := os.OpenFile(p, os.O_CREATE|os.O_WRONLY|os.O_APPEND, 0o600)
		if err != nil {
			t.Fatal(err)
		}
		defer f.Close() //nolint:errcheck
		if _, err := f.WriteString(b.String()); err != nil {
			t.Fatal(err)
		}
	}
}
