//go:build verif

// hs13 - DTLS 1.3 handshake machinery: test entry points (runner in zz_verif_gen_hs13_test.go).
package dtls

import (
	"fmt"
	"github.com/pion/logging"
	"math"
	"os"
	"strings"
	"testing"
	"time"
)

func hs13PrintCase(res hs13Case) {
	for _, e := range res.Events {
		fmt.Printf("%7d %-8s #%-3d %-6s %-7s", e.T, e.Ev, e.Idx, e.Side, e.Cause)
		for _, r := range e.Recs {
			switch r.K {
			case "hs":
				fmt.Printf(" [e%d s%d hs%d m%d %d+%d/%d %dB]", r.E, r.Seq, r.HT, r.MS, r.FO, r.FL, r.TL, r.Size)
			case "ack":
				fmt.Printf(" [e%d s%d ACK %v = %v]", r.E, r.Seq, r.Acks, r.AckFr)
			default:
				fmt.Printf(" [e%d s%d %s]", r.E, r.Seq, r.K)
			}
		}
		fmt.Println()
	}
	fmt.Printf("cdone=%v cerr=%q sdone=%v serr=%q t=%d data=%v mtu=%d notes=%v\n", res.CDone, res.CErr, res.SDone, res.SErr, res.TDone, res.DataOK, res.MTU, res.Notes)
}

// TestVerifHs13Dbg: VERIF_DBG="variant|mask,mask,...|interval_ms|nobackoff|silfrom|siluntil_ms|silto" prints one run.
func TestVerifHs13Dbg(t *testing.T) {
	spec := os.Getenv("VERIF_DBG")
	if spec == "" {
		t.Skip()
	}
	parts := strings.Split(spec, "|")
	for len(parts) < 7 {
		parts = append(parts, "")
	}
	var mask []string
	if parts[1] != "" {
		mask = strings.Split(parts[1], ",")
	}
	var opt hs13Opt
	var ms int64
	if _, err := fmt.Sscanf(parts[2], "%d", &ms); err == nil {
		opt.Interval = time.Duration(ms) * time.Millisecond
	}
	opt.NoBackoff = parts[3] == "1"
	fmt.Sscanf(parts[4], "%d", &opt.SilenceFrom)
	if _, err := fmt.Sscanf(parts[5], "%d", &ms); err == nil {
		opt.SilenceUntil = time.Duration(ms) * time.Millisecond
	}
	opt.SilenceTo = parts[6]
	opt.Limit = 200 * time.Second
	if os.Getenv("VERIF_DBG_LOG") != "" {
		c02ConfigHook = func(c, s *dtlsConfig) {
			c.LoggerFactory = hs13DbgFactory{"C"}
			s.LoggerFactory = hs13DbgFactory{"S"}
		}
		defer func() { c02ConfigHook = nil }()
	}
	for _, f := range strings.Split(os.Getenv("VERIF_DBG_INJECT"), ",") {
		var in hs13Inject
		if n, _ := fmt.Sscanf(strings.ReplaceAll(f, ":", " "), "%d %s %d %d %d %d %d %d", &in.AtMs, &in.To, &in.HT, &in.MS, &in.FO, &in.FL, &in.TL, &in.Seq); n == 8 {
			opt.Inject = append(opt.Inject, in)
		}
	}
	if f := os.Getenv("VERIF_DBG_FORGE"); f != "" { // "family:at_ms"
		fmt.Sscanf(strings.ReplaceAll(f, ":", " "), "%s %d", &opt.Forge, &opt.ForgeAtMs)
	}
	v, ok := hs13Variant(parts[0])
	if !ok {
		t.Fatalf("unknown variant %q", parts[0])
	}
	if m := os.Getenv("VERIF_DBG_MTU"); m != "" {
		fmt.Sscanf(m, "%d", &v.MTU)
	}
	var res hs13Case
	vBubble(t, func(t *testing.T) { res = runHs13(t, v, mask, opt) })
	hs13PrintCase(res)
}

// ---- logger for debugging runs

type hs13DbgLogger struct{ scope string }

func (l *hs13DbgLogger) p(lv, f string, a ...any) {
	fmt.Printf("      [%s %s] %s\n", l.scope, lv, fmt.Sprintf(f, a...))
}
func (l *hs13DbgLogger) Trace(m string)            { l.p("T", "%s", m) }
func (l *hs13DbgLogger) Tracef(f string, a ...any) { l.p("T", f, a...) }
func (l *hs13DbgLogger) Debug(m string)            { l.p("D", "%s", m) }
func (l *hs13DbgLogger) Debugf(f string, a ...any) { l.p("D", f, a...) }
func (l *hs13DbgLogger) Info(m string)             { l.p("I", "%s", m) }
func (l *hs13DbgLogger) Infof(f string, a ...any)  { l.p("I", f, a...) }
func (l *hs13DbgLogger) Warn(m string)             { l.p("W", "%s", m) }
func (l *hs13DbgLogger) Warnf(f string, a ...any)  { l.p("W", f, a...) }
func (l *hs13DbgLogger) Error(m string)            { l.p("E", "%s", m) }
func (l *hs13DbgLogger) Errorf(f string, a ...any) { l.p("E", f, a...) }

type hs13DbgFactory struct{ side string }

func (f hs13DbgFactory) NewLogger(scope string) logging.LeveledLogger {
	return &hs13DbgLogger{scope: f.side + "/" + scope}
}

// ---------------------------------------------------------------- fault masks (C02 leg)

var hs13Acts = []string{"pass", "drop", "dup", "hold:1", "hold:3"} //nolint:gochecknoglobals

func hs13Single(i int, a string) []string {
	m := make([]string, i+1)
	for j := range m {
		m[j] = "pass"
	}
	m[i] = a

	return m
}

type hs13Job struct {
	v    c02Variant
	mask []string
	opt  hs13Opt
}

func hs13Only(jobs []hs13Job) []hs13Job {
	only := os.Getenv("VERIF_HS13_ONLY") // "variant" or "variant|mask,mask"
	if only == "" {
		return jobs
	}
	parts := strings.SplitN(only, "|", 2)
	var out []hs13Job
	for _, j := range jobs {
		if j.v.Name != parts[0] {
			continue
		}
		if len(parts) > 1 && strings.Join(j.mask, ",") != parts[1] {
			continue
		}
		out = append(out, j)
	}

	return out
}

func hs13RunJobs(t *testing.T, jobs []hs13Job, kind string) {
	out := newVOut(t)
	for _, j := range hs13Only(jobs) {
		j := j
		var res hs13Case
		vBubble(t, func(t *testing.T) { res = runHs13(t, j.v, j.mask, j.opt) })
		res.Kind = kind
		out.emit(res)
	}
}

// TestVerifHs13Masks: every variant fault-free and under every single fault over the first
// datagrams; every small mask on the base variants; seeded random longer masks.
func TestVerifHs13Masks(t *testing.T) {
	rng := newVRand(vSeed() ^ 0x4513)
	variants := hs13Variants()
	var jobs []hs13Job
	opt := hs13Opt{Limit: 200 * time.Second}
	nSingle := 14
	for _, v := range variants {
		jobs = append(jobs, hs13Job{v, nil, opt})
		for i := 0; i < nSingle; i++ {
			for _, a := range hs13Acts[1:] {
				jobs = append(jobs, hs13Job{v, hs13Single(i, a), opt})
			}
		}
	}
	n := 3
	if vIsThorough() {
		n = 5
	}
	for _, v := range variants[:2] {
		total := 1
		for i := 0; i < n; i++ {
			total *= len(hs13Acts)
		}
		for code := 0; code < total; code++ {
			m := make([]string, n)
			c := code
			for i := range m {
				m[i] = hs13Acts[c%len(hs13Acts)]
				c /= len(hs13Acts)
			}
			jobs = append(jobs, hs13Job{v, m, opt})
		}
	}
	// a datagram overtaken by its own retransmission (delivered 1.5 s / 3.5 s late), alone ...
	for _, v := range variants {
		for i := 0; i < 10; i++ {
			jobs = append(jobs, hs13Job{v, hs13Single(i, "late:1500"), opt})
			if i%2 == 0 || vIsThorough() {
				jobs = append(jobs, hs13Job{v, hs13Single(i, "late:3500"), opt})
			}
		}
	}
	// ... and followed by a loss
	for _, v := range variants[:2] {
		for i := 0; i < 8; i++ {
			for j := i + 1; j < 10; j++ {
				m := hs13Single(j, "drop")
				m[i] = "late:1500"
				jobs = append(jobs, hs13Job{v, m, opt})
			}
		}
	}
	// multi-datagram final flights: every single datagram and every pair of datagrams of the server flight and of
	// the client's final flight lost or late (the peer acknowledges the part it received)
	if v, ok := hs13Variant("v13-hrr-clientauth-mtu450"); ok {
		c := hs13Canon(t, v)
		idx := append(hs13Find(c, hs13IsServerFlight4), hs13Find(c, hs13IsClientFinal)...)
		for a := 0; a < len(idx); a++ {
			for _, act := range []string{"drop", "late:1500", "hold:3"} {
				jobs = append(jobs, hs13Job{v, hs13MaskAt(idx[a:a+1], act), opt})
			}
			for b := a + 1; b < len(idx); b++ {
				jobs = append(jobs, hs13Job{v, hs13MaskAt([]int{idx[a], idx[b]}, "drop"), opt})
				m := hs13MaskAt([]int{idx[a], idx[b]}, "drop")
				m[idx[a]] = "late:1500"
				jobs = append(jobs, hs13Job{v, m, opt})
			}
		}
	}
	// every pair of faults (drop or long delay) over the first datagrams of the base variants
	np := 10
	if vIsThorough() {
		np = 14
	}
	for _, v := range variants[:2] {
		for i := 0; i < np; i++ {
			for j := i + 1; j < np; j++ {
				for _, a := range []string{"drop", "hold:3"} {
					for _, b := range []string{"drop", "hold:3"} {
						m := hs13Single(j, b)
						m[i] = a
						jobs = append(jobs, hs13Job{v, m, opt})
					}
				}
			}
		}
	}
	nr := 60
	if vIsThorough() {
		nr = 3000
	}
	for i := 0; i < nr; i++ {
		v := variants[rng.intn(len(variants))]
		l := 4 + rng.intn(16)
		m := make([]string, l)
		for j := range m {
			switch {
			case rng.chance(65):
				m[j] = "pass"
			case rng.chance(15):
				m[j] = []string{"late:500", "late:1500", "late:3500"}[rng.intn(3)]
			default:
				m[j] = hs13Acts[1+rng.intn(len(hs13Acts)-1)]
			}
		}
		jobs = append(jobs, hs13Job{v, m, opt})
	}
	// the server application writes 3 records as soon as its handshake has returned, while its ACK of the client's
	// final flight and its NewSessionTicket are lost / late / only the ACK is lost / nothing is lost: the client
	// receives application data before it knows that its final flight arrived
	for vi, v := range variants {
		if !vIsThorough() && vi%2 == 1 {
			continue
		}
		fin := hs13Find(hs13Canon(t, v), hs13IsServerFinalAck)
		early := hs13Opt{ServerWrites: 3, Limit: 200 * time.Second}
		if len(fin) == 0 { // the fault-free run of this variant does not get that far: judged by the plain masks
			jobs = append(jobs, hs13Job{v, nil, early})

			continue
		}
		jobs = append(jobs, hs13Job{v, nil, early}, hs13Job{v, hs13MaskAt(fin, "drop"), early},
			hs13Job{v, hs13MaskAt(fin, "late:1500"), early}, hs13Job{v, hs13MaskAt(fin[:1], "drop"), early})
	}
	// the client's final flight is lost and a forged unprotected handshake fragment (an unused message_seq)
	// reaches the client while it waits for the acknowledgement: the flight must stay unacknowledged
	for vi, v := range variants {
		if !vIsThorough() && vi%2 == 1 {
			continue
		}
		lost := hs13MaskAt(hs13Find(hs13Canon(t, v), hs13IsClientFinal), "drop")
		forged := []hs13Inject{{AtMs: 300, To: "client", HT: 20, MS: 200, FO: 0, FL: 1, TL: 32, Seq: 500}}
		jobs = append(jobs, hs13Job{v, lost, hs13Opt{Inject: forged, Limit: 200 * time.Second}})
	}
	hs13RunJobs(t, jobs, "hs13-masks")
}

// TestVerifHs13Timed (C17 leg): initial interval 10 ms / 1 s / 40 s, backoff on and off; every
// datagram towards one side or both dropped from datagram #k on until a virtual deadline (the
// silent side's peer keeps retransmitting on its timer: interval law up to the 60 s cap; the side
// that still receives sees nothing but stale flights: emission bound), then reliable.
func TestVerifHs13Timed(t *testing.T) {
	rng := newVRand(vSeed() ^ 0x451317)
	variants := hs13Variants()
	var jobs []hs13Job
	type tim struct {
		iv time.Duration
		nb bool
	}
	tims := []tim{{0, false}, {10 * time.Millisecond, false}, {40 * time.Second, false}, {0, true}, {250 * time.Millisecond, true}}
	// the dual-stack client repeats its ClientHello during version negotiation on the configured schedule
	for _, name := range []string{"v13-dualc", "v13-dualc-direct"} {
		v, _ := hs13Variant(name)
		for _, tm := range tims {
			sil := 300 * time.Second
			if tm.nb {
				sil = 12 * time.Second
			}
			for _, to := range []string{"client", "both"} {
				jobs = append(jobs, hs13Job{v, nil, hs13Opt{
					Interval: tm.iv, NoBackoff: tm.nb, SilenceUntil: sil, SilenceTo: to, Limit: sil + 400*time.Second,
				}})
			}
		}
	}
	// an interval configured above the 60 s cap is never shortened, with and without backoff
	for _, nb := range []bool{false, true} {
		for vi, v := range variants {
			if !vIsThorough() && vi >= 3 {
				continue
			}
			for _, to := range []string{"client", "server"} {
				jobs = append(jobs, hs13Job{v, nil, hs13Opt{
					Interval: 90 * time.Second, NoBackoff: nb, SilenceFrom: []int{0, 5}[vi%2], SilenceUntil: 300 * time.Second, SilenceTo: to,
					Limit: 800 * time.Second,
				}})
			}
		}
	}
	// the largest interval there is: the server's flight is lost, nothing will ever be retransmitted; one stale
	// ClientHello fragment reaches the server half a second later: no retransmission loop
	for vi, v := range variants {
		if !vIsThorough() && vi >= 3 {
			continue
		}
		lost := hs13MaskAt(hs13Find(hs13Canon(t, v), hs13IsServerFlight4), "drop")
		stale := []hs13Inject{{AtMs: 500, To: "server", HT: 1, MS: 0, FO: 0, FL: 10, TL: 1563, Seq: 70}}
		for _, nb := range []bool{false, true} {
			jobs = append(jobs, hs13Job{v, lost, hs13Opt{Interval: time.Duration(math.MaxInt64), NoBackoff: nb, Inject: stale, Limit: 5 * time.Second}})
		}
	}
	// a forged unprotected fragment while the client waits for the acknowledgement of its (lost) final flight
	// must not stop the retransmission of that flight
	for vi, v := range variants {
		if !vIsThorough() && vi >= 4 {
			continue
		}
		lost := hs13MaskAt(hs13Find(hs13Canon(t, v), hs13IsClientFinal), "drop")
		for _, iv := range []time.Duration{0, 50 * time.Millisecond} {
			at := int64(300)
			if iv > 0 {
				at = 20
			}
			forged := []hs13Inject{{AtMs: at, To: "client", HT: 20, MS: 200, FO: 0, FL: 1, TL: 32, Seq: 500}}
			jobs = append(jobs, hs13Job{v, lost, hs13Opt{
				Interval: iv, Inject: forged, SilenceFrom: len(lost), SilenceUntil: 4 * time.Second, SilenceTo: "both", Limit: 300 * time.Second,
			}})
		}
	}
	// ONE identical handshake fragment of a message that is not assembled yet (message_seq 40), repeated every
	// 400 ms while the peer is silent: every copy is "new data"
	for vi, v := range variants {
		if !vIsThorough() && vi >= 2 {
			continue
		}
		for _, to := range []string{"client", "server"} {
			var rep []hs13Inject
			for k := 0; k < 45; k++ {
				rep = append(rep, hs13Inject{AtMs: int64(1200 + 400*k), To: to, HT: 2, MS: 40, FO: 0, FL: 1, TL: 32, Seq: uint64(600 + k)})
			}
			other := "server"
			from := 0
			if to == "server" {
				other = "client"
				from = len(hs13FirstFlight(t, v)) + 1 // the server has answered once; then the client is silent
			}
			jobs = append(jobs, hs13Job{v, nil, hs13Opt{
				Inject: rep, SilenceFrom: from, SilenceUntil: 20 * time.Second, SilenceTo: "both", Limit: 300 * time.Second,
			}})
			_ = other
		}
	}
	sils := []time.Duration{3500 * time.Millisecond, 70 * time.Second, 300 * time.Second}
	froms := []int{0, 2, 3, 5, 7, 8}
	for _, tm := range tims {
		for _, to := range []string{"client", "server", "both"} {
			for _, from := range froms {
				sil := sils[rng.intn(len(sils))]
				if from == 0 {
					sil = 300 * time.Second
				}
				if tm.nb { // constant interval: keep the number of expiries moderate
					sil = []time.Duration{3500 * time.Millisecond, 12 * time.Second}[rng.intn(2)]
				}
				for vi, v := range variants {
					if !vIsThorough() && vi >= 2 && (from+vi+len(to))%3 != 0 {
						continue
					}
					jobs = append(jobs, hs13Job{v, nil, hs13Opt{
						Interval: tm.iv, NoBackoff: tm.nb, SilenceFrom: from, SilenceUntil: sil, SilenceTo: to,
						Limit: sil + 400*time.Second,
					}})
				}
			}
		}
	}
	// reordering: every burst towards one side (or both) arrives in reverse order, alone and
	// combined with a silence (stale records then arrive behind newer ones)
	for _, to := range []string{"client", "server", "both"} {
		for vi, v := range variants {
			jobs = append(jobs, hs13Job{v, nil, hs13Opt{ReverseTo: to, Limit: 300 * time.Second}})
			for _, from := range []int{2, 5, 7} {
				if !vIsThorough() && (from+vi)%2 != 0 {
					continue
				}
				sto := []string{"client", "server"}[(from+vi)%2]
				jobs = append(jobs, hs13Job{v, nil, hs13Opt{
					ReverseTo: to, SilenceFrom: from, SilenceUntil: 3500 * time.Millisecond, SilenceTo: sto, Limit: 300 * time.Second,
				}})
			}
		}
	}
	// a long silence towards one side while the bursts towards the other arrive reversed: the listening side sees,
	// for a minute, nothing but stale flights whose older records come in behind the newer ones
	for vi, v := range variants {
		if !vIsThorough() && vi%2 == 1 {
			continue
		}
		for _, from := range []int{2, 5, 7} {
			for _, to := range []string{"client", "server"} {
				other := "server"
				if to == "server" {
					other = "client"
				}
				jobs = append(jobs, hs13Job{v, nil, hs13Opt{
					ReverseTo: other, SilenceFrom: from, SilenceUntil: 70 * time.Second, SilenceTo: to, Limit: 400 * time.Second,
				}})
			}
		}
	}
	// fault masks under the non-default timer configurations
	nr := 40
	if vIsThorough() {
		nr = 1500
	}
	for i := 0; i < nr; i++ {
		v := variants[rng.intn(len(variants))]
		tm := tims[1+rng.intn(len(tims)-1)]
		l := 3 + rng.intn(12)
		m := make([]string, l)
		for j := range m {
			if rng.chance(60) {
				m[j] = "pass"
			} else {
				m[j] = hs13Acts[1+rng.intn(len(hs13Acts)-1)]
			}
		}
		rev := []string{"", "", "client", "server", "both"}[rng.intn(5)]
		jobs = append(jobs, hs13Job{v, m, hs13Opt{Interval: tm.iv, NoBackoff: tm.nb, ReverseTo: rev, Limit: 600 * time.Second}})
	}
	hs13RunJobs(t, jobs, "hs13-timed")
}

// TestVerifHs13Cookie (C13 leg): the HelloRetryRequest exchange under faults: every small mask over
// the first datagrams (ClientHello fragments, HelloRetryRequest, second ClientHello), the client
// cut off for a long time (the server sees nothing but repeated first ClientHellos), short timer
// intervals (repetitions inside and outside the InitialRetransmitInterval/2 window), reversed bursts.
func TestVerifHs13Cookie(t *testing.T) {
	rng := newVRand(vSeed() ^ 0x451313)
	var jobs []hs13Job
	names := []string{"v13", "v13-hrr", "v13-ksm", "v13-clientauth", "v13-mtu300", "v13-hrr-mtu300", "v13-mtu120", "v13-direct", "v13-ksm-clientauth"}
	opt := hs13Opt{Limit: 200 * time.Second}
	n := 3
	if vIsThorough() {
		n = 5
	}
	for vi, name := range names {
		v, _ := hs13Variant(name)
		k := n
		if vi >= 2 {
			k = n - 1
		}
		total := 1
		for i := 0; i < k; i++ {
			total *= len(hs13Acts)
		}
		for code := 0; code < total; code++ {
			m := make([]string, k)
			c := code
			for i := range m {
				m[i] = hs13Acts[c%len(hs13Acts)]
				c /= len(hs13Acts)
			}
			jobs = append(jobs, hs13Job{v, m, opt})
		}
		for _, iv := range []time.Duration{0, 10 * time.Millisecond, 250 * time.Millisecond} {
			for _, nb := range []bool{false, true} {
				sil := []time.Duration{3500 * time.Millisecond, 70 * time.Second}[rng.intn(2)]
				if nb || iv == 10*time.Millisecond {
					sil = 2500 * time.Millisecond
					if iv == 10*time.Millisecond && nb {
						sil = 300 * time.Millisecond
					}
				}
				for _, rev := range []string{"", "server"} {
					jobs = append(jobs, hs13Job{v, nil, hs13Opt{
						Interval: iv, NoBackoff: nb, SilenceUntil: sil, SilenceTo: "client", ReverseTo: rev, Limit: sil + 300*time.Second,
					}})
				}
			}
		}
		// the HelloRetryRequest passes, everything later towards the server is lost for a while
		jobs = append(jobs, hs13Job{v, nil, hs13Opt{SilenceFrom: 3, SilenceUntil: 7500 * time.Millisecond, SilenceTo: "server", Limit: 300 * time.Second}})
	}
	// forged stale fragments that are NOT a ClientHello, handed to the server after its HelloRetryRequest went out
	// (message_seq 0 is below the reassembly sequence then): 1 or 3 of them more than InitialRetransmitInterval/2
	// apart, and 3 spaced closer than that (inside the rate limit of the reply-only flight); with the client cut
	// off, and with only the first HelloRetryRequest lost
	stale := func(at int64, seq uint64, ht int) hs13Inject {
		return hs13Inject{AtMs: at, To: "server", HT: ht, MS: 0, FO: 0, FL: 1, TL: 32, Seq: seq}
	}
	for vi, name := range []string{"v13", "v13-hrr", "v13-clientauth", "v13-mtu300"} {
		v, _ := hs13Variant(name)
		if vi >= 2 && !vIsThorough() {
			continue
		}
		for _, ht := range []int{20, 16} {
			sets := [][]hs13Inject{
				// record sequence numbers inside the replay window of the genuine records (a forged record
				// far ahead, e.g. 101, would push the window past them and wedge the handshake: not this property)
				{stale(600, 60, ht)},
				{stale(600, 60, ht), stale(1600, 61, ht), stale(2200, 62, ht)},
				{stale(100, 60, ht), stale(200, 61, ht), stale(300, 62, ht)},
			}
			for _, in := range sets {
				jobs = append(jobs, hs13Job{v, nil, hs13Opt{SilenceUntil: 2500 * time.Millisecond, SilenceTo: "client", Inject: in, Limit: 300 * time.Second}})
				lost := hs13Single(len(hs13FirstFlight(t, v)), "drop") // the datagram after ClientHello1 is the HelloRetryRequest
				jobs = append(jobs, hs13Job{v, lost, hs13Opt{Inject: in, Limit: 300 * time.Second}})
			}
		}
	}
	// a second ClientHello that no client of this connection sent (the real client never hears the HelloRetryRequest
	// for 2.5 s): cookie absent / wrong / cut / extended / right but another hello / right (positive control);
	// where the HelloRetryRequest asks for the cookie only, where it also asks for another key-share group
	// (server preference differs from the share the client sent), with client authentication, fragmented hellos
	forgeOn := []string{"v13-ksm", "v13", "v13-hrr", "v13-ksm-clientauth", "v13-hrr-clientauth-mtu450", "v13-hrr-mtu300", "v13-mtu300"}
	for vi, name := range forgeOn {
		v, _ := hs13Variant(name)
		if vi >= 4 && !vIsThorough() {
			continue
		}
		for _, fam := range []string{"absent", "wrong", "trunc", "long", "altered", "right"} {
			for _, at := range []int64{0, 700} {
				jobs = append(jobs, hs13Job{v, nil, hs13Opt{
					Forge: fam, ForgeAtMs: at, SilenceFrom: len(hs13FirstFlight(t, v)), SilenceUntil: 2500 * time.Millisecond,
					SilenceTo: "client", Limit: 20 * time.Second,
				}})
			}
		}
	}
	nr := 30
	if vIsThorough() {
		nr = 1500
	}
	for i := 0; i < nr; i++ {
		v, _ := hs13Variant(names[rng.intn(len(names))])
		l := 2 + rng.intn(8)
		m := make([]string, l)
		for j := range m {
			if rng.chance(45) {
				m[j] = "pass"
			} else {
				m[j] = hs13Acts[1+rng.intn(len(hs13Acts)-1)]
			}
		}
		jobs = append(jobs, hs13Job{v, m, opt})
	}
	hs13RunJobs(t, jobs, "hs13-cookie")
}

// hs13FirstFlight: the datagrams of the client's first flight in a fault-free run of v.
func hs13FirstFlight(t *testing.T, v c02Variant) []int {
	var res hs13Case
	vBubble(t, func(t *testing.T) { res = runHs13(t, v, nil, hs13Opt{Limit: 50 * time.Second}) })
	var out []int
	for _, e := range res.Events {
		if e.Ev != "emit" || e.Side != "client" {
			break
		}
		out = append(out, e.Idx)
	}

	return out
}

// hs13Canon: the fault-free run of a variant (cached), and where its landmarks are.
var hs13CanonCache = map[string]hs13Case{} //nolint:gochecknoglobals

func hs13Canon(t *testing.T, v c02Variant) hs13Case {
	if c, ok := hs13CanonCache[v.Name]; ok {
		return c
	}
	var res hs13Case
	vBubble(t, func(t *testing.T) { res = runHs13(t, v, nil, hs13Opt{Limit: 50 * time.Second}) })
	hs13CanonCache[v.Name] = res

	return res
}

// hs13Find: global indices of the datagrams of the fault-free run selected by pick(side, records).
func hs13Find(c hs13Case, pick func(side string, recs []hs13Rec) bool) []int {
	var out []int
	for _, e := range c.Events {
		if e.Ev == "emit" && pick(e.Side, e.Recs) {
			out = append(out, e.Idx)
		}
	}

	return out
}

func hs13MaskAt(idx []int, act string) []string {
	maxI := 0
	for _, i := range idx {
		if i > maxI {
			maxI = i
		}
	}
	m := make([]string, maxI+1)
	for j := range m {
		m[j] = "pass"
	}
	for _, i := range idx {
		m[i] = act
	}

	return m
}

func hs13IsClientFinal(side string, recs []hs13Rec) bool {
	return side == "client" && len(recs) > 0 && recs[0].K == "hs" && recs[0].E == 2
}

func hs13IsServerFinalAck(side string, recs []hs13Rec) bool {
	return side == "server" && len(recs) > 0 && (recs[0].K == "ack" || (recs[0].K == "hs" && recs[0].HT == 4))
}

func hs13IsServerFlight4(side string, recs []hs13Rec) bool {
	return side == "server" && len(recs) > 0 && recs[0].K == "hs" && recs[0].HT != 6 && recs[0].HT != 4
}
