//go:build verif

// hs13 - DTLS 1.3 handshake machinery: test entry points (runner in zz_verif_gen_hs13_test.go).
package dtls

import (
	"fmt"
	"github.com/pion/logging"
	"os"
	"strings"
	"testing"
	"time"
)

func hs13PrintCase(res hs13Case) {
	for _, e := range res.Events {
		fmt.Printf("%7d %-8s #%-3d %-6s %-7s", e.T, e.Ev, e.Idx, e.Side, e.Cause)
		for _, r := range e.Recs {
			switch r.K {
			case "hs":
				fmt.Printf(" [e%d s%d hs%d m%d %d+%d/%d %dB]", r.E, r.Seq, r.HT, r.MS, r.FO, r.FL, r.TL, r.Size)
			case "ack":
				fmt.Printf(" [e%d s%d ACK %v = %v]", r.E, r.Seq, r.Acks, r.AckFr)
			default:
				fmt.Printf(" [e%d s%d %s]", r.E, r.Seq, r.K)
			}
		}
		fmt.Println()
	}
	fmt.Printf("cdone=%v cerr=%q sdone=%v serr=%q t=%d data=%v mtu=%d notes=%v\n", res.CDone, res.CErr, res.SDone, res.SErr, res.TDone, res.DataOK, res.MTU, res.Notes)
}

// TestVerifHs13Dbg: VERIF_DBG="variant|mask,mask,...|interval_ms|nobackoff|silfrom|siluntil_ms|silto" prints one run.
func TestVerifHs13Dbg(t *testing.T) {
	spec := os.Getenv("VERIF_DBG")
	if spec == "" {
		t.Skip()
	}
	parts := strings.Split(spec, "|")
	for len(parts) < 7 {
		parts = append(parts, "")
	}
	var mask []string
	if parts[1] != "" {
		mask = strings.Split(parts[1], ",")
	}
	var opt hs13Opt
	var ms int64
	if _, err := fmt.Sscanf(parts[2], "%d", &ms); err == nil {
		opt.Interval = time.Duration(ms) * time.Millisecond
	}
	opt.NoBackoff = parts[3] == "1"
	fmt.Sscanf(parts[4], "%d", &opt.SilenceFrom)
	if _, err := fmt.Sscanf(parts[5], "%d", &ms); err == nil {
		opt.SilenceUntil = time.Duration(ms) * time.Millisecond
	}
	opt.SilenceTo = parts[6]
	opt.Limit = 200 * time.Second
	if os.Getenv("VERIF_DBG_LOG") != "" {
		c02ConfigHook = func(c, s *dtlsConfig) {
			c.LoggerFactory = hs13DbgFactory{"C"}
			s.LoggerFactory = hs13DbgFactory{"S"}
		}
		defer func() { c02ConfigHook = nil }()
	}
	v, ok := hs13Variant(parts[0])
	if !ok {
		t.Fatalf("unknown variant %q", parts[0])
	}
	if m := os.Getenv("VERIF_DBG_MTU"); m != "" {
		fmt.Sscanf(m, "%d", &v.MTU)
	}
	var res hs13Case
	vBubble(t, func(t *testing.T) { res = runHs13(t, v, mask, opt) })
	hs13PrintCase(res)
}

// ---- logger for debugging runs

type hs13DbgLogger struct{ scope string }

func (l *hs13DbgLogger) p(lv, f string, a ...any) {
	fmt.Printf("      [%s %s] %s\n", l.scope, lv, fmt.Sprintf(f, a...))
}
func (l *hs13DbgLogger) Trace(m string)            { l.p("T", "%s", m) }
func (l *hs13DbgLogger) Tracef(f string, a ...any) { l.p("T", f, a...) }
func (l *hs13DbgLogger) Debug(m string)            { l.p("D", "%s", m) }
func (l *hs13DbgLogger) Debugf(f string, a ...any) { l.p("D", f, a...) }
func (l *hs13DbgLogger) Info(m string)             { l.p("I", "%s", m) }
func (l *hs13DbgLogger) Infof(f string, a ...any)  { l.p("I", f, a...) }
func (l *hs13DbgLogger) Warn(m string)             { l.p("W", "%s", m) }
func (l *hs13DbgLogger) Warnf(f string, a ...any)  { l.p("W", f, a...) }
func (l *hs13DbgLogger) Error(m string)            { l.p("E", "%s", m) }
func (l *hs13DbgLogger) Errorf(f string, a ...any) { l.p("E", f, a...) }

type hs13DbgFactory struct{ side string }

func (f hs13DbgFactory) NewLogger(scope string) logging.LeveledLogger {
	return &hs13DbgLogger{scope: f.side + "/" + scope}
}
