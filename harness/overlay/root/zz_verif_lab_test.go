//go:build verif

// Verification lab: an in-memory scripted network for running real pion/dtls
// endpoints inside a testing/synctest bubble (virtual time, datagram-level
// determinism). Used by every end-to-end correspondence harness in /verif.
package dtls

import (
	"context"
	"crypto/tls"
	"crypto/x509"
	"encoding/hex"
	"encoding/json"
	"encoding/pem"
	"errors"
	"fmt"
	"io"
	"net"
	"os"
	"sync"
	"testing"
	"testing/synctest"
	"time"

	"github.com/pion/dtls/v3/pkg/crypto/selfsign"
	"github.com/pion/dtls/v3/pkg/protocol"
	"github.com/pion/dtls/v3/pkg/protocol/handshake"
	"github.com/pion/dtls/v3/pkg/protocol/recordlayer"
)

// ---------------------------------------------------------------- PRNG

// splitmix64: every random choice of every harness derives from VERIF_SEED.
type vRand struct{ s uint64 }

func newVRand(seed uint64) *vRand { return &vRand{s: seed} }

func (r *vRand) u64() uint64 {
	r.s += 0x9e3779b97f4a7c15
	z := r.s
	z = (z ^ (z >> 30)) * 0xbf58476d1ce4e5b9
	z = (z ^ (z >> 27)) * 0x94d049bb133111eb

	return z ^ (z >> 31)
}

func (r *vRand) intn(n int) int {
	if n <= 0 {
		return 0
	}

	return int(r.u64() % uint64(n))
}

func (r *vRand) bytes(n int) []byte {
	b := make([]byte, n)
	for i := range b {
		b[i] = byte(r.u64())
	}

	return b
}

func (r *vRand) chance(pct int) bool { return r.intn(100) < pct }

func vSeed() uint64 {
	var s uint64 = 1
	if v := os.Getenv("VERIF_SEED"); v != "" {
		fmt.Sscanf(v, "%d", &s)
	}

	return s
}

func vTier() string {
	if v := os.Getenv("VERIF_TIER"); v != "" {
		return v
	}

	return "quick"
}

func vIsThorough() bool { return vTier() == "thorough" }

// ---------------------------------------------------------------- output

type vOut struct {
	mu sync.Mutex
	f  *os.File
}

func newVOut(t *testing.T) *vOut {
	t.Helper()
	p := os.Getenv("VERIF_OUT")
	if p == "" {
		p = os.DevNull
	}
	f, err := os.Create(p)
	if err != nil {
		t.Fatalf("VERIF_OUT: %v", err)
	}
	t.Cleanup(func() { _ = f.Close() })

	return &vOut{f: f}
}

func (o *vOut) emit(v any) {
	b, err := json.Marshal(v)
	if err != nil {
		panic(err)
	}
	o.mu.Lock()
	defer o.mu.Unlock()
	_, _ = o.f.Write(append(b, '\n'))
}

func vHex(b []byte) string { return hex.EncodeToString(b) }

// ---------------------------------------------------------------- network

type vAddr string

func (a vAddr) Network() string { return "udp" }
func (a vAddr) String() string  { return string(a) }

type vDatagram struct {
	Idx  int           // global emission index
	T    time.Duration // virtual emission time since net start
	From string        // endpoint name that wrote it
	To   string        // destination address given to WriteTo
	Data []byte
}

type vInbound struct {
	data []byte
	from net.Addr
}

type vNet struct {
	mu     sync.Mutex
	start  time.Time
	log    []vDatagram
	notify chan struct{}
	eps    map[string]*vEndpoint
}

func newVNet() *vNet {
	return &vNet{start: time.Now(), notify: make(chan struct{}, 1), eps: map[string]*vEndpoint{}}
}

func (n *vNet) now() time.Duration { return time.Since(n.start) }

func (n *vNet) endpoint(name string) *vEndpoint {
	ep := &vEndpoint{
		name: name, net: n, in: make(chan vInbound, 4096),
		closed: make(chan struct{}), dlChanged: make(chan struct{}),
	}
	n.mu.Lock()
	n.eps[name] = ep
	n.mu.Unlock()

	return ep
}

// snapshot of datagrams emitted from index `from` on.
func (n *vNet) since(from int) []vDatagram {
	n.mu.Lock()
	defer n.mu.Unlock()
	if from >= len(n.log) {
		return nil
	}

	return append([]vDatagram(nil), n.log[from:]...)
}

func (n *vNet) count() int {
	n.mu.Lock()
	defer n.mu.Unlock()

	return len(n.log)
}

// deliver raw bytes to endpoint `to` as if they came from address `from`.
func (n *vNet) deliver(to string, from string, data []byte) {
	n.mu.Lock()
	ep := n.eps[to]
	n.mu.Unlock()
	if ep == nil {
		return
	}
	select {
	case ep.in <- vInbound{data: append([]byte(nil), data...), from: vAddr(from)}:
	case <-ep.closed:
	}
}

type vEndpoint struct {
	name string
	net  *vNet
	in   chan vInbound

	mu        sync.Mutex
	rdeadline time.Time
	dlChanged chan struct{}
	closed    chan struct{}
	closeOnce sync.Once
}

var errVClosed = errors.New("vnet: use of closed connection") //nolint:gochecknoglobals

type vTimeout struct{}

func (vTimeout) Error() string   { return "vnet: i/o timeout" }
func (vTimeout) Timeout() bool   { return true }
func (vTimeout) Temporary() bool { return true }

func (e *vEndpoint) ReadFrom(p []byte) (int, net.Addr, error) {
	for {
		e.mu.Lock()
		dl := e.rdeadline
		changed := e.dlChanged
		e.mu.Unlock()
		var timer <-chan time.Time
		if !dl.IsZero() {
			d := time.Until(dl)
			if d <= 0 {
				return 0, nil, vTimeout{}
			}
			tm := time.NewTimer(d)
			timer = tm.C
			defer tm.Stop()
		}
		select {
		case in := <-e.in:
			n := copy(p, in.data)

			return n, in.from, nil
		case <-e.closed:
			return 0, nil, errVClosed
		case <-timer:
			return 0, nil, vTimeout{}
		case <-changed:
		}
	}
}

func (e *vEndpoint) WriteTo(p []byte, addr net.Addr) (int, error) {
	select {
	case <-e.closed:
		return 0, errVClosed
	default:
	}
	n := e.net
	n.mu.Lock()
	n.log = append(n.log, vDatagram{
		Idx: len(n.log), T: n.now(), From: e.name, To: addr.String(), Data: append([]byte(nil), p...),
	})
	n.mu.Unlock()
	select {
	case n.notify <- struct{}{}:
	default:
	}

	return len(p), nil
}

func (e *vEndpoint) Close() error {
	e.closeOnce.Do(func() { close(e.closed) })

	return nil
}

func (e *vEndpoint) LocalAddr() net.Addr { return vAddr(e.name) }

func (e *vEndpoint) SetDeadline(t time.Time) error { return e.SetReadDeadline(t) }

func (e *vEndpoint) SetReadDeadline(t time.Time) error {
	e.mu.Lock()
	e.rdeadline = t
	close(e.dlChanged)
	e.dlChanged = make(chan struct{})
	e.mu.Unlock()

	return nil
}

func (e *vEndpoint) SetWriteDeadline(time.Time) error { return nil }

// ---------------------------------------------------------------- scripted delivery

type vAction int

const (
	vPass vAction = iota
	vDrop
	vDup
	vHold // held back until released explicitly or after `holdFor` further deliveries
)

// vPolicy decides what happens to a freshly emitted datagram.
type vPolicy func(d vDatagram) (vAction, int)

// vPump runs the network until `done()` holds (checked at quiescence) or the virtual
// deadline passes. Datagrams are delivered one at a time with synctest.Wait between.
type vPump struct {
	net      *vNet
	next     int
	held     []vHeld
	Policy   vPolicy
	MaxIdle  time.Duration
	Route    func(d vDatagram) (to string, from string) // default: To / From
	OnDeliver func(d vDatagram)
	Delivered int
}

type vHeld struct {
	d     vDatagram
	after int
}

func (p *vPump) route(d vDatagram) (string, string) {
	if p.Route != nil {
		return p.Route(d)
	}

	return d.To, d.From
}

func (p *vPump) deliverOne(d vDatagram) {
	to, from := p.route(d)
	p.net.deliver(to, from, d.Data)
	p.Delivered++
	if p.OnDeliver != nil {
		p.OnDeliver(d)
	}
	synctest.Wait()
}

// step processes everything emitted so far; returns true if it delivered something.
func (p *vPump) step() bool {
	synctest.Wait()
	progressed := false
	for {
		news := p.net.since(p.next)
		if len(news) == 0 {
			break
		}
		for _, d := range news {
			p.next = d.Idx + 1
			act, arg := vPass, 0
			if p.Policy != nil {
				act, arg = p.Policy(d)
			}
			switch act {
			case vPass:
				p.deliverOne(d)
				progressed = true
			case vDrop:
			case vDup:
				p.deliverOne(d)
				p.deliverOne(d)
				progressed = true
			case vHold:
				p.held = append(p.held, vHeld{d: d, after: p.Delivered + arg})
			}
			// release held datagrams that are due
			for i := 0; i < len(p.held); {
				if p.held[i].after <= p.Delivered {
					h := p.held[i]
					p.held = append(p.held[:i], p.held[i+1:]...)
					p.deliverOne(h.d)
					progressed = true
				} else {
					i++
				}
			}
		}
	}

	return progressed
}

// run until done() or until virtual `limit` elapses with nothing happening.
func (p *vPump) run(done func() bool, limit time.Duration) bool {
	deadline := time.Now().Add(limit)
	for {
		p.step()
		if done() {
			return true
		}
		if len(p.held) > 0 && p.net.count() == p.next {
			// nothing new: release the oldest held datagram (finite delay)
			h := p.held[0]
			p.held = p.held[1:]
			p.deliverOne(h.d)

			continue
		}
		if !time.Now().Before(deadline) {
			return done()
		}
		wait := time.Until(deadline)
		tm := time.NewTimer(wait)
		select {
		case <-p.net.notify:
		case <-tm.C:
		}
		tm.Stop()
	}
}

// ---------------------------------------------------------------- endpoints

type vPeer struct {
	Name string
	EP   *vEndpoint
	Conn *Conn
	Err  error
	Done chan struct{}

	rmu    sync.Mutex
	Reads  [][]byte
	ReadErr error
	rdone  chan struct{}
}

func (p *vPeer) handshakeDone() bool {
	select {
	case <-p.Done:
		return true
	default:
		return false
	}
}

// startReader continuously Reads and records payloads until an error.
func (p *vPeer) startReader() {
	p.rdone = make(chan struct{})
	go func() {
		defer close(p.rdone)
		buf := make([]byte, 65536)
		for {
			n, err := p.Conn.Read(buf)
			if err != nil {
				p.rmu.Lock()
				p.ReadErr = err
				p.rmu.Unlock()

				return
			}
			p.rmu.Lock()
			p.Reads = append(p.Reads, append([]byte(nil), buf[:n]...))
			p.rmu.Unlock()
		}
	}()
}

func (p *vPeer) reads() [][]byte {
	p.rmu.Lock()
	defer p.rmu.Unlock()

	return append([][]byte(nil), p.Reads...)
}

func (p *vPeer) readErr() error {
	p.rmu.Lock()
	defer p.rmu.Unlock()

	return p.ReadErr
}

type vLab struct {
	Net    *vNet
	Client *vPeer
	Server *vPeer
	Pump   *vPump
}

// newLab creates both endpoints and starts both handshakes (not yet pumped).
func newLab(t *testing.T, ccfg, scfg *dtlsConfig) *vLab {
	t.Helper()
	n := newVNet()
	lab := &vLab{Net: n}
	cep := n.endpoint("client")
	sep := n.endpoint("server")
	cc, err := clientWithConfig(cep, vAddr("server"), ccfg)
	if err != nil {
		t.Fatalf("client: %v", err)
	}
	sc, err := serverWithConfig(sep, vAddr("client"), scfg)
	if err != nil {
		t.Fatalf("server: %v", err)
	}
	lab.Client = &vPeer{Name: "client", EP: cep, Conn: cc, Done: make(chan struct{})}
	lab.Server = &vPeer{Name: "server", EP: sep, Conn: sc, Done: make(chan struct{})}
	lab.Pump = &vPump{net: n}
	for _, p := range []*vPeer{lab.Client, lab.Server} {
		go func(p *vPeer) {
			p.Err = p.Conn.HandshakeContext(context.Background())
			close(p.Done)
		}(p)
	}

	return lab
}

func (l *vLab) bothDone() bool { return l.Client.handshakeDone() && l.Server.handshakeDone() }

func (l *vLab) established() bool {
	return l.bothDone() && l.Client.Err == nil && l.Server.Err == nil
}

func (l *vLab) close() {
	_ = l.Client.Conn.Close()
	_ = l.Server.Conn.Close()
	_ = l.Client.EP.Close()
	_ = l.Server.EP.Close()
	synctest.Wait()
}

func (l *vLab) peer(name string) *vPeer {
	if name == "client" {
		return l.Client
	}

	return l.Server
}

func (l *vLab) other(name string) *vPeer {
	if name == "client" {
		return l.Server
	}

	return l.Client
}

// ---------------------------------------------------------------- credentials / configs

type vCreds struct {
	CA       *x509.Certificate
	Pool     *x509.CertPool
	Server   tls.Certificate // CN/SAN "server.verif", under CA
	Client   tls.Certificate // CN "client.verif", under CA
	Expired  tls.Certificate // "server.verif" under CA, expired in 2000
	WrongName tls.Certificate // "wrong.verif" under CA
	RogueSrv tls.Certificate // "server.verif" under OtherCA (not trusted)
	RogueCli tls.Certificate // "client.verif" under OtherCA (not trusted)
	SelfSrv  tls.Certificate // self-signed, not under CA
	OtherCA  *x509.CertPool
}

var (
	vCredsOnce sync.Once //nolint:gochecknoglobals
	vCredsVal  *vCreds   //nolint:gochecknoglobals
)

func vPemCert(certPEM string) *x509.Certificate {
	blk, _ := pem.Decode([]byte(certPEM))
	c, err := x509.ParseCertificate(blk.Bytes)
	if err != nil {
		panic(err)
	}

	return c
}

func vKeyPair(certPEM, keyPEM string) tls.Certificate {
	c, err := tls.X509KeyPair([]byte(certPEM), []byte(keyPEM))
	if err != nil {
		panic(err)
	}
	c.Leaf = vPemCert(certPEM)

	return c
}

// vGetCreds loads the fixed credentials of zz_verif_lab_creds_test.go (leaf keys are Ed25519 so that
// every handshake signature has a fixed length; all certificates are constants, so message sizes,
// fragmentation and datagram packing are identical from run to run and from process to process).
func vGetCreds() *vCreds {
	vCredsOnce.Do(func() {
		ca := vPemCert(vPemCA)
		pool := x509.NewCertPool()
		pool.AddCert(ca)
		opool := x509.NewCertPool()
		opool.AddCert(vPemCert(vPemOtherCA))
		self, err := selfsign.GenerateSelfSignedWithDNS("server.verif")
		if err != nil {
			panic(err)
		}
		vCredsVal = &vCreds{
			CA: ca, Pool: pool, OtherCA: opool,
			Server:    vKeyPair(vPemServerCert, vPemServerKey),
			Client:    vKeyPair(vPemClientCert, vPemClientKey),
			Expired:   vKeyPair(vPemExpiredServerCert, vPemExpiredServerKey),
			WrongName: vKeyPair(vPemWrongNameCert, vPemWrongNameKey),
			RogueSrv:  vKeyPair(vPemRogueServerCert, vPemRogueServerKey),
			RogueCli:  vKeyPair(vPemRogueClientCert, vPemRogueClientKey),
			SelfSrv:   self,
		}
	})

	return vCredsVal
}

func vBaseConfig() *dtlsConfig {
	cfg := &dtlsConfig{}
	cfg.applyDefaults()

	return cfg
}

// simple certificate-based pair: client verifies the server chain against the lab CA.
func vCertPair() (*dtlsConfig, *dtlsConfig) {
	cr := vGetCreds()
	c := vBaseConfig()
	c.RootCAs = cr.Pool
	c.ServerName = "server.verif"
	s := vBaseConfig()
	s.Certificates = []tls.Certificate{cr.Server}

	return c, s
}

func vPSKPair(suite CipherSuiteID) (*dtlsConfig, *dtlsConfig) {
	c := vBaseConfig()
	c.psk = func([]byte) ([]byte, error) { return []byte{0xAB, 0xC1, 0x23}, nil }
	c.PSKIdentityHint = []byte("verif-client")
	c.CipherSuites = []CipherSuiteID{suite}
	s := vBaseConfig()
	s.psk = func([]byte) ([]byte, error) { return []byte{0xAB, 0xC1, 0x23}, nil }
	s.PSKIdentityHint = []byte("verif-server")
	s.CipherSuites = []CipherSuiteID{suite}

	return c, s
}

// ---------------------------------------------------------------- wire parsing helpers

type vRecInfo struct {
	CT     int    `json:"ct"`
	Epoch  int    `json:"epoch"`
	Seq    uint64 `json:"seq"`
	Len    int    `json:"len"`
	HType  int    `json:"htype"` // handshake type when ct=22 and epoch=0, else -1
	MsgSeq int    `json:"mseq"`
	FOff   int    `json:"foff"`
	FLen   int    `json:"flen"`
	TLen   int    `json:"tlen"`
	Uni    bool   `json:"uni"` // DTLS 1.3 unified header
	Raw    []byte `json:"-"`
}

// vParseDatagram splits a datagram into DTLS 1.2-style records (cidLen = length of
// the connection ID expected on tls12_cid records addressed to the receiver).
func vParseDatagram(b []byte, cidLen int) []vRecInfo {
	var out []vRecInfo
	for len(b) > 0 {
		if protocol.IsDTLS13Ciphertext(protocol.ContentType(b[0])) {
			out = append(out, vRecInfo{CT: int(b[0]), Uni: true, HType: -1, Len: len(b), Raw: b})

			break
		}
		h := &recordlayer.Header{}
		if b[0] == byte(protocol.ContentTypeConnectionID) && cidLen > 0 {
			h.ConnectionID = make([]byte, cidLen)
		}
		if err := h.Unmarshal(b); err != nil {
			out = append(out, vRecInfo{CT: -1, HType: -1, Len: len(b), Raw: b})

			break
		}
		total := h.Size() + int(h.ContentLen)
		if total > len(b) {
			out = append(out, vRecInfo{CT: -1, HType: -1, Len: len(b), Raw: b})

			break
		}
		ri := vRecInfo{
			CT: int(h.ContentType), Epoch: int(h.Epoch), Seq: h.SequenceNumber,
			Len: int(h.ContentLen), HType: -1, Raw: b[:total],
		}
		if h.ContentType == protocol.ContentTypeHandshake && h.Epoch == 0 {
			hh := &handshake.Header{}
			if err := hh.Unmarshal(b[h.Size():total]); err == nil {
				ri.HType = int(hh.Type)
				ri.MsgSeq = int(hh.MessageSequence)
				ri.FOff = int(hh.FragmentOffset)
				ri.FLen = int(hh.FragmentLength)
				ri.TLen = int(hh.Length)
			}
		}
		out = append(out, ri)
		b = b[total:]
	}

	return out
}

func vErrString(err error) string {
	if err == nil {
		return "ok"
	}
	if errors.Is(err, io.EOF) {
		return "eof"
	}
	if errors.Is(err, ErrConnClosed) {
		return "closed"
	}

	return err.Error()
}

// vBubble runs fn inside a synctest bubble; panics inside fn fail the test with the
// message prefixed PANIC so that the driver can classify it.
func vBubble(t *testing.T, fn func(t *testing.T)) {
	t.Helper()
	synctest.Test(t, fn)
}
