//go:build verif

// rec13 - DTLS 1.3 record layer, end-to-end correspondence for Rec/Rec13.v.
//
// Real DTLS 1.3 client+server in a synctest bubble.  The test goroutine is the network: every
// datagram is delivered by the script, one at a time, and after each delivery the receiving
// endpoint is observed (payloads returned by Read, Read errors, alerts it wrote, closed, and -
// in-package - the per-epoch replay detectors, the per-epoch highest record numbers, the read
// generations, the remote epoch and the queue of parked records).  Every record the peer emitted is
// opened with the peer's own write secrets, which yields the log of sealed tuples
// (generation, record number, additional data, ciphertext, inner plaintext) the Coq model uses as
// its ideal AEAD; the record-number masks are computed with the receiver's read generations.
// Mutants, re-labelled, truncated, replayed, reordered, far-future and stale-generation records and
// records sealed by the harness itself with the peer's secrets (8-bit record numbers, no length
// field, padding, odd inner types) are injected the same way.
package dtls

import (
	"context"
	"crypto/aes"
	"crypto/cipher"
	"crypto/hmac"
	"crypto/sha256"
	"crypto/sha512"
	"encoding/binary"
	"errors"
	"fmt"
	"hash"
	"io"
	"reflect"
	"sort"
	"sync"
	"testing"
	"testing/synctest"
	"time"

	"github.com/pion/dtls/v3/internal/ciphersuite"
	dtlsstate "github.com/pion/dtls/v3/internal/state"
	"github.com/pion/dtls/v3/pkg/protocol"
	"github.com/pion/dtls/v3/pkg/protocol/handshake"
	"github.com/pion/dtls/v3/pkg/protocol/recordlayer"
	"golang.org/x/crypto/chacha20"
	"golang.org/x/crypto/chacha20poly1305"
)

// ---------------------------------------------------------------- independent record protection

type r13Suite struct {
	ID     CipherSuiteID
	Name   string
	KeyLen int
	ChaCha bool
	Hash   func() hash.Hash
}

func r13Suites() []r13Suite {
	return []r13Suite{
		{TLS_AES_128_GCM_SHA256, "aes128gcm", 16, false, sha256.New},
		{TLS_AES_256_GCM_SHA384, "aes256gcm", 32, false, sha512.New384},
		{TLS_CHACHA20_POLY1305_SHA256, "chacha20", 32, true, sha256.New},
	}
}

// HKDF-Expand-Label(secret, label, "", n) with the DTLS 1.3 label prefix (RFC 9147 5.9), from crypto/hmac only
func r13Expand(h func() hash.Hash, secret []byte, label string, n int) []byte {
	full := "dtls13" + label
	info := binary.BigEndian.AppendUint16(nil, uint16(n))
	info = append(info, byte(len(full)))
	info = append(info, full...)
	info = append(info, 0)
	var out, prev []byte
	for ctr := byte(1); len(out) < n; ctr++ {
		m := hmac.New(h, secret)
		m.Write(prev)
		m.Write(info)
		m.Write([]byte{ctr})
		prev = m.Sum(nil)
		out = append(out, prev...)
	}

	return out[:n]
}

type r13Keys struct {
	aead cipher.AEAD
	iv   []byte
	sn   []byte
	cha  bool
}

func r13DeriveKeys(su r13Suite, secret []byte) r13Keys {
	key := r13Expand(su.Hash, secret, "key", su.KeyLen)
	k := r13Keys{iv: r13Expand(su.Hash, secret, "iv", 12), sn: r13Expand(su.Hash, secret, "sn", su.KeyLen), cha: su.ChaCha}
	var err error
	if su.ChaCha {
		k.aead, err = chacha20poly1305.New(key)
	} else {
		var blk cipher.Block
		blk, err = aes.NewCipher(key)
		if err == nil {
			k.aead, err = cipher.NewGCM(blk)
		}
	}
	if err != nil {
		panic(err)
	}

	return k
}

func (k r13Keys) mask(ct []byte) uint16 {
	if k.cha {
		c, err := chacha20.NewUnauthenticatedCipher(k.sn, ct[4:16])
		if err != nil {
			panic(err)
		}
		c.SetCounter(binary.LittleEndian.Uint32(ct[:4]))
		m := make([]byte, 64)
		c.XORKeyStream(m, m)

		return uint16(m[0])<<8 | uint16(m[1])
	}
	blk, err := aes.NewCipher(k.sn)
	if err != nil {
		panic(err)
	}
	m := make([]byte, 16)
	blk.Encrypt(m, ct[:16])

	return uint16(m[0])<<8 | uint16(m[1])
}

func (k r13Keys) nonce(seq uint64) []byte {
	n := append([]byte(nil), k.iv...)
	for i := 0; i < 8; i++ {
		n[11-i] ^= byte(seq >> (8 * uint(i)))
	}

	return n
}

// a record as the harness seals it: free choice of header form, padding and inner type
type r13Craft struct {
	Epoch  int
	Seq    uint64
	SBit   bool
	LBit   bool
	CID    []byte
	Type   byte
	Body   []byte
	Zeros  int
	NoType bool // inner plaintext = Body only (to build all-zero / empty inner plaintexts)
}

type r13Sealed struct {
	E     int    `json:"e"`
	Q     uint64 `json:"q"`
	AAD   string `json:"aad"`
	CT    string `json:"ct"`
	Inner string `json:"inner"`
}

func (k r13Keys) seal(c r13Craft) (wire []byte, log r13Sealed) {
	inner := append([]byte(nil), c.Body...)
	if !c.NoType {
		inner = append(inner, c.Type)
	}
	inner = append(inner, make([]byte, c.Zeros)...)
	h := recordlayer.UnifiedHeader{
		ConnectionID: c.CID, SequenceNumber: uint16(c.Seq), SeqBit: c.SBit,
		Length: uint16(len(inner) + k.aead.Overhead()), LengthBit: c.LBit, EpochLow: uint8(c.Epoch & 3),
	}
	if !c.SBit {
		h.SequenceNumber &= 0xff
	}
	aad, err := h.Marshal()
	if err != nil {
		panic(err)
	}
	ct := k.aead.Seal(nil, k.nonce(c.Seq), inner, aad)
	m := k.mask(ct)
	if c.SBit {
		h.SequenceNumber ^= m
	} else {
		h.SequenceNumber = (h.SequenceNumber ^ (m >> 8)) & 0xff
	}
	hw, _ := h.Marshal()

	return append(hw, ct...), r13Sealed{E: c.Epoch, Q: c.Seq, AAD: vHex(aad), CT: vHex(ct), Inner: vHex(inner)}
}

// ---------------------------------------------------------------- in-package state access

func r13St(c *Conn) *dtlsstate.State13 {
	st, ok := c.state.(*dtlsstate.State13)
	if !ok {
		panic("rec13: not a DTLS 1.3 connection")
	}

	return st
}

type r13Win struct {
	M48    bool     `json:"m48"`
	Latest uint64   `json:"latest"`
	Bits   []uint64 `json:"bits"`
}

type r13State struct {
	Epoch  int      `json:"epoch"`
	Cur    int      `json:"cur"` // -1: no current read generation
	Old    []int    `json:"old"`
	Wins   []r13Win `json:"wins"`
	High   []uint64 `json:"high"`
	Queue  []string `json:"queue"`
	Closed bool     `json:"closed"`
	CID    string   `json:"cid"`
	CIDNeg bool     `json:"cidneg"`
	RRC    bool     `json:"rrc"`
	Estab  bool     `json:"estab"`
	Early  []string `json:"early"` // payloads parked until the local handshake completes
}

func r13Snapshot(c *Conn) r13State {
	c.lock.Lock()
	defer c.lock.Unlock()
	st := r13St(c)
	s := r13State{Epoch: int(st.RemoteEpoch()), Cur: -1, Old: []int{}, Wins: []r13Win{}, High: []uint64{}, Queue: []string{}}
	if cur, ok := st.TrafficKeys.CurrentRead(); ok {
		s.Cur = int(cur.Epoch)
	}
	top := s.Cur
	if top < s.Epoch {
		top = s.Epoch
	}
	for e := 0; e <= top+2; e++ {
		if e == s.Cur {
			continue
		}
		if _, ok := st.TrafficKeys.Read(uint16(e)); ok {
			s.Old = append(s.Old, e)
		}
	}
	for _, d := range st.ReplayDetector {
		rv := reflect.ValueOf(d).Elem()
		w := r13Win{M48: rv.FieldByName("maxSeq").Uint() == recordlayer.MaxSequenceNumber, Latest: rv.FieldByName("latestSeq").Uint(), Bits: []uint64{}}
		bits := rv.FieldByName("mask").Elem().FieldByName("bits")
		for i := 0; i < bits.Len(); i++ {
			w.Bits = append(w.Bits, bits.Index(i).Uint())
		}
		s.Wins = append(s.Wins, w)
	}
	s.High = append(s.High, st.RemoteSequenceNumber...)
	for _, p := range c.encryptedPackets {
		s.Queue = append(s.Queue, vHex(p.data))
	}
	s.Closed = c.isConnectionClosed()
	s.CID = vHex(st.LocalConnectionIDForInboundRecords())
	s.CIDNeg = st.CID.Negotiated
	s.RRC = st.RRCNegotiated
	s.Estab = c.handshakeEstablished != nil && c.isHandshakeCompletedSuccessfully()
	s.Early = []string{}
	// Conn.earlyApplicationData, read by name: trees before the early-data repair do not have the field
	if f := reflect.ValueOf(c).Elem().FieldByName("earlyApplicationData"); f.IsValid() {
		for i := 0; i < f.Len(); i++ {
			s.Early = append(s.Early, vHex(f.Index(i).Bytes()))
		}
	}

	return s
}

func r13SuiteOf(c *Conn) r13Suite {
	id := r13St(c).CipherSuite.ID()
	for _, su := range r13Suites() {
		if uint16(su.ID) == uint16(id) {
			return su
		}
	}
	panic("rec13: unknown suite")
}

// secret of the sender's write generation for `epoch` (generations ahead of the current one are derived)
func r13WriteSecret(c *Conn, epoch int) ([]byte, bool) {
	st := r13St(c)
	if g, ok := st.TrafficKeys.Write(uint16(epoch)); ok {
		return g.Secret, true
	}
	cur, ok := st.TrafficKeys.CurrentWrite()
	if !ok || epoch <= int(cur.Epoch) || cur.Epoch < 3 {
		return nil, false
	}
	su := r13SuiteOf(c)
	secret := cur.Secret
	for e := int(cur.Epoch); e < epoch; e++ {
		secret = r13Expand(su.Hash, secret, "traffic upd", su.Hash().Size())
	}

	return secret, true
}

type r13Opened struct {
	Epoch int
	Seq   uint64
	Type  int
	Body  []byte
	Log   r13Sealed
}

// open one ciphertext record with the write generations of its sender
func r13Open(sender *Conn, raw []byte, cidLen int) (r13Opened, bool) {
	rec := recordlayer.CiphertextRecord13{}
	if raw[0]&recordlayer.UnifiedHeaderCIDBit != 0 {
		rec.Header.ConnectionID = make([]byte, cidLen)
	}
	if err := rec.Unmarshal(raw); err != nil {
		return r13Opened{}, false
	}
	st := r13St(sender)
	su := r13SuiteOf(sender)
	for e := int(st.LocalEpoch()) + 1; e >= 2; e-- {
		if e&3 != int(rec.Header.EpochLow) {
			continue
		}
		secret, ok := r13WriteSecret(sender, e)
		if !ok {
			continue
		}
		k := r13DeriveKeys(su, secret)
		clear := rec.Header
		m := k.mask(rec.EncryptedRecord)
		if clear.SeqBit {
			clear.SequenceNumber ^= m
		} else {
			clear.SequenceNumber = (clear.SequenceNumber ^ (m >> 8)) & 0xff
		}
		aad, _ := clear.Marshal()
		var ctr uint64
		if e < len(st.LocalSequenceNumber) {
			ctr = st.LocalSequenceNumber[e]
		}
		for _, hi := range []uint64{ctr >> 16, (ctr >> 16) - 1, (ctr >> 16) + 1, 0} {
			seq := hi<<16 | uint64(clear.SequenceNumber)
			inner, err := k.aead.Open(nil, k.nonce(seq), rec.EncryptedRecord, aad)
			if err != nil {
				continue
			}
			ip := recordlayer.InnerPlaintext{}
			o := r13Opened{Epoch: e, Seq: seq, Type: -1, Log: r13Sealed{E: e, Q: seq, AAD: vHex(aad), CT: vHex(rec.EncryptedRecord), Inner: vHex(inner)}}
			if ip.Unmarshal(inner) == nil {
				o.Type, o.Body = int(ip.RealType), ip.Content
			}

			return o, true
		}
	}

	return r13Opened{}, false
}

// ---------------------------------------------------------------- simulation

type r13Op struct {
	Op  string `json:"op"` // arrive | cid | install | remote | drain | estab
	E   int    `json:"e,omitempty"`
	Hex string `json:"hex,omitempty"` // arrive: the datagram; cid: the connection id expected on inbound records
	Neg bool   `json:"neg,omitempty"` // cid: connection_id extension negotiated
	RRC bool   `json:"rrc,omitempty"` // cid: return routability check negotiated
}

type r13Obs struct {
	Delivered []string  `json:"delivered"` // payloads returned by Read (hex)
	Alerts    [][2]int  `json:"alerts"`    // alerts written by the receiver
	Errs      int       `json:"errs"`      // non-EOF Read errors
	ErrText   []string  `json:"err_text"`
	Closed    bool      `json:"closed"`
	Emitted   int       `json:"emitted"` // datagrams written by the receiver
	State     *r13State `json:"state"`   // nil: unchanged since the previous step
}

type r13Step struct {
	Tag  string  `json:"tag"`  // what the script delivered (genuine / mutant:... / craft:... / replay / plain:...)
	Auth int     `json:"auth"` // 1: every record in the datagram was sealed under the peer's keys exactly as delivered; 0: not; 2: mixed/unknown
	Pl   int     `json:"pl"`   // payload number carried (authentic application records), else -1
	Ops  []r13Op `json:"ops"`
	Obs  r13Obs  `json:"obs"`
}

type r13Case struct {
	Kind    string      `json:"kind"`
	Variant string      `json:"variant"`
	Scen    string      `json:"scen"`
	Side    string      `json:"side"` // the receiver this trace belongs to
	W       int         `json:"w"`
	CID     string      `json:"cid"`
	CIDNeg  bool        `json:"cidneg"`
	Init    r13State    `json:"init"`
	Log     []r13Sealed `json:"log"`
	Masks   [][3]any    `json:"masks"` // (epoch, sample hex, mask)
	Steps   []r13Step   `json:"steps"`
	Written []string    `json:"written"` // payloads the peer passed to Write (hex), by payload number
	Note    string      `json:"note,omitempty"`
}

type r13Reader struct {
	mu   sync.Mutex
	evs  []c13Ev
	seen int
}

type c13Ev struct {
	payload []byte
	err     string
	eof     bool
}

type r13Side struct {
	peer    *vPeer
	rd      *r13Reader
	steps   []r13Step
	last    r13State
	init    r13State
	log     []r13Sealed // what the OTHER side sealed (this side's receive log)
	logSeen map[string]bool
	cts     [][]byte // ciphertexts of records delivered to this side (for the mask table)
	written [][]byte // payloads this side wrote
	userClosed bool  // the application closed this side: later deliveries are not part of the trace
	reading    bool
}

type r13Sim struct {
	t     *testing.T
	lab   *vLab
	rng   *vRand
	sides map[string]*r13Side
	next  int // next datagram of the lab log not yet looked at by the pump
	held  []vDatagram
}

func r13StartReader(p *vPeer) *r13Reader {
	r := &r13Reader{}
	go func() {
		buf := make([]byte, 65536)
		errs := 0
		for {
			n, err := p.Conn.Read(buf)
			r.mu.Lock()
			if err != nil {
				eof := errors.Is(err, io.EOF) || errors.Is(err, ErrConnClosed)
				r.evs = append(r.evs, c13Ev{err: err.Error(), eof: eof})
				r.mu.Unlock()
				errs++
				if eof || errs > 30 { // a failed handshake makes every Read fail at once: do not spin
					return
				}

				continue
			}
			errs = 0
			r.evs = append(r.evs, c13Ev{payload: append([]byte(nil), buf[:n]...)})
			r.mu.Unlock()
		}
	}()

	return r
}

func r13Other(name string) string {
	if name == "client" {
		return "server"
	}

	return "client"
}

func (s *r13Sim) cidLen(name string) int {
	return len(dtlsstate.CommonState(s.lab.peer(name).Conn.state).LocalConnectionIDForInboundRecords())
}

// records of a datagram as the receiver `to` frames it; nil when it does not split
func (s *r13Sim) split(to string, data []byte) [][]byte {
	st := r13St(s.lab.peer(to).Conn)
	var recs [][]byte
	func() {
		defer func() { _ = recover() }()
		recs, _ = recordlayer.UnpackDatagram13(data, s.cidLen(to), st.CID.Negotiated, true)
	}()

	return recs
}

// classify one datagram emitted by `from`: opened records
func (s *r13Sim) openDatagram(from string, data []byte) []r13Opened {
	to := r13Other(from)
	var out []r13Opened
	for _, r := range s.split(to, data) {
		if len(r) == 0 || !protocol.IsDTLS13Ciphertext(protocol.ContentType(r[0])) {
			continue
		}
		if o, ok := r13Open(s.lab.peer(from).Conn, r, s.cidLen(to)); ok {
			out = append(out, o)
		}
	}

	return out
}

func (sd *r13Side) addLog(l r13Sealed) {
	k := fmt.Sprintf("%d/%d/%s/%s", l.E, l.Q, l.AAD, l.CT)
	if sd.logSeen[k] {
		return
	}
	sd.logSeen[k] = true
	sd.log = append(sd.log, l)
}

// deliver one datagram to `to` and record the step
func (s *r13Sim) deliver(to string, data []byte, tag string, auth, pl int) *r13Step {
	sd := s.sides[to]
	conn := sd.peer.Conn
	from := r13Other(to)
	if sd.userClosed {
		s.lab.Net.deliver(to, from, data)
		synctest.Wait()

		return &r13Step{}
	}
	// everything the peer really emitted so far is part of the log
	for _, r := range s.split(to, data) {
		if len(r) > 0 && protocol.IsDTLS13Ciphertext(protocol.ContentType(r[0])) {
			rec := recordlayer.CiphertextRecord13{}
			if r[0]&recordlayer.UnifiedHeaderCIDBit != 0 {
				rec.Header.ConnectionID = make([]byte, s.cidLen(to))
			}
			if rec.Unmarshal(r) == nil {
				sd.cts = append(sd.cts, rec.EncryptedRecord)
			}
		}
	}
	before := s.lab.Net.count()
	s.lab.Net.deliver(to, from, data)
	synctest.Wait()
	s.ensureReaders()
	st := r13Snapshot(conn)
	step := r13Step{Tag: tag, Auth: auth, Pl: pl, Ops: []r13Op{{Op: "arrive", Hex: vHex(data)}}}
	// derive the key-schedule operations from the change of the read generations
	have := map[int]bool{sd.last.Cur: true}
	for _, e := range sd.last.Old {
		have[e] = true
	}
	var fresh []int
	for _, e := range append(append([]int(nil), st.Old...), st.Cur) {
		if e >= 0 && !have[e] {
			fresh = append(fresh, e)
		}
	}
	sort.Ints(fresh)
	if st.CID != sd.last.CID || st.CIDNeg != sd.last.CIDNeg || st.RRC != sd.last.RRC {
		step.Ops = append(step.Ops, r13Op{Op: "cid", Hex: st.CID, Neg: st.CIDNeg, RRC: st.RRC})
	}
	for _, e := range fresh {
		step.Ops = append(step.Ops, r13Op{Op: "install", E: e}, r13Op{Op: "remote", E: e}, r13Op{Op: "drain"})
	}
	if st.Estab && !sd.last.Estab {
		step.Ops = append(step.Ops, r13Op{Op: "estab"})
	}
	obs := r13Obs{Delivered: []string{}, Alerts: [][2]int{}, ErrText: []string{}, Closed: st.Closed}
	sd.rd.mu.Lock()
	for ; sd.rd.seen < len(sd.rd.evs); sd.rd.seen++ {
		ev := sd.rd.evs[sd.rd.seen]
		switch {
		case ev.eof:
		case ev.err != "":
			obs.Errs++
			obs.ErrText = append(obs.ErrText, ev.err)
		default:
			obs.Delivered = append(obs.Delivered, vHex(ev.payload))
		}
	}
	sd.rd.mu.Unlock()
	for _, d := range s.lab.Net.since(before) {
		if d.From != to {
			continue
		}
		obs.Emitted++
		for _, r := range s.split(from, d.Data) {
			if len(r) == 0 {
				continue
			}
			if protocol.IsDTLS13Ciphertext(protocol.ContentType(r[0])) {
				if o, ok := r13Open(conn, r, s.cidLen(from)); ok {
					s.sides[from].addLog(o.Log)
					if o.Type == int(protocol.ContentTypeAlert) && len(o.Body) == 2 {
						obs.Alerts = append(obs.Alerts, [2]int{int(o.Body[0]), int(o.Body[1])})
					}
				}
			} else if r[0] == byte(protocol.ContentTypeAlert) && len(r) == 15 {
				obs.Alerts = append(obs.Alerts, [2]int{int(r[13]), int(r[14])})
			}
		}
	}
	if !reflect.DeepEqual(st, sd.last) {
		cp := st
		obs.State = &cp
	}
	sd.last = st
	step.Obs = obs
	sd.steps = append(sd.steps, step)

	return &sd.steps[len(sd.steps)-1]
}

// log every record found in a datagram emitted by `from` (opened with from's write secrets)
func (s *r13Sim) logEmitted(d vDatagram) []r13Opened {
	os := s.openDatagram(d.From, d.Data)
	for _, o := range os {
		s.sides[r13Other(d.From)].addLog(o.Log)
	}

	return os
}

type r13Policy func(d vDatagram, os []r13Opened) vAction

// pump: deliver what both sides emit, in emission order, until done() or `limit` of virtual time
func (s *r13Sim) pump(done func() bool, pol r13Policy, limit time.Duration) bool {
	deadline := time.Now().Add(limit)
	for {
		synctest.Wait()
		progressed := false
		for _, d := range s.lab.Net.since(s.next) {
			s.next = d.Idx + 1
			os := s.logEmitted(d)
			act := vPass
			if pol != nil {
				act = pol(d, os)
			}
			tag, pl := "genuine", -1
			for _, o := range os {
				if o.Type == int(protocol.ContentTypeApplicationData) {
					pl = s.payloadNum(d.From, o.Body)
				}
			}
			switch act {
			case vPass:
				s.deliver(d.To, d.Data, tag, 1, pl)
				progressed = true
			case vDup:
				s.deliver(d.To, d.Data, tag, 1, pl)
				s.deliver(d.To, d.Data, "replay", 1, pl)
				progressed = true
			case vHold:
				s.held = append(s.held, d)
			case vDrop:
			}
			if done() {
				return true
			}
		}
		if done() {
			return true
		}
		if progressed {
			continue
		}
		if !time.Now().Before(deadline) {
			return done()
		}
		time.Sleep(50 * time.Millisecond)
	}
}

func (s *r13Sim) payloadNum(from string, body []byte) int {
	for i, p := range s.sides[from].written {
		if string(p) == string(body) {
			return i
		}
	}

	return -1
}

func (s *r13Sim) write(from string, payload []byte) {
	sd := s.sides[from]
	sd.written = append(sd.written, payload)
	done := make(chan struct{})
	go func() {
		defer close(done)
		_, _ = sd.peer.Conn.Write(payload)
	}()
	synctest.Wait()
	select {
	case <-done:
	default:
		// blocked behind a pending key update: the pump will let it through
	}
}

func (s *r13Sim) updateKeys(who string, request bool, pol r13Policy) error {
	var err error
	done := make(chan struct{})
	go func() {
		defer close(done)
		ctx, cancel := context.WithTimeout(context.Background(), 30*time.Second)
		defer cancel()
		err = s.lab.peer(who).Conn.UpdateKeys(ctx, KeyUpdateOptions{RequestPeerUpdate: request})
	}()
	s.pump(func() bool {
		select {
		case <-done:
			return true
		default:
			return false
		}
	}, pol, 40*time.Second)
	<-done

	return err
}

type r13Variant struct {
	Name  string
	Suite r13Suite
	CCID  int // length of the connection id the client wants to receive; -1: extension not offered
	SCID  int
}

func r13Variants() []r13Variant {
	su := r13Suites()

	return []r13Variant{
		{"aes128gcm", su[0], -1, -1},
		{"aes256gcm", su[1], -1, -1},
		{"chacha20", su[2], -1, -1},
		{"aes128gcm-cid", su[0], 4, 3},
		{"chacha20-cid", su[2], 0, 5},
		{"aes256gcm-cid", su[1], 8, 0},
	}
}

// r13Begin creates both endpoints (handshakes started, nothing delivered yet); the readers run from the
// start, so that what Read returns is attributed to the delivery that made it available
func r13Begin(t *testing.T, v r13Variant, rng *vRand, w int) *r13Sim {
	t.Helper()
	ccfg, scfg := vCertPair()
	for i, c := range []*dtlsConfig{ccfg, scfg} {
		c.MinVersion, c.MaxVersion = protocol.Version1_3, protocol.Version1_3
		c.CipherSuites = []CipherSuiteID{v.Suite.ID}
		if w > 0 {
			c.ReplayProtectionWindow = w
		}
		n := []int{v.CCID, v.SCID}[i]
		switch {
		case n > 0:
			cid := rng.bytes(n)
			c.ConnectionIDGenerator = func() []byte { return append([]byte(nil), cid...) }
		case n == 0:
			c.ConnectionIDGenerator = OnlySendCIDGenerator()
		}
	}
	lab := newLab(t, ccfg, scfg)
	s := &r13Sim{t: t, lab: lab, rng: rng, sides: map[string]*r13Side{}}
	synctest.Wait() // both handshake goroutines have activated their DTLS 1.3 state
	for _, name := range []string{"client", "server"} {
		p := lab.peer(name)
		sd := &r13Side{peer: p, logSeen: map[string]bool{}}
		sd.init = r13Snapshot(p.Conn)
		sd.last = sd.init
		sd.rd = &r13Reader{}
		s.sides[name] = sd
	}

	return s
}

// the readers start as soon as HandshakeContext has returned (a Read issued earlier would wait on the
// handshake mutex, which the synctest bubble does not count as blocked), so that what Read returns is
// attributed to the delivery that made it available
func (s *r13Sim) ensureReaders() {
	started := false
	for _, name := range []string{"client", "server"} {
		sd := s.sides[name]
		if !sd.reading && sd.peer.handshakeDone() && sd.peer.Err == nil {
			sd.reading = true
			sd.rd = r13StartReader(sd.peer)
			started = true
		}
	}
	if started {
		synctest.Wait()
	}
}

func r13Start(t *testing.T, v r13Variant, rng *vRand, w int) *r13Sim {
	t.Helper()
	s := r13Begin(t, v, rng, w)
	lab := s.lab
	if !s.pump(lab.bothDone, nil, 60*time.Second) || !lab.established() {
		t.Fatalf("rec13: handshake failed (%s): client=%v server=%v", v.Name, lab.Client.Err, lab.Server.Err)
	}
	// let the post-handshake records (ACK, NewSessionTicket) settle
	s.pump(func() bool { return false }, nil, 300*time.Millisecond)

	return s
}

func (s *r13Sim) result(v r13Variant, scen, side string) r13Case {
	sd := s.sides[side]
	conn := sd.peer.Conn
	c := r13Case{
		Kind: "e2e", Variant: v.Name, Scen: scen, Side: side, W: int(conn.replayProtectionWindow),
		CID:    vHex(dtlsstate.CommonState(conn.state).LocalConnectionIDForInboundRecords()),
		CIDNeg: r13St(conn).CID.Negotiated, Init: sd.init, Log: sd.log, Steps: sd.steps, Masks: [][3]any{}, Written: []string{},
	}
	for _, p := range s.sides[r13Other(side)].written {
		c.Written = append(c.Written, vHex(p))
	}
	// masks: every ciphertext delivered x every read generation the receiver ever held
	st := r13St(conn)
	su := r13SuiteOf(conn)
	seen := map[string]bool{}
	for e := 2; e <= int(st.RemoteEpoch())+2; e++ {
		g, ok := st.TrafficKeys.Read(uint16(e))
		if !ok {
			continue
		}
		k := r13DeriveKeys(su, g.Secret)
		for _, ct := range sd.cts {
			key := fmt.Sprintf("%d/%x", e, ct[:16])
			if seen[key] {
				continue
			}
			seen[key] = true
			m := k.mask(ct)
			// cross-check the independent mask with the implementation's
			clear, err := g.Protection.UnmaskSequenceNumber(recordlayer.UnifiedHeader{SeqBit: true}, ct)
			if err != nil || clear.SequenceNumber != m {
				s.t.Fatalf("rec13: mask mismatch between harness and implementation (epoch %d)", e)
			}
			c.Masks = append(c.Masks, [3]any{e, vHex(ct[:16]), int(m)})
		}
	}

	return c
}

// seal a record under the write secret of `from` for `epoch` (may be ahead of its current generation)
func (s *r13Sim) craft(from string, c r13Craft) []byte {
	conn := s.lab.peer(from).Conn
	secret, ok := r13WriteSecret(conn, c.Epoch)
	if !ok {
		s.t.Fatalf("rec13: no write secret for epoch %d", c.Epoch)
	}
	st := r13St(conn)
	if c.CID == nil && st.CID.Negotiated && st.CID.Send.UseCID {
		c.CID = append([]byte(nil), st.CID.Send.Active...)
	}
	wire, log := r13DeriveKeys(r13SuiteOf(conn), secret).seal(c)
	s.sides[r13Other(from)].addLog(log)

	return wire
}

// sanity: the harness's own sealing equals the implementation's for the form the implementation emits
func (s *r13Sim) selfCheck(from string) {
	conn := s.lab.peer(from).Conn
	st := r13St(conn)
	g, ok := st.TrafficKeys.CurrentWrite()
	if !ok {
		s.t.Fatalf("rec13: no write generation")
	}
	h := recordlayer.UnifiedHeader{EpochLow: uint8(g.Epoch & 3), SequenceNumber: 0x1234, SeqBit: true, LengthBit: true}
	if st.CID.Negotiated && st.CID.Send.UseCID {
		h.ConnectionID = append([]byte(nil), st.CID.Send.Active...)
	}
	rec, err := g.Protection.Seal(h, 0x51234, protocol.ContentTypeApplicationData, []byte("self-check"))
	if err != nil {
		s.t.Fatalf("rec13: %v", err)
	}
	want, _ := rec.Marshal()
	got, _ := r13DeriveKeys(r13SuiteOf(conn), g.Secret).seal(r13Craft{
		Epoch: int(g.Epoch), Seq: 0x51234, SBit: true, LBit: true, CID: h.ConnectionID, Type: 23, Body: []byte("self-check"),
	})
	if string(want) != string(got) {
		s.t.Fatalf("rec13: harness sealing differs from the implementation's:\n%x\n%x", want, got)
	}
}

func r13Payload(rng *vRand, side string, i int) []byte {
	return append([]byte(fmt.Sprintf("r13-%s-%03d-", side, i)), rng.bytes(rng.intn(24))...)
}

// ---------------------------------------------------------------- scenarios

// hold application data of `from`, pass everything else
func r13HoldApp(from string) r13Policy {
	return func(d vDatagram, os []r13Opened) vAction {
		if d.From != from {
			return vPass
		}
		for _, o := range os {
			if o.Type == int(protocol.ContentTypeApplicationData) {
				return vHold
			}
		}

		return vPass
	}
}

// mutants of one DTLS 1.3 record (single-record datagram)
func r13Mutants(rng *vRand, raw []byte, cidLen int, budget int) (muts [][]byte, names []string) {
	add := func(name string, b []byte) {
		muts = append(muts, b)
		names = append(names, name)
	}
	clone := func() []byte { return append([]byte(nil), raw...) }
	hdr := 1 + 2 + 2
	if raw[0]&recordlayer.UnifiedHeaderCIDBit != 0 {
		hdr += cidLen
	}
	for i := 0; i < hdr*8; i++ {
		m := clone()
		m[i/8] ^= 1 << (i % 8)
		add(fmt.Sprintf("hdrbit:%d", i), m)
	}
	body := len(raw) - hdr
	for _, off := range []int{0, 1, 3, 4, 15, 16, body / 2, body - 17, body - 16, body - 9, body - 2, body - 1} {
		if off < 0 || off >= body {
			continue
		}
		m := clone()
		m[hdr+off] ^= 1 << uint(rng.intn(8))
		add(fmt.Sprintf("bodybit:%d", off), m)
	}
	for _, e := range []int{0, 1, 2, 3} {
		if int(raw[0]&3) != e {
			m := clone()
			m[0] = m[0]&^3 | byte(e)
			add(fmt.Sprintf("relabel:%d", e), m)
		}
	}
	add("truncate1", clone()[:len(raw)-1])
	add("truncate-tag", clone()[:len(raw)-16])
	add("truncate-hdr", clone()[:hdr])
	add("truncate-half", clone()[:hdr+body/2])
	add("extend1", append(clone(), byte(rng.intn(256))))
	{ // truncate and fix the length field
		m := clone()[:len(raw)-1]
		l := len(m) - hdr
		m[hdr-2], m[hdr-1] = byte(l>>8), byte(l)
		add("truncate1-fixlen", m)
		m = append(clone(), byte(rng.intn(256)))
		l = len(m) - hdr
		m[hdr-2], m[hdr-1] = byte(l>>8), byte(l)
		add("extend1-fixlen", m)
		// drop the length field and clear the L bit
		m = append(append([]byte(nil), raw[:hdr-2]...), raw[hdr:]...)
		m[0] &^= recordlayer.UnifiedHeaderLengthBit
		add("strip-length", m)
		// 8-bit record number: drop the high byte and clear the S bit
		m = append(append([]byte(nil), raw[:hdr-4]...), raw[hdr-3:]...)
		m[0] &^= recordlayer.UnifiedHeaderSeqBit
		add("short-seq", m)
	}
	if raw[0]&recordlayer.UnifiedHeaderCIDBit != 0 && cidLen > 0 {
		m := clone()
		m[1+rng.intn(cidLen)] ^= 0xff
		add("cid-alter", m)
		m = append([]byte{raw[0] &^ recordlayer.UnifiedHeaderCIDBit}, raw[1+cidLen:]...)
		add("cid-remove", m)
	} else {
		m := append(append([]byte{raw[0] | recordlayer.UnifiedHeaderCIDBit}, 1, 2, 3, 4), raw[1:]...)
		add("cid-insert", m)
	}
	if budget > 0 && len(muts) > budget {
		keep := map[int]bool{}
		for len(keep) < budget {
			keep[rng.intn(len(muts))] = true
		}
		var m2 [][]byte
		var n2 []string
		for i := range muts {
			if keep[i] {
				m2 = append(m2, muts[i])
				n2 = append(n2, names[i])
			}
		}
		muts, names = m2, n2
	}

	return muts, names
}

func r13PlainAlert(seq uint64, level, desc byte) []byte {
	return []byte{21, 254, 253, 0, 0, byte(seq >> 40), byte(seq >> 32), byte(seq >> 24), byte(seq >> 16), byte(seq >> 8), byte(seq), 0, 2, level, desc}
}

type r13Plan struct {
	KUPeer, KUSelf int // key updates before the capture: by the sender (receiver's read generations) / by the receiver
	NPay           int
	Budget         int
	W              int
	Recv           string
	MidKU          int  // key updates by the sender while its application data is held back
	Fatal          bool // end with an authentic fatal alert instead of close_notify
	Plain          bool // end with a forged plaintext (epoch 0) fatal alert
}

// mutation scenario: key updates, capture genuine records (held back), inject mutants / crafted / replays
func r13RunMutation(t *testing.T, v r13Variant, rng *vRand, pl r13Plan) []r13Case {
	t.Helper()
	s := r13Start(t, v, rng, pl.W)
	defer s.lab.close()
	recv, send := pl.Recv, r13Other(pl.Recv)
	s.selfCheck(send)
	n := 0
	for i := 0; i < pl.KUPeer || i < pl.KUSelf; i++ {
		if i < pl.KUPeer {
			s.write(send, r13Payload(rng, send, n))
			n++
			if err := s.updateKeys(send, false, nil); err != nil {
				t.Fatalf("rec13: UpdateKeys(%s): %v", send, err)
			}
		}
		if i < pl.KUSelf {
			if err := s.updateKeys(recv, false, nil); err != nil {
				t.Fatalf("rec13: UpdateKeys(%s): %v", recv, err)
			}
		}
		s.write(send, r13Payload(rng, send, n))
		n++
		s.pump(func() bool { return false }, nil, 100*time.Millisecond)
	}
	// capture: application data of the sender is held back; key updates in between go through
	hold := r13HoldApp(send)
	for i := 0; i < pl.NPay; i++ {
		s.write(send, r13Payload(rng, send, n))
		n++
		s.pump(func() bool { return false }, hold, 20*time.Millisecond)
		if i < pl.MidKU {
			if err := s.updateKeys(send, false, hold); err != nil {
				t.Fatalf("rec13: mid UpdateKeys(%s): %v", send, err)
			}
		}
	}
	s.pump(func() bool { return false }, hold, 100*time.Millisecond)
	caps := s.held
	s.held = nil
	if len(caps) != pl.NPay {
		t.Fatalf("rec13: captured %d datagrams for %d writes", len(caps), pl.NPay)
	}
	cidLen := s.cidLen(recv)
	rst := func() *dtlsstate.State13 { return r13St(s.lab.peer(recv).Conn) }
	closed := func() bool { return s.lab.peer(recv).Conn.isConnectionClosed() }
	inject := func(data []byte, tag string, auth, plNum int) {
		if !closed() {
			s.deliver(recv, data, tag, auth, plNum)
		}
	}
	// crafted authentic records around the first held record's generation
	first := s.openDatagram(send, caps[0].Data)
	if len(first) != 1 {
		t.Fatalf("rec13: cannot open a captured record")
	}
	ep := first[0].Epoch
	high := func(e int) uint64 {
		st := rst()
		if e < len(st.RemoteSequenceNumber) {
			return st.RemoteSequenceNumber[e]
		}

		return 0
	}
	sendCtr := func(e int) uint64 {
		st := r13St(s.lab.peer(send).Conn)
		if e < len(st.LocalSequenceNumber) {
			return st.LocalSequenceNumber[e]
		}

		return 0
	}
	fresh := sendCtr(ep) + 2 // record numbers the sender has not used
	craft := func(name string, c r13Craft, plBody []byte) {
		if c.Type == 23 && plBody != nil {
			s.sides[send].written = append(s.sides[send].written, plBody)
			c.Body = plBody
		}
		num := -1
		if c.Type == 23 && !c.NoType {
			num = s.payloadNum(send, c.Body)
		}
		inject(s.craft(send, c), "craft:"+name, 1, num)
	}
	// the sender has "used" record numbers up to `to` in epoch e (so that what it emits next is in range)
	bump := func(e int, to uint64) {
		st := r13St(s.lab.peer(send).Conn)
		for len(st.LocalSequenceNumber) <= e {
			st.LocalSequenceNumber = append(st.LocalSequenceNumber, 0)
		}
		if st.LocalSequenceNumber[e] < to {
			st.LocalSequenceNumber[e] = to
		}
	}
	nextSeq := func(e int) uint64 {
		q := sendCtr(e) + 200
		if h := high(e) + 5; h > q {
			q = h
		}

		return q
	}
	win := uint64(s.lab.peer(recv).Conn.replayProtectionWindow)
	for i, cap := range caps {
		muts, names := r13Mutants(rng, cap.Data, cidLen, pl.Budget)
		for j := range muts {
			inject(muts[j], "mutant:"+names[j], 0, -1)
		}
		os := s.openDatagram(send, cap.Data)
		num := -1
		if len(os) == 1 {
			num = s.payloadNum(send, os[0].Body)
		}
		inject(cap.Data, "genuine", 1, num)
		inject(cap.Data, "replay", 1, num)
		inject(append(append([]byte(nil), cap.Data...), cap.Data...), "replay-twice", 1, num)
		if i == 0 {
			// header forms the implementation accepts but never emits, padding, odd inner types
			p8 := r13Payload(rng, send, 900)
			craft("seq8", r13Craft{Epoch: ep, Seq: fresh, SBit: false, LBit: true, Type: 23}, p8)
			craft("seq8-nolen", r13Craft{Epoch: ep, Seq: fresh + 1, SBit: false, LBit: false, Type: 23}, r13Payload(rng, send, 901))
			craft("seq16-nolen", r13Craft{Epoch: ep, Seq: fresh + 2, SBit: true, LBit: false, Type: 23}, r13Payload(rng, send, 902))
			craft("padded", r13Craft{Epoch: ep, Seq: fresh + 3, SBit: true, LBit: true, Type: 23, Zeros: 1 + rng.intn(20)}, r13Payload(rng, send, 903))
			craft("empty-payload", r13Craft{Epoch: ep, Seq: fresh + 4, SBit: true, LBit: true, Type: 23}, []byte{})
			craft("inner-type-24", r13Craft{Epoch: ep, Seq: fresh + 5, SBit: true, LBit: true, Type: 24, Body: rng.bytes(5)}, nil)
			craft("inner-type-20", r13Craft{Epoch: ep, Seq: fresh + 6, SBit: true, LBit: true, Type: 20, Body: []byte{1}}, nil)
			craft("inner-all-zero", r13Craft{Epoch: ep, Seq: fresh + 7, SBit: true, LBit: true, NoType: true, Body: make([]byte, 3)}, nil)
			craft("inner-empty", r13Craft{Epoch: ep, Seq: fresh + 8, SBit: true, LBit: true, NoType: true}, nil)
			craft("ack-empty", r13Craft{Epoch: ep, Seq: fresh + 9, SBit: true, LBit: true, Type: 26, Body: []byte{0, 0}}, nil)
			craft("ack-garbage", r13Craft{Epoch: ep, Seq: fresh + 10, SBit: true, LBit: true, Type: 26, Body: []byte{0, 5, 1}}, nil)
			craft("alert-short", r13Craft{Epoch: ep, Seq: fresh + 11, SBit: true, LBit: true, Type: 21, Body: []byte{1}}, nil)
			craft("alert-warning", r13Craft{Epoch: ep, Seq: fresh + 12, SBit: true, LBit: true, Type: 21, Body: []byte{1, 90}}, nil)
			craft("rrc-not-negotiated", r13Craft{Epoch: ep, Seq: fresh + 13, SBit: true, LBit: true, Type: 27, Body: append([]byte{0}, rng.bytes(8)...)}, nil)
			craft("hs-garbage", r13Craft{Epoch: ep, Seq: fresh + 14, SBit: true, LBit: true, Type: 22, Body: rng.bytes(5)}, nil)
			craft("seq8-replay", r13Craft{Epoch: ep, Seq: fresh, SBit: false, LBit: true, Type: 23, Body: p8}, nil)
			// two authentic records in one datagram, the first without ... no: the LAST may omit the length
			a1 := s.craft(send, r13Craft{Epoch: ep, Seq: fresh + 15, SBit: true, LBit: true, Type: 23, Body: []byte("two-a")})
			a2 := s.craft(send, r13Craft{Epoch: ep, Seq: fresh + 16, SBit: false, LBit: false, Type: 23, Body: []byte("two-b")})
			s.sides[send].written = append(s.sides[send].written, []byte("two-a"), []byte("two-b"))
			inject(append(a1, a2...), "craft:two-records", 1, -1)
			bump(ep, fresh+20)
			// legacy-header records: plaintext garbage, legacy records claiming a protected epoch
			re := int(rst().RemoteEpoch())
			inject([]byte{22, 254, 253, 0, byte(re), 0, 0, 0, 0, 0, 7, 0, 3, 1, 2, 3}, "plain:legacy-protected-epoch", 0, -1)
			inject([]byte{22, 254, 253, 0, byte(re + 1), 0, 0, 0, 0, 0, 7, 0, 3, 1, 2, 3}, "plain:legacy-next-epoch", 0, -1)
			inject([]byte{26, 254, 253, 0, 0, 0, 0, 0, 0, 3, 232, 0, 2, 0, 0}, "plain:ack-epoch0", 0, -1)
			inject([]byte{23, 254, 253, 0, 0, 0, 0, 0, 0, 3, 233, 0, 1, 65}, "plain:appdata-epoch0", 0, -1)
			inject([]byte{21, 254, 253, 0, 0, 0, 0, 0, 0, 3, 234, 0, 1, 65}, "plain:alert-short-epoch0", 0, -1)
			mseq := rst().HandshakeRecvSequence
			inject(r13PlainRecord(22, 1003, []byte{24, 0, 0, 1, byte(mseq >> 8), byte(mseq), 0, 0, 0, 0, 0, 1, 0}), "plain:keyupdate-epoch0", 0, -1)
			inject(r13PlainRecord(22, 1004, []byte{1, 0, 0, 0, 0, 0, 0, 0, 0, 0, 0, 0}), "plain:clienthello-epoch0", 0, -1)
		}
	}
	if !closed() {
		last, _ := func() (r13Opened, bool) {
			os := s.openDatagram(send, caps[len(caps)-1].Data)

			return os[0], len(os) == 1
		}()
		ep = last.Epoch
		// stale generations: every older generation the receiver still holds, incl. the handshake generation
		for e := int(rst().RemoteEpoch()) - 1; e >= 2; e-- {
			if e == ep {
				continue
			}
			ps := r13Payload(rng, send, 920+e)
			q := nextSeq(e)
			craft(fmt.Sprintf("stale-gen-%d", e), r13Craft{Epoch: e, Seq: q, SBit: true, LBit: true, Type: 23}, ps)
			craft(fmt.Sprintf("stale-gen-%d-replay", e), r13Craft{Epoch: e, Seq: q, SBit: true, LBit: true, Type: 23, Body: ps}, nil)
		}
		// generations ahead of the receiver: the next one (parked or aliased) and the one after
		re := int(rst().RemoteEpoch())
		craft("future-gen-1", r13Craft{Epoch: re + 1, Seq: 0, SBit: true, LBit: true, Type: 23}, r13Payload(rng, send, 940))
		craft("future-gen-2", r13Craft{Epoch: re + 2, Seq: 0, SBit: true, LBit: true, Type: 23}, r13Payload(rng, send, 941))
		bump(re+1, 1)
		// reconstruction window: half the 16-bit range ahead of the newest number is accepted (twice, so that
		// the newest number leaves the first 2^16 where nothing is ever out of range), one more is not; same for 8 bits
		craft("far-16-in", r13Craft{Epoch: ep, Seq: high(ep) + 1 + 32768, SBit: true, LBit: true, Type: 23}, r13Payload(rng, send, 910))
		craft("far-16-in2", r13Craft{Epoch: ep, Seq: high(ep) + 1 + 32768, SBit: true, LBit: true, Type: 23}, r13Payload(rng, send, 911))
		craft("far-16-out", r13Craft{Epoch: ep, Seq: high(ep) + 1 + 32769, SBit: true, LBit: true, Type: 23}, r13Payload(rng, send, 912))
		craft("far-8-out", r13Craft{Epoch: ep, Seq: high(ep) + 1 + 129, SBit: false, LBit: true, Type: 23}, r13Payload(rng, send, 913))
		craft("far-8-in", r13Craft{Epoch: ep, Seq: high(ep) + 1 + 128, SBit: false, LBit: true, Type: 23}, r13Payload(rng, send, 914))
		// behind the (moved) window
		h := high(ep)
		if h > win {
			craft("behind-window", r13Craft{Epoch: ep, Seq: h - win, SBit: true, LBit: true, Type: 23}, r13Payload(rng, send, 915))
			craft("window-edge", r13Craft{Epoch: ep, Seq: h - win + 1, SBit: true, LBit: true, Type: 23}, r13Payload(rng, send, 916))
			craft("window-edge-replay", r13Craft{Epoch: ep, Seq: h - win + 1, SBit: true, LBit: true, Type: 23, Body: s.sides[send].written[len(s.sides[send].written)-1]}, nil)
		}
		bump(ep, high(ep)+3)
	}
	// what the receiver wrote while records were injected never reaches the sender
	synctest.Wait()
	s.next = s.lab.Net.count()
	// a real key update of the sender now drains whatever was parked
	if !closed() && int(rst().RemoteEpoch()) < 9 {
		if err := s.updateKeys(send, false, nil); err != nil {
			t.Logf("rec13: final UpdateKeys: %v", err)
		}
	}
	{
		e := int(r13St(s.lab.peer(send).Conn).LocalEpoch())
		switch {
		case pl.Plain:
			inject(r13PlainAlert(5000+uint64(rng.intn(1000)), 2, 40), "plain:alert-fatal-epoch0", 0, -1)
		case pl.Fatal:
			craft("alert-fatal", r13Craft{Epoch: e, Seq: nextSeq(e), SBit: true, LBit: true, Type: 21, Body: []byte{2, 40}}, nil)
		default:
			craft("close-notify", r13Craft{Epoch: e, Seq: nextSeq(e), SBit: true, LBit: true, Type: 21, Body: []byte{1, 0}}, nil)
		}
	}
	scen := fmt.Sprintf("mutation/ku%d-%d/mid%d", pl.KUPeer, pl.KUSelf, pl.MidKU)

	return []r13Case{s.result(v, scen, recv)}
}

// clean session with reordering / duplication / loss: both sides are receivers
func r13RunSession(t *testing.T, v r13Variant, rng *vRand, w, writes, kus int, dupPct, holdPct, dropPct int) []r13Case {
	t.Helper()
	s := r13Start(t, v, rng, w)
	defer s.lab.close()
	var heldBack []vDatagram
	pol := func(d vDatagram, os []r13Opened) vAction {
		app := false
		for _, o := range os {
			if o.Type == int(protocol.ContentTypeApplicationData) {
				app = true
			}
		}
		if !app {
			if rng.chance(dupPct / 2) {
				return vDup
			}

			return vPass
		}
		switch {
		case rng.chance(dropPct):
			return vDrop
		case rng.chance(holdPct):
			heldBack = append(heldBack, d)

			return vDrop
		case rng.chance(dupPct):
			return vDup
		}

		return vPass
	}
	release := func() {
		// late arrivals, in a random order, some twice
		for len(heldBack) > 0 {
			i := rng.intn(len(heldBack))
			d := heldBack[i]
			heldBack = append(heldBack[:i], heldBack[i+1:]...)
			os := s.openDatagram(d.From, d.Data)
			num := -1
			for _, o := range os {
				if o.Type == 23 {
					num = s.payloadNum(d.From, o.Body)
				}
			}
			if !s.lab.peer(d.To).Conn.isConnectionClosed() {
				s.deliver(d.To, d.Data, "late", 1, num)
				if rng.chance(30) {
					s.deliver(d.To, d.Data, "replay", 1, num)
				}
			}
		}
	}
	n := map[string]int{}
	for round := 0; round <= kus; round++ {
		for i := 0; i < writes; i++ {
			for _, side := range []string{"client", "server"} {
				if rng.chance(70) {
					s.write(side, r13Payload(rng, side, n[side]))
					n[side]++
				}
			}
			s.pump(func() bool { return false }, pol, 10*time.Millisecond)
		}
		if round < kus {
			who := []string{"client", "server"}[rng.intn(2)]
			if err := s.updateKeys(who, rng.chance(40), pol); err != nil {
				t.Logf("rec13: UpdateKeys(%s): %v", who, err)
			}
			if rng.chance(50) {
				release()
			}
		}
	}
	s.pump(func() bool { return false }, pol, 200*time.Millisecond)
	release()
	// the client closes: its close_notify reaches the server
	s.sides["client"].userClosed = true
	_ = s.lab.Client.Conn.Close()
	s.pump(func() bool { return false }, nil, 200*time.Millisecond)
	scen := fmt.Sprintf("session/w%d/ku%d/dup%d-hold%d-drop%d", w, kus, dupPct, holdPct, dropPct)

	return []r13Case{s.result(v, scen, "client"), s.result(v, scen, "server")}
}


// record a step that consists of state operations the harness performed itself on `to` (no datagram)
func (s *r13Sim) opStep(to string, ops []r13Op, tag string) {
	sd := s.sides[to]
	synctest.Wait()
	s.ensureReaders()
	st := r13Snapshot(sd.peer.Conn)
	obs := r13Obs{Delivered: []string{}, Alerts: [][2]int{}, ErrText: []string{}, Closed: st.Closed}
	sd.rd.mu.Lock()
	for ; sd.rd.seen < len(sd.rd.evs); sd.rd.seen++ {
		ev := sd.rd.evs[sd.rd.seen]
		switch {
		case ev.eof:
		case ev.err != "":
			obs.Errs++
			obs.ErrText = append(obs.ErrText, ev.err)
		default:
			obs.Delivered = append(obs.Delivered, vHex(ev.payload))
		}
	}
	sd.rd.mu.Unlock()
	if !reflect.DeepEqual(st, sd.last) {
		cp := st
		obs.State = &cp
	}
	sd.last = st
	sd.steps = append(sd.steps, r13Step{Tag: tag, Auth: 2, Pl: -1, Ops: ops, Obs: obs})
}

// states the protocol does not reach on its own schedule, set up in-package: a read generation installed
// before the remote epoch moves (the window between Install and SetRemoteEpoch in handleKeyUpdate), and
// record numbers at the 48-bit limit of the re-marshalled header
func r13RunPoke(t *testing.T, v r13Variant, rng *vRand, recv string) []r13Case {
	t.Helper()
	s := r13Start(t, v, rng, 64)
	defer s.lab.close()
	send := r13Other(recv)
	rc, sc := s.lab.peer(recv).Conn, s.lab.peer(send).Conn
	for i := 0; i < 2; i++ {
		s.write(send, r13Payload(rng, send, i))
		s.pump(func() bool { return false }, nil, 50*time.Millisecond)
	}
	inject := func(c r13Craft, name string, body []byte) {
		if body != nil {
			s.sides[send].written = append(s.sides[send].written, body)
			c.Body = body
		}
		num := -1
		if c.Type == 23 {
			num = s.payloadNum(send, c.Body)
		}
		s.deliver(recv, s.craft(send, c), "craft:"+name, 1, num)
	}
	// (a) generation installed, remote epoch not yet moved
	rst := r13St(rc)
	re := int(rst.RemoteEpoch())
	secret, ok := r13WriteSecret(sc, re+1)
	if !ok {
		t.Fatalf("rec13: no next secret")
	}
	cs, ok := rst.CipherSuite.(ciphersuite.CipherSuiteTLS13)
	if !ok {
		t.Fatalf("rec13: no TLS 1.3 suite")
	}
	prot, err := cs.NewRecordProtection(secret)
	if err != nil {
		t.Fatalf("rec13: %v", err)
	}
	cur, _ := rst.TrafficKeys.CurrentRead()
	rst.TrafficKeys.Install(nil, &dtlsstate.TrafficGeneration{Epoch: uint16(re + 1), Generation: cur.Generation + 1, Secret: secret, Protection: prot})
	s.opStep(recv, []r13Op{{Op: "install", E: re + 1}}, "poke:install-next")
	inject(r13Craft{Epoch: re + 1, Seq: 0, SBit: true, LBit: true, Type: 23}, "early-next-gen", r13Payload(rng, send, 800))
	inject(r13Craft{Epoch: re, Seq: 50, SBit: true, LBit: true, Type: 23}, "old-gen-after-install", r13Payload(rng, send, 801))
	rst.SetRemoteEpoch(uint16(re + 1))
	_ = rc.handleQueuedPackets(context.Background())
	s.opStep(recv, []r13Op{{Op: "remote", E: re + 1}, {Op: "drain"}}, "poke:remote-epoch+drain")
	inject(r13Craft{Epoch: re + 1, Seq: 1, SBit: true, LBit: true, Type: 23}, "next-gen-now-current", r13Payload(rng, send, 802))
	first := s.result(v, "poke/epoch-gate", recv)
	// (b) record numbers around 2^48: a new trace from a poked state
	e := re + 1
	for len(rst.RemoteSequenceNumber) <= e {
		rst.RemoteSequenceNumber = append(rst.RemoteSequenceNumber, 0)
	}
	rst.RemoteSequenceNumber[e] = 1<<48 - 10
	sd := s.sides[recv]
	synctest.Wait()
	sd.init = r13Snapshot(rc)
	sd.last = sd.init
	sd.steps = nil
	inject(r13Craft{Epoch: e, Seq: 1<<48 - 3, SBit: true, LBit: true, Type: 23}, "seq-2^48-3", r13Payload(rng, send, 810))
	inject(r13Craft{Epoch: e, Seq: 1<<48 + 3, SBit: true, LBit: true, Type: 23}, "seq-2^48+3", r13Payload(rng, send, 811))
	inject(r13Craft{Epoch: e, Seq: 1 << 48, SBit: true, LBit: true, Type: 23}, "seq-2^48", r13Payload(rng, send, 812))
	inject(r13Craft{Epoch: e, Seq: 1<<48 - 1, SBit: true, LBit: true, Type: 23}, "seq-2^48-1", r13Payload(rng, send, 813))
	inject(r13Craft{Epoch: e, Seq: 1<<48 - 1, SBit: true, LBit: true, Type: 23, Body: s.sides[send].written[len(s.sides[send].written)-1]}, "seq-2^48-1-replay", nil)
	inject(r13Craft{Epoch: e, Seq: 1<<48 + 3, SBit: true, LBit: true, Type: 21, Body: []byte{2, 40}}, "alert-above-2^48", nil)
	second := s.result(v, "poke/seq48", recv)

	return []r13Case{first, second}
}


// F84: application records of the next epoch overtake the client's Finished. The server parks them
// (it has no keys for them yet), processes them from the handshake goroutine when the Finished arrives -
// the local handshake is not complete at that moment - and Read must return each exactly once afterwards.
// pion's own client does not write before the handshake completed, so the early records are sealed here with
// the client's epoch-3 write secret, as a client that does not wait would.
func r13RunEarly(t *testing.T, v r13Variant, rng *vRand, nEarly int) []r13Case {
	t.Helper()
	s := r13Begin(t, v, rng, 64)
	defer s.lab.close()
	heldFin := []vDatagram{}
	pol := func(d vDatagram, os []r13Opened) vAction {
		if d.From == "client" && len(d.Data) > 0 && protocol.IsDTLS13Ciphertext(protocol.ContentType(d.Data[0])) {
			heldFin = append(heldFin, d)

			return vDrop
		}

		return vPass
	}
	// until the client's final flight is on the wire (and withheld)
	s.pump(func() bool { return len(heldFin) > 0 }, pol, 5*time.Second)
	synctest.Wait()
	note := ""
	if len(heldFin) == 0 {
		note = "client final flight not seen"
	}
	cst := r13St(s.lab.Client.Conn)
	if _, ok := cst.TrafficKeys.Write(3); !ok {
		note = "client has no epoch-3 write generation after its final flight"
	}
	if note == "" {
		for i := 0; i < nEarly; i++ {
			pl := r13Payload(rng, "client", 700+i)
			s.sides["client"].written = append(s.sides["client"].written, pl)
			s.deliver("server", s.craft("client", r13Craft{Epoch: 3, Seq: uint64(i), SBit: true, LBit: true, Type: 23, Body: pl}), "craft:early-app", 1, s.payloadNum("client", pl))
		}
		for len(cst.LocalSequenceNumber) <= 3 {
			cst.LocalSequenceNumber = append(cst.LocalSequenceNumber, 0)
		}
		if cst.LocalSequenceNumber[3] < uint64(nEarly) {
			cst.LocalSequenceNumber[3] = uint64(nEarly)
		}
		for _, d := range heldFin {
			s.deliver("server", d.Data, "genuine:finished", 1, -1)
		}
		// the rest of the handshake, then one ordinary write each way
		s.pump(s.lab.bothDone, nil, 10*time.Second)
		if s.lab.established() {
			s.write("client", r13Payload(rng, "client", 750))
			s.pump(func() bool { return false }, nil, 200*time.Millisecond)
		} else {
			note = fmt.Sprintf("handshake did not complete: client=%v server=%v", s.lab.Client.handshakeDone(), s.lab.Server.handshakeDone())
		}
	}
	c := s.result(v, fmt.Sprintf("early/n%d", nEarly), "server")
	c.Note = note

	return []r13Case{c}
}

// K-C06-2: replay window above half the 16-bit record-number range. A genuine record is held back, the
// newest number of its epoch moves 32768+ ahead (authentic records, the sender's counter follows), then the
// held record arrives: inside the configured window, never seen - and dropped.
func r13RunBigWindow(t *testing.T, v r13Variant, rng *vRand, w int, behind uint64) []r13Case {
	t.Helper()
	s := r13Start(t, v, rng, w)
	defer s.lab.close()
	recv, send := "server", "client"
	s.write(send, r13Payload(rng, send, 0))
	s.pump(func() bool { return false }, nil, 50*time.Millisecond)
	hold := r13HoldApp(send)
	s.write(send, r13Payload(rng, send, 1))
	s.pump(func() bool { return false }, hold, 50*time.Millisecond)
	caps := s.held
	s.held = nil
	if len(caps) != 1 {
		t.Fatalf("rec13: captured %d datagrams", len(caps))
	}
	os := s.openDatagram(send, caps[0].Data)
	if len(os) != 1 {
		t.Fatalf("rec13: cannot open the held record")
	}
	ep, q0 := os[0].Epoch, os[0].Seq
	rst := r13St(s.lab.peer(recv).Conn)
	sst := r13St(s.lab.peer(send).Conn)
	high := func() uint64 {
		if ep < len(rst.RemoteSequenceNumber) {
			return rst.RemoteSequenceNumber[ep]
		}

		return 0
	}
	// move the newest number to q0 + behind in steps the reconstruction accepts
	for i := 0; high() < q0+behind; i++ {
		next := high() + 30000
		if next > q0+behind {
			next = q0 + behind
		}
		pl := r13Payload(rng, send, 100+i)
		s.sides[send].written = append(s.sides[send].written, pl)
		s.deliver(recv, s.craft(send, r13Craft{Epoch: ep, Seq: next, SBit: true, LBit: true, Type: 23, Body: pl}), "craft:ahead", 1, s.payloadNum(send, pl))
		if i > 8 {
			break
		}
	}
	sst.LocalSequenceNumber[ep] = high() + 1
	s.deliver(recv, caps[0].Data, "late-in-window", 1, s.payloadNum(send, os[0].Body))
	c := s.result(v, fmt.Sprintf("bigwindow/w%d/behind%d", w, behind), recv)
	c.Note = fmt.Sprintf("held record (epoch %d, seq %d), newest %d, window %d", ep, q0, high(), w)

	return []r13Case{c}
}

func TestVerifRec13E2E(t *testing.T) {
	out := newVOut(t)
	rng := newVRand(vSeed() ^ 0x13e2e)
	variants := r13Variants()
	rounds, budget := 1, 40
	if vIsThorough() {
		rounds, budget = 10, 0
	}
	for r := 0; r < rounds; r++ {
		for vi, v := range variants {
			v := v
			pl := r13Plan{
				KUPeer: (vi + r) % 4, KUSelf: (vi + 2*r + 1) % 4, NPay: 2 + rng.intn(2), Budget: budget,
				W: []int{64, 64, 128, 1, 256}[(vi+r)%5], Recv: []string{"client", "server"}[(vi+r)%2],
				MidKU: []int{0, 1, 0, 2}[(vi+r)%4], Fatal: (vi+r)%3 == 1, Plain: (vi+r)%3 == 2,
			}
			if r > 0 {
				pl.KUPeer, pl.KUSelf, pl.MidKU = rng.intn(4), rng.intn(4), rng.intn(3)
			}
			var res []r13Case
			vBubble(t, func(t *testing.T) { res = r13RunMutation(t, v, rng, pl) })
			for _, c := range res {
				out.emit(c)
			}
		}
	}
	for i, v := range variants {
		if !vIsThorough() && i%2 == 1 {
			continue
		}
		v := v
		var res []r13Case
		vBubble(t, func(t *testing.T) { res = r13RunPoke(t, v, rng, []string{"client", "server"}[i%2]) })
		for _, c := range res {
			out.emit(c)
		}
	}
	for i, v := range variants {
		if !vIsThorough() && i >= 3 {
			continue
		}
		v := v
		var res []r13Case
		vBubble(t, func(t *testing.T) { res = r13RunEarly(t, v, rng, 1+i%3) })
		for _, c := range res {
			out.emit(c)
		}
	}
	for i, spec := range [][2]uint64{{40000, 32799}, {40000, 32760}, {65536, 40000}, {32704, 32700}} {
		if !vIsThorough() && i >= 3 {
			continue
		}
		v := variants[i%len(variants)]
		var res []r13Case
		vBubble(t, func(t *testing.T) { res = r13RunBigWindow(t, v, rng, int(spec[0]), spec[1]) })
		for _, c := range res {
			out.emit(c)
		}
	}
	sessions := 10
	if vIsThorough() {
		sessions = 150
	}
	for i := 0; i < sessions; i++ {
		v := variants[i%len(variants)]
		w := []int{64, 1, 128, 64, 2}[rng.intn(5)]
		var res []r13Case
		writes, kus := 3+rng.intn(6), rng.intn(4)
		dup, hold, drop := rng.intn(40), rng.intn(40), rng.intn(15)
		vBubble(t, func(t *testing.T) { res = r13RunSession(t, v, rng, w, writes, kus, dup, hold, drop) })
		for _, c := range res {
			out.emit(c)
		}
	}
}

// ---------------------------------------------------------------- send side

type r13SendRec struct {
	E     int    `json:"e"`
	Q     uint64 `json:"q"`
	Plain bool   `json:"plain"`
	Type  int    `json:"type"`
	S16   bool   `json:"s16"`
	L     bool   `json:"l"`
	C     bool   `json:"c"`
}

type r13SendCase struct {
	Kind    string       `json:"kind"`
	Variant string       `json:"variant"`
	Side    string       `json:"side"`
	Scen    string       `json:"scen"`
	Recs    []r13SendRec `json:"recs"`
	Unopen  int          `json:"unopenable"`
	UseCID  bool         `json:"use_cid"`
}

func r13RunSend(t *testing.T, v r13Variant, rng *vRand, writers, perWriter, updates int, drop, dup int) []r13SendCase {
	t.Helper()
	s := r13Start(t, v, rng, 64)
	defer s.lab.close()
	pol := func(d vDatagram, _ []r13Opened) vAction {
		switch {
		case rng.chance(drop):
			return vDrop
		case rng.chance(dup):
			return vDup
		}

		return vPass
	}
	var wg sync.WaitGroup
	var mu sync.Mutex
	running := 0
	start := func(f func()) {
		wg.Add(1)
		mu.Lock()
		running++
		mu.Unlock()
		go func() {
			defer wg.Done()
			f()
			mu.Lock()
			running--
			mu.Unlock()
		}()
	}
	for _, p := range []*vPeer{s.lab.Client, s.lab.Server} {
		p := p
		for w := 0; w < writers; w++ {
			w := w
			start(func() {
				for i := 0; i < perWriter; i++ {
					_, _ = p.Conn.Write([]byte(fmt.Sprintf("send-%s-%d-%d", p.Name, w, i)))
				}
			})
		}
		if updates > 0 {
			start(func() {
				for i := 0; i < updates; i++ {
					ctx, cancel := context.WithTimeout(context.Background(), 20*time.Second)
					_ = p.Conn.UpdateKeys(ctx, KeyUpdateOptions{RequestPeerUpdate: i%2 == 0})
					cancel()
				}
			})
		}
	}
	s.pump(func() bool {
		mu.Lock()
		defer mu.Unlock()

		return running == 0
	}, pol, 120*time.Second)
	wg.Wait()
	s.pump(func() bool { return false }, nil, time.Second)
	_ = s.lab.Client.Conn.Close()
	s.pump(func() bool { return false }, nil, time.Second)
	_ = s.lab.Server.Conn.Close()
	synctest.Wait()
	res := map[string]*r13SendCase{}
	for _, side := range []string{"client", "server"} {
		st := r13St(s.lab.peer(side).Conn)
		res[side] = &r13SendCase{
			Kind: "send", Variant: v.Name, Side: side, Recs: []r13SendRec{}, UseCID: st.CID.Negotiated && st.CID.Send.UseCID,
			Scen: fmt.Sprintf("w%d x %d, ku%d, drop%d dup%d", writers, perWriter, updates, drop, dup),
		}
	}
	for _, d := range s.lab.Net.since(0) {
		c := res[d.From]
		to := r13Other(d.From)
		recs := s.split(to, d.Data)
		if recs == nil {
			c.Unopen++

			continue
		}
		for _, r := range recs {
			if protocol.IsDTLS13Ciphertext(protocol.ContentType(r[0])) {
				o, ok := r13Open(s.lab.peer(d.From).Conn, r, s.cidLen(to))
				if !ok {
					c.Unopen++

					continue
				}
				c.Recs = append(c.Recs, r13SendRec{
					E: o.Epoch, Q: o.Seq, Type: o.Type, S16: r[0]&recordlayer.UnifiedHeaderSeqBit != 0,
					L: r[0]&recordlayer.UnifiedHeaderLengthBit != 0, C: r[0]&recordlayer.UnifiedHeaderCIDBit != 0,
				})
			} else {
				h := recordlayer.Header{}
				if err := h.Unmarshal(r); err != nil {
					c.Unopen++

					continue
				}
				c.Recs = append(c.Recs, r13SendRec{E: int(h.Epoch), Q: h.SequenceNumber, Plain: true, Type: int(h.ContentType)})
			}
		}
	}

	return []r13SendCase{*res["client"], *res["server"]}
}

func TestVerifRec13Send(t *testing.T) {
	out := newVOut(t)
	rng := newVRand(vSeed() ^ 0x13c09)
	variants := r13Variants()
	n := 12
	if vIsThorough() {
		n = 200
	}
	for i := 0; i < n; i++ {
		v := variants[i%len(variants)]
		writers, per, ups := 1+rng.intn(3), 2+rng.intn(10), rng.intn(4)
		drop, dup := rng.intn(12), rng.intn(20)
		if i < len(variants) {
			drop, dup = 0, 0
		}
		var res []r13SendCase
		vBubble(t, func(t *testing.T) { res = r13RunSend(t, v, rng, writers, per, ups, drop, dup) })
		for _, c := range res {
			out.emit(c)
		}
	}
}

var _ = handshake.TypeKeyUpdate //nolint:gochecknoglobals

// ---------------------------------------------------------------- unprotected records after the handshake

type r13PlainCase struct {
	Kind     string   `json:"kind"`
	Attack   string   `json:"attack"`
	Variant  string   `json:"variant"`
	Victim   string   `json:"victim"`
	Datagram string   `json:"datagram"`
	Closed   bool     `json:"closed"`         // the victim's connection is closed afterwards
	Alerts   [][2]int `json:"alerts"`         // alerts the victim wrote
	UKDone   bool     `json:"uk_done"`        // ack: the victim's UpdateKeys call returned
	UKErr    string   `json:"uk_err"`         // ack: its result
	EpochB   int      `json:"epoch_before"`   // victim's sending epoch before / after
	EpochA   int      `json:"epoch_after"`
	PeerRead int      `json:"peer_read"`      // ack: payloads the peer could read afterwards
	PeerRE   int      `json:"peer_remote_epoch"`
	ReadErr  []string `json:"read_err"`
	Control  bool     `json:"control"` // same scenario without the forged datagram
}

func r13PlainRecord(ct byte, seq uint64, body []byte) []byte {
	h := []byte{ct, 254, 253, 0, 0, byte(seq >> 40), byte(seq >> 32), byte(seq >> 24), byte(seq >> 16), byte(seq >> 8), byte(seq), byte(len(body) >> 8), byte(len(body))}

	return append(h, body...)
}

func r13RunPlain(t *testing.T, v r13Variant, rng *vRand, attack, victim string, control bool) r13PlainCase {
	t.Helper()
	s := r13Start(t, v, rng, 64)
	defer s.lab.close()
	other := r13Other(victim)
	vc := s.lab.peer(victim).Conn
	res := r13PlainCase{Kind: "plain", Attack: attack, Variant: v.Name, Victim: victim, Control: control, Alerts: [][2]int{}, ReadErr: []string{}}
	s.write(other, []byte("before"))
	s.pump(func() bool { return false }, nil, 100*time.Millisecond)
	res.EpochB = int(r13St(vc).LocalEpoch())
	var dg []byte
	switch attack {
	case "alert":
		dg = r13PlainRecord(21, 4000+uint64(rng.intn(1000)), []byte{2, 80})
		if !control {
			s.deliver(victim, dg, "plain:alert", 0, -1)
		}
	case "keyupdate":
		// an unprotected handshake record carrying KeyUpdate(update_not_requested) with the message_seq the victim expects next
		mseq := r13St(vc).HandshakeRecvSequence
		msg := []byte{24, 0, 0, 1, byte(mseq >> 8), byte(mseq), 0, 0, 0, 0, 0, 1, 0}
		dg = r13PlainRecord(22, 4000+uint64(rng.intn(1000)), msg)
		if !control {
			s.deliver(victim, dg, "plain:keyupdate", 0, -1)
		}
		s.pump(func() bool { return false }, func(vDatagram, []r13Opened) vAction { return vDrop }, 200*time.Millisecond)
	case "ack":
		// the victim starts a key update; its KeyUpdate records never reach the peer; a forged unprotected
		// ACK naming every record number (epoch, 0..199) is delivered to the victim
		done := make(chan struct{})
		var ukErr error
		go func() {
			defer close(done)
			ctx, cancel := context.WithTimeout(context.Background(), 10*time.Second)
			defer cancel()
			ukErr = vc.UpdateKeys(ctx, KeyUpdateOptions{})
		}()
		dropAll := func(vDatagram, []r13Opened) vAction { return vDrop }
		s.pump(func() bool { return false }, dropAll, 100*time.Millisecond)
		body := []byte{}
		for q := 0; q < 200; q++ {
			body = binary.BigEndian.AppendUint64(body, uint64(res.EpochB))
			body = binary.BigEndian.AppendUint64(body, uint64(q))
		}
		body = append([]byte{byte(len(body) >> 8), byte(len(body))}, body...)
		dg = r13PlainRecord(26, 4000+uint64(rng.intn(1000)), body)
		if !control {
			s.deliver(victim, dg, "plain:ack", 0, -1)
		}
		s.pump(func() bool {
			select {
			case <-done:
				return true
			default:
				return false
			}
		}, dropAll, 500*time.Millisecond)
		select {
		case <-done:
			res.UKDone = true
			res.UKErr = vErrString(ukErr)
		default:
		}
		// what the victim writes now is sealed under keys the peer was never told about
		before := len(s.sides[other].rd.evs)
		s.write(victim, []byte("after-forged-ack"))
		s.pump(func() bool { return false }, nil, 300*time.Millisecond)
		s.sides[other].rd.mu.Lock()
		for _, ev := range s.sides[other].rd.evs[before:] {
			if ev.err == "" {
				res.PeerRead++
			}
		}
		s.sides[other].rd.mu.Unlock()
		res.PeerRE = int(r13St(s.lab.peer(other).Conn).RemoteEpoch())
	}
	synctest.Wait()
	res.Datagram = vHex(dg)
	res.Closed = vc.isConnectionClosed()
	res.EpochA = int(r13St(vc).LocalEpoch())
	for _, st := range s.sides[victim].steps {
		if len(st.Tag) > 6 && st.Tag[:6] == "plain:" {
			res.Alerts = append(res.Alerts, st.Obs.Alerts...)
			res.ReadErr = append(res.ReadErr, st.Obs.ErrText...)
		}
	}
	// alerts written later by the victim's handshake layer (not during the delivery itself)
	for _, d := range s.lab.Net.since(0) {
		if d.From != victim {
			continue
		}
		for _, o := range s.openDatagram(victim, d.Data) {
			if o.Type == int(protocol.ContentTypeAlert) && len(o.Body) == 2 && o.Body[0] == 2 {
				res.Alerts = append(res.Alerts, [2]int{int(o.Body[0]), int(o.Body[1])})
			}
		}
	}

	return res
}

func TestVerifRec13Plain(t *testing.T) {
	out := newVOut(t)
	rng := newVRand(vSeed() ^ 0x13a1e)
	variants := r13Variants()
	n := 2
	if vIsThorough() {
		n = len(variants)
	}
	for i := 0; i < n; i++ {
		v := variants[(i*3)%len(variants)]
		for _, attack := range []string{"alert", "ack", "keyupdate"} {
			for _, victim := range []string{"client", "server"} {
				for _, control := range []bool{true, false} {
					var res r13PlainCase
					vBubble(t, func(t *testing.T) { res = r13RunPlain(t, v, rng, attack, victim, control) })
					out.emit(res)
				}
			}
		}
	}
}
