//go:build verif

// rec13 - DTLS 1.3 record layer: correspondence harness for Rec/Rec13.v.
//   TestVerifRec13Pure : pure functions (unified header codec, CiphertextRecord13.Unmarshal,
//                        UnpackDatagram13, InnerPlaintext, reconstructSequenceNumber,
//                        queueableCiphertextEpoch, ACK/RRC decoders, TrafficKeyState generations)
//   (the unexported helpers of internal/ciphersuite are exercised in-package by
//    harness/overlay/pkgs/internal/ciphersuite/zz_verif_rec13_test.go)
//   TestVerifRec13E2E / TestVerifRec13Send: see zz_verif_rec13_e2e_test.go
package dtls

import (
	"testing"

	dtlsstate "github.com/pion/dtls/v3/internal/state"
	"github.com/pion/dtls/v3/pkg/protocol"
	"github.com/pion/dtls/v3/pkg/protocol/recordlayer"
)

type r13U struct {
	K  string   `json:"k"`
	N  []uint64 `json:"n"`
	B  []string `json:"b"`
	Ok bool     `json:"ok"`
	RN []uint64 `json:"rn"`
	RB []string `json:"rb"`
}

func r13B(b bool) uint64 {
	if b {
		return 1
	}

	return 0
}

func r13Emit(out *vOut, c r13U) {
	if c.N == nil {
		c.N = []uint64{}
	}
	if c.B == nil {
		c.B = []string{}
	}
	if c.RN == nil {
		c.RN = []uint64{}
	}
	if c.RB == nil {
		c.RB = []string{}
	}
	out.emit(c)
}

func r13HdrUn(out *vOut, cidlen int, data []byte) {
	h := recordlayer.UnifiedHeader{}
	if cidlen > 0 {
		h.ConnectionID = make([]byte, cidlen)
	}
	err := h.Unmarshal(data)
	c := r13U{K: "hun", N: []uint64{uint64(cidlen)}, B: []string{vHex(data)}, Ok: err == nil}
	if err == nil {
		c.RN = []uint64{uint64(h.SequenceNumber), r13B(h.SeqBit), uint64(h.Length), r13B(h.LengthBit), uint64(h.EpochLow), uint64(h.Size())}
		c.RB = []string{vHex(h.ConnectionID)}
	}
	r13Emit(out, c)
}

func r13Crec(out *vOut, cidlen int, data []byte) {
	r := recordlayer.CiphertextRecord13{}
	if cidlen > 0 {
		r.Header.ConnectionID = make([]byte, cidlen)
	}
	var err error
	func() {
		defer func() {
			if p := recover(); p != nil {
				err = errPanic
			}
		}()
		err = r.Unmarshal(data)
	}()
	c := r13U{K: "crec", N: []uint64{uint64(cidlen)}, B: []string{vHex(data)}, Ok: err == nil}
	if err == errPanic {
		c.K = "crec-panic"
	}
	if err == nil {
		h := r.Header
		c.RN = []uint64{uint64(h.SequenceNumber), r13B(h.SeqBit), uint64(h.Length), r13B(h.LengthBit), uint64(h.EpochLow)}
		c.RB = []string{vHex(h.ConnectionID), vHex(r.EncryptedRecord)}
	}
	r13Emit(out, c)
}

type r13PanicErr struct{}

func (r13PanicErr) Error() string { return "panic" }

var errPanic error = r13PanicErr{} //nolint:gochecknoglobals

func r13Unpack(out *vOut, cidlen int, req bool, data []byte) {
	var recs [][]byte
	var err error
	func() {
		defer func() {
			if p := recover(); p != nil {
				err = errPanic
			}
		}()
		recs, err = recordlayer.UnpackDatagram13(data, cidlen, req, true)
	}()
	c := r13U{K: "unpack", N: []uint64{uint64(cidlen), r13B(req)}, B: []string{vHex(data)}, Ok: err == nil}
	if err == errPanic {
		c.K = "unpack-panic"
	}
	if err == nil {
		for _, r := range recs {
			c.RB = append(c.RB, vHex(r))
		}
	}
	r13Emit(out, c)
}

// a syntactically plausible ciphertext record
func r13MkRec(rng *vRand, cid []byte, sbit, lbit bool, elow int, n int) []byte {
	h := recordlayer.UnifiedHeader{
		ConnectionID: cid, SequenceNumber: uint16(rng.u64()), SeqBit: sbit, Length: uint16(n), LengthBit: lbit, EpochLow: uint8(elow),
	}
	b, _ := h.Marshal()

	return append(b, rng.bytes(n)...)
}

func r13MkPlain(rng *vRand, ct byte, n int) []byte {
	b := []byte{ct, 254, 253, 0, 0, 0, 0, 0, 0, 0, byte(rng.intn(256)), byte(n >> 8), byte(n)}

	return append(b, rng.bytes(n)...)
}

func TestVerifRec13Pure(t *testing.T) {
	out := newVOut(t)
	rng := newVRand(vSeed() ^ 0x13a)
	scale := 1
	if vIsThorough() {
		scale = 20
	}
	// --- unified header: every first byte, cid lengths 0/1/4, tails of every short length
	for ct := 0; ct < 256; ct++ {
		for _, cidlen := range []int{0, 1, 4} {
			for tail := 0; tail <= 9; tail++ {
				r13HdrUn(out, cidlen, append([]byte{byte(ct)}, rng.bytes(tail)...))
			}
		}
	}
	r13HdrUn(out, 0, nil)
	r13HdrUn(out, 3, nil)
	// marshal: all bit combinations, epoch values above 3, sequence numbers above 8 bits without the S bit
	for _, cid := range [][]byte{nil, {7}, {1, 2, 3, 4}, rng.bytes(20)} {
		for bits := 0; bits < 4; bits++ {
			for el := 0; el < 6; el++ {
				for k := 0; k < 3*scale; k++ {
					h := recordlayer.UnifiedHeader{
						ConnectionID: cid, SequenceNumber: uint16(rng.u64()), SeqBit: bits&1 != 0,
						Length: uint16(rng.u64()), LengthBit: bits&2 != 0, EpochLow: uint8(el + 4*rng.intn(3)),
					}
					if k == 0 {
						h.SequenceNumber, h.Length = 0xffff, 0xffff
					}
					b, err := h.Marshal()
					r13Emit(out, r13U{
						K: "hmar", N: []uint64{uint64(h.SequenceNumber), r13B(h.SeqBit), uint64(h.Length), r13B(h.LengthBit), uint64(h.EpochLow)},
						B: []string{vHex(cid)}, Ok: err == nil, RB: []string{vHex(b)},
					})
					// and back
					r13HdrUn(out, len(cid), append(b, rng.bytes(rng.intn(3))...))
				}
			}
		}
	}
	// --- CiphertextRecord13.Unmarshal: lengths around the bounds, declared length off by one, truncated headers
	for i := 0; i < 300*scale; i++ {
		cidlen := []int{0, 0, 3, 8}[rng.intn(4)]
		var cid []byte
		if cidlen > 0 && rng.intn(4) != 0 {
			cid = rng.bytes(cidlen)
		}
		n := []int{0, 1, 15, 16, 17, 40, 100}[rng.intn(7)]
		if i%3 == 0 {
			n = 14 + rng.intn(40)
		}
		if i < 3 { // the upper bound (long literals are slow to parse in Coq: three cases only)
			n = 16639 + i
		}
		rec := r13MkRec(rng, cid, rng.intn(4) != 0, rng.intn(4) != 0, rng.intn(4), n)
		switch rng.intn(6) {
		case 0:
			rec = rec[:rng.intn(len(rec)+1)]
		case 1:
			rec = append(rec, rng.bytes(1+rng.intn(3))...)
		case 2:
			rec[0] ^= 1 << uint(rng.intn(8))
		}
		r13Crec(out, cidlen, rec)
	}
	// --- UnpackDatagram13: sequences of plaintext / ciphertext records with edits
	for i := 0; i < 500*scale; i++ {
		cidlen := []int{0, 0, 2, 5}[rng.intn(4)]
		req := rng.intn(2) == 0
		cidA, cidB := rng.bytes(cidlen), rng.bytes(cidlen)
		var dg []byte
		k := 1 + rng.intn(4)
		for j := 0; j < k; j++ {
			switch rng.intn(6) {
			case 0:
				dg = append(dg, r13MkPlain(rng, []byte{21, 22, 26, 22, 22, 20, 23, 25}[rng.intn(8)], rng.intn(30))...)
			default:
				var cid []byte
				if cidlen > 0 && rng.intn(5) != 0 {
					cid = cidA
					if rng.intn(5) == 0 {
						cid = cidB
					}
				}
				if cidlen == 0 && rng.intn(12) == 0 {
					cid = rng.bytes(2)
				}
				n := []int{15, 16, 17, 30, 64}[rng.intn(5)]
				dg = append(dg, r13MkRec(rng, cid, rng.intn(5) != 0, rng.intn(6) != 0 || j < k-1 && rng.intn(3) != 0, rng.intn(4), n)...)
			}
		}
		switch rng.intn(8) {
		case 0:
			if len(dg) > 0 {
				dg = dg[:rng.intn(len(dg))]
			}
		case 1:
			dg = append(dg, rng.bytes(1+rng.intn(20))...)
		case 2:
			if len(dg) > 0 {
				dg[rng.intn(len(dg))] ^= 1 << uint(rng.intn(8))
			}
		}
		r13Unpack(out, cidlen, req, dg)
	}
	r13Unpack(out, 0, false, nil)
	for b := 0; b < 256; b++ {
		r13Unpack(out, 0, false, []byte{byte(b)})
		r13Unpack(out, 2, true, append([]byte{byte(b)}, rng.bytes(24)...))
	}
	// --- InnerPlaintext.Unmarshal
	for i := 0; i < 200*scale; i++ {
		n := rng.intn(12)
		b := rng.bytes(n)
		for j := range b {
			if rng.intn(3) == 0 {
				b[j] = 0
			}
		}
		for z := rng.intn(4); z > 0; z-- {
			b = append(b, 0)
		}
		ip := recordlayer.InnerPlaintext{}
		err := ip.Unmarshal(b)
		c := r13U{K: "inner", B: []string{vHex(b)}, Ok: err == nil}
		if err == nil {
			c.RN = []uint64{uint64(ip.RealType), uint64(ip.Zeros)}
			c.RB = []string{vHex(ip.Content)}
		}
		r13Emit(out, c)
	}
	// --- reconstructSequenceNumber: exhaustive small, edges of the 8/16-bit windows, uint64 edges, random
	recon := func(partial uint16, sbit bool, highest uint64) {
		r13Emit(out, r13U{K: "recon", N: []uint64{uint64(partial), r13B(sbit), highest}, RN: []uint64{reconstructSequenceNumber(partial, sbit, highest)}})
	}
	for highest := uint64(0); highest < 600; highest += 7 {
		for p := 0; p < 256; p += 5 {
			recon(uint16(p), false, highest)
		}
	}
	edges := []uint64{0, 1, 126, 127, 128, 129, 254, 255, 256, 257, 32766, 32767, 32768, 32769, 65534, 65535, 65536, 65537, 98303, 98304, 131071, 131072,
		1<<32 - 1, 1 << 32, 1<<48 - 2, 1<<48 - 1, 1 << 48, 1<<63 - 1, 1 << 63, ^uint64(0) - 65536, ^uint64(0) - 32768, ^uint64(0) - 256, ^uint64(0) - 128, ^uint64(0) - 1, ^uint64(0)}
	pedges := []uint16{0, 1, 127, 128, 129, 254, 255, 256, 32767, 32768, 32769, 65534, 65535}
	for _, h := range edges {
		for _, p := range pedges {
			recon(p, false, h)
			recon(p, true, h)
		}
	}
	for i := 0; i < 1500*scale; i++ {
		h := rng.u64()
		switch rng.intn(4) {
		case 0:
			h &= 0xffffff
		case 1:
			h &= 0xffffffffffff
		case 2:
			h = edges[rng.intn(len(edges))] + uint64(rng.intn(5)) - 2
		}
		recon(uint16(rng.u64()), rng.intn(2) == 0, h)
	}
	// --- queueableCiphertextEpoch / maxQueueableFutureEpoch on a DTLS 1.3 connection
	st13 := dtlsstate.NewState13(true)
	qc := &Conn{state: &st13}
	for re := 0; re < 40; re++ {
		for el := 0; el < 4; el++ {
			r13Emit(out, r13U{K: "queueable", N: []uint64{uint64(el), uint64(re)}, Ok: qc.queueableCiphertextEpoch(uint8(el), uint16(re)), RN: []uint64{uint64(qc.maxQueueableFutureEpoch(uint16(re)))}})
		}
	}
	// --- content decoders used after a record was opened
	for i := 0; i < 150*scale; i++ {
		n := rng.intn(40)
		b := rng.bytes(n)
		if n >= 2 && rng.intn(2) == 0 {
			l := n - 2
			if rng.intn(4) == 0 {
				l += rng.intn(3) - 1
			}
			b[0], b[1] = byte(l>>8), byte(l)
		}
		a := protocol.ACK{}
		r13Emit(out, r13U{K: "ack", B: []string{vHex(b)}, Ok: a.Unmarshal(b) == nil})
		b2 := rng.bytes([]int{0, 1, 8, 9, 10}[rng.intn(5)])
		if len(b2) > 0 && rng.intn(2) == 0 {
			b2[0] = byte(rng.intn(5))
		}
		r := protocol.ReturnRoutabilityCheck{}
		r13Emit(out, r13U{K: "rrc", B: []string{vHex(b2)}, Ok: r.Unmarshal(b2) == nil})
	}
	// --- TrafficKeyState: generations by epoch (Install(nil, read), Read, ReadCandidates)
	for i := 0; i < 120*scale; i++ {
		ks := &dtlsstate.TrafficKeyState{}
		var installs []uint64
		e := uint16(2)
		for k := rng.intn(9); k > 0; k-- {
			switch rng.intn(6) {
			case 0: // re-install the same epoch (InitApplicationRecordProtection allowReinitialize)
			case 1:
				e += uint16(1 + rng.intn(3))
			default:
				e++
			}
			ks.Install(nil, &dtlsstate.TrafficGeneration{Epoch: e, Generation: uint64(e)})
			installs = append(installs, uint64(e))
		}
		for el := 0; el < 4; el++ {
			var buf [4]*dtlsstate.TrafficGeneration
			cands := ks.ReadCandidates(uint8(el), buf[:0])
			c := r13U{K: "cands", N: append([]uint64{uint64(el)}, installs...)}
			for _, g := range cands {
				c.RN = append(c.RN, uint64(g.Epoch))
			}
			r13Emit(out, c)
		}
		for q := uint16(0); q < e+3; q++ {
			_, ok := ks.Read(q)
			r13Emit(out, r13U{K: "hasgen", N: append([]uint64{uint64(q)}, installs...), Ok: ok})
		}
	}
}
