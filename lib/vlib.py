"""Shared machinery for /verif checks: build Coq, run Go harnesses through -overlay
against /repo's working tree, evaluate cases inside Coq, write evidence, report."""
import fcntl
import hashlib
import json
import os
import re
import shutil
import subprocess
import sys
import time

ROOT = os.path.dirname(os.path.dirname(os.path.abspath(__file__)))
REPO = os.environ.get("VERIF_REPO", "/repo")
WORK = os.path.join(ROOT, ".work")
COQ = os.path.join(ROOT, "coq")
if os.path.realpath(REPO) != "/repo":
    # a check run against a scratch copy of the repository (seeded changes) gets its own copy of the
    # Coq development, so that its regenerated Gen/*.v never disturbs runs against /repo itself
    COQ = os.path.join(WORK, "coq_alt")
EVID = os.path.join(ROOT, "evidence")
REPLAY = os.path.join(EVID, "replay")
OVERLAY_SRC = os.path.join(ROOT, "harness", "overlay")
KNOWN = os.path.join(ROOT, "known_findings.json")

FORBIDDEN = re.compile(
    r"\b(Admitted|admit|Axiom|Axioms|Parameter|Parameters|Conjecture|Hypothesis|Hypotheses|Variable|Variables|Context|"
    r"Unset\s+Guard|bypass_check|type-in-type|impredicative-set|Admit\s+Obligations)\b")
SECTION_LOCAL = ("Variable", "Variables", "Hypothesis", "Hypotheses", "Context")


def log(*a):
    print(*a, file=sys.stderr, flush=True)


def ensure_dirs():
    for d in (WORK, EVID, REPLAY):
        os.makedirs(d, exist_ok=True)


class Lock:
    """flock on a file in .work: serialises the shared Coq / Go builds."""

    def __init__(self, name):
        ensure_dirs()
        self.path = os.path.join(WORK, name + ".lock")

    def __enter__(self):
        self.f = open(self.path, "w")
        fcntl.flock(self.f, fcntl.LOCK_EX)
        return self

    def __exit__(self, *a):
        fcntl.flock(self.f, fcntl.LOCK_UN)
        self.f.close()


def go_env():
    env = dict(os.environ)
    env.update({
        "GOFLAGS": "-mod=mod", "GOPROXY": "off", "GOSUMDB": "off", "GOTOOLCHAIN": "local",
        "CGO_ENABLED": env.get("CGO_ENABLED", "0"),
    })
    return env


def overlay_file(tags=None):
    """harness/overlay/root/* -> /repo/* ; harness/overlay/pkgs/<rel>/* -> /repo/<rel>/*.
    Only files named zz_verif_<tag>_*.go / zz_verif_<tag>.go with <tag> in `tags` (plus the shared
    `lab` files) are mapped, so one property's harness never depends on another's."""
    ensure_dirs()
    want = set(tags or []) | {"lab"}

    def selected(fn):
        if not fn.endswith(".go"):
            return False
        m = re.match(r"zz_verif_([a-z0-9]+)(_|\.)", fn)
        return bool(m) and (tags is None or m.group(1) in want)

    repl = {}
    base = os.path.join(OVERLAY_SRC, "root")
    if os.path.isdir(base):
        for fn in sorted(os.listdir(base)):
            if selected(fn):
                repl[os.path.join(REPO, fn)] = os.path.join(base, fn)
    pk = os.path.join(OVERLAY_SRC, "pkgs")
    for dirpath, _, files in os.walk(pk):
        rel = os.path.relpath(dirpath, pk)
        for fn in sorted(files):
            if selected(fn):
                repl[os.path.join(REPO, rel, fn)] = os.path.join(dirpath, fn)
    path = os.path.join(WORK, "overlay.%d.%d.json" % (os.getpid(), int(time.time() * 1e6) % 10**9))
    with open(path, "w") as f:
        json.dump({"Replace": repl}, f)
    return path


def go_test(pkg, run, env=None, timeout=900, race=False, extra=None, tags=None):
    """Run `go1.26 test` on a /repo package with the verif overlay (files selected by `tags`).
    Returns (rc, output)."""
    ov = overlay_file(tags)
    e = go_env()
    if race:
        e["CGO_ENABLED"] = "1"
    if env:
        e.update({k: str(v) for k, v in env.items()})
    cmd = ["go1.26", "test", "-tags", "verif", "-overlay", ov, "-count=1", "-vet=off",
           "-run", run, "-timeout", "%ds" % timeout]
    if race:
        cmd.append("-race")
    if extra:
        cmd += extra
    cmd.append(pkg)
    t0 = time.time()
    try:
        p = subprocess.run(cmd, cwd=REPO, env=e, stdout=subprocess.PIPE, stderr=subprocess.STDOUT,
                           timeout=timeout + 120, text=True, errors="replace")
        rc, out = p.returncode, p.stdout
    except subprocess.TimeoutExpired as ex:
        rc, out = 124, (ex.stdout or "") + "\nTIMEOUT"
        if isinstance(out, bytes):
            out = out.decode(errors="replace")
    finally:
        try:
            os.unlink(ov)
        except OSError:
            pass
    log("[go test %s -run %s] rc=%d %.1fs" % (pkg, run, rc, time.time() - t0))
    return rc, out


def read_jsonl(path):
    out = []
    if not os.path.exists(path):
        return out
    with open(path) as f:
        for line in f:
            line = line.strip()
            if line:
                out.append(json.loads(line))
    return out


# ----------------------------------------------------------------- Coq

def gen_packages():
    """packages that contain a zz_verif_gen_* dumper"""
    pkgs = []
    base = os.path.join(OVERLAY_SRC, "root")
    if any(fn.startswith("zz_verif_gen_") for fn in os.listdir(base)):
        pkgs.append(".")
    pk = os.path.join(OVERLAY_SRC, "pkgs")
    for dirpath, _, files in os.walk(pk):
        if any(fn.startswith("zz_verif_gen_") for fn in files):
            pkgs.append("./" + os.path.relpath(dirpath, pk))
    return sorted(pkgs)


GEN_HEADERS = {
    "Generated": "From Coq Require Import List NArith.\nImport ListNotations.\nOpen Scope N_scope.\n",
    "GeneratedFlights": "From Coq Require Import List NArith.\nFrom DtlsV Require Import Gen.Generated Hs.Abs12.\n"
                        "Import ListNotations.\nOpen Scope nat_scope.\n",
}


def sync_alt_coq():
    """when running against a scratch repository: mirror /verif/coq sources into the private copy
    (rsync keeps mtimes, so unchanged files are not rebuilt)"""
    src = os.path.join(ROOT, "coq")
    if COQ == src:
        return
    os.makedirs(COQ, exist_ok=True)
    subprocess.run(["rsync", "-a", "--exclude", "*.vo", "--exclude", "*.vok", "--exclude", "*.vos", "--exclude", "*.glob",
                    "--exclude", ".*.aux", "--exclude", "Gen/", "--exclude", "Makefile*", "--exclude", ".Makefile.d",
                    "--exclude", ".lia.cache", src + "/", COQ + "/"], check=True)


def regenerate():
    """Tie 1: rewrite coq/theories/Gen/Generated*.v from /repo's current tree by executing the
    dumpers (TestVerifGen*). A dumper's output goes to Generated.v; text after a line
    `(*@@ Name *)` goes to Gen/Name.v. Returns (ok, detail). Files are only touched when they change."""
    sync_alt_coq()
    files = {"Generated": []}
    for pkg in gen_packages():
        out = out_path("gen")
        rc, o = go_test(pkg, "^TestVerifGen", {"VERIF_OUT": out}, tags=["gen", "c02"], timeout=600)
        if rc != 0:
            cleanup(out)
            return False, "generator for %s failed:\n%s" % (pkg, o[-3000:])
        cur = "Generated"
        files[cur].append("(* ---- from package %s ---- *)" % pkg)
        for line in open(out).read().splitlines():
            m = re.match(r"\(\*@@\s*(\w+)\s*\*\)", line)
            if m:
                cur = m.group(1)
                files.setdefault(cur, []).append("(* ---- from package %s ---- *)" % pkg)
                continue
            files[cur].append(line)
        cleanup(out)
    with Lock("gen"):
        for name, lines in files.items():
            txt = ("(* GENERATED on every run by lib/vlib.py regenerate() from /repo's working tree by executing\n"
                   "   the TestVerifGen* dumpers through go test -overlay. Do not edit. *)\n"
                   + GEN_HEADERS.get(name, GEN_HEADERS["Generated"]) + "\n" + "\n".join(lines) + "\n")
            p = os.path.join(COQ, "theories", "Gen", name + ".v")
            old = open(p).read() if os.path.exists(p) else None
            if old != txt:
                os.makedirs(os.path.dirname(p), exist_ok=True)
                with open(p, "w") as f:
                    f.write(txt)
    return True, ""


def coq_project_files():
    files = []
    for dirpath, _, fs in os.walk(os.path.join(COQ, "theories")):
        for fn in fs:
            if fn.endswith(".v"):
                files.append(os.path.relpath(os.path.join(dirpath, fn), COQ))
    return sorted(files)


def coq_audit():
    """grep the development for forbidden constructs; returns list of 'file:line: text'."""
    bad = []
    for rel in coq_project_files():
        with open(os.path.join(COQ, rel)) as f:
            in_comment = 0
            scopes = []     # stack of "Section"/"Module" currently open
            for i, line in enumerate(f, 1):
                # strip (* ... *) comments (nesting-aware, line based)
                s = ""
                j = 0
                while j < len(line):
                    if line.startswith("(*", j):
                        in_comment += 1
                        j += 2
                    elif line.startswith("*)", j) and in_comment:
                        in_comment -= 1
                        j += 2
                    else:
                        if not in_comment:
                            s += line[j]
                        j += 1
                ms = re.match(r"\s*(Section|Module(?:\s+Type)?)\s+[A-Za-z0-9_']+\s*\.\s*$", s)
                if ms:
                    scopes.append("Section" if ms.group(1) == "Section" else "Module")
                elif re.match(r"\s*End\s+[A-Za-z0-9_']+\s*\.", s) and scopes:
                    scopes.pop()
                m = FORBIDDEN.search(s)
                if m:
                    # section-local declarations are discharged at End; outside a section they declare an axiom
                    if m.group(1) in SECTION_LOCAL:
                        if "Section" in scopes and re.match(r"\s*(Variable|Variables|Hypothesis|Hypotheses|Context)\b", s):
                            continue
                        if not re.match(r"\s*(Variable|Variables|Hypothesis|Hypotheses|Context)\b", s):
                            continue     # the word inside a term or tactic, not a declaration
                    bad.append("%s:%d: %s" % (rel, i, s.strip()))
    return bad


def coq_write_project():
    files = coq_project_files()
    txt = "-Q theories DtlsV\n" + "\n".join(files) + "\n"
    p = os.path.join(COQ, "_CoqProject")
    old = open(p).read() if os.path.exists(p) else None
    if old != txt:
        with open(p, "w") as f:
            f.write(txt)
        subprocess.run(["coq_makefile", "-f", "_CoqProject", "-o", "Makefile"], cwd=COQ,
                       stdout=subprocess.DEVNULL, stderr=subprocess.DEVNULL, check=True)
    elif not os.path.exists(os.path.join(COQ, "Makefile")):
        subprocess.run(["coq_makefile", "-f", "_CoqProject", "-o", "Makefile"], cwd=COQ,
                       stdout=subprocess.DEVNULL, stderr=subprocess.DEVNULL, check=True)


def coq_make(targets=None, timeout=1500):
    """make (full .vo build) the given .vo targets (default: all). Returns (ok, output)."""
    with Lock("coq"):
        coq_write_project()
        cmd = ["make", "-j16"]
        if targets:
            cmd += targets
        t0 = time.time()
        try:
            p = subprocess.run(["timeout", str(timeout)] + cmd, cwd=COQ, stdout=subprocess.PIPE,
                               stderr=subprocess.STDOUT, text=True, errors="replace")
            rc, out = p.returncode, p.stdout
        except Exception as ex:  # noqa
            rc, out = 1, str(ex)
        log("[coq make %s] rc=%d %.1fs" % (" ".join(targets or ["all"]), rc, time.time() - t0))
        return rc == 0, out


def coq_run(vfile_text, name, timeout=900):
    """Compile a scratch .v (cases) against the built theories; returns (ok, stdout)."""
    ensure_dirs()
    d = os.path.join(WORK, "cases")
    os.makedirs(d, exist_ok=True)
    path = os.path.join(d, name + ".v")
    with open(path, "w") as f:
        f.write(vfile_text)
    t0 = time.time()
    p = subprocess.run(["timeout", str(timeout), "coqc", "-Q", os.path.join(COQ, "theories"), "DtlsV",
                        "-Q", d, "Cases", path], cwd=d, stdout=subprocess.PIPE, stderr=subprocess.STDOUT,
                       text=True, errors="replace")
    log("[coqc %s] rc=%d %.1fs" % (name, p.returncode, time.time() - t0))
    for ext in (".vo", ".vok", ".vos", ".glob"):
        try:
            os.unlink(os.path.join(d, name + ext))
        except OSError:
            pass
    try:
        os.unlink(os.path.join(d, "." + name + ".aux"))
    except OSError:
        pass
    if p.returncode == 0:
        # the evaluated cases are kept only when the evaluation failed (for diagnosis): they add up to gigabytes
        try:
            os.unlink(path)
        except OSError:
            pass
    return p.returncode == 0, p.stdout


def coq_assumptions(prop):
    """Re-run coqc on Properties/<prop>.v to capture the Print Assumptions output and
    the list of theorems. Returns (ok, theorems, assumptions_text)."""
    rel = "theories/Properties/%s.v" % prop
    src = open(os.path.join(COQ, rel)).read()
    theorems = re.findall(r"^\s*(?:Theorem|Corollary)\s+([A-Za-z0-9_']+)", src, re.M)
    with Lock("coq"):
        p = subprocess.run(["timeout", "600", "coqc", "-Q", "theories", "DtlsV", rel], cwd=COQ,
                           stdout=subprocess.PIPE, stderr=subprocess.STDOUT, text=True, errors="replace")
    return p.returncode == 0, theorems, p.stdout


# Coq term printers ------------------------------------------------------------

def cN(n):
    return "%d" % n


def clist(items):
    return "[" + "; ".join(items) + "]"


def cNlist(ns):
    return clist([cN(n) for n in ns])


def cbool(b):
    return "true" if b else "false"


def chex(h):
    """hex string -> list N literal"""
    return cNlist(list(bytes.fromhex(h)))


def parse_coq_nat_list(out, name):
    """parse `name = [a; b; c]` printed by `Print name.` (possibly wrapped)"""
    m = re.search(re.escape(name) + r"\s*=\s*(\[[^\]]*\])", out, re.S)
    if not m:
        return None
    body = m.group(1)
    return [int(x) for x in re.findall(r"\d+", body)]


# ----------------------------------------------------------------- known findings

def load_known():
    if not os.path.exists(KNOWN):
        return []
    with open(KNOWN) as f:
        return json.load(f).get("findings", [])


# ----------------------------------------------------------------- check context

class Check:
    def __init__(self, prop, tier, seed):
        ensure_dirs()
        self.prop = prop
        self.tier = tier
        self.seed = seed
        self.t0 = time.time()
        self.violations = []       # (replay_path, no_input)
        self.known_hits = []
        self.cov = {"evaluations": 0, "distinct_nontrivial": 0, "samples": [], "rule": "",
                    "obligations": 0, "discharged": 0, "checker_cmd": "", "trusted_base": [],
                    "traces_validated_against_impl": 0, "legs": {}}
        self.assumptions = []
        self._seen = set()
        self.known = [k for k in load_known() if k.get("property") == prop]

    # -- coverage accounting
    def count(self, leg, n_eval, distinct_keys, samples=None):
        """distinct_keys: iterable of hashable keys of the NON-TRIVIAL cases of this leg."""
        new = 0
        for k in distinct_keys:
            kk = (leg, k)
            if kk not in self._seen:
                self._seen.add(kk)
                new += 1
        self.cov["evaluations"] += n_eval
        self.cov["distinct_nontrivial"] += new
        l = self.cov["legs"].setdefault(leg, {"evaluations": 0, "distinct_nontrivial": 0})
        l["evaluations"] += n_eval
        l["distinct_nontrivial"] += new
        if samples:
            for s in samples[:3]:
                if len(self.cov["samples"]) < 12:
                    self.cov["samples"].append({"leg": leg, "case": s})

    def leg_info(self, leg, **kw):
        self.cov["legs"].setdefault(leg, {"evaluations": 0, "distinct_nontrivial": 0}).update(kw)

    # -- findings
    def match_known(self, site, signature):
        for k in self.known:
            if k.get("status") != "known":
                continue
            if k.get("site") == site and k.get("signature") == signature:
                return k
        return None

    def finding(self, site, signature, what, replay, no_input=False):
        """Report a failing case. `signature` is the canonical minimised failing case."""
        k = None if no_input else self.match_known(site, signature)
        if k is not None:
            msg = "KNOWN-FINDING: property=%s %s" % (self.prop, k.get("what", what))
            if msg not in self.known_hits:
                self.known_hits.append(msg)
                print(msg, flush=True)
            return False
        body = {"property": self.prop, "site": site, "signature": signature, "what": what,
                "replay": replay, "tier": self.tier, "seed": self.seed}
        h = hashlib.sha256(json.dumps(body, sort_keys=True, default=str).encode()).hexdigest()[:12]
        path = os.path.join(REPLAY, "%s-%s.json" % (self.prop, h))
        with open(path, "w") as f:
            json.dump(body, f, indent=1, default=str)
        line = "VIOLATION property=%s replay=%s" % (self.prop, path)
        if no_input:
            line += " no-failing-input-found"
        print(line, flush=True)
        self.violations.append((path, no_input))
        return True

    def broken(self, what, detail):
        """A proof obligation or correspondence no longer checks and no failing input was found."""
        return self.finding("machinery", what, what, {"broken": what, "detail": detail[-4000:]}, no_input=True)

    # -- proof leg
    def prove(self, extra_targets=None):
        """Build Properties/<prop>.vo (full .vo), audit, collect assumptions. Returns ok."""
        okg, detail = regenerate()
        if not okg:
            self.proof_error = ("Gen/Generated.v", detail)
            return False
        bad = coq_audit()
        if bad:
            self.broken("coq-audit: forbidden construct in development", "\n".join(bad))
            return False
        targets = ["theories/Properties/%s.vo" % self.prop] + (extra_targets or [])
        ok, out = coq_make(targets)
        self.cov["checker_cmd"] = "cd /verif/coq && make -j16 " + " ".join(targets) + \
            "  (coq_makefile full .vo build, coqc 8.16.1)"
        if not ok:
            m = re.search(r'File "([^"]+)", line (\d+)', out)
            where = ("%s:%s" % (m.group(1), m.group(2))) if m else "?"
            self.proof_error = (where, out)
            return False
        ok2, theorems, atext = coq_assumptions(self.prop)
        self.cov["obligations"] = len(theorems)
        self.cov["discharged"] = len(theorems) if ok2 else 0
        self.cov["theorems"] = theorems
        closed = atext.count("Closed under the global context")
        axioms = sorted(set(re.findall(r"^([A-Za-z0-9_.']+)\s*:", atext, re.M)))
        self.cov["print_assumptions"] = {"closed": closed, "axioms": axioms,
                                         "text": atext.strip()[-3000:]}
        if self.tier == "thorough" and ok2:
            # independent re-check of the compiled files this property depends on
            t0 = time.time()
            p = subprocess.run(["timeout", "3000", "coqchk", "-silent", "-o", "-Q", "theories", "DtlsV",
                                "DtlsV.Properties.%s" % self.prop], cwd=COQ, stdout=subprocess.PIPE,
                               stderr=subprocess.STDOUT, text=True, errors="replace")
            summ = p.stdout[p.stdout.find("CONTEXT SUMMARY"):] if "CONTEXT SUMMARY" in p.stdout else p.stdout[-1500:]
            self.cov["coqchk"] = {"rc": p.returncode, "wall_s": round(time.time() - t0, 1),
                                  "summary": " ".join(summ.split())[:1500]}
            log("[coqchk %s] rc=%d %.1fs" % (self.prop, p.returncode, time.time() - t0))
            if p.returncode != 0:
                self.proof_error = ("coqchk", p.stdout[-3000:])
                return False
        self.cov["trusted_base"] = [
            "Coq 8.16.1 kernel (coqc; vm_compute used, native_compute not used)",
            "Print Assumptions: %d/%d theorems closed under the global context; axioms: %s"
            % (closed, len(theorems), ", ".join(axioms) or "none"),
        ]
        return ok2

    # -- finish
    def finish(self, level="proof", rule="", assumptions=None, explanation=None):
        self.cov["rule"] = rule
        if explanation:
            self.cov["explanation"] = explanation
        ev = {
            "property_id": self.prop, "tier": self.tier, "seed": self.seed, "level": level,
            "coverage": self.cov, "assumptions": (assumptions or []) + self.assumptions,
            "wall_s": round(time.time() - self.t0, 2), "violations": len(self.violations),
            "known_findings_reported": self.known_hits,
        }
        with open(os.path.join(EVID, "%s.json" % self.prop), "w") as f:
            json.dump(ev, f, indent=1, default=str)
        if self.violations:
            sys.exit(1)
        print("OK property=%s tier=%s evaluations=%d distinct=%d obligations=%d/%d wall=%.1fs" % (
            self.prop, self.tier, self.cov["evaluations"], self.cov["distinct_nontrivial"],
            self.cov["discharged"], self.cov["obligations"], time.time() - self.t0), flush=True)
        sys.exit(0)


def out_path(name):
    ensure_dirs()
    return os.path.join(WORK, "%s.%d.jsonl" % (name, os.getpid()))


def cleanup(path):
    try:
        os.unlink(path)
    except OSError:
        pass


def classify_go_failure(out):
    """Return 'build' if the harness failed to compile, 'panic' if a panic, else 'fail'."""
    if "[build failed]" in out or "cannot find" in out or re.search(r"\.go:\d+:\d+: ", out) and "FAIL" in out and "--- FAIL" not in out:
        return "build"
    if "panic:" in out or "PANIC" in out:
        return "panic"
    return "fail"


def coq_mismatches(name, imports, case_type, ok_fn, terms, shard=1200, timeout=900, scope="N_scope"):
    """Evaluate `ok_fn` (a Coq function case_type -> bool from the model) on every case term with
    vm_compute, in parallel shards. Returns the sorted list of mismatching indices, or None if
    coqc failed (model no longer evaluates)."""
    from concurrent.futures import ThreadPoolExecutor
    shards = [(i, terms[i:i + shard]) for i in range(0, len(terms), shard)]

    def one(arg):
        base, ts = arg
        txt = "From Coq Require Import List NArith ZArith String.\nImport ListNotations.\n" + imports + "\n"
        txt += "Open Scope %s.\n" % scope
        txt += "Definition cases : list (%s) :=\n  [ %s ].\n" % (case_type, "\n  ; ".join(ts))
        txt += "Definition bad : list N := Eval vm_compute in mismatches %s cases.\nPrint bad.\n" % ok_fn
        ok, out = coq_run(txt, "%s_%d_%d" % (name, os.getpid(), base), timeout=timeout)
        if not ok:
            return None, out
        idx = parse_coq_nat_list(out, "bad")
        if idx is None:
            return None, out
        return [base + i for i in idx], out

    res = []
    with ThreadPoolExecutor(max_workers=12) as ex:
        for r, out in ex.map(one, shards):
            if r is None:
                return None, out
            res += r
    return sorted(res), ""
