#!/bin/bash
# usage: dbg.sh 'variant|mask|interval_ms|nobackoff|silfrom|siluntil_ms|silto' [log] [mtu]
cd /verif
python3 - "$@" <<'PY'
import sys, os
sys.path.insert(0,'/verif/lib')
import vlib
env={"VERIF_DBG":sys.argv[1]}
if len(sys.argv)>2 and sys.argv[2]: env["VERIF_DBG_LOG"]="1"
if len(sys.argv)>3: env["VERIF_DBG_MTU"]=sys.argv[3]
rc,out=vlib.go_test(".", "^TestVerifHs13Dbg$", env=env, tags=["c02","gen","hs13"], extra=["-v"])
print(out)
PY
